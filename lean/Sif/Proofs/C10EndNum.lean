import Sif.Model.HooksEnd
import Sif.Proofs.C10Power
set_option exponentiation.threshold 400
/-
  C10 helper lemmas: the sdk.Dec / sdk.Uint arithmetic of the clp EndBlocker (LPPD and depth
  rewards) on non-negative values below 2^255 — no overflow, no underflow, no division by zero.
-/
namespace Sif.Proofs.C10
open Sif Sif.Hooks

local notation "P" => Dec.P

theorem P_lt_2_60' : P < 2 ^ 60 := by rw [P_val]; norm_num

/-- peel one step of a `do` block (cheap for the kernel, unlike unfolding `Except.bind` by simp) -/
theorem bind_eq_of_ok {ε α β} {x : Except ε α} {a : α} (f : α → Except ε β) (h : x = .ok a) : (x >>= f) = f a := by
  subst h; rfl

/-- rounding to an integer amount never exceeds the bound `B` when the decimal is ≤ B -/
theorem chopRoundNat_le_of_le {v B : Nat} (h : v ≤ B * P) : Dec.chopRoundNat v ≤ B := by
  have h1 := chopRoundNat_le v
  have hP := P_pos
  by_contra hc
  have : B + 1 ≤ Dec.chopRoundNat v := by omega
  have : 2 * P * (B + 1) ≤ 2 * P * Dec.chopRoundNat v := Nat.mul_le_mul_left _ this
  nlinarith

theorem mulNat_P_left (a v : Nat) : mulNat (a * P) v = a * v := by
  unfold mulNat
  rw [show a * P * v = P * (a * v) by ring]
  exact chopRoundNat_mul_P _

theorem mulNat_P_right (a v : Nat) : mulNat a (v * P) = a * v := by
  unfold mulNat
  rw [show a * (v * P) = P * (a * v) by ring]
  exact chopRoundNat_mul_P _

/-- a proportion ≤ 1 times a decimal does not exceed the decimal -/
theorem mulNat_le_of_le_P {a v : Nat} (ha : a ≤ P) : mulNat a v ≤ v := by
  unfold mulNat
  have h1 := chopRoundNat_le (a * v)
  have hP := P_pos
  by_contra hc
  have : v + 1 ≤ Dec.chopRoundNat (a * v) := by omega
  have h2 : 2 * P * (v + 1) ≤ 2 * P * Dec.chopRoundNat (a * v) := Nat.mul_le_mul_left _ this
  have h3 : a * v ≤ P * v := Nat.mul_le_mul_right _ ha
  nlinarith

theorem decOfUint_i (n : Nat) : (decOfUint n).i = ((n * P : Nat) : Int) := by
  unfold decOfUint; push_cast; ring

/-- `Dec.Quo` of two non-negative decimals -/
theorem Dec_quo_nat {a b : Dec} {x y : Nat} (ha : a.i = x) (hb : b.i = y) (hy : y ≠ 0)
    (hfit : Dec.chopRoundNat (x * P * P / y) < 2 ^ 315) :
    Dec.quo a b = .ok ⟨(Dec.chopRoundNat (x * P * P / y) : Nat)⟩ := by
  unfold Dec.quo
  rw [ha, hb]
  have hy' : ¬ ((y : Int) = 0) := by exact_mod_cast hy
  rw [if_neg hy']
  have hdiv : Int.tdiv ((x : Int) * (P : Int) * (P : Int)) (y : Int) = ((x * P * P / y : Nat) : Int) := by
    rw [Int.tdiv_eq_ediv_of_nonneg (by positivity)]
    push_cast; rfl
  rw [hdiv]
  unfold Dec.chopRound Dec.chk
  have hnn : ¬ (((x * P * P / y : Nat) : Int) < 0) := not_lt.mpr (by positivity)
  rw [if_neg hnn, Int.natAbs_natCast]
  have : bitLen (Dec.chopRoundNat (x * P * P / y)) ≤ Dec.maxBits := bitLen_le_of_lt hfit
  rw [Int.natAbs_natCast, if_pos this]

/-- a share `x / y` with `x ≤ y` is at most 1 -/
theorem share_le_P {x y : Nat} (hxy : x ≤ y) (hy : 0 < y) : Dec.chopRoundNat (x * P * P / y) ≤ P := by
  apply chopRoundNat_le_of_le
  have : x * P * P ≤ y * (P * P) := by
    rw [show x * P * P = x * (P * P) by ring]; exact Nat.mul_le_mul_right _ hxy
  exact (Nat.div_le_iff_le_mul_add_pred hy).2 (by nlinarith)

theorem roundToUint_nat {d : Dec} {v : Nat} (hd : d.i = v) (hlt : Dec.chopRoundNat v < two256) :
    roundToUint d = .ok (Dec.chopRoundNat v) := by
  unfold roundToUint Dec.roundInt Dec.chopRound Uint.ofInt
  rw [hd]
  have hnn : ¬ ((v : Int) < 0) := not_lt.mpr (by positivity)
  rw [if_neg hnn, Int.natAbs_natCast]
  have hnn2 : ¬ ((Dec.chopRoundNat v : Int) < 0) := not_lt.mpr (by positivity)
  rw [if_neg hnn2, Int.toNat_natCast]
  unfold Uint.chk
  rw [if_pos hlt]

theorem two255_lt : (2 : Nat) ^ 255 < two256 := by unfold two256; norm_num
theorem two60_lt : (2 : Nat) ^ 60 < 2 ^ 315 := by norm_num

/-- `CalcProviderDistributionAmount`: a provider with `u ≤ units` of a pool gets a non-negative
    amount ≤ B of a distribution `rp ≤ B·10^18`, no panic -/
theorem provAmount_ok {rp : Dec} {rpv B units u : Nat} (hrp : rp.i = rpv) (hB : rpv ≤ B * P) (hB255 : B < 2 ^ 255)
    (hu : u ≤ units) (hunits : 1 ≤ units) :
    ∃ a, provAmount rp units u = .ok a ∧ a ≤ B := by
  unfold provAmount
  have hy : units * P ≠ 0 := Nat.mul_ne_zero (by omega) (ne_of_gt P_pos)
  have hshare : Dec.chopRoundNat (u * P * P * P / (units * P)) ≤ P :=
    share_le_P (Nat.mul_le_mul_right _ hu) (Nat.pos_of_ne_zero hy)
  have hP60 := P_lt_2_60'
  have hq := Dec_quo_nat (a := decOfUint u) (b := decOfUint units) (decOfUint_i u) (decOfUint_i units) hy
    (lt_of_le_of_lt hshare (lt_trans hP60 two60_lt))
  rw [bind_eq_of_ok _ hq]
  have hpr_le : mulNat (Dec.chopRoundNat (u * P * P * P / (units * P))) rpv ≤ rpv := mulNat_le_of_le_P hshare
  have hrpv315 : rpv < 2 ^ 315 := by
    calc rpv ≤ B * P := hB
      _ < 2 ^ 255 * 2 ^ 60 := Nat.mul_lt_mul'' hB255 hP60
      _ = 2 ^ 315 := by rw [← pow_add]
  have hm := Dec_mul_nat (a := ⟨((Dec.chopRoundNat (u * P * P * P / (units * P)) : Nat) : Int)⟩) (b := rp) rfl hrp (lt_of_le_of_lt hpr_le hrpv315)
  rw [bind_eq_of_ok _ hm]
  have hround : Dec.chopRoundNat (mulNat (Dec.chopRoundNat (u * P * P * P / (units * P))) rpv) ≤ B :=
    chopRoundNat_le_of_le (le_trans hpr_le hB)
  have h256 : Dec.chopRoundNat (mulNat (Dec.chopRoundNat (u * P * P * P / (units * P))) rpv) < two256 :=
    lt_of_le_of_lt hround (lt_trans hB255 two255_lt)
  rw [roundToUint_nat rfl h256]
  exact ⟨_, rfl, hround⟩

/-- the clamp of the running total keeps `total ≤ cap` and never underflows -/
theorem clampStep_ok {cap total pr B : Nat} (ht : total ≤ cap) (hcap : cap ≤ B) (hpr : pr ≤ B) (hB : B < 2 ^ 255) :
    ∃ t' pr', clampStep cap total pr = .ok (t', pr') ∧ t' ≤ cap := by
  unfold clampStep
  have hsum : total + pr < two256 := by
    have h2 : (2 : Nat) ^ 255 + 2 ^ 255 = two256 := by unfold two256; norm_num
    omega
  have hadd : Uint.add total pr = .ok (total + pr) := by unfold Uint.add Uint.chk; rw [if_pos hsum]
  rw [bind_eq_of_ok _ hadd]
  by_cases hgt : total + pr > cap
  · rw [if_pos hgt]
    have h1 : pr ≤ total + pr := Nat.le_add_left _ _
    have hs1 : Uint.sub (total + pr) pr = .ok total := by unfold Uint.sub; rw [if_pos h1, Nat.add_sub_cancel]
    have hs2 : Uint.sub cap total = .ok (cap - total) := by unfold Uint.sub; rw [if_pos ht]
    exact ⟨cap, cap - total, by rw [bind_eq_of_ok _ hs1, bind_eq_of_ok _ hs2]; rfl, le_refl _⟩
  · rw [if_neg hgt]
    exact ⟨total + pr, pr, rfl, by omega⟩

/-- the provider loop of `CollectProviderDistribution` -/
theorem provLoop_ok {rp : Dec} {rpv B cap units : Nat} (hrp : rp.i = rpv) (hB : rpv ≤ B * P) (hB255 : B < 2 ^ 255)
    (hcap : cap ≤ B) (hunits : 1 ≤ units) :
    ∀ (lps : List Nat) (total : Nat), (∀ u ∈ lps, u ≤ units) → total ≤ cap →
      ∃ r, provLoop rp cap units lps total = .ok r ∧ r.1 ≤ cap := by
  intro lps
  induction lps with
  | nil => intro total _ ht; exact ⟨(total, []), rfl, ht⟩
  | cons u us ih =>
    intro total hlp ht
    obtain ⟨a, ha, haB⟩ := provAmount_ok hrp hB hB255 (hlp u List.mem_cons_self) hunits
    obtain ⟨t', pr', hc, ht'⟩ := clampStep_ok ht hcap haB hB255
    obtain ⟨r, hr, hr1⟩ := ih t' (fun v hv => hlp v (List.mem_cons_of_mem _ hv)) ht'
    refine ⟨(r.1, pr' :: r.2), ?_, hr1⟩
    unfold provLoop
    rw [bind_eq_of_ok _ ha, bind_eq_of_ok _ hc, bind_eq_of_ok _ hr]; rfl

/-- `CollectProviderDistribution` for a rate in [0,1] on an amount below 2^255: total ≤ amount -/
theorem collectPD_ok {rate : Dec} {rv amt units : Nat} (hr : rate.i = rv) (hr1 : rv ≤ P) (hamt : amt < 2 ^ 255)
    (lps : List Nat) (hunits : lps ≠ [] → 1 ≤ units) (hlp : ∀ u ∈ lps, u ≤ units) :
    ∃ r, collectPD (decOfUint amt) rate units lps = .ok r ∧ r.1 ≤ amt := by
  unfold collectPD
  have hP60 := P_lt_2_60'
  -- rowanPd = rate * amt exactly
  have hval : mulNat rv (amt * P) = rv * amt := mulNat_P_right rv amt
  have hle : rv * amt ≤ amt * P := by rw [Nat.mul_comm amt P]; exact Nat.mul_le_mul_right _ hr1
  have hfit : mulNat rv (amt * P) < 2 ^ 315 := by
    rw [hval]
    calc rv * amt ≤ amt * P := hle
      _ < 2 ^ 255 * 2 ^ 60 := Nat.mul_lt_mul'' hamt hP60
      _ = 2 ^ 315 := by rw [← pow_add]
  have hm := Dec_mul_nat (a := rate) (b := decOfUint amt) hr (decOfUint_i amt) hfit
  rw [hval] at hm
  rw [bind_eq_of_ok _ hm]
  have hcap : Dec.chopRoundNat (rv * amt) ≤ amt := chopRoundNat_le_of_le hle
  have h256 : Dec.chopRoundNat (rv * amt) < two256 := lt_of_le_of_lt hcap (lt_trans hamt two255_lt)
  rw [bind_eq_of_ok _ (roundToUint_nat (d := ⟨((rv * amt : Nat) : Int)⟩) rfl h256)]
  cases lps with
  | nil => exact ⟨(0, []), rfl, Nat.zero_le _⟩
  | cons u us =>
    have hu1 := hunits (by simp)
    obtain ⟨r, hr', hr1'⟩ := provLoop_ok (rp := ⟨((rv * amt : Nat) : Int)⟩) (B := amt) rfl hle hamt hcap hu1 (u :: us) 0 hlp (Nat.zero_le _)
    exact ⟨r, hr', le_trans hr1' hcap⟩

end Sif.Proofs.C10
