import Sif.Proofs.C02
import Sif.Spec.C04
import Mathlib.Tactic.Linarith
import Mathlib.Tactic.Ring
/-
  C04 — helper lemmas for clause 4 on liquidity additions that need no internal swap (symmetric
  additions and additions of nothing): R·A·P′² ≤ (R+r)·(A+a)·P² holds exactly, without any dust.
-/
namespace Sif.Clp
open Sif Sif.Spec.C04

theorem poolUnitsSymmetric_spec {X x P np pu : Nat} (h : poolUnitsSymmetric X x P = .ok (np, pu)) :
    X ≠ 0 ∧ pu = x * P / X ∧ np = P + pu := by
  have hs := poolUnitsSymmetric_sum h
  unfold poolUnitsSymmetric at h
  split at h
  · cases h
  · rename_i hX
    obtain ⟨a, ha, h⟩ := bind_ok h
    obtain ⟨b, hb, h⟩ := bind_ok h
    cases h
    refine ⟨hX, ?_, hs⟩
    unfold Uint.chk at ha
    split at ha
    · cases ha; rfl
    · cases ha

/-- symmetric add: R·A·P'² ≤ (R+r)·(A+a)·P² exactly (no dust needed) -/
theorem symmetric_backing {P R A r a np pu : Nat} (hsym : R * a = r * A)
    (h : poolUnitsSymmetric R r P = .ok (np, pu)) :
    R * A * (np * np) ≤ (R + r) * (A + a) * (P * P) := by
  obtain ⟨hR, hpu, hnp⟩ := poolUnitsSymmetric_spec h
  have hq : pu * R ≤ r * P := by rw [hpu]; exact Nat.div_mul_le_self _ _
  have h1 : np * R ≤ P * (R + r) := by rw [hnp]; nlinarith
  have hRpos : 0 < R := Nat.pos_of_ne_zero hR
  -- multiply the goal by R
  apply Nat.le_of_mul_le_mul_left _ hRpos
  have h2 : (np * R) * (np * R) ≤ (P * (R + r)) * (P * (R + r)) := Nat.mul_le_mul h1 h1
  calc R * (R * A * (np * np)) = A * ((np * R) * (np * R)) := by ring
    _ ≤ A * ((P * (R + r)) * (P * (R + r))) := Nat.mul_le_mul_left _ h2
    _ = (R + r) * (R * A + r * A) * (P * P) := by ring
    _ = (R + r) * (R * A + R * a) * (P * P) := by rw [hsym]
    _ = R * ((R + r) * (A + a) * (P * P)) := by ring
end Sif.Clp

namespace Sif.Clp
open Sif Sif.Spec.C04
theorem backing_add_noswap {P R A n e : Nat} {fS fB p : Dec} {u : UnitsRes}
    (hR : R ≠ 0) (hA : A ≠ 0)
    (hY : symmetryState A e R n ≠ .needMoreY) (hX : symmetryState A e R n ≠ .needMoreX)
    (h : calculatePoolUnits P R A n e fS fB p = .ok (some u)) :
    backingOK R A P (R + n) (A + e) u.poolUnits = true := by
  have key : R * A * (u.poolUnits * u.poolUnits) ≤ (R + n) * (A + e) * (P * P) := by
    unfold calculatePoolUnits at h
    split at h
    · exact absurd ‹_› (symmetryState_ne_empty hA hR)
    · cases h
      exact Nat.mul_le_mul_right _ (Nat.mul_le_mul (Nat.le_add_right _ _) (Nat.le_add_right _ _))
    · exact absurd ‹_› hY
    · rename_i hs
      cases hh : symmetricUnits P R n with
      | error e => simp [hh, Except.map] at h
      | ok v =>
        simp [hh, Except.map] at h; subst h
        unfold symmetricUnits at hh
        obtain ⟨⟨pu, lu⟩, h4, hh⟩ := bind_ok hh
        cases hh
        refine symmetric_backing ?_ h4
        unfold symmetryState at hs
        split at hs; · cases hs
        split at hs; · cases hs
        split at hs; · cases hs
        split at hs; · cases hs
        split at hs
        · rename_i heq; rw [heq]
        · cases hs
    · exact absurd ‹_› hX
  unfold backingOK
  split
  · simp only [decide_eq_true_eq]
    refine le_trans key (Nat.mul_le_mul_right _ (Nat.mul_le_mul (Nat.le_add_right _ _) (Nat.le_add_right _ _)))
  · simp only [decide_eq_true_eq]
    refine le_trans key ?_
    calc (R + n) * (A + e) * (P * P) = ((R + n) * P) * ((A + e) * P) := by ring
      _ ≤ ((R + n) * P + dust R A R * u.poolUnits) * ((A + e) * P + dust A R A * u.poolUnits) :=
        Nat.mul_le_mul (Nat.le_add_right _ _) (Nat.le_add_right _ _)
end Sif.Clp
