import Sif.Spec.C20
import Sif.Proofs.DispBank
/- helper lemmas for C20 (a): the dispensation BeginBlocker -/
namespace Sif.Disp
open Sif.Spec.C20

def ctr (s : MintState) : Nat := s.counter.getD 0

/-- effect of the tail (mint, send, count) on supply -/
theorem mintTail_sup (cfg : MintCfg) (blocked : Addr → Bool) (c amt : Nat) (b : Bank) (d : Denom) :
    (mintTail cfg blocked c amt b).bank.sup d = b.sup d + (if d = cfg.denom then amt else 0) := by
  unfold mintTail
  simp only
  have hc : coinsGet [(cfg.denom, amt)] d = if d = cfg.denom then amt else 0 := by
    by_cases h : d = cfg.denom
    · subst h; simp [coinsGet]
    · have : ¬ cfg.denom = d := fun e => h e.symm
      simp [coinsGet, h, this]
  cases hs : sendModuleToAccount blocked (mintCoins b cfg.module [(cfg.denom, amt)]) cfg.module cfg.ecoPool [(cfg.denom, amt)] with
  | none => simp only; rw [sup_mintCoins, hc]
  | some b' =>
    simp only
    unfold sendModuleToAccount at hs
    split at hs
    · cases hs
    · rw [sup_sendCoins hs, sup_mintCoins, hc]

/-- the minted coins are held by the ecosystem pool or, if the send failed, by the module account -/
theorem mintTail_hold (cfg : MintCfg) (blocked : Addr → Bool) (c amt : Nat) (b : Bank) (d : Denom)
    (hne : cfg.ecoPool ≠ cfg.module) :
    (mintTail cfg blocked c amt b).bank.bal cfg.ecoPool d + (mintTail cfg blocked c amt b).bank.bal cfg.module d
      = b.bal cfg.ecoPool d + b.bal cfg.module d + (if d = cfg.denom then amt else 0) := by
  unfold mintTail
  simp only
  have hc : coinsGet [(cfg.denom, amt)] d = if d = cfg.denom then amt else 0 := by
    by_cases h : d = cfg.denom
    · subst h; simp [coinsGet]
    · have : ¬ cfg.denom = d := fun e => h e.symm
      simp [coinsGet, h, this]
  have hne' : cfg.module ≠ cfg.ecoPool := fun e => hne e.symm
  cases hs : sendModuleToAccount blocked (mintCoins b cfg.module [(cfg.denom, amt)]) cfg.module cfg.ecoPool [(cfg.denom, amt)] with
  | none =>
    simp only
    rw [bal_mintCoins, bal_mintCoins, hc]
    simp [hne]
    omega
  | some b' =>
    simp only
    unfold sendModuleToAccount at hs
    split at hs
    · cases hs
    · rw [bal_sendCoins hs, bal_sendCoins hs, bal_mintCoins, bal_mintCoins, hc]
      simp [hne, hne']
      omega

/-- with the ecosystem pool not blocked the send succeeds: the pool receives the amount, the module
    account keeps nothing of it -/
theorem mintTail_to_eco (cfg : MintCfg) (blocked : Addr → Bool) (c amt : Nat) (b : Bank)
    (hne : cfg.ecoPool ≠ cfg.module) (hnb : blocked cfg.ecoPool = false) :
    (mintTail cfg blocked c amt b).bank.bal cfg.ecoPool cfg.denom = b.bal cfg.ecoPool cfg.denom + amt ∧
    (mintTail cfg blocked c amt b).bank.bal cfg.module cfg.denom = b.bal cfg.module cfg.denom := by
  have hne' : cfg.module ≠ cfg.ecoPool := fun e => hne e.symm
  have hc : coinsGet [(cfg.denom, amt)] cfg.denom = amt := by simp [coinsGet]
  have hbal : (mintCoins b cfg.module [(cfg.denom, amt)]).bal cfg.module cfg.denom = b.bal cfg.module cfg.denom + amt := by
    rw [bal_mintCoins, hc]; simp
  have hhas : hasCoins (mintCoins b cfg.module [(cfg.denom, amt)]) cfg.module [(cfg.denom, amt)] = true := by
    simp only [hasCoins, Bool.and_true, decide_eq_true_eq]; omega
  have hs : sendModuleToAccount blocked (mintCoins b cfg.module [(cfg.denom, amt)]) cfg.module cfg.ecoPool [(cfg.denom, amt)]
      = some (addCoins (subCoins (mintCoins b cfg.module [(cfg.denom, amt)]) cfg.module [(cfg.denom, amt)]) cfg.ecoPool [(cfg.denom, amt)]) := by
    unfold sendModuleToAccount sendCoins
    rw [hnb, hhas]; simp
  unfold mintTail
  simp only [hs]
  constructor
  · rw [bal_addCoins, bal_subCoins, bal_mintCoins, hc]; simp [hne]
  · rw [bal_addCoins, bal_subCoins, hbal, hc]; simp [hne']

/-- other accounts and other denoms are untouched -/
theorem mintTail_other (cfg : MintCfg) (blocked : Addr → Bool) (c amt : Nat) (b : Bank) (a : Addr) (d : Denom)
    (h1 : a ≠ cfg.ecoPool) (h2 : a ≠ cfg.module) :
    (mintTail cfg blocked c amt b).bank.bal a d = b.bal a d := by
  unfold mintTail
  simp only
  cases hs : sendModuleToAccount blocked (mintCoins b cfg.module [(cfg.denom, amt)]) cfg.module cfg.ecoPool [(cfg.denom, amt)] with
  | none => simp only; rw [bal_mintCoins]; simp [h2]
  | some b' =>
    simp only
    unfold sendModuleToAccount at hs
    split at hs
    · cases hs
    · rw [bal_sendCoins hs, bal_mintCoins]; simp [h1, h2]

/-- The BeginBlocker never panics; its result, case by case. -/
theorem beginBlocker_cases (cfg : MintCfg) (blocked : Addr → Bool) (s : MintState) :
    (beginBlocker cfg blocked s = .ok s ∧ s.counter.map (nextCounter cfg.cap cfg.perBlock) = s.counter) ∨
    (∃ c amt, s.counter = some c ∧ c < cfg.cap ∧ 0 < amt ∧ c + amt = nextCounter cfg.cap cfg.perBlock c ∧
      beginBlocker cfg blocked s = .ok (mintTail cfg blocked c amt s.bank)) := by
  unfold beginBlocker
  cases hc : s.counter with
  | none => left; simp [tokensCanBeMinted]
  | some c =>
    by_cases hlt : c < cfg.cap
    · simp only [tokensCanBeMinted, hlt, decide_true, Bool.not_true, Bool.false_eq_true, if_false]
      have ha : mintAmount cfg c = ((nextCounter cfg.cap cfg.perBlock c - c : Nat) : Int) := by
        unfold mintAmount isLastBlock nextCounter
        simp only [decide_eq_true_eq]
        split <;> (rw [if_pos (Nat.le_of_lt hlt)]; omega)
      rw [ha]
      by_cases hz : nextCounter cfg.cap cfg.perBlock c - c = 0
      · left
        rw [hz]
        simp
        unfold nextCounter at hz ⊢
        rw [if_pos (Nat.le_of_lt hlt)] at hz ⊢
        omega
      · right
        refine ⟨c, nextCounter cfg.cap cfg.perBlock c - c, rfl, hlt, by omega, ?_, ?_⟩
        · unfold nextCounter; rw [if_pos (Nat.le_of_lt hlt)]; omega
        · have h1 : ¬ (((nextCounter cfg.cap cfg.perBlock c - c : Nat) : Int) < 0) := by omega
          have h2 : ¬ (((nextCounter cfg.cap cfg.perBlock c - c : Nat) : Int) = 0) := by omega
          rw [if_neg h1, if_neg h2]
          simp
    · left
      simp only [tokensCanBeMinted, hlt, decide_false, Bool.not_false, if_true, true_and]
      simp only [Option.map, nextCounter]
      congr 1
      split <;> omega

theorem beginBlocker_ok (cfg : MintCfg) (blocked : Addr → Bool) (s : MintState) :
    ∃ s', beginBlocker cfg blocked s = .ok s' ∧
      s'.counter = s.counter.map (nextCounter cfg.cap cfg.perBlock) ∧
      (∀ d, s'.bank.sup d = s.bank.sup d + (if d = cfg.denom then ctr s' - ctr s else 0)) := by
  rcases beginBlocker_cases cfg blocked s with ⟨h, hm⟩ | ⟨c, amt, hc, hlt, hpos, hsum, h⟩
  · refine ⟨s, h, hm.symm, ?_⟩
    intro d; simp
  · refine ⟨_, h, ?_, ?_⟩
    · simp [mintTail, hc, hsum]
    · intro d
      rw [mintTail_sup]
      simp [ctr, mintTail, hc]

/-- the module account's balance never decreases in the BeginBlocker -/
theorem beginBlocker_module_mono (cfg : MintCfg) (blocked : Addr → Bool) (s s' : MintState)
    (hne : cfg.ecoPool ≠ cfg.module) (h : beginBlocker cfg blocked s = .ok s') (d : Denom) :
    s.bank.bal cfg.module d ≤ s'.bank.bal cfg.module d := by
  rcases beginBlocker_cases cfg blocked s with ⟨h', _⟩ | ⟨c, amt, hc, _, _, _, h'⟩
  · rw [h] at h'; cases h'; exact Nat.le_refl _
  · rw [h] at h'; cases h'
    have hne' : cfg.module ≠ cfg.ecoPool := fun e => hne e.symm
    unfold mintTail
    simp only
    cases hs : sendModuleToAccount blocked (mintCoins s.bank cfg.module [(cfg.denom, amt)]) cfg.module cfg.ecoPool [(cfg.denom, amt)] with
    | none => simp only; rw [bal_mintCoins]; omega
    | some b' =>
      simp only
      unfold sendModuleToAccount at hs
      split at hs
      · cases hs
      · rw [bal_sendCoins hs, bal_mintCoins]; simp [hne']

theorem nextCounter_iter (cap p c0 n : Nat) (h : c0 ≤ cap) :
    nextCounter cap p (min (c0 + n * p) cap) = min (c0 + (n + 1) * p) cap := by
  unfold nextCounter
  rw [if_pos (Nat.min_le_right _ _)]
  rw [Nat.add_mul]
  omega

end Sif.Disp
