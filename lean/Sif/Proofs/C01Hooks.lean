import Sif.Proofs.C01
/-
  C01 — the epoch hook (rewards-bucket payout, both modes) keeps the module account solvent.
-/
namespace Sif.Clp
open Sif Sif.AList Sif.Spec.C01

theorem subBucket_spec {s s' : St} {d0 : String} {amt : Nat} (h : subBucket s d0 amt = some s') :
    s'.pools = s.pools ∧ s'.lps = s.lps ∧ s'.bank = s.bank ∧ s'.params = s.params ∧
    ∃ cur, s.buckets.get d0 = some cur ∧ amt ≤ cur ∧ s'.buckets = s.buckets.set d0 (cur - amt) := by
  unfold subBucket at h
  split at h
  · cases h
  · rename_i cur hc
    split at h
    · cases h
    · cases h; exact ⟨rfl, rfl, rfl, rfl, cur, hc, by omega, rfl⟩

/-- debiting the bucket lowers the recorded amount of that denomination by exactly `amt` -/
theorem recorded_subBucket {s s' : St} {d0 : String} {amt : Nat} (h : subBucket s d0 amt = some s') (d : String) :
    recorded s' d + (if d = d0 then amt else 0) = recorded s d := by
  obtain ⟨p, _, _, _, cur, hc, hle, hb⟩ := subBucket_spec h
  simp only [recorded_eq, p, hb, get_set]
  by_cases hd : d0 = d
  · subst hd; simp [hc]; omega
  · have : ¬ d = d0 := fun e => hd e.symm
    simp [hd, this]

theorem payToWallet_solv (s : St) (sym addr : String) (amt : Nat) (hinv : Solv s) :
    Solv (payToWallet s sym addr amt) := by
  unfold payToWallet
  split
  · exact hinv
  · rename_i s1 h1
    obtain ⟨p1, _, bk1, _, _⟩ := subBucket_spec h1
    have r1 := recorded_subBucket h1
    split
    · rename_i s2 h2
      unfold sendFromModule at h2
      split at h2
      · cases h2
      · obtain ⟨p2, _, k2, _⟩ := send_frame h2
        have b2 := send_out_bal h2
        obtain ⟨hnd, hk, hsolv⟩ := hinv
        refine ⟨by rw [p2, p1]; exact hnd, poolKeysOK_congr (p2.trans p1) hk, ?_⟩
        intro d
        rw [recorded_congr p2 k2 d]
        have hr := r1 d; have hb2 := b2 d; have hsv := hsolv d
        have hb : s1.bal clpAcct d = s.bal clpAcct d := by simp [St.bal, bk1]
        rw [hb] at hb2
        split_prop hd : d = sym <;> simp only [hd, if_true, if_false] at hr hb2 <;> omega
    · exact hinv

theorem reinvest_solv {s s' : St} {sym addr : String} {amt : Nat}
    (hinv : Solv s) (h : reinvest s sym addr amt = .ok s') : Solv s' := by
  unfold reinvest at h
  split at h
  · rename_i pool lp hp hlp
    obtain ⟨⟨nD, eD⟩, hd, h⟩ := bind_ok h
    obtain ⟨uo, hu, h⟩ := bind_ok h
    split at h
    · cases h; exact hinv
    · rename_i u
      obtain ⟨eB, heB, h⟩ := bind_ok h
      split at h
      · cases h; exact hinv
      · rename_i s1 hs1
        obtain ⟨lu, hlu, h⟩ := bind_ok h
        cases h
        obtain ⟨p1, _, bk1, _, _⟩ := subBucket_spec hs1
        have r1 := recorded_subBucket hs1
        have heB := (Uint.add_ok heB).1
        subst heB
        obtain ⟨hnd, hk, hsolv⟩ := hinv
        have hsym : pool.sym = sym := hk sym pool hp
        have hp1 : s1.getPool sym = some pool := by simpa [St.getPool, p1] using hp
        have wf1 : Solv s1 ∨ True := Or.inr trivial
        refine ⟨?_, ?_, ?_⟩
        · show NodupKeys (s1.pools.set _ _); apply nodupKeys_set; rw [p1]; exact hnd
        · intro sy q hq
          simp only [setLP_getPool] at hq
          exact poolKeysOK_setPool (poolKeysOK_congr p1 hk) sy q hq
        · intro d
          have hrec := recorded_setPool_present (s := s1)
            (p' := { pool with sym := sym, units := u.poolUnits, eBal := pool.eBal + amt }) d hp1
          show recorded ((s1.setPool _).setLP _) d ≤ ((s1.setPool _).setLP _).bal clpAcct d
          have e : recorded ((s1.setPool { pool with sym := sym, units := u.poolUnits, eBal := pool.eBal + amt }).setLP
              { sym := sym, addr := addr, units := lu, lastUpdated := lp.lastUpdated }) d
              = recorded (s1.setPool { pool with sym := sym, units := u.poolUnits, eBal := pool.eBal + amt }) d := rfl
          rw [e]
          simp only [setLP_bal, setPool_bal]
          have hb : s1.bal clpAcct d = s.bal clpAcct d := by simp [St.bal, bk1]
          rw [hb]
          have hr := r1 d; have hsv := hsolv d
          simp only [poolRec, hsym] at hrec
          split_prop hd1 : d = rowan <;> split_prop hd2 : d = sym <;>
            simp only [hd1, hd2, if_true, if_false] at hrec hr <;> omega
  · cases h; exact hinv

theorem bumpRae_solv {s s' : St} {sym : String} {b : Nat} (hinv : Solv s) (h : bumpRae s sym b = .ok s') : Solv s' := by
  unfold bumpRae at h
  split at h
  · cases h; exact hinv
  · rename_i p hg
    obtain ⟨rae, _, h⟩ := bind_ok h
    cases h
    obtain ⟨hnd, hk, hsolv⟩ := hinv
    have hps : p.sym = sym := hk sym p hg
    have hg' : s.getPool ({ p with rae := rae } : Pool).sym = some p := by rw [← hps] at hg; exact hg
    have := solv_replace_pool (s := s) (t := { s with pools := s.pools.set (poolKey sym) { p with rae := rae } })
      (p := p) (p' := { p with rae := rae }) ⟨hnd, hk, hsolv⟩ (by simp [hps]) rfl hg' (by
        intro d
        have := hsolv d
        show recorded s d + poolRec d { p with rae := rae } ≤ s.bal clpAcct d + poolRec d p
        simp only [poolRec]; omega)
    exact this

theorem epochAsset_solv {s s' : St} {sym : String} (hinv : Solv s) (h : epochAsset s sym = .ok s') : Solv s' := by
  unfold epochAsset at h
  split at h
  · cases h; exact hinv
  · dsimp only at h
    split at h
    · cases h; exact hinv
    · obtain ⟨amts, _, h⟩ := bind_ok h
      obtain ⟨s1, hf, h⟩ := bind_ok h
      have h1 : Solv s1 := by
        refine foldlM_inv Solv (payOne sym) ?_ _ _ _ hinv hf
        intro s b s' hp hb
        unfold payOne at hb
        split at hb
        · cases hb; exact payToWallet_solv s sym b.1 b.2 hp
        · exact reinvest_solv hp hb
      exact bumpRae_solv h1 h

theorem afterEpochEnd_solv {s s' : St} (hinv : Solv s) (h : afterEpochEnd s = .ok s') : Solv s' := by
  unfold afterEpochEnd at h
  exact foldlM_inv Solv epochAsset (fun s b s' hp hb => epochAsset_solv hp hb) _ _ _ hinv h

end Sif.Clp
