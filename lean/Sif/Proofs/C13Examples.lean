import Sif.Spec.C13
/-
  Concrete states used by the non-vacuity examples and the negative witnesses of Sif/Props/C13.lean.
-/
namespace Sif.Margin.Ex
open Sif Sif.Margin Sif.Spec.C13

def isOk {α} : Except Err α → Bool
  | .ok _ => true
  | .error _ => false

def bank : Bank :=
  { bal := fun a d => if a = "trader" then 1000000 else if a = "clp" then (if d = "rowan" then 50000000 else 60000000) else 0,
    blocked := ["clp", "margin"] }

def pool : Pool :=
  { sym := "cusdc", nBal := 50000000, eBal := 60000000, nCust := 0, eCust := 0, nLiab := 0, eLiab := 0, unsN := 0, unsE := 0,
    biN := 0, biE := 0, health := ⟨10^18⟩, rate := ⟨10^17⟩, lastH := 0 }

def params : Params :=
  { leverageMax := ⟨2 * 10^18⟩, safetyFactor := ⟨105 * 10^16⟩, poolOpenThreshold := ⟨10^17⟩, rateMin := ⟨5 * 10^15⟩,
    epochLength := 2, maxOpen := 100, pools := ["cusdc"], closedPools := [], fcPct := ⟨10^17⟩, fcAddr := "fund",
    iipPct := ⟨10^17⟩, iipAddr := "fund", iipEnabled := true, whitelisting := false, rowanCollateral := true }

/-- height 3, epoch length 2: inside an epoch (Close pays pro-rated interest) -/
def s0 : State :=
  { pools := [pool], mtps := [], mtpCount := 0, openCount := 0, params := params,
    clp := { r := ⟨0⟩, feeDefault := ⟨3 * 10^15⟩, feeTokens := [], clpAddr := "clp" }, bank := bank, admins := ["adm"],
    whitelist := [], height := 3 }

def openMsg0 : MsgOpen :=
  { signer := "trader", coll := "rowan", collAmt := 10000, borrow := "cusdc", position := 1, leverage := ⟨2 * 10^18⟩ }

/-- after the Open -/
def s1 : State := deliver Fixes.repaired s0 (.open openMsg0)

/-- the same one block later, at an epoch boundary -/
def s2 : State := { s1 with height := 4 }

def rates : Asset → Option Dec := fun _ => some ⟨2 * 10^17⟩

/-- the administrator has set the interest fund address to a module account (accepted by UpdateParams) -/
def s2blocked : State := { s2 with params := { s2.params with iipAddr := "margin" } }

/-- the force-close fund address is a module account and the safety factor was raised (AdminCloseAll does that) -/
def s2fc : State := { s2 with params := { s2.params with fcAddr := "margin", safetyFactor := ⟨100 * 10^18⟩ } }

/-- a second pool, and an Open between two non-native assets -/
def pool2 : Pool := { pool with sym := "ceth" }
def bank2 : Bank := { bal := fun a _ => if a = "trader" then 1000000 else if a = "clp" then 120000000 else 0, blocked := ["clp", "margin"] }
def s0two : State := { s0 with pools := [pool2, pool], params := { params with pools := ["cusdc", "ceth"] }, bank := bank2 }
def openCross : MsgOpen := { openMsg0 with coll := "cusdc", borrow := "ceth" }

end Sif.Margin.Ex
