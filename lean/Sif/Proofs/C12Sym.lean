import Sif.Model.Registry
import Mathlib.Tactic.Linarith
import Mathlib.Tactic.Positivity
import Mathlib.Tactic.FieldSimp
set_option linter.unusedSimpArgs false
/-
  C12 — the rational comparison of `GetLiquidityAddSymmetryState` is a cross-multiplication.
-/
namespace Sif.Proofs.C12
open Sif.Registry

theorem mkRat_lt_iff (Y y : Nat) {X x : Nat} (hX : 0 < X) (hx : 0 < x) :
    (mkRat (Y : Int) X < mkRat (y : Int) x) ↔ Y * x < y * X := by
  rw [Rat.mkRat_eq_div, Rat.mkRat_eq_div]
  have hX' : (0 : ℚ) < ((X : ℕ) : ℚ) := by exact_mod_cast hX
  have hx' : (0 : ℚ) < ((x : ℕ) : ℚ) := by exact_mod_cast hx
  push_cast
  rw [div_lt_div_iff₀ hX' hx']
  exact_mod_cast Iff.rfl

theorem mkRat_eq_iff (Y y : Nat) {X x : Nat} (hX : 0 < X) (hx : 0 < x) :
    (mkRat (Y : Int) X = mkRat (y : Int) x) ↔ Y * x = y * X := by
  rw [Rat.mkRat_eq_div, Rat.mkRat_eq_div]
  have hX' : ((X : ℕ) : ℚ) ≠ 0 := by exact_mod_cast (Nat.pos_iff_ne_zero.mp hX)
  have hx' : ((x : ℕ) : ℚ) ≠ 0 := by exact_mod_cast (Nat.pos_iff_ne_zero.mp hx)
  push_cast
  rw [div_eq_div_iff hX' hx']
  exact_mod_cast Iff.rfl

/-- which hidden swap an add of (r native, a external) to a pool of depths (R, A) implies -/
theorem swapStatusOf_cross (R A r a : Nat) (hR : 0 < R) (hA : 0 < A) (ha : 0 < a) :
    swapStatusOf R A r a =
      if R * a < r * A then .sellNative else if R * a = r * A then .noSwap else .buyNative := by
  unfold swapStatusOf symmetryState
  have h1 : ¬ (A = 0 ∨ R = 0) := by omega
  have h2 : ¬ (a = 0 ∧ r = 0) := by omega
  have h3 : ¬ (a = 0) := by omega
  simp only [h1, h2, h3, if_false]
  have e1 := mkRat_lt_iff R r hA ha
  have e2 := mkRat_eq_iff R r hA ha
  by_cases c1 : R * a < r * A
  · simp [c1, e1.mpr c1]
  · have n1 : ¬ (mkRat (R : Int) A < mkRat (r : Int) a) := fun h => c1 (e1.mp h)
    by_cases c2 : R * a = r * A
    · simp [c1, c2, n1, e2.mpr c2]
    · have n2 : ¬ (mkRat (R : Int) A = mkRat (r : Int) a) := fun h => c2 (e2.mp h)
      simp [c1, c2, n1, n2]

theorem swapStatusOf_native_only (R A r : Nat) (hR : 0 < R) (hA : 0 < A) (hr : 0 < r) :
    swapStatusOf R A r 0 = .sellNative := by
  unfold swapStatusOf symmetryState
  have h1 : ¬ (A = 0 ∨ R = 0) := by omega
  have h2 : ¬ (r = 0) := by omega
  simp [h1, h2]

theorem swapStatusOf_empty (R A r a : Nat) (h : R = 0 ∨ A = 0) : swapStatusOf R A r a = .noSwap := by
  unfold swapStatusOf symmetryState
  have h1 : (A = 0 ∨ R = 0) := by omega
  simp [h1]

end Sif.Proofs.C12
