import Sif.Spec.C08
import Mathlib.Tactic.Linarith
/- helper lemmas for the C08 theorems -/
namespace Sif.Auth
open Sif.AuthTypes

theorem execPre_harmless {σ} : ∀ (pre : List (Stmt σ)) (s : σ),
    (pre.map Stmt.kind).all StmtKind.harmless = true → (execPre pre s).1 = s
  | [], s, _ => rfl
  | .pure ok :: r, s, h => by
    simp only [List.map_cons, List.all_cons, Bool.and_eq_true] at h
    unfold execPre
    split
    · exact execPre_harmless r s h.2
    · rfl
  | .read ok :: r, s, h => by
    simp only [List.map_cons, List.all_cons, Bool.and_eq_true] at h
    unfold execPre
    split
    · exact execPre_harmless r s h.2
    · rfl
  | .write f :: r, s, h => by
    simp [Stmt.kind, StmtKind.harmless] at h
  | .unknown f :: r, s, h => by
    simp [Stmt.kind, StmtKind.harmless] at h

theorem isAdmin_iff (t : AdminTable) (r : Role) (a : Addr) : t.isAdmin r a = true ↔ (r, a) ∈ t := by
  unfold AdminTable.isAdmin
  rw [List.any_eq_true]
  constructor
  · rintro ⟨⟨r', a'⟩, hm, he⟩
    simp only [Bool.and_eq_true, beq_iff_eq] at he
    obtain ⟨rfl, rfl⟩ := he
    exact hm
  · intro hm
    exact ⟨(r, a), hm, by simp⟩

theorem mem_add (t : AdminTable) (k k' : Role × Addr) : k' ∈ t.add k ↔ k' = k ∨ k' ∈ t := by
  unfold AdminTable.add
  split
  · constructor
    · exact Or.inr
    · rintro (rfl | h)
      · assumption
      · exact h
  · simp only [List.mem_append, List.mem_singleton]
    tauto

theorem mem_remove (t : AdminTable) (k k' : Role × Addr) : k' ∈ t.remove k ↔ k' ≠ k ∧ k' ∈ t := by
  unfold AdminTable.remove
  simp only [List.mem_filter, decide_eq_true_eq]
  tauto

end Sif.Auth
