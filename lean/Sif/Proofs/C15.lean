import Sif.Spec.C15
import Sif.Proofs.Except
set_option linter.unusedSimpArgs false
/-
  Helper lemmas for C15 (unlock bookkeeping).
-/
namespace Sif.Proofs.C15
open Sif Sif.Unlock Sif.Spec.C15

/-! ### int64 wrap is the identity inside the envelope -/
theorem wrap64_id {i : Int} (h0 : -9223372036854775808 ≤ i) (h1 : i < 9223372036854775808) : wrap64 i = i := by
  unfold wrap64 two63 two64; omega

theorem toI64_id {n : Nat} (h : (n : Int) < 9223372036854775808) : toI64 n = (n : Int) := by
  unfold toI64; exact wrap64_id (by omega) h

theorem maturedGo_eq {L C : Nat} {h : Int} {r : Rec}
    (h0 : 0 ≤ h) (hb : (L : Int) + (C : Int) + h < two62) (hr0 : 0 ≤ r.height) (hr1 : r.height ≤ h) :
    maturedGo L h r = matured L h r := by
  unfold two62 at hb
  have e1 : toI64 L = (L : Int) := toI64_id (by omega)
  unfold maturedGo matured add64
  rw [e1, wrap64_id (by omega) (by omega)]

theorem expiredGo_eq {L C : Nat} {h : Int} {r : Rec}
    (h0 : 0 ≤ h) (hb : (L : Int) + (C : Int) + h < two62) (hr0 : 0 ≤ r.height) (hr1 : r.height ≤ h) :
    expiredGo L C h r = expired L C h r := by
  unfold two62 at hb
  have e1 : toI64 L = (L : Int) := toI64_id (by omega)
  have e2 : toI64 C = (C : Int) := toI64_id (by omega)
  have e3 : wrap64 (r.height + (L : Int)) = r.height + (L : Int) := wrap64_id (by omega) (by omega)
  unfold expiredGo expired add64
  rw [e1, e2, e3, wrap64_id (by omega) (by omega)]

/-! ### totals -/
theorem total_append (a b : List Rec) : total (a ++ b) = total a + total b := by
  induction a with
  | nil => simp [total]
  | cons r rs ih => simp [total, ih]; omega

theorem total_filter_le (p : Rec → Bool) (rs : List Rec) : total (rs.filter p) ≤ total rs := by
  induction rs with
  | nil => simp [total]
  | cons r rs ih =>
    simp only [List.filter]
    split <;> simp [total] <;> omega

theorem total_filter_nonzero (rs : List Rec) : total (rs.filter nonzero) = total rs := by
  induction rs with
  | nil => simp [total]
  | cons r rs ih =>
    simp only [List.filter]
    split
    · simp [total, ih]
    · rename_i hz
      simp [nonzero] at hz
      simp [total, ih, hz]

/-- a filter that only drops what a second filter drops anyway -/
theorem total_filter_mono (p q : Rec → Bool) (rs : List Rec) (hpq : ∀ r, p r = true → q r = true) :
    total (rs.filter p) ≤ total (rs.filter q) := by
  induction rs with
  | nil => simp [total]
  | cons r rs ih =>
    simp only [List.filter]
    cases hp : p r
    · cases hq : q r <;> simp [total] <;> omega
    · rw [hpq r hp]; simp [total]; omega

theorem totalM_ok {rs : List Rec} {acc t : Nat} (h : totalM rs acc = .ok t) : t = acc + total rs := by
  induction rs generalizing acc with
  | nil => simp [totalM] at h; simp [total, h]
  | cons r rs ih =>
    simp only [totalM] at h
    obtain ⟨a, ha, hb⟩ := bind_ok h
    unfold Uint.add Uint.chk at ha
    split at ha
    · cases ha
      have := ih hb
      simp [total]; omega
    · cases ha

/-! ### the consumption loop -/

/-- units the loop may draw on -/
def eligible (any : Bool) (L : Nat) (h : Int) (r : Rec) : Bool := any || maturedGo L h r

theorem consume_left (any : Bool) (L : Nat) (h : Int) (rs : List Rec) (u : Nat) :
    (consume any L h rs u).2 = u - total (rs.filter (eligible any L h)) := by
  induction rs generalizing u with
  | nil => simp [consume, total]
  | cons r rs ih =>
    cases he : eligible any L h r
    · have he' : (any || maturedGo L h r) = false := he
      simp only [consume, List.filter, he, he', Bool.false_eq_true, if_false]
      exact ih u
    · have he' : (any || maturedGo L h r) = true := he
      simp only [consume, List.filter, he, he', if_true]
      split
      · rename_i hgt
        simp only [total]
        rw [ih (u - r.units)]; omega
      · simp only [total]; omega

theorem consume_total (any : Bool) (L : Nat) (h : Int) (rs : List Rec) (u : Nat) :
    total (consume any L h rs u).1 + (u - (consume any L h rs u).2) = total rs
      ∧ (consume any L h rs u).2 ≤ u := by
  induction rs generalizing u with
  | nil => simp [consume, total]
  | cons r rs ih =>
    simp only [consume]
    cases he : (any || maturedGo L h r)
    · simp only [Bool.false_eq_true, if_false, total]
      have := ih u
      omega
    · simp only [if_true]
      split
      · rename_i hgt
        simp only [total]
        have := ih (u - r.units)
        omega
      · simp only [total]; omega

theorem shrinks_refl (rs : List Rec) : shrinks rs rs = true := by
  induction rs with
  | nil => rfl
  | cons a as ih => simp [shrinks, ih]

/-- records only shrink: same heights, same positions, units never grow -/
theorem consume_shrinks (any : Bool) (L : Nat) (h : Int) (rs : List Rec) (u : Nat) :
    shrinks rs (consume any L h rs u).1 = true := by
  induction rs generalizing u with
  | nil => simp [consume, shrinks]
  | cons r rs ih =>
    simp only [consume]
    cases he : (any || maturedGo L h r)
    · simp [shrinks, ih u]
    · simp only [if_true]
      split
      · simp [shrinks, ih]
      · simp [shrinks, shrinks_refl]

/-- what `useUnlocked` guarantees when it accepts -/
theorem useUnlocked_ok {L : Nat} {h : Int} {rs : List Rec} {u : Nat} {any : Bool} {caller stored : List Rec}
    (hok : useUnlocked L h rs u any = .ok (caller, stored)) :
    caller = (consume any L h rs u).1 ∧ stored = caller.filter nonzero ∧
    (L ≠ 0 → u ≤ total (rs.filter (eligible any L h)) ∧ total caller + u = total rs) ∧
    total caller ≤ total rs := by
  unfold useUnlocked at hok
  simp only at hok
  split at hok
  · cases hok
  · rename_i hn
    cases hok
    have hl := consume_left any L h rs u
    have ht := consume_total any L h rs u
    refine ⟨rfl, rfl, ?_, by omega⟩
    intro hL
    have h0 : (consume any L h rs u).2 = 0 := by
      cases hc : (consume any L h rs u).2 with
      | zero => rfl
      | succ n => exact absurd ⟨hL, by omega⟩ hn
    omega

/-- … and when it refuses -/
theorem useUnlocked_err {L : Nat} {h : Int} {rs : List Rec} {u : Nat} {any : Bool} {e : Err}
    (herr : useUnlocked L h rs u any = .error e) :
    e = .bal ∧ L ≠ 0 ∧ total (rs.filter (eligible any L h)) < u := by
  unfold useUnlocked at herr
  simp only at herr
  split at herr
  · rename_i hn
    cases herr
    have hl := consume_left any L h rs u
    refine ⟨rfl, hn.1, ?_⟩
    have := hn.2
    omega
  · cases herr

/-! ### prune -/
theorem total_prune_le (L C : Nat) (h : Int) (rs : List Rec) : total (prune L C h rs) ≤ total rs :=
  total_filter_le _ _

/-- two filters that agree except on zero records select the same units -/
theorem total_filter_congr (p q : Rec → Bool) (rs : List Rec)
    (hpq : ∀ r ∈ rs, p r = q r ∨ r.units = 0) : total (rs.filter p) = total (rs.filter q) := by
  induction rs with
  | nil => simp [total]
  | cons r rs ih =>
    have ih' := ih (fun x hx => hpq x (List.mem_cons_of_mem _ hx))
    have h1 := hpq r (List.mem_cons_self)
    simp only [List.filter]
    cases hp : p r <;> cases hq : q r <;> simp only [total, ih'] <;>
      first
      | rfl
      | (rcases h1 with h1 | h1
         · rw [hp, hq] at h1; cases h1
         · omega)

/-- inside the envelope, the matured records that survive the prune are exactly the spec's live
    records (zero records carry no units) -/
theorem matured_prune_total {L C : Nat} {h : Int} {rs : List Rec} (henv : inEnvelope L C h rs = true) :
    total ((prune L C h rs).filter (eligible false L h)) = usable L C h rs := by
  unfold inEnvelope at henv
  simp only [Bool.and_eq_true, decide_eq_true_eq] at henv
  obtain ⟨⟨h0, hb⟩, hh⟩ := henv
  unfold usable prune
  rw [List.filter_filter]
  apply total_filter_congr
  intro r hr
  unfold heightsOK at hh
  rw [List.all_eq_true] at hh
  have hr' := hh r hr
  simp only [Bool.and_eq_true, decide_eq_true_eq] at hr'
  have em := maturedGo_eq (C := C) h0 hb hr'.1 hr'.2
  have ee := expiredGo_eq h0 hb hr'.1 hr'.2
  by_cases hz : r.units = 0
  · exact Or.inr hz
  · left
    simp [eligible, keepRec, live, em, ee, hz]

/-! ### what each handler guarantees when it accepts -/

theorem removeCore_ok {L C : Nat} {h : Int} {units : Nat} {stored : List Rec} {left : Nat} {o : Option LP}
    (hok : removeCore L h units (prune L C h stored) left = .ok o) :
    left ≤ units ∧ unitsOf o = left ∧ total (unlocksOf o) ≤ total stored ∧
    (L ≠ 0 → total (unlocksOf o) + (units - left) ≤ total stored) ∧
    (L ≠ 0 → inEnvelope L C h stored = true → units - left ≤ usable L C h stored) ∧
    (∀ lp, o = some lp → lp.unlocks = (consume false L h (prune L C h stored) (units - left)).1) := by
  unfold removeCore at hok
  by_cases hle : left ≤ units
  · simp only [Uint.sub, hle, if_true, liftP] at hok
    cases hu : useUnlocked L h (prune L C h stored) (units - left) false with
    | error e => rw [hu] at hok; cases hok
    | ok p =>
      obtain ⟨caller, st⟩ := p
      rw [hu] at hok
      simp only [Except.ok.injEq] at hok
      obtain ⟨hc, _, hL, hle2⟩ := useUnlocked_ok hu
      have hp := total_prune_le L C h stored
      have hcase : total (unlocksOf o) ≤ total caller ∧ unitsOf o = left ∧
          (∀ lp, o = some lp → lp.unlocks = caller) := by
        by_cases hz : left = 0
        · rw [if_pos hz] at hok; subst hok; simp [unlocksOf, unitsOf, total, hz]
        · rw [if_neg hz] at hok; subst hok
          refine ⟨by simp [unlocksOf], by simp [unitsOf], ?_⟩
          intro lp hlp; cases hlp; rfl
      refine ⟨hle, hcase.2.1, by omega, ?_, ?_, ?_⟩
      · intro hL0
        have := (hL hL0).2
        omega
      · intro hL0 henv
        have := (hL hL0).1
        rw [matured_prune_total henv] at this
        exact this
      · intro lp hlp
        rw [hcase.2.2 lp hlp, hc]
  · simp only [Uint.sub, hle, if_false, liftP] at hok
    cases hok

theorem removeCore_not_bal_of_lock_zero {h : Int} {units : Nat} {rs : List Rec} {left : Nat} :
    removeCore 0 h units rs left ≠ .error .bal := by
  unfold removeCore
  by_cases hle : left ≤ units
  · simp only [Uint.sub, hle, if_true, liftP]
    unfold useUnlocked
    simp
  · simp only [Uint.sub, hle, if_false, liftP]
    intro hc; cases hc

/-- with lock period 0 every surviving record is "matured" as soon as it is not from the future -/
theorem removeCore_ok_lock_zero {C : Nat} {h : Int} {units : Nat} {stored : List Rec} {left : Nat} {o : Option LP}
    (hok : removeCore 0 h units (prune 0 C h stored) left = .ok o)
    (hh : heightsOK h stored = true) (hh1 : h < 9223372036854775808)
    (hinv : total stored ≤ units) : total (unlocksOf o) ≤ unitsOf o := by
  obtain ⟨hle, hu, _, _, _, hlp⟩ := removeCore_ok hok
  cases o with
  | none => simp [unlocksOf, total]
  | some lp =>
    have hl := hlp lp rfl
    simp only [unlocksOf, unitsOf] at hu ⊢
    rw [hl]
    have ht := consume_total false 0 h (prune 0 C h stored) (units - left)
    have hlft := consume_left false 0 h (prune 0 C h stored) (units - left)
    have hall : (prune 0 C h stored).filter (eligible false 0 h) = prune 0 C h stored := by
      rw [List.filter_eq_self]
      intro r hr
      have hr' : r ∈ stored := (List.mem_filter.mp hr).1
      unfold heightsOK at hh
      rw [List.all_eq_true] at hh
      have := hh r hr'
      simp only [Bool.and_eq_true, decide_eq_true_eq] at this
      have e0 : toI64 0 = 0 := by unfold toI64 wrap64 two63 two64; omega
      have hm : maturedGo 0 h r = true := by
        unfold maturedGo
        apply decide_eq_true
        unfold add64
        rw [e0, Int.add_zero, wrap64_id (by omega) (by omega)]
        exact this.2
      simp [eligible, hm]
    rw [hall] at hlft
    have hp := total_prune_le 0 C h stored
    omega

theorem unlockLP_ok {L C : Nat} {h : Int} {lp : LP} {u : Nat} {o : Option LP}
    (hok : unlockLP L C h lp u = .ok o) :
    o = some { lp with unlocks := prune L C h lp.unlocks ++ [⟨h, u⟩] } ∧
    total (prune L C h lp.unlocks) + u ≤ lp.units := by
  unfold unlockLP at hok
  simp only at hok
  cases hc : unlockCheck (prune L C h lp.unlocks) u lp.units with
  | error e => rw [hc] at hok; cases hok
  | ok x =>
    rw [hc] at hok
    simp only [Except.ok.injEq] at hok
    refine ⟨hok.symm, ?_⟩
    unfold unlockCheck at hc
    cases ht : (totalM (prune L C h lp.unlocks) 0 >>= fun t => Uint.add t u) with
    | error e => rw [ht] at hc; simp [liftP] at hc
    | ok t =>
      rw [ht] at hc
      simp only [liftP] at hc
      obtain ⟨t0, h0, h1⟩ := bind_ok ht
      have := totalM_ok h0
      unfold Uint.add Uint.chk at h1
      split at h1
      · cases h1
        split at hc
        · cases hc
        · omega
      · cases h1

theorem cancelLP_ok {L C : Nat} {h : Int} {lp : LP} {u : Nat} {o : Option LP}
    (hok : cancelLP L C h lp u = .ok o) :
    ∃ st, o = some { lp with unlocks := st } ∧ total st ≤ total lp.unlocks := by
  unfold cancelLP at hok
  cases hu : useUnlocked L h (prune L C h lp.unlocks) u true with
  | error e => rw [hu] at hok; cases hok
  | ok p =>
    obtain ⟨caller, st⟩ := p
    rw [hu] at hok
    simp only [Except.ok.injEq] at hok
    obtain ⟨_, hs, _, hle⟩ := useUnlocked_ok hu
    refine ⟨st, hok.symm, ?_⟩
    have := total_prune_le L C h lp.unlocks
    have := total_filter_nonzero caller
    rw [hs]; omega

end Sif.Proofs.C15
