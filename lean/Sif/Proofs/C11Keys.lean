import Sif.Model.Dispensation
/- order lemmas for `ltKey` and injectivity of the dispensation store keys (C11) -/
namespace Sif.Disp

/-! ### ltKey is a strict total order -/

theorem ltKey_irrefl (a : List Char) : ltKey a a = false := by
  induction a with
  | nil => rfl
  | cons x xs ih => simp [ltKey, ih]

theorem ltKey_trans {a b c : List Char} (h1 : ltKey a b = true) (h2 : ltKey b c = true) : ltKey a c = true := by
  induction a generalizing b c with
  | nil =>
    cases b with
    | nil => simp [ltKey] at h1
    | cons y ys =>
      cases c with
      | nil => simp [ltKey] at h2
      | cons z zs => simp [ltKey]
  | cons x xs ih =>
    cases b with
    | nil => simp [ltKey] at h1
    | cons y ys =>
      cases c with
      | nil => simp [ltKey] at h2
      | cons z zs =>
        simp only [ltKey] at h1 h2 ⊢
        by_cases hxy : x.toNat < y.toNat
        · by_cases hyz : y.toNat < z.toNat
          · have : x.toNat < z.toNat := by omega
            simp [this]
          · simp only [hyz, if_false] at h2
            by_cases hyz' : y.toNat = z.toNat
            · have : x.toNat < z.toNat := by omega
              simp [this]
            · simp [hyz'] at h2
        · simp only [hxy, if_false] at h1
          by_cases hxy' : x.toNat = y.toNat
          · simp only [hxy', if_true] at h1
            by_cases hyz : y.toNat < z.toNat
            · have : x.toNat < z.toNat := by omega
              simp [this]
            · simp only [hyz, if_false] at h2
              by_cases hyz' : y.toNat = z.toNat
              · simp only [hyz', if_true] at h2
                have h3 : ¬ x.toNat < z.toNat := by omega
                have h4 : x.toNat = z.toNat := by omega
                rw [if_neg h3, if_pos h4]
                exact ih h1 h2
              · simp [hyz'] at h2
          · simp [hxy'] at h1

theorem ltKey_total {a b : List Char} (hne : a ≠ b) (h : ltKey a b = false) : ltKey b a = true := by
  induction a generalizing b with
  | nil =>
    cases b with
    | nil => exact absurd rfl hne
    | cons y ys => simp [ltKey] at h
  | cons x xs ih =>
    cases b with
    | nil => simp [ltKey]
    | cons y ys =>
      simp only [ltKey] at h ⊢
      by_cases hxy : x.toNat < y.toNat
      · simp [hxy] at h
      · simp only [hxy, if_false] at h
        by_cases hxy' : x.toNat = y.toNat
        · simp only [hxy', if_true] at h
          have hc : x = y := Char.toNat_inj.mp hxy'
          subst hc
          have : xs ≠ ys := fun e => hne (by rw [e])
          simp [ih this h]
        · have : y.toNat < x.toNat := by omega
          simp [this]

theorem ltKey_ne {a b : List Char} (h : ltKey a b = true) : a ≠ b := by
  intro e; subst e; rw [ltKey_irrefl] at h; cases h

theorem ltKey_asymm {a b : List Char} (h : ltKey a b = true) : ltKey b a = false := by
  cases h' : ltKey b a with
  | false => rfl
  | true => have := ltKey_trans h h'; rw [ltKey_irrefl] at this; cases this

/-! ### key injectivity -/

/-- splitting at the last `_`: if neither tail contains `_`, the two parts agree -/
theorem split_last_underscore {a a' b b' : List Char}
    (hb : '_' ∉ b) (hb' : '_' ∉ b') (h : a ++ '_' :: b = a' ++ '_' :: b') : a = a' ∧ b = b' := by
  induction a generalizing a' with
  | nil =>
    cases a' with
    | nil => simp at h; exact ⟨rfl, h⟩
    | cons y ys =>
      simp at h
      obtain ⟨rfl, h⟩ := h
      exfalso; apply hb; rw [h]; simp
  | cons x xs ih =>
    cases a' with
    | nil =>
      simp at h
      obtain ⟨rfl, h⟩ := h
      exfalso; apply hb'; rw [← h]; simp
    | cons y ys =>
      simp at h
      obtain ⟨rfl, h⟩ := h
      obtain ⟨e1, e2⟩ := ih h
      exact ⟨by rw [e1], e2⟩

theorem digit_injective {t t' : DType} (h : t.digit = t'.digit) : t = t' := by
  cases t <;> cases t' <;> first | rfl | (simp [DType.digit] at h)

theorem digit_ne_underscore (t : DType) : t.digit ≠ '_' := by
  cases t <;> simp [DType.digit]

/-- `"%s_%d_%s"` is injective when the last component contains no `_` (a bech32 address) -/
theorem tripleKey_injective {n n' : List Char} {t t' : DType} {x x' : List Char}
    (hx : '_' ∉ x) (hx' : '_' ∉ x') (h : tripleKey n t x = tripleKey n' t' x') :
    n = n' ∧ t = t' ∧ x = x' := by
  unfold tripleKey at h
  have h1 : (n ++ ['_', t.digit]) ++ '_' :: x = (n' ++ ['_', t'.digit]) ++ '_' :: x' := by
    simpa using h
  obtain ⟨e1, e2⟩ := split_last_underscore hx hx' h1
  have hd : '_' ∉ [t.digit] := by simp; exact fun e => digit_ne_underscore t e.symm
  have hd' : '_' ∉ [t'.digit] := by simp; exact fun e => digit_ne_underscore t' e.symm
  obtain ⟨e3, e4⟩ := split_last_underscore hd hd' e1
  simp at e4
  exact ⟨e3, digit_injective e4, e2⟩

theorem claimKey_inj {u u' : Addr} {t t' : DType} (h : claimKey u t = claimKey u' t') : u = u' ∧ t = t' := by
  unfold claimKey at h
  have hd : '_' ∉ [t.digit] := by simp; exact fun e => digit_ne_underscore t e.symm
  have hd' : '_' ∉ [t'.digit] := by simp; exact fun e => digit_ne_underscore t' e.symm
  obtain ⟨e1, e2⟩ := split_last_underscore hd hd' h
  simp at e2
  exact ⟨e1, digit_injective e2⟩

end Sif.Disp
