import Sif.Proofs.C10Msgs
set_option exponentiation.threshold 400
/- C10 helper lemmas: the whole BeginBlocker, and histories of blocks. -/
namespace Sif.Proofs.C10
open Sif Sif.Hooks Sif.Validate Sif.Spec.C10

local notation "P" => Dec.P

/-- the BeginBlocker: no panic, both invariants for the next height -/
theorem beginBlock_ok (s : BState) (env : BEnv) (hlp : LpInv s.lp = true) (hpm : PmtpInvP s.pm env.h)
    (henv : EnvOKP s.pm env) (hpools : PoolsOKP env.pools) :
    ∃ o, beginBlock s env = .ok o ∧ LpInv o.st.lp = true ∧ PmtpInvP o.st.pm (env.h + 1) ∧
      o.st.lp.max = s.lp.max := by
  obtain ⟨lp', h1, h2, h3, _⟩ := lpUpdate_ok s.lp hlp
  obtain ⟨pm', r, h4, h5, h6⟩ := pmtpStep_ok s.pm env hpm henv
  obtain ⟨prices, h7⟩ := policyRun_ok env.pools r h6 hpools
  refine ⟨⟨⟨lp', pm'⟩, prices⟩, ?_, h2, h5, h3⟩
  unfold beginBlock
  simp only [h1, h4, h7, bind, Except.bind]
  rfl

/-! ### the hook never touches the policy parameters -/

structure SameParams (a b : Pmtp) : Prop where
  start : a.start = b.start
  end_ : a.end_ = b.end_
  epochLen : a.epochLen = b.epochLen
  gov : a.gov = b.gov

theorem SameParams.refl (a : Pmtp) : SameParams a a := ⟨rfl, rfl, rfl, rfl⟩
theorem SameParams.trans {a b c : Pmtp} (h1 : SameParams a b) (h2 : SameParams b c) : SameParams a c :=
  ⟨h1.1.trans h2.1, h1.2.trans h2.2, h1.3.trans h2.3, h1.4.trans h2.4⟩

theorem pmtpStep_params {pm pm' : Pmtp} {env : BEnv} {r : Dec} (h : pmtpStep pm env = .ok (pm', r)) :
    SameParams pm' pm := by
  unfold pmtpStep at h
  obtain ⟨pm1, e1, h⟩ := bind_ok h
  obtain ⟨pm2, e2, h⟩ := bind_ok h
  have s1 : SameParams pm1 pm := by
    unfold startIfDue at e1
    split_ifs at e1
    · unfold policyStart at e1
      obtain ⟨_, _, e1⟩ := bind_ok e1
      obtain ⟨_, _, e1⟩ := bind_ok e1
      split at e1
      · cases e1
      · cases e1; exact ⟨rfl, rfl, rfl, rfl⟩
    · cases e1; exact SameParams.refl _
  have s2 : SameParams pm2 pm1 := by
    unfold calcIfInside at e2
    split_ifs at e2
    · cases hc : policyCalc pm1 env.h with
      | error e => rw [hc] at e2; cases e2
      | ok v => rw [hc] at e2; cases e2; exact ⟨rfl, rfl, rfl, rfl⟩
    · cases e2; exact SameParams.refl _
  have s3 : SameParams (epochRoll pm2 env.h) pm2 := by
    obtain ⟨a, b, c, d, _⟩ := epochRoll_fields pm2 env.h
    exact ⟨a, b, c, d⟩
  have s4 : ∀ q : Pmtp, SameParams (endIfDue q env.h pm2.running) q := by
    intro q; unfold endIfDue; split_ifs <;> exact ⟨rfl, rfl, rfl, rfl⟩
  cases h
  exact ((s4 _).trans s3).trans (s2.trans s1)

theorem EnvOKP_congr {a b : Pmtp} (h : SameParams a b) (env : BEnv) : EnvOKP a env ↔ EnvOKP b env := by
  have hn : numBlocks a = numBlocks b := by unfold numBlocks; rw [h.start, h.end_]
  have he : numEpochs a = numEpochs b := by unfold numEpochs; rw [hn, h.epochLen]
  have hp : ∀ o, powRateOK a o ↔ powRateOK b o := by
    intro o; cases o with
    | none => exact Iff.rfl
    | some v => unfold powRateOK PowAccurateP; rw [hn, he, h.gov]
  unfold EnvOKP
  rw [h.start, hp]

theorem BlocksOKP_congr {a b : Pmtp} (h : SameParams a b) : ∀ (hh : Int) (bs : List (BEnv × Nat)), BlocksOKP a hh bs → BlocksOKP b hh bs := by
  intro hh bs
  induction bs generalizing hh with
  | nil => intro _; trivial
  | cons x xs ih =>
    intro hx
    obtain ⟨e, c⟩ := x
    obtain ⟨h1, h2, h3, h4⟩ := hx
    exact ⟨h1, (EnvOKP_congr h e).1 h2, h3, ih _ h4⟩

theorem userMove_inv (s : BState) (c : Nat) (h : LpInv s.lp = true) : LpInv (userMove s c).lp = true := by
  obtain ⟨a, _, d⟩ := (LpInv_iff s.lp).1 h
  rw [LpInv_iff]
  exact ⟨a, Nat.min_le_right _ _, d⟩

/-- any history of blocks inside the envelope runs to its end without a panic -/
theorem runBlocks_ok : ∀ (bs : List (BEnv × Nat)) (s : BState) (h : Int),
    LpInv s.lp = true → PmtpInvP s.pm h → BlocksOKP s.pm h bs → ∃ s', runBlocks s bs = .ok s' := by
  intro bs
  induction bs with
  | nil => intro s _ _ _ _; exact ⟨s, rfl⟩
  | cons x xs ih =>
    intro s h hlp hpm hb
    obtain ⟨e, c⟩ := x
    obtain ⟨h1, h2, h3, h4⟩ := hb
    subst h1
    obtain ⟨o, ho, hlp', hpm', _⟩ := beginBlock_ok s e hlp hpm h2 h3
    have hsame : SameParams o.st.pm s.pm := by
      unfold beginBlock at ho
      obtain ⟨_, _, ho⟩ := bind_ok ho
      obtain ⟨pr, hpr, ho⟩ := bind_ok ho
      obtain ⟨_, _, ho⟩ := bind_ok ho
      cases ho
      exact pmtpStep_params (r := pr.2) (by rw [hpr])
    have hb' : BlocksOKP (userMove o.st c).pm (e.h + 1) xs :=
      BlocksOKP_congr ⟨hsame.1.symm, hsame.2.symm, hsame.3.symm, hsame.4.symm⟩ _ _ h4
    obtain ⟨s', hs'⟩ := ih (userMove o.st c) (e.h + 1) (userMove_inv _ _ hlp') hpm' hb'
    exact ⟨s', by unfold runBlocks; rw [ho]; exact hs'⟩

end Sif.Proofs.C10
