import Sif.Proofs.C20Rewards
/- C20 (b): histories with edits of the reward-period list between blocks -/
namespace Sif.Rewards
open Sif Sif.Spec.C20

/-- one block, without any assumption on the period list beyond the envelope: per-block clause, and
    the accumulator bound for the next block *if the same period is still current then* -/
theorem endBlock_step {periods : List Period} (henv : inEnvelope periods = true)
    {h accu accu' m : Nat} (e : Env)
    (hinv : ∀ p, currentPeriod periods h = some p → p.alloc ≠ 0 → h ≠ p.start →
      accu ≤ share p * ((h - p.start - 1) % p.mod))
    (hr : endBlock true periods h accu e = .ok (accu', m)) :
    rewardsBlockOK (currentPeriod periods h) h m = true ∧ accuOK (currentPeriod periods h) (h + 1) accu' := by
  cases hc : currentPeriod periods h with
  | none =>
    rw [endBlock_idle_none true e hc] at hr
    cases hr
    exact ⟨by simp [rewardsBlockOK], fun q hq => by cases hq⟩
  | some p =>
    by_cases ha : p.alloc = 0
    · rw [endBlock_idle_zero true e hc ha] at hr
      cases hr
      refine ⟨by simp [rewardsBlockOK, ha], ?_⟩
      intro q hq hqa _
      cases hq
      exact absurd ha hqa
    · have hok := curOK_of_current henv hc
      have hf := endBlock_ok_form true e hc hok ha hr
      have hm1 := hok.m1
      have hlo := hok.lo
      simp only [rewardsBlockOK, ha, if_false, decide_eq_true_eq]
      by_cases hstart : h = p.start
      · have hai : accuIn true p h accu = 0 := by simp [accuIn, hstart]
        have hz : (h - p.start) % p.mod = 0 := by rw [hstart]; simp
        rw [hai, hz] at hf
        simp only [decide_true, finish, Nat.zero_add] at hf
        cases hf
        refine ⟨?_, fun q _ _ _ => Nat.zero_le _⟩
        have key : blockBound p h = share p := by
          unfold blockBound; rw [if_neg (by simp [hz]), if_pos hstart]
        rw [key]
        exact distribute_le _ _
      · have hai : accuIn true p h accu = accu := by
          simp only [accuIn, Bool.true_and, beq_iff_eq, hstart, if_false]
        have hacc := hinv p hc ha hstart
        have hgt : 1 ≤ h - p.start := by omega
        rw [hai] at hf
        by_cases hz : (h - p.start) % p.mod = 0
        · rw [hz] at hf
          simp only [decide_true, finish] at hf
          cases hf
          refine ⟨?_, fun q _ _ _ => Nat.zero_le _⟩
          unfold blockBound
          simp only [hz, ne_eq, not_true_eq_false, if_false, hstart]
          have h1 := distribute_le (accu + share p) e
          have h2 : (h - p.start - 1) % p.mod + 1 ≤ p.mod := Nat.mod_lt _ (by omega)
          have h3 : share p * ((h - p.start - 1) % p.mod) + share p ≤ share p * p.mod := by
            have := Nat.mul_le_mul_left (share p) h2
            rw [Nat.mul_add, Nat.mul_one] at this
            exact this
          omega
        · simp only [hz, decide_false, finish] at hf
          cases hf
          refine ⟨by unfold blockBound; simp [hz], ?_⟩
          intro q hq hqa hne
          cases hq
          have e1 : h + 1 - p.start - 1 = h - p.start := by omega
          rw [e1]
          have := mod_pred (by omega : 0 < p.mod) hgt hz
          have h3 : share p * ((h - p.start - 1) % p.mod) + share p = share p * ((h - p.start) % p.mod) := by
            rw [← this, Nat.mul_add, Nat.mul_one]
          omega

theorem runSteps_block {fix : Bool} {ps : List Period} {h accu : Nat} {e : Env} {r : List Step} {a : Nat}
    {tr : List BlockObs} (hr : runSteps fix ps h accu (.block e :: r) = .ok (a, tr)) :
    ∃ accu' m tr', endBlock fix ps h accu e = .ok (accu', m) ∧
      runSteps fix ps (h + 1) accu' r = .ok (a, tr') ∧ tr = (h, currentPeriod ps h, m) :: tr' := by
  simp only [runSteps] at hr
  cases h1 : endBlock fix ps h accu e with
  | error x => rw [h1] at hr; cases hr
  | ok p =>
    obtain ⟨accu', m⟩ := p
    rw [h1] at hr
    simp only at hr
    cases h2 : runSteps fix ps (h + 1) accu' r with
    | error x => rw [h2] at hr; cases hr
    | ok p2 =>
      obtain ⟨a2, tr'⟩ := p2
      rw [h2] at hr
      simp only at hr
      cases hr
      exact ⟨accu', m, tr', rfl, h2, rfl⟩

/-- what the clean-switch condition says about one block -/
theorem clean_block {prev : Option Period} {ps : List Period} {h : Nat} {e : Env} {r : List Step}
    (hc : cleanSwitches prev ps h (.block e :: r) = true) :
    (∀ q, currentPeriod ps h = some q → q.alloc ≠ 0 → h ≠ q.start → prev = some q) ∧
    cleanSwitches (currentPeriod ps h) ps (h + 1) r = true := by
  simp only [cleanSwitches, Bool.and_eq_true] at hc
  refine ⟨?_, hc.2⟩
  intro q hq ha hs
  have h1 := hc.1
  rw [hq] at h1
  simp only [Bool.or_eq_true, decide_eq_true_eq] at h1
  rcases h1 with (h1 | h1) | h1
  · exact absurd h1 ha
  · exact absurd h1 hs
  · exact h1

/-- per-block clause along every history of edits and blocks with clean switches -/
theorem steps_blocks_ok :
    ∀ (steps : List Step) (prev : Option Period) (ps : List Period) (h accu a : Nat) (tr : List BlockObs),
      stepsEnv ps steps = true → cleanSwitches prev ps h steps = true → accuOK prev h accu →
      runSteps true ps h accu steps = .ok (a, tr) → traceBlocksOK tr = true := by
  intro steps
  induction steps with
  | nil => intro prev ps h accu a tr _ _ _ hr; simp only [runSteps] at hr; cases hr; rfl
  | cons st r ih =>
    intro prev ps h accu a tr henv hcl hinv hr
    cases st with
    | edit ps' =>
      simp only [runSteps] at hr
      simp only [stepsEnv] at henv
      simp only [cleanSwitches] at hcl
      exact ih prev ps' h accu a tr henv hcl hinv hr
    | block e =>
      obtain ⟨accu', m, tr', h1, h2, rfl⟩ := runSteps_block hr
      simp only [stepsEnv, Bool.and_eq_true] at henv
      obtain ⟨hsw, hcl'⟩ := clean_block hcl
      have hinv' : ∀ p, currentPeriod ps h = some p → p.alloc ≠ 0 → h ≠ p.start →
          accu ≤ share p * ((h - p.start - 1) % p.mod) :=
        fun p hp ha hs => hinv p (hsw p hp ha hs) ha hs
      obtain ⟨hb, hnext⟩ := endBlock_step henv.1 e hinv' h1
      simp only [traceBlocksOK, hb, Bool.true_and]
      exact ih (currentPeriod ps h) ps (h + 1) accu' a tr' henv.2 hcl' hnext h2

/-- what period `q` may still create from height `h` on (`prev` = current period of the previous block) -/
def budgetE (q : Period) (prev : Option Period) (h accu : Nat) : Nat :=
  if h ≤ q.start then share q * (q.stop - q.start + 1)
  else if prev = some q ∧ h ≤ q.stop then share q * (q.stop + 1 - h) + accu
  else 0

theorem steps_budget (q : Period) (hqa : q.alloc ≠ 0) :
    ∀ (steps : List Step) (prev : Option Period) (ps : List Period) (h accu a : Nat) (tr : List BlockObs),
      stepsEnv ps steps = true → cleanSwitches prev ps h steps = true →
      runSteps true ps h accu steps = .ok (a, tr) → sumFor q tr ≤ budgetE q prev h accu := by
  intro steps
  induction steps with
  | nil => intro prev ps h accu a tr _ _ hr; simp only [runSteps] at hr; cases hr; simp [sumFor]
  | cons st r ih =>
    intro prev ps h accu a tr henv hcl hr
    cases st with
    | edit ps' =>
      simp only [runSteps] at hr
      simp only [stepsEnv] at henv
      simp only [cleanSwitches] at hcl
      exact ih prev ps' h accu a tr henv hcl hr
    | block e =>
      obtain ⟨accu', m, tr', h1, h2, rfl⟩ := runSteps_block hr
      simp only [stepsEnv, Bool.and_eq_true] at henv
      obtain ⟨hsw, hcl'⟩ := clean_block hcl
      have hih := ih (currentPeriod ps h) ps (h + 1) accu' a tr' henv.2 hcl' h2
      simp only [sumFor]
      by_cases hcur : currentPeriod ps h = some q
      · -- q is the current period of this block
        have hok := curOK_of_current henv.1 hcur
        have hf := endBlock_ok_form true e hcur hok hqa h1
        have hlo := hok.lo
        have hhi := hok.hi
        rw [hcur] at hih
        simp only [hcur, if_true]
        by_cases hstart : h = q.start
        · have hai : accuIn true q h accu = 0 := by simp [accuIn, hstart]
          have hz : (h - q.start) % q.mod = 0 := by rw [hstart]; simp
          rw [hai, hz] at hf
          simp only [decide_true, finish, Nat.zero_add] at hf
          cases hf
          have hm := distribute_le (share q) e
          unfold budgetE at hih ⊢
          rw [if_pos (by omega)]
          rw [if_neg (by omega)] at hih
          have hmul : share q * (q.stop - q.start + 1) = share q * (q.stop - q.start) + share q := Nat.mul_succ _ _
          split at hih
          · have e' : q.stop + 1 - (h + 1) = q.stop - q.start := by omega
            rw [e'] at hih
            omega
          · omega
        · have hprev := hsw q hcur hqa hstart
          have hai : accuIn true q h accu = accu := by
            simp only [accuIn, Bool.true_and, beq_iff_eq, hstart, if_false]
          rw [hai] at hf
          unfold budgetE at hih ⊢
          rw [if_neg (by omega), if_pos ⟨hprev, hhi⟩]
          rw [if_neg (by omega)] at hih
          have hmul : share q * (q.stop + 1 - h) = share q * (q.stop - h) + share q := by
            have : q.stop + 1 - h = (q.stop - h) + 1 := by omega
            rw [this]; exact Nat.mul_succ _ _
          by_cases hz : (h - q.start) % q.mod = 0
          · rw [hz] at hf
            simp only [decide_true, finish] at hf
            cases hf
            have hm := distribute_le (accu + share q) e
            split at hih
            · have e' : q.stop + 1 - (h + 1) = q.stop - h := by omega
              rw [e'] at hih
              omega
            · omega
          · simp only [hz, decide_false, finish] at hf
            cases hf
            split at hih
            · have e' : q.stop + 1 - (h + 1) = q.stop - h := by omega
              rw [e'] at hih
              omega
            · omega
      · simp only [hcur, if_false, Nat.zero_add]
        unfold budgetE at hih ⊢
        by_cases hlt : h + 1 ≤ q.start
        · rw [if_pos hlt] at hih
          rw [if_pos (by omega)]
          exact hih
        · rw [if_neg hlt] at hih
          have : ¬ (currentPeriod ps h = some q ∧ h + 1 ≤ q.stop) := fun c => hcur c.1
          rw [if_neg this] at hih
          omega

end Sif.Rewards
