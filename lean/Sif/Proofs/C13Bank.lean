import Sif.Proofs.C13Run
/-
  C13 helper lemmas, part 8: which bank accounts a step can touch, and that parameters, roles and
  height are left alone (needed for "moves value only between position, pool, trader and fund
  address" and for the liquidation-only-when-unhealthy theorem of the hook).
-/
namespace Sif.Margin
open Sif Sif.Spec.C13

/-- parameters, clp parameters, roles, height and the blocked set are unchanged; only the accounts
    in `L` may have different balances -/
structure Moves (L : List Addr) (s s' : State) : Prop where
  params : s'.params = s.params
  clp : s'.clp = s.clp
  height : s'.height = s.height
  admins : s'.admins = s.admins
  blocked : s'.bank.blocked = s.bank.blocked
  bal : ∀ a d, a ∉ L → s'.bank.bal a d = s.bank.bal a d

theorem Moves.refl (L : List Addr) (s : State) : Moves L s s := ⟨rfl, rfl, rfl, rfl, rfl, fun _ _ _ => rfl⟩
theorem Moves.trans {L : List Addr} {a b c : State} (h1 : Moves L a b) (h2 : Moves L b c) : Moves L a c :=
  ⟨h2.params.trans h1.params, h2.clp.trans h1.clp, h2.height.trans h1.height, h2.admins.trans h1.admins,
   h2.blocked.trans h1.blocked, fun x d hx => (h2.bal x d hx).trans (h1.bal x d hx)⟩

theorem Moves.epoch {L : List Addr} {s s' : State} (h : Moves L s s') : s'.epochPosition = s.epochPosition := by
  unfold State.epochPosition; rw [h.params, h.height]

/-! ### bank -/

theorem send_only {b b' : Bank} {src dst : Addr} {d : Asset} {amt : Nat} (h : b.send src dst d amt = .ok b') :
    b'.blocked = b.blocked ∧ ∀ a d', a ≠ src → a ≠ dst → b'.bal a d' = b.bal a d' := by
  unfold Bank.send at h
  split at h
  · simp at h; rw [← h]; exact ⟨rfl, fun _ _ _ _ => rfl⟩
  · split at h
    · simp at h
    · simp at h; rw [← h]
      refine ⟨rfl, ?_⟩
      intro a d' h1 h2
      simp [Bank.setBal, h1, h2]

/-- a transfer of a non-zero amount takes exactly `amt` of `d` from `src` and gives it to `dst` -/
theorem send_exact {b b' : Bank} {src dst : Addr} {d : Asset} {amt : Nat} (hne : src ≠ dst) (h : b.send src dst d amt = .ok b') :
    b'.bal src d + amt = b.bal src d ∧ b'.bal dst d = b.bal dst d + amt ∧
    (∀ d', d' ≠ d → b'.bal src d' = b.bal src d' ∧ b'.bal dst d' = b.bal dst d') := by
  unfold Bank.send at h
  split at h
  · rename_i h0; simp at h; rw [← h, h0]; exact ⟨rfl, rfl, fun _ _ => ⟨rfl, rfl⟩⟩
  · split at h
    · simp at h
    · rename_i h1 h2
      simp at h; rw [← h]
      have hne' : ¬ dst = src := fun h => hne h.symm
      refine ⟨?_, ?_, ?_⟩
      · simp [Bank.setBal, hne]; omega
      · simp [Bank.setBal, hne']
      · intro d' hd; simp [Bank.setBal, hd]

theorem ofBank_ok {α} {x : Except BankErr α} {a : α} (h : ofBank x = .ok a) : x = .ok a := by
  cases x with
  | ok b => simp [ofBank] at h; rw [h]
  | error e => cases e <;> simp [ofBank] at h

theorem modToAcc_only {b b' : Bank} {mod dst : Addr} {d : Asset} {amt : Nat} (h : b.modToAcc mod dst d amt = .ok b') :
    b'.blocked = b.blocked ∧ ∀ a d', a ≠ mod → a ≠ dst → b'.bal a d' = b.bal a d' := by
  unfold Bank.modToAcc at h
  split at h
  · simp at h
  · exact send_only h

/-- a bank change confined to accounts of `L` -/
theorem Moves.ofBank {L : List Addr} {s : State} {bank : Bank} (hb : bank.blocked = s.bank.blocked)
    (h : ∀ a d, a ∉ L → bank.bal a d = s.bank.bal a d) : Moves L s { s with bank := bank } :=
  ⟨rfl, rfl, rfl, rfl, hb, h⟩

/-- the accounts a margin step may touch are in `L` -/
structure Acc (L : List Addr) (w : W) : Prop where
  clp : w.s.clp.clpAddr ∈ L
  trader : w.mtp.addr ∈ L
  fc : w.s.params.fcAddr ∈ L
  iip : w.s.params.iipAddr ∈ L

theorem Acc.step {L : List Addr} {w w' : W} (ha : Acc L w) (hm : Moves L w.s w'.s) (hd : w'.mtp.addr = w.mtp.addr) : Acc L w' :=
  ⟨by rw [hm.clp]; exact ha.clp, by rw [hd]; exact ha.trader, by rw [hm.params]; exact ha.fc, by rw [hm.params]; exact ha.iip⟩

theorem not_mem_ne {L : List Addr} {a x : Addr} (hx : x ∈ L) (ha : a ∉ L) : a ≠ x := fun h => ha (h ▸ hx)

theorem takeFundPayment_moves {L : List Addr} {w : W} {amount : Nat} {asset : Asset} {pct : Dec} {fund : Addr} {r : Nat × W}
    (hclp : w.s.clp.clpAddr ∈ L) (hfund : fund ∈ L) (h : takeFundPayment w amount asset pct fund = .ok r) :
    Moves L w.s r.2.s ∧ r.2.mtp = w.mtp ∧ r.2.pool = w.pool := by
  unfold takeFundPayment at h
  obtain ⟨fund', hf, h⟩ := bind_ok h
  obtain ⟨take, _, h⟩ := bind_ok h
  obtain ⟨bank, hb, h⟩ := bind_ok h
  have h := pure_ok h
  rw [← h]
  refine ⟨?_, rfl, rfl⟩
  have hfe : fund' = fund := by
    have := liftM_ok hf; unfold fundAddress at this; split at this <;> simp at this; exact this.symm
  subst hfe
  have hb := ofBank_ok (liftE_ok hb)
  split at hb
  · simp at hb; rw [← hb]; exact Moves.refl _ _
  · obtain ⟨h1, h2⟩ := modToAcc_only hb
    exact Moves.ofBank h1 (fun a d ha => h2 a d (not_mem_ne hclp ha) (not_mem_ne hfund ha))

theorem takeFundPayment_err_moves {w w' : W} {amount : Nat} {asset : Asset} {pct : Dec} {fund : Addr} {e : Err}
    (h : takeFundPayment w amount asset pct fund = .error (e, w')) : w' = w := takeFundPayment_err h

end Sif.Margin

namespace Sif.Margin
open Sif Sif.Spec.C13

theorem Moves.mtps {L : List Addr} (s : State) (ms : List Mtp) : Moves L s { s with mtps := ms } := ⟨rfl, rfl, rfl, rfl, rfl, fun _ _ _ => rfl⟩
theorem Moves.setPool {L : List Addr} (s : State) (p : Pool) : Moves L s (s.setPool p) := ⟨rfl, rfl, rfl, rfl, rfl, fun _ _ _ => rfl⟩

theorem iipBody_moves_ok {L : List Addr} {w : W} {interest : Nat} {r : Nat × W} (ha : Acc L w) (hid : w.mtp.id ≠ 0)
    (h : iipBody w interest = .ok r) :
    Moves L w.s r.2.s ∧ r.2.mtp.addr = w.mtp.addr ∧ r.2.mtp.health = w.mtp.health := by
  unfold iipBody at h
  obtain ⟨ip, _, h⟩ := bind_ok h
  obtain ⟨ipc, _, h⟩ := bind_ok h
  obtain ⟨e, he, h⟩ := bind_ok h
  obtain ⟨pc, _, h⟩ := bind_ok h
  obtain ⟨pk, _, h⟩ := bind_ok h
  obtain ⟨cu, _, h⟩ := bind_ok h
  obtain ⟨tw, htw, h⟩ := bind_ok h
  obtain ⟨actual, _, h⟩ := bind_ok h
  obtain ⟨c, _, h⟩ := bind_ok h
  obtain ⟨b, _, h⟩ := bind_ok h
  obtain ⟨w9, hw9, h⟩ := bind_ok h
  have h := pure_ok h
  obtain ⟨u, hu⟩ := iipEdge_ok he
  have hm := takeFundPayment_moves (L := L) (by rw [hu]; exact ha.clp) (by rw [hu]; exact ha.iip) htw
  obtain ⟨hm1, hm2, hm3⟩ := hm
  have hw9' := storeMtp_ok_old (by rw [hm2, hu]; exact hid) hw9
  rw [← h, hw9']
  refine ⟨?_, ?_, ?_⟩
  · simp only [storePool_pool]
    rw [hu] at hm1
    exact hm1.trans ((Moves.mtps _ _).trans (Moves.setPool _ _))
  · simp only [storePool_mtp]; rw [hm2, hu]
  · simp only [storePool_mtp]; rw [hm2, hu]

theorem iipBody_moves_err {L : List Addr} {w w' : W} {interest : Nat} {e : Err} (ha : Acc L w) (hid : w.mtp.id ≠ 0)
    (h : iipBody w interest = .error (e, w')) : Moves L w.s w'.s := by
  unfold iipBody at h
  rcases bind_err h with h | ⟨ip, _, h⟩
  · rw [liftM_err h]; exact Moves.refl _ _
  rcases bind_err h with h | ⟨ipc, _, h⟩
  · rw [(liftE_err h).1]; exact Moves.refl _ _
  rcases bind_err h with h | ⟨e1, he, h⟩
  · rw [iipEdge_err h]; exact Moves.refl _ _
  obtain ⟨u, hu⟩ := iipEdge_ok he
  rcases bind_err h with h | ⟨pc, _, h⟩
  · rw [liftM_err h, hu]; exact Moves.refl _ _
  rcases bind_err h with h | ⟨pk, _, h⟩
  · rw [liftM_err h, hu]; exact Moves.refl _ _
  rcases bind_err h with h | ⟨cu, _, h⟩
  · rw [liftM_err h, hu]; exact Moves.refl _ _
  rcases bind_err h with h | ⟨tw, htw, h⟩
  · rw [takeFundPayment_err h, hu]; exact Moves.refl _ _
  obtain ⟨hm1, hm2, hm3⟩ := takeFundPayment_moves (L := L) (by rw [hu]; exact ha.clp) (by rw [hu]; exact ha.iip) htw
  rw [hu] at hm1
  rcases bind_err h with h | ⟨actual, _, h⟩
  · rw [liftM_err h]; exact hm1
  rcases bind_err h with h | ⟨c, _, h⟩
  · rw [liftM_err h]; exact hm1
  rcases bind_err h with h | ⟨b, _, h⟩
  · rw [liftM_err h]; exact hm1
  rcases bind_err h with h | ⟨w9, _, h⟩
  · have := storeMtp_err_eq (by rw [hm2, hu]; exact hid) h
    rw [this]; exact hm1
  · simp [pure, Except.pure] at h

/-- `HandleInterestPayment` (repaired code): on success the position keeps address and recorded health -/
theorem handleInterestPayment_moves {fx : Fixes} (hfx : fx.iipCopy = true) {L : List Addr} {w : W} {interest : Nat} {r : Nat × W}
    (ha : Acc L w) (hid : w.mtp.id ≠ 0) (h : handleInterestPayment fx w interest = .ok r) :
    Moves L w.s r.2.s ∧ r.2.mtp.addr = w.mtp.addr ∧ r.2.mtp.health = w.mtp.health := by
  unfold handleInterestPayment incrementalInterestPayment at h
  split at h
  · cases hb : iipBody w interest with
    | ok r' => rw [hb] at h; simp at h; rw [← h]; exact iipBody_moves_ok ha hid hb
    | error ew =>
      obtain ⟨e, w'⟩ := ew
      rw [hb] at h; simp only [hfx, if_true] at h
      split at h
      · simp at h
      · simp at h; rw [← h]
        have hm : Moves L w.s w'.s := iipBody_moves_err ha hid hb
        exact ⟨hm, rfl, rfl⟩
  · simp at h; rw [← h]; exact ⟨Moves.refl _ _, rfl, rfl⟩

theorem addBlockInterest_moves {w w' : W} {fin : Nat} (h : addBlockInterest w fin = .ok w') :
    w'.s = w.s ∧ w'.mtp = w.mtp := by
  obtain ⟨a, b, _⟩ := addBlockInterest_ok h
  exact ⟨a, b⟩

theorem interestBlock_moves {fx : Fixes} (hfx : fx.iipCopy = true) {L : List Addr} {w w' : W} (ha : Acc L w) (hid : w.mtp.id ≠ 0)
    (h : interestBlock fx w = .ok w') : Moves L w.s w'.s ∧ w'.mtp.addr = w.mtp.addr ∧ (w.s.epochPosition = 0 → w' = w) := by
  unfold interestBlock at h
  split at h
  · rename_i hpos
    obtain ⟨ip, _, h⟩ := bind_ok h
    obtain ⟨fw, hfw, h⟩ := bind_ok h
    obtain ⟨w1, hw1, h⟩ := bind_ok h
    obtain ⟨hh, _, h⟩ := bind_ok h
    have h := pure_ok h
    obtain ⟨m1, a1, _⟩ := handleInterestPayment_moves hfx ha hid hfw
    obtain ⟨s2, m2⟩ := addBlockInterest_moves hw1
    rw [← h]
    refine ⟨by simp only []; rw [s2]; exact m1, by simp only []; rw [m2]; exact a1, ?_⟩
    intro h0; rw [h0] at hpos; simp at hpos
  · simp at h; rw [← h]; exact ⟨Moves.refl _ _, rfl, fun _ => rfl⟩

theorem repayPayout_moves {L : List Addr} {w w' : W} {ret : Nat} {tf : Bool} (ha : Acc L w) (h : repayPayout w ret tf = .ok w') :
    Moves L w.s w'.s ∧ w'.mtp = w.mtp ∧ w'.pool = w.pool := by
  unfold repayPayout at h
  split at h
  · simp at h; rw [← h]; exact ⟨Moves.refl _ _, rfl, rfl⟩
  · obtain ⟨tw, htw, h⟩ := bind_ok h
    obtain ⟨actual, _, h⟩ := bind_ok h
    obtain ⟨bank, hb, h⟩ := bind_ok h
    have h := pure_ok h
    have htw' : Moves L w.s tw.2.s ∧ tw.2.mtp = w.mtp ∧ tw.2.pool = w.pool := by
      by_cases htf : tf = true
      · simp only [htf, if_true] at htw
        exact takeFundPayment_moves ha.clp ha.fc htw
      · simp only [htf] at htw
        have := pure_ok htw
        rw [← this]; exact ⟨Moves.refl _ _, rfl, rfl⟩
    obtain ⟨m1, e1, e2⟩ := htw'
    have hb := ofBank_ok (liftE_ok hb)
    rw [← h]
    refine ⟨?_, e1, e2⟩
    simp only []
    split at hb
    · simp at hb; rw [← hb]; exact m1
    · obtain ⟨h1, h2⟩ := modToAcc_only hb
      refine m1.trans (Moves.ofBank h1 (fun a d hna => h2 a d ?_ ?_))
      · rw [m1.clp]; exact not_mem_ne ha.clp hna
      · rw [e1]; exact not_mem_ne ha.trader hna

theorem closeTail_moves {L : List Addr} {w w' : W} {tf : Bool} {r : Nat} (ha : Acc L w) (h : closeTail w tf = .ok (r, w')) :
    Moves L w.s w'.s := by
  unfold closeTail at h
  obtain ⟨w1, hw1, h⟩ := bind_ok h
  obtain ⟨ra, _, h⟩ := bind_ok h
  obtain ⟨w2, hw2, h⟩ := bind_ok h
  have h := pure_ok h
  simp at h
  obtain ⟨_, rfl⟩ := h
  obtain ⟨c, b, _, rfl⟩ := takeOutCustody_ok hw1
  -- Repay
  unfold repay at hw2
  obtain ⟨hh, _, hw2⟩ := bind_ok hw2
  obtain ⟨_, _, hw2⟩ := bind_ok hw2
  obtain ⟨w3, hw3, hw2⟩ := bind_ok hw2
  obtain ⟨b2, _, hw2⟩ := bind_ok hw2
  obtain ⟨l, _, hw2⟩ := bind_ok hw2
  obtain ⟨u1, _, hw2⟩ := bind_ok hw2
  obtain ⟨u2, _, hw2⟩ := bind_ok hw2
  obtain ⟨s5, hs5, hw2⟩ := bind_ok hw2
  have hw2 := pure_ok hw2
  have ha1 : Acc L ({ ({ w with pool := (w.pool.setCust (isNative w.mtp.cust) c).setBal (isNative w.mtp.cust) b } : W).storePool with
      mtp := { w.mtp with health := hh } } : W) := ⟨ha.clp, ha.trader, ha.fc, ha.iip⟩
  obtain ⟨m3, e3, _⟩ := repayPayout_moves ha1 hw3
  have hs5' := liftE_ok hs5
  unfold State.destroyMtp at hs5'
  simp only [] at hs5'
  split at hs5'
  · simp at hs5'
  · simp at hs5'
    rw [← hw2, ← hs5']
    simp only [storePool_pool]
    have m0 : Moves L w.s (({ w with pool := (w.pool.setCust (isNative w.mtp.cust) c).setBal (isNative w.mtp.cust) b } : W).storePool).s :=
      Moves.setPool _ _
    refine (m0.trans m3).trans ?_
    exact ⟨rfl, rfl, rfl, rfl, rfl, fun _ _ _ => rfl⟩

end Sif.Margin

namespace Sif.Margin
open Sif Sif.Spec.C13

/-- `ForceCloseLong`: bank locality, and what the health gate saw -/
theorem forceCloseLong_moves {fx : Fixes} (hfx : fx.iipCopy = true) {L : List Addr} {w w' : W} {a t : Bool} {r : Nat}
    (ha : Acc L w) (hid : w.mtp.id ≠ 0) (h : forceCloseLong fx w a t = .ok (r, w')) :
    Moves L w.s w'.s ∧
    (w.s.epochPosition = 0 → a = false → ¬ (w.mtp.health > w.s.params.safetyFactor)) := by
  unfold forceCloseLong at h
  obtain ⟨w1, hw1, h⟩ := bind_ok h
  obtain ⟨_, hgate, h⟩ := bind_ok h
  obtain ⟨m1, a1, e1⟩ := interestBlock_moves hfx ha hid hw1
  have ha1 : Acc L w1 := ha.step m1 a1
  have m2 := closeTail_moves ha1 h
  refine ⟨m1.trans m2, ?_⟩
  intro h0 hfalse
  have := e1 h0
  subst this
  have hg := ensure_ok (liftE_ok hgate)
  rw [hfalse] at hg
  simpa using hg

theorem closeMsg_moves {fx : Fixes} (hfx : fx.iipCopy = true) {s : State} {a : Addr} {id : Nat} {r : Nat × W}
    (hok : OKp s) (hwf : WFp s) (h : closeMsg fx s a id = .ok r) :
    Moves [s.clp.clpAddr, a, s.params.fcAddr, s.params.iipAddr] s r.2.s := by
  unfold closeMsg at h
  obtain ⟨m, hm, h⟩ := bind_ok h
  obtain ⟨_, _, h⟩ := bind_ok h
  obtain ⟨p, hp, h⟩ := bind_ok h
  have h := dropW_ok h
  obtain ⟨w1, hw1, h⟩ := bind_ok h
  obtain ⟨hg, hk⟩ := Good.of_lookup hok hwf hm hp
  have haddr : m.addr = a := by unfold Mtp.key at hk; exact (Prod.mk.inj hk).1
  have ha : Acc [s.clp.clpAddr, a, s.params.fcAddr, s.params.iipAddr] ({ s := s, pool := p, mtp := m } : W) :=
    ⟨by simp, by simp [haddr], by simp, by simp⟩
  obtain ⟨m1, a1, _⟩ := interestBlock_moves hfx ha hg.id_ne_zero hw1
  obtain ⟨r1, r2⟩ := r
  exact m1.trans (closeTail_moves (ha.step m1 a1) h)

theorem adminCloseMsg_moves {fx : Fixes} (hfx : fx.iipCopy = true) {s : State} {sg a : Addr} {id : Nat} {t : Bool} {r : Nat × W}
    (hok : OKp s) (hwf : WFp s) (h : adminCloseMsg fx s sg a id t = .ok r) :
    Moves [s.clp.clpAddr, a, s.params.fcAddr, s.params.iipAddr] s r.2.s := by
  unfold adminCloseMsg at h
  obtain ⟨_, _, h⟩ := bind_ok h
  obtain ⟨m, hm, h⟩ := bind_ok h
  obtain ⟨_, _, h⟩ := bind_ok h
  obtain ⟨p, hp, h⟩ := bind_ok h
  have h := dropW_ok h
  obtain ⟨hg, hk⟩ := Good.of_lookup hok hwf hm hp
  have haddr : m.addr = a := by unfold Mtp.key at hk; exact (Prod.mk.inj hk).1
  have ha : Acc [s.clp.clpAddr, a, s.params.fcAddr, s.params.iipAddr] ({ s := s, pool := p, mtp := m } : W) :=
    ⟨by simp, by simp [haddr], by simp, by simp⟩
  obtain ⟨r1, r2⟩ := r
  exact (forceCloseLong_moves hfx ha hg.id_ne_zero h).1

/-- `Open`: the only bank effect is the transfer of the collateral from the signer to the clp module -/
theorem openMsg_bank {fx : Fixes} {s : State} {msg : MsgOpen} {w : W} (h : openMsg fx s msg = .ok w) :
    s.bank.accToMod msg.signer s.clp.clpAddr msg.coll msg.collAmt = .ok w.s.bank := by
  unfold openMsg at h
  obtain ⟨_, _, h⟩ := bind_ok h
  obtain ⟨_, _, h⟩ := bind_ok h
  obtain ⟨_, _, h⟩ := bind_ok h
  obtain ⟨_, _, h⟩ := bind_ok h
  obtain ⟨_, _, h⟩ := bind_ok h
  obtain ⟨_, _, h⟩ := bind_ok h
  unfold openLong at h
  obtain ⟨eta, _, h⟩ := bind_ok h
  obtain ⟨_, _, h⟩ := bind_ok h
  obtain ⟨pool, _, h⟩ := bind_ok h
  obtain ⟨_, _, h⟩ := bind_ok h
  obtain ⟨levDec, _, h⟩ := bind_ok h
  obtain ⟨levAmt, _, h⟩ := bind_ok h
  obtain ⟨_, _, h⟩ := bind_ok h
  obtain ⟨_, _, h⟩ := bind_ok h
  obtain ⟨custody, _, h⟩ := bind_ok h
  obtain ⟨_, _, h⟩ := bind_ok h
  obtain ⟨_, _, h⟩ := bind_ok h
  have h := dropW_ok h
  unfold openWrites at h
  obtain ⟨w1, hw1, h⟩ := bind_ok h
  obtain ⟨w2, hw2, h⟩ := bind_ok h
  obtain ⟨w3, hw3, h⟩ := bind_ok h
  obtain ⟨lr, _, h⟩ := bind_ok h
  obtain ⟨_, _, h⟩ := bind_ok h
  have h := pure_ok h
  subst h
  obtain ⟨hh, rfl⟩ := updatePoolHealth_ok hw2
  obtain ⟨c3, b3, _, rfl⟩ := takeInCustody_ok hw3
  -- Borrow
  unfold borrow at hw1
  obtain ⟨_, _, hw1⟩ := bind_ok hw1
  obtain ⟨liabDec, _, hw1⟩ := bind_ok hw1
  obtain ⟨c1, _, hw1⟩ := bind_ok hw1
  obtain ⟨la, _, hw1⟩ := bind_ok hw1
  obtain ⟨l1, _, hw1⟩ := bind_ok hw1
  obtain ⟨cu, _, hw1⟩ := bind_ok hw1
  obtain ⟨lev, _, hw1⟩ := bind_ok hw1
  obtain ⟨hlt, _, hw1⟩ := bind_ok hw1
  obtain ⟨bank, hbank, hw1⟩ := bind_ok hw1
  obtain ⟨b, _, hw1⟩ := bind_ok hw1
  obtain ⟨l, _, hw1⟩ := bind_ok hw1
  have hb := ofBank_ok (liftE_ok hbank)
  have h' := storeMtp_ok_new (by rfl) hw1
  simp only [] at h'
  rw [h']
  simp only [storePool_pool, storePool_mtp, newMtp] at hb ⊢
  exact hb

end Sif.Margin

namespace Sif.Margin
open Sif Sif.Spec.C13

theorem Good.present {w : W} (hg : Good w) {k : Key} (hk : w.mtp.key = k) : getMtpL w.s.mtps k ≠ none := by
  obtain ⟨m0, hm0, _⟩ := hg.mtp
  rw [← hk, hm0]; simp

theorem storeMtpIgnore_spec {w : W} (hg : Good w) :
    Good (storeMtpIgnore w) ∧ (storeMtpIgnore w).mtp = w.mtp ∧ (storeMtpIgnore w).s.params = w.s.params ∧
      (storeMtpIgnore w).s.height = w.s.height := by
  unfold storeMtpIgnore
  cases hs : w.storeMtp with
  | ok w' =>
    have h' := storeMtp_ok_old hg.id_ne_zero hs
    obtain ⟨g, _, m, _⟩ := storeMtp_good hg hs
    simp only []
    exact ⟨g, m, by rw [h'], by rw [h']⟩
  | error ew =>
    obtain ⟨e, w'⟩ := ew
    have := storeMtp_err_eq hg.id_ne_zero hs
    subst this
    exact ⟨hg, rfl, rfl, rfl⟩

/-- **a position removed while the BeginBlocker processed it was at or below the safety factor**:
    the health the hook computed for it (from the stored position and the pool as they were when its
    turn came) is what the liquidation gate compared. -/
theorem processMtp_removed {fx : Fixes} (h1 : fx.iipCopy = true) (h2 : fx.fcAtomic = true) {w : W} (hg : Good w)
    (h0 : w.s.epochPosition = 0) (hgone : getMtpL (processMtp fx w).s.mtps w.mtp.key = none) :
    ∃ h, updateMTPHealth w.s w.mtp w.pool = .ok h ∧ h ≤ w.s.params.safetyFactor := by
  unfold processMtp at hgone
  split at hgone
  · exact absurd hgone (hg.present rfl)
  · rename_i hh hhe
    refine ⟨hh, hhe, ?_⟩
    have g1 : Good ({ w with mtp := { w.mtp with health := hh } } : W) :=
      hg.congr (LedgerSame.refl _) (Pool.sameLedger_refl _) ⟨rfl, rfl, rfl, rfl, rfl, rfl⟩
    simp only [] at hgone
    split at hgone
    · exact absurd hgone (g1.present rfl)
    · rename_i ip _
      split at hgone
      · rename_i e w' he
        obtain ⟨g, k, _, _⟩ := (handleInterestPayment_good h1 g1).2 e w' he
        exact absurd hgone (g.present k)
      · rename_i fw hfw
        obtain ⟨g2, k2, _, _⟩ := (handleInterestPayment_good h1 g1).1 fw hfw
        have ha1 : Acc [w.s.clp.clpAddr, w.mtp.addr, w.s.params.fcAddr, w.s.params.iipAddr]
            ({ w with mtp := { w.mtp with health := hh } } : W) := ⟨by simp, by simp, by simp, by simp⟩
        obtain ⟨mv, _, hhealth⟩ := handleInterestPayment_moves h1 ha1 g1.id_ne_zero hfw
        simp only [] at mv hhealth
        split at hgone
        · rename_i e w' he
          have := addBlockInterest_err he
          subst this
          exact absurd hgone (g2.present k2)
        · rename_i w3 hw3
          obtain ⟨g3, k3, _, e3⟩ := addBlockInterest_good g2 hw3
          obtain ⟨_, m3⟩ := addBlockInterest_moves hw3
          obtain ⟨g4, m4, p4, ht4⟩ := storeMtpIgnore_spec g3
          unfold processMtpClose at hgone
          cases hf : forceCloseLong fx (storeMtpIgnore w3) false true with
          | ok r =>
            obtain ⟨r1, w5⟩ := r
            have hep : (storeMtpIgnore w3).s.epochPosition = 0 := by
              unfold State.epochPosition at h0 ⊢
              rw [p4, ht4, e3, mv.params, mv.height]; exact h0
            have hgate := (forceCloseLong_moves (L := [(storeMtpIgnore w3).s.clp.clpAddr, (storeMtpIgnore w3).mtp.addr,
              (storeMtpIgnore w3).s.params.fcAddr, (storeMtpIgnore w3).s.params.iipAddr]) h1
              ⟨by simp, by simp, by simp, by simp⟩ g4.id_ne_zero hf).2 hep rfl
            rw [m4, m3, hhealth, p4, e3, mv.params] at hgate
            show hh.i ≤ w.s.params.safetyFactor.i
            have : ¬ (w.s.params.safetyFactor.i < hh.i) := hgate
            omega
          | error ew =>
            obtain ⟨e, w'⟩ := ew
            rw [hf] at hgone
            simp only [h2, if_true] at hgone
            exact absurd hgone (g4.present (by rw [m4, k3, k2]; rfl))

end Sif.Margin

namespace Sif.Margin
open Sif Sif.Spec.C13

theorem Good.of_synced {w : W} (hwf : WF w.s = true) (hok : MarginOK w.s = true) (hs : syncedW w = true) : Good w := by
  unfold syncedW at hs
  simp only [Bool.and_eq_true, beq_iff_eq] at hs
  obtain ⟨⟨hp, hm⟩, hh⟩ := hs
  refine ⟨(MarginOK_iff _).mp hok, (WF_iff _).mp hwf, ?_, ?_, hh⟩
  · split at hp
    · rename_i p0 hp0
      unfold sameLedgerB at hp
      simp only [Bool.and_eq_true, beq_iff_eq] at hp
      obtain ⟨⟨⟨⟨h1, h2⟩, h3⟩, h4⟩, h5⟩ := hp
      refine ⟨p0, hp0, ?_, ?_⟩
      · intro b; cases b <;> simp [Pool.cust, h2, h3]
      · intro b; cases b <;> simp [Pool.liab, h4, h5]
    · simp at hp
  · split at hm
    · rename_i m0 hm0
      unfold mtpSameB at hm
      simp only [Bool.and_eq_true, beq_iff_eq] at hm
      obtain ⟨⟨⟨⟨⟨h1, h2⟩, h3⟩, h4⟩, h5⟩, h6⟩ := hm
      exact ⟨m0, hm0, ⟨h1.symm, h2.symm, h3.symm, h4.symm, h5.symm, h6.symm⟩⟩
    · simp at hm

/-- the bank after a successful collateral transfer, pointwise -/
theorem accToMod_pointwise {b b' : Bank} {src mod : Addr} {d : Asset} {amt : Nat} (hne : src ≠ mod)
    (h : b.accToMod src mod d amt = .ok b') :
    amt ≤ b.bal src d ∧ b'.blocked = b.blocked ∧
    ∀ a x, b'.bal a x = if a = src ∧ x = d then b.bal a x - amt else if a = mod ∧ x = d then b.bal a x + amt else b.bal a x := by
  unfold Bank.accToMod Bank.send at h
  split at h
  · rename_i h0
    simp at h; rw [← h, h0]
    refine ⟨by omega, rfl, ?_⟩
    intro a x; split <;> (try split) <;> simp
  · split at h
    · simp at h
    · rename_i h1 h2
      simp at h; rw [← h]
      refine ⟨by omega, rfl, ?_⟩
      intro a x
      have hne' : ¬ mod = src := fun h => hne h.symm
      by_cases ha : a = src ∧ x = d
      · obtain ⟨rfl, rfl⟩ := ha; simp [Bank.setBal, hne]
      · by_cases hb : a = mod ∧ x = d
        · obtain ⟨rfl, rfl⟩ := hb; simp [Bank.setBal, hne']
        · simp only [ha, hb, if_false]
          simp [Bank.setBal, ha, hb]

end Sif.Margin
