import Sif.Model.EthBridge
/-
  C05 — bridge prophecies need the whitelisted-power threshold and are final.
  Decidable statements: what the theorems of Props/C05 are about AND what `drv_bridge` evaluates on the
  prophecies, validator sets, whitelists and balances dumped from the *implementation* (`chk` lines).
  Core only.
-/
namespace Sif.Spec.C05
open Sif.Oracle
open Sif.Generated

/-- Combined power of the validators that are bonded now, whitelisted now, and whose recorded claim on the
    prophecy is `c` (independent of how `FindHighestClaim` computes it). -/
def support (vals : List Validator) (wl : List Nat) (vclaims : List (Nat × Content)) (c : Content) : Nat :=
  ((vals.filter (fun v => v.bonded && inWhiteList wl v.id && (vclaims.lookup v.id == some c))).map (·.power)).sum

/-- all whitelisted bonded power -/
def total (vals : List Validator) (wl : List Nat) : Nat :=
  ((vals.filter (fun v => v.bonded && inWhiteList wl v.id)).map (·.power)).sum

/-- the threshold clause of the property (70 %, whatever constant the code uses): a successful prophecy has
    `10 · support(final) ≥ 7 · total` and a positive total -/
def thresholdMet (vals : List Validator) (wl : List Nat) (p : Prophecy) : Bool :=
  p.status != .success ||
    (decide (7 * total vals wl ≤ 10 * support vals wl p.vclaims p.final) && decide (0 < total vals wl))

/-- Well-formed tally: claim contents are distinct keys, every validator occurs at most once over all claim
    groups (a validator counts at most once per prophecy), and the two maps agree. -/
def ProphecyWF (p : Prophecy) : Prop :=
  (p.groups.map (·.1)).Nodup ∧ (p.groups.flatMap (·.2)).Nodup ∧ (p.vclaims.map (·.1)).Nodup ∧
  (∀ g ∈ p.groups, ∀ v ∈ g.2, p.vclaims.lookup v = some g.1) ∧
  (∀ e ∈ p.vclaims, ∃ g ∈ p.groups, g.1 = e.2 ∧ e.1 ∈ g.2) ∧
  (∀ e ∈ p.vclaims, e.2 ≠ .empty)

instance (p : Prophecy) : Decidable (ProphecyWF p) := by unfold ProphecyWF; exact inferInstance

def prophecyWF (p : Prophecy) : Bool := decide (ProphecyWF p)

/-- validators known to staking have distinct operator addresses -/
def ValsWF (vals : List Validator) : Prop := (vals.map (·.id)).Nodup

/-- an administrative operation on the whitelist that took effect: the genesis list, an accepted add, an accepted remove -/
inductive WlOp where
  | set (l : List Nat)
  | add (v : Nat)
  | remove (v : Nat)
  deriving Repr

/-- Who is whitelisted according to the history of administrative operations that took effect (the harness's ledger, not
    the stored list): the genesis list, plus every validator added, minus every validator removed since — a remove takes
    the validator out however often the list named it. -/
def wlLedger (ops : List WlOp) : List Nat :=
  ops.foldl (fun cur op => match op with
    | .set l => l
    | .add v => cur ++ [v]
    | .remove v => cur.filter (fun a => a != v)) []

/-- the stored whitelist names exactly the validators the ledger names (as sets) -/
def sameMembers (stored ledger : List Nat) : Bool := stored.all ledger.contains && ledger.all stored.contains

/-- an accepted claim comes from a validator that is in the (stored) whitelist and bonded -/
def acceptedClaimantOK (vals : List Validator) (wl : List Nat) (v : Nat) : Bool := inWhiteList wl v && checkActive vals v

/-- the whitelist the keeper serves is the whitelist the store holds (no state outside the multistore, which a
    discarded transaction would not roll back) -/
def viewIsStore (view stored : List Nat) : Bool := view == stored

/-- Finality over a history, as observed: the prophecy as it was when it was first seen finalised (status, final claim,
    both claim maps) is what the keeper still returns now — after any number of blocks, restarts and late claims. -/
def finalKept (first : Prophecy) (now : Option Prophecy) : Bool := first.status != .pending && now == some first

/-- the committed bytes of the oracle and ethbridge stores (digests over every key and value) are the same in every
    execution of the same history: nothing of Go's map iteration order reaches the store -/
def storeBytesSame (first now : String) : Bool := first == now

/-- the status a claim message reported for its prophecy is the status the store returns for it right afterwards -/
def reportedIsStored (reported : StatusText) (stored : Option StatusText) : Bool := stored == some reported

/-- Finality against the ledger of REPORTED statuses: once a claim message reported SUCCESS or FAILED for a prophecy,
    every later claim about it is refused, the store still returns that status, and no balance or supply moves. -/
def finalByLedger (reported : StatusText) (ok : Bool) (stored : Option StatusText) (bankSame : Bool) : Bool :=
  reported == .pending || (!ok && stored == some reported && bankSame)

/-- Finality as observed around one claim message: a prophecy that was not pending before the message is the
    same afterwards, the message did not succeed, and no balance or supply changed. -/
def finalStable (before : Prophecy) (after : Option Prophecy) (ok : Bool) (bankSame : Bool) : Bool :=
  before.status == .pending || (after == some before && !ok && bankSame)

end Sif.Spec.C05
