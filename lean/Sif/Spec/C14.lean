import Sif.Model.Genesis
/-
  C14 — decidable predicates.  Core only.
  (a) judges of the export/import harness: two canonical documents are the same; the epochs section
      is the same except that every epoch's start height is the new chain's initial height;
  (b) tie 1: every field of every GenesisState is consumed by InitGenesis and produced by
      ExportGenesis, and the (setter, getter) pairs are the reviewed ones.
-/
namespace Sif.Spec.C14
open Sif.Gen

/-- two observations (digests of canonical JSON), equal -/
def docEq : List String → Bool
  | [a, b] => a == b
  | _ => false

/-- one epoch as the harness prints it -/
structure EpochRow where
  id : String
  startTime : Int
  duration : Int
  current : Int
  currentStartTime : Int
  started : Bool
  startHeight : Int
  deriving DecidableEq, Repr

/-- the stated exception of the property: import re-bases the running epoch's start height -/
def rebase (h : Int) (r : EpochRow) : EpochRow := { r with startHeight := h }

def epochsRebased (h : Int) (before after : List EpochRow) : Bool :=
  decide (after = before.map (rebase h))

/-- fields that InitGenesis never reads, or for which no call receives a value derived from them -/
def unwritten (fs : List GenField) : List (String × String) :=
  (fs.filter (fun f => f.initRefs == 0 || f.initCalls.isEmpty)).map (fun f => (f.module, f.field))

/-- fields that ExportGenesis never sets, or sets from no keeper call -/
def unread (fs : List GenField) : List (String × String) :=
  (fs.filter (fun f => f.exportRefs == 0 || f.exportFrom.isEmpty)).map (fun f => (f.module, f.field))

/-- The reviewed table: for every field the calls that store it and the calls it is exported from.
    Pins e.g. `GetPoolsPaginated` (all pools) as the source of `PoolList`: exporting through a filtering
    getter changes this fact. -/
def reviewed : List (String × String × List String × List String) := [
  ("admin", "AdminAccounts", ["k.SetAdminAccount"], ["k.GetAdminAccounts"]),
  ("clp", "Params", ["k.SetParams"], ["keeper.GetParams"]),
  ("clp", "AddressWhitelist", ["k.SetClpWhiteList", "sdk.AccAddressFromBech32"], ["entry.String", "keeper.GetClpWhiteList"]),
  ("clp", "PoolList", ["fmt.Sprintf", "k.SetPool"], ["keeper.GetPoolsPaginated"]),
  ("clp", "LiquidityProviders", ["k.SetLiquidityProvider"], ["keeper.GetAllLiquidityProvidersPaginated"]),
  ("clp", "RewardsBucketList", ["k.SetRewardsBucket"], ["keeper.GetAllRewardsBucket"]),
  ("clp", "RewardParams", ["k.SetRewardParams"], ["keeper.GetRewardsParams", "types.GetDefaultRewardParams"]),
  ("clp", "PmtpParams", ["k.SetPmtpParams"], ["keeper.GetPmtpParams", "types.GetDefaultPmtpParams"]),
  ("clp", "PmtpEpoch", ["k.SetPmtpEpoch"], ["keeper.GetPmtpEpoch"]),
  ("clp", "PmtpRateParams", ["k.SetPmtpRateParams"], ["keeper.GetPmtpRateParams"]),
  ("clp", "LiquidityProtectionParams", ["k.SetLiquidityProtectionParams"], ["keeper.GetLiquidityProtectionParams", "types.GetDefaultLiquidityProtectionParams"]),
  ("clp", "LiquidityProtectionRateParams", ["k.SetLiquidityProtectionRateParams"], ["keeper.GetLiquidityProtectionRateParams"]),
  ("clp", "SwapFeeParams", ["k.SetSwapFeeParams"], ["keeper.GetSwapFeeParams"]),
  ("clp", "ProviderDistributionParams", ["k.SetProviderDistributionParams"], ["keeper.GetProviderDistributionParams", "types.GetDefaultProviderDistributionParams"]),
  ("dispensation", "DistributionRecords", ["fmt.Sprintf", "keeper.SetDistributionRecord"], ["keeper.GetRecords"]),
  ("dispensation", "Distributions", ["fmt.Sprintf", "keeper.SetDistribution"], ["keeper.GetDistributions"]),
  ("dispensation", "Claims", ["fmt.Sprintf", "keeper.SetClaim"], ["keeper.GetClaims"]),
  ("epochs", "Epochs", ["k.SetEpochInfo"], ["k.AllEpochInfos"]),
  ("ethbridge", "CethReceiveAccount", ["keeper.SetCethReceiverAccount", "sdk.AccAddressFromBech32"], ["keeper.GetCethReceiverAccount", "receiveAccount.String"]),
  ("ethbridge", "PeggyTokens", ["keeper.AddPeggyToken"], ["keeper.GetPeggyToken"]),
  ("ethbridge", "Blacklist", ["keeper.SetBlacklistAddress"], ["keeper.GetBlacklist"]),
  ("ethbridge", "Pause", ["keeper.SetPause"], ["keeper.IsPaused"]),
  ("margin", "Params", ["k.SetParams"], ["k.GetParams"]),
  ("margin", "MtpList", ["k.SetMTP"], ["k.GetAllMTPS"]),
  ("oracle", "AddressWhitelist", ["keeper.SetOracleWhiteList", "sdk.ValAddressFromBech32", "strings.TrimSpace"], ["entry.String", "keeper.GetOracleWhiteList"]),
  ("oracle", "AdminAddress", ["keeper.SetAdminAccount", "sdk.AccAddressFromBech32", "strings.TrimSpace"], ["adminAcc.String", "keeper.GetAdminAccount"]),
  ("oracle", "Prophecies", ["keeper.SetDBProphecy"], ["keeper.GetProphecies", "p.SerializeForDB"]),
  ("tokenregistry", "Registry", ["k.SetRegistry"], ["k.GetRegistry"])
]

/-- fields whose (setter, getter) facts differ from the reviewed table, and reviewed rows with no field -/
def unreviewed (fs : List GenField) : List (String × String) :=
  ((fs.filter (fun f => !(reviewed.contains (f.module, f.field, f.initCalls, f.exportFrom)))).map (fun f => (f.module, f.field))) ++
  ((reviewed.filter (fun r => !(fs.any (fun f => f.module == r.1 && f.field == r.2.1)))).map (fun r => (r.1, r.2.1)))

def sifModules : List String := ["admin", "clp", "dispensation", "epochs", "ethbridge", "margin", "oracle", "tokenregistry"]

end Sif.Spec.C14
