import Sif.Model.Clp.State
/-
  C01 / C02 — decidable invariants of the AMM state, evaluated both in theorems and on the
  implementation's dumped states.
-/
namespace Sif.Spec.C01
open Sif Sif.Clp

/-- denominations that appear in the recorded amounts -/
def denoms (s : St) : List String :=
  rowan :: (s.pools.map (fun e => e.2.sym) ++ s.buckets.map (·.1))

/-- recorded amount of a denomination: Σ pools (balance + custody) + bucket -/
def recorded (s : St) (d : String) : Nat :=
  s.pools.sumBy (fun p => (if d = rowan then p.nBal + p.nCust else 0) + (if d = p.sym then p.eBal + p.eCust else 0))
  + (s.buckets.get d).getD 0

/-- the module account covers the recorded amounts, for every token -/
def solvent (s : St) : Bool := (denoms s).all (fun d => decide (recorded s d ≤ s.bal clpAcct d))

/-- the exact-equality half of C01: apart from the rounding remainders left behind by decommissions, the
    module account holds exactly the recorded amounts.  `budget` = what the provider refunds of the
    decommissions of the history so far may have left behind per token: per refund the truncated base unit plus
    the 18-decimal rounding of the withdrawal quotients (≤ 2 + depth·10⁻¹⁷ base units). -/
def exact (s : St) (budget : Nat) : Bool :=
  (denoms s).all (fun d => decide (s.bal clpAcct d ≤ recorded s d + budget))

/-- C02: pool units = Σ provider units, and every provider record belongs to an existing pool -/
def unitsOK (s : St) : Bool :=
  s.pools.all (fun e => decide (e.2.units = (s.lpsOf e.2.sym).sumBy (·.units)))
  && s.lps.all (fun e => e.2.isEmpty || s.pools.contains (poolKey e.1))

end Sif.Spec.C01

namespace Sif.Spec.C01

/-- C02, payout clause: a removal that burned `burned` of the pool's `P` units pays at most the
    pro-rata fraction of each depth, up to one base unit plus 10^-15 relative -/
def payoutOK (P nD eD burned n' e' : Nat) : Bool :=
  decide ((n' : Rat) ≤ mkRat (nD * burned) P * (1 + mkRat 1 (10^15)) + 1) &&
  decide ((e' : Rat) ≤ mkRat (eD * burned) P * (1 + mkRat 1 (10^15)) + 1)

end Sif.Spec.C01
