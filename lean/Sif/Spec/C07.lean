import Sif.Spec.C06
/-
  C07 — peg supply conservation on lock/burn; pause and blacklist stop exports.  Decidable statements,
  evaluated by the driver on the implementation's observations and proved of the model in Props/C07.
  Core only.
-/
namespace Sif.Spec.C07
open Sif.Oracle Sif.Bank Sif.EthBridge Sif.Spec.C06

/-- what leaves the sender's balance of denomination `d` -/
def debit (m : PegMsg) (a : Nat) (d : String) : Nat :=
  (if a = m.sender ∧ d = m.symbol then m.amount.toNat else 0) + (if a = m.sender ∧ d = cethSymbol then m.ceth.toNat else 0)

/-- the cross-chain fee goes to the configured receiver, or else stays in the ethbridge module account -/
def feeAcct (feeTo : Option Nat) : Nat := feeTo.getD moduleAcct

def credit (m : PegMsg) (feeTo : Option Nat) (a : Nat) (d : String) : Nat :=
  if a = feeAcct feeTo ∧ d = cethSymbol then m.ceth.toNat else 0

/-- effects of a successful lock or burn on the given keys: sender − amount (− fee in ceth), fee receiver +
    fee, supply of the token − amount, nothing else (stated additively, so no truncated subtraction) -/
def pegEffectsOn (m : PegMsg) (feeTo : Option Nat) (bb ba : BalView) (sb sa : SupView)
    (keys : List (Nat × String)) (denoms : List String) : Bool :=
  keys.all (fun k => ba k.1 k.2 + debit m k.1 k.2 == bb k.1 k.2 + credit m feeTo k.1 k.2) &&
  denoms.all (fun d => sa d + (if d = m.symbol then m.amount.toNat else 0) == sb d)

/-- A successful lock / burn was payable, judged from the message and the balances BEFORE it: the stated fee is not
    negative and the amount positive (so that "sender − amount − fee, fee holder + fee" cannot hide a withdrawal from the fee
    holder), the sender held at least the amount of the token, and — unless the sender is the fee holder itself — at least
    the fee in ceth on top (amount + fee when the token is ceth). -/
def payable (m : PegMsg) (feeTo : Option Nat) (bb : BalView) : Bool :=
  decide (0 ≤ m.ceth) && decide (0 < m.amount) && decide (m.amount.toNat ≤ bb m.sender m.symbol) &&
  (feeAcct feeTo == m.sender ||
    decide (m.ceth.toNat + (if m.symbol = cethSymbol then m.amount.toNat else 0) ≤ bb m.sender cethSymbol))

/-- one lock/burn message observed from outside: on success the effects above and exactly one event carrying
    the message's values; on failure nothing moves and no event -/
def pegStep (kind : String) (ok : Bool) (m : PegMsg) (feeTo : Option Nat) (bb ba : BalView) (sb sa : SupView)
    (keys : List (Nat × String)) (denoms : List String) (events : List Event) : Bool :=
  if ok then payable m feeTo bb && pegEffectsOn m feeTo bb ba sb sa keys denoms && events == [pegEvent kind m]
  else sameOn bb ba sb sa keys denoms && events == []

/-- the same 20-byte Ethereum address, however spelled -/
def sameEthAddr (a b : String) : Bool :=
  match ethAddr a, ethAddr b with
  | some x, some y => x == y
  | _, _ => a == b

/-- address-level blacklisting: some stored entry denotes the receiver's address -/
def addrBlacklisted (bl : List String) (recv : String) : Bool := bl.any (fun b => sameEthAddr b recv)

/-- A token is pegged if it is in the stored peggy-token list, or if the bridge itself minted it for a consensus-approved
    lock claim earlier in this history (`minted`: the denominations observed entering the supply through such credits —
    exact strings).  Judging by `minted` as well keeps the predicate independent of how the keeper maintains its list. -/
def isPegged (peggy minted : List String) (symbol : String) : Bool := peggy.contains symbol || minted.contains symbol

/-- the pause flag the keeper answers with is the flag the store holds (no copy outside the multistore, which a
    discarded transaction would not roll back) -/
def pauseViewIsStore (view stored : Bool) : Bool := view == stored

/-- the export gates: while paused, or with a blacklisted receiver, or for the wrong kind of token (native tokens are
    only locked, pegged tokens only burned), the message does not succeed; and a burn of a token the bridge minted is
    never refused as "native" (`res = err.native`) -/
def gateOK (kind : String) (res : String) (paused : Bool) (bl : List String) (peggy minted : List String) (recv symbol : String) : Bool :=
  (res != "ok" || (!paused && !addrBlacklisted bl recv &&
      (if kind = "lock" then !isPegged peggy minted symbol else isPegged peggy minted symbol))) &&
  (!(kind == "burn" && res == "err.native") || !isPegged peggy minted symbol)

/-- After an accepted claim that turned its prophecy SUCCESS: for a lock claim the stored peggy-token list is the old
    list plus exactly the credited denomination `"c" ++ symbol` (exact string); for a burn claim it is unchanged. -/
def peggyRegOK (final : Sif.Oracle.Content) (before after : List String) : Bool :=
  match final with
  | .eth _ _ symbol _ ctype =>
    if ctype = 2 then
      after.contains (peggedPrefix ++ symbol) && before.all after.contains &&
        after.all (fun x => before.contains x || x == peggedPrefix ++ symbol)
    else before.all after.contains && after.all before.contains
  | .empty => false

/-- after an accepted `MsgSetBlacklist`, every address of the message is blacklisted (some stored entry denotes it) -/
def blSetOK (requested stored : List String) : Bool := requested.all (addrBlacklisted stored)

def sumOf (l : List (String × Nat)) (d : String) : Nat := ((l.filter (fun e => e.1 == d)).map (·.2)).sum

/-- supply equation for one denomination: supply + locks + burns = genesis + approved credits -/
def supplyEq (genesis credits locks burns : List (String × Nat)) (sup : SupView) (d : String) : Bool :=
  sup d + sumOf locks d + sumOf burns d == sumOf genesis d + sumOf credits d

def supplyOK (genesis credits locks burns : List (String × Nat)) (sup : SupView) (denoms : List String) : Bool :=
  denoms.all (supplyEq genesis credits locks burns sup)

end Sif.Spec.C07

namespace Sif.EthBridge
open Sif.Oracle Sif.Spec.C06

def Out.events : Out → List Event
  | .event e => [e]
  | _ => []

/-- amount of denomination `d` that a step of a history credits (an accepted claim that reports SUCCESS) -/
def stepCredited (ord : List Group → List Group) (w : World) (st : Step) (d : String) : Nat :=
  match st with
  | .msg (.claim m) =>
    if (deliver ord w.vals w.s (.claim m)).2 = .claimed .success then
      match creditOf (finalOf (deliver ord w.vals w.s (.claim m)).1.oracle (claimOf m).id) with
      | some c => if d = c.2.1 then c.2.2 else 0
      | none => 0
    else 0
  | _ => 0

/-- amount of `d` a step locks (a successful `MsgLock`) -/
def stepLocked (ord : List Group → List Group) (w : World) (st : Step) (d : String) : Nat :=
  match st with
  | .msg (.lock m) => if (deliver ord w.vals w.s (.lock m)).2.isOk then (if d = m.symbol then m.amount.toNat else 0) else 0
  | _ => 0

/-- amount of `d` a step burns (a successful `MsgBurn`) -/
def stepBurned (ord : List Group → List Group) (w : World) (st : Step) (d : String) : Nat :=
  match st with
  | .msg (.burn m) => if (deliver ord w.vals w.s (.burn m)).2.isOk then (if d = m.symbol then m.amount.toNat else 0) else 0
  | _ => 0

/-- sum of a per-step quantity along a history -/
def sumOver (f : (List Group → List Group) → World → Step → String → Nat) (ord : List Group → List Group) (w : World) :
    List Step → String → Nat
  | [], _ => 0
  | st :: rest, d => f ord w st d + sumOver f ord (stepWorld ord w st) rest d

end Sif.EthBridge
