import Sif.Model.Unlock
/-
  C15 — decidable statement of "a removal needs matured, unexpired, unconsumed unlock requests".
  Core only: these are the predicates the theorems of Sif/Props/C15.lean talk about AND what the
  driver `drv_unlock` evaluates on the implementation's own observations (`chk` lines).
  Heights and periods are mathematical integers here (no int64 wrap): this is the specification.
-/
namespace Sif.Spec.C15
open Sif.Unlock

/-- a request made at `q.height` has matured at height `h` under lock period `L` -/
def matured (L : Nat) (h : Int) (q : Rec) : Bool := decide (q.height + (L : Int) ≤ h)

/-- … and is auto-cancelled `C` blocks after maturing -/
def expired (L C : Nat) (h : Int) (q : Rec) : Bool := decide (q.height + (L : Int) + (C : Int) ≤ h)

def live (L C : Nat) (h : Int) (q : Rec) : Bool := matured L h q && !(expired L C h q)

/-- units of matured, unexpired requests -/
def usable (L C : Nat) (h : Int) (rs : List Rec) : Nat := total (rs.filter (live L C h))

/-- the rule: removing (burning) `u` units at height `h` -/
def allowed (L C : Nat) (h : Int) (rs : List Rec) (u : Nat) : Bool :=
  decide (L = 0) || decide (u ≤ usable L C h rs)

/-- operating envelope (DESIGN section 5): heights are non-negative, requests are not from the
    future, and `L + C + h < 2^62`, so no int64 expression of the code wraps -/
def heightsOK (h : Int) (rs : List Rec) : Bool := rs.all (fun r => decide (0 ≤ r.height) && decide (r.height ≤ h))
def two62 : Int := 4611686018427387904
def inEnvelope (L C : Nat) (h : Int) (rs : List Rec) : Bool :=
  decide (0 ≤ h) && decide ((L : Int) + (C : Int) + h < two62) && heightsOK h rs

/-- `new` is `old` with the same heights at the same positions and no record grown -/
def shrinks : List Rec → List Rec → Bool
  | [], [] => true
  | a :: as, b :: bs => decide (b.height = a.height) && decide (b.units ≤ a.units) && shrinks as bs
  | _, _ => false

/-! ### judge predicates (evaluated on what the implementation did) -/

/-- an ACCEPTED removal that burned `burned` units of a provider whose stored requests were `before`:
    the rule allowed it.  Outside the envelope nothing is claimed. -/
def removeOK (L C : Nat) (h : Int) (before : List Rec) (burned : Nat) (accepted : Bool) : Bool :=
  !accepted || !(inEnvelope L C h before) || allowed L C h before burned

/-- an accepted removal under a lock period consumes what it burns: the requests left afterwards
    total at most the requests before minus the units burned -/
def consumedOK (L : Nat) (before after : List Rec) (burned : Nat) (accepted : Bool) : Bool :=
  !accepted || decide (L = 0) || decide (total after + burned ≤ total before)

/-- outstanding requests never exceed the provider's units -/
def outstandingOK (units : Nat) (unlocks : List Rec) : Bool := decide (total unlocks ≤ units)

/-- with lock period 0 a removal is never refused for lack of requests -/
def lockZeroOK (L : Nat) (res : Res) : Bool := !(decide (L = 0)) || decide (res ≠ Res.err Err.bal)

/-- ledger per provider (kept by the judge from the implementation's answers): units ever
    requested by accepted unlock messages, units burned by accepted removals while a lock period
    was in force.  No unit is used twice: -/
structure Ledger where
  requested : Nat
  burnedLocked : Nat
  deriving Repr, DecidableEq, Inhabited

def onceOK (g : Ledger) (outstanding : Nat) : Bool := decide (g.burnedLocked + outstanding ≤ g.requested)

/-- how the judge advances a provider's ledger after a message: an accepted unlock of `u` units adds
    to `requested`; an accepted removal that burned `burned` units while the lock period was
    `L ≠ 0` adds to `burnedLocked`. -/
def Ledger.onUnlock (g : Ledger) (accepted : Bool) (u : Nat) : Ledger :=
  if accepted then { g with requested := g.requested + u } else g
def Ledger.onRemoval (g : Ledger) (accepted : Bool) (L burned : Nat) : Ledger :=
  if accepted && decide (L ≠ 0) then { g with burnedLocked := g.burnedLocked + burned } else g

def upd (g : String → Ledger) (k : String) (v : Ledger) : String → Ledger := fun k' => if k' = k then v else g k'

/-- the same bookkeeping along a model history (instrumented semantics the theorem `each_unit_once`
    is stated over): burned = units before − units after, exactly what the judge computes from the
    implementation's records -/
def ledgerStep (s : St) (h : Int) (op : Op) (g : String → Ledger) : String → Ledger :=
  let r := step s h op
  match op with
  | .unlock k u => upd g k ((g k).onUnlock r.2.isOk u)
  | .removeUnits k _ _ => upd g k ((g k).onRemoval r.2.isOk s.L (unitsOf (s.lps k) - unitsOf (r.1.lps k)))
  | .remove k _ _ _ => upd g k ((g k).onRemoval r.2.isOk s.L (unitsOf (s.lps k) - unitsOf (r.1.lps k)))
  | _ => g

def runL (s : St) (g : String → Ledger) : List (Int × Op) → St × (String → Ledger)
  | [] => (s, g)
  | (h, op) :: ops => runL (step s h op).1 (ledgerStep s h op g) ops

/-! ### stored records are the provider's real requests

    The judge keeps, per provider, the list of unlock requests the implementation ACCEPTED, with the
    height at which the message ran (`reqs`).  What the store then holds for that provider must stay
    within it: at every height the stored units do not exceed the units requested at that height —
    no record may be re-dated, duplicated or grown. -/

/-- units of the records carrying request height `q` -/
def unitsAt (rs : List Rec) (q : Int) : Nat := total (rs.filter (fun r => decide (r.height = q)))

def genuineOK (reqs stored : List Rec) : Bool :=
  stored.all (fun r => decide (unitsAt stored r.height ≤ unitsAt reqs r.height))

/-- the stored records cut down to what was really requested at their heights (list order kept) -/
def clipGo (reqs : List Rec) (used : List Rec) : List Rec → List Rec
  | [] => []
  | r :: rs =>
    let u := min r.units (unitsAt reqs r.height - unitsAt used r.height)
    ⟨r.height, u⟩ :: clipGo reqs (⟨r.height, u⟩ :: used) rs
def clip (reqs stored : List Rec) : List Rec := clipGo reqs [] stored

/-- the removal rule judged on the REAL request heights: only the part of the stored records that
    the provider's accepted requests cover counts as matured -/
def removeRealOK (reqs : List Rec) (L C : Nat) (h : Int) (before : List Rec) (burned : Nat) (accepted : Bool) : Bool :=
  removeOK L C h (clip reqs before) burned accepted

/-- the request ledger along a model history: an accepted unlock of `u` units at height `h` -/
def updR (g : String → List Rec) (k : String) (v : List Rec) : String → List Rec := fun k' => if k' = k then v else g k'

def reqStep (s : St) (h : Int) (op : Op) (g : String → List Rec) : String → List Rec :=
  match op with
  | .unlock k u => cond (step s h op).2.isOk (updR g k (g k ++ [⟨h, u⟩])) g
  | _ => g

def runR (s : St) (g : String → List Rec) : List (Int × Op) → St × (String → List Rec)
  | [] => (s, g)
  | (h, op) :: ops => runR (step s h op).1 (reqStep s h op g) ops

/-! ### C02 observations served by this family (histories with unlock records, which the AMM families
    of C02 do not have): pool units = Σ provider units, and a removal burns exactly what it says -/

/-- `provUnits`: the units of EVERY liquidity-provider record of the pool -/
def poolUnitsOK (poolUnits : Nat) (provUnits : List Nat) : Bool := decide (poolUnits = provUnits.foldl (· + ·) 0)

/-- an accepted `MsgRemoveLiquidityUnits{w}`: the provider held at least `w` and holds exactly `w` less
    afterwards; by basis points: not more than before.  (`w = 0`: removal by basis points.) -/
def burnOK (before w after : Nat) (accepted : Bool) : Bool :=
  !accepted || (if w = 0 then decide (after ≤ before) else decide (w ≤ before ∧ after = before - w))

/-- block heights of a history: non-negative, non-decreasing, below 2^63 -/
def heightsMono : Int → List (Int × Op) → Bool
  | _, [] => true
  | h0, (h, _) :: ops => decide (h0 ≤ h) && decide (h < two63) && heightsMono h ops

end Sif.Spec.C15
