/-
  C13, tie 1 — vocabulary of the regenerated facts about x/margin's store keys
  (Sif/Generated/MarginKeys.lean, written by extract/margin/keys.go) and the decidable conditions the
  obligations of Sif/Props/C13.lean put on them.  Core only.
-/
namespace Sif.Spec.C13.Keys

/-- one component of a composite store key, in order -/
inductive Comp where
  | const (name : String)      -- a package-level prefix constant or a literal byte: fixed width
  | str (param : String)       -- `[]byte(param)`: variable length, no length prefix, no terminator
  | u64 (param : String)       -- `GetUint64Bytes(param)`: 8 bytes
  | unknown (src : String)     -- not recognised
  deriving Repr, DecidableEq

structure Ctor where
  name : String
  comps : List Comp
  deriving Repr, DecidableEq

/-- how `GetMTPsForPool` picks the positions of a pool -/
inductive Select where
  | filterAssetEq (storePrefix : String) (custodyEq collateralEq : Bool)
      -- walks every position under `storePrefix`, keeps those whose custody / collateral asset *equals* the argument
  | prefixScan (ctor : String)  -- walks the keys that start with `ctor(asset)`
  | unknown (src : String)
  deriving Repr, DecidableEq

/-- string parameters that hold a bech32 account address: all of one length (20-byte addresses), so one
    is never a proper prefix of another — the assumption under which `address | id` parses uniquely -/
def addressParams : List String := ["address", "mtpAddress"]

def fixedWidth : Comp → Bool
  | .const _ => true
  | .u64 _ => true
  | _ => false

/-- a key parses uniquely: nothing unrecognised, and an unterminated variable-length component is
    either the last one or an address followed by a fixed-width component -/
def compsOK : List Comp → Bool
  | [] => true
  | [.unknown _] => false
  | [_] => true
  | .unknown _ :: _ => false
  | .str p :: c :: r => addressParams.contains p && fixedWidth c && compsOK (c :: r)
  | _ :: c :: r => compsOK (c :: r)

/-- the positions of pool `asset` are selected by equality with `asset`: either an equality filter on
    both asset fields over the whole position store, or a prefix scan whose prefix ends with a
    fixed-width component of an unambiguous key (so that it cannot end inside a longer symbol) -/
def selectOK (ctors : List Ctor) : Select → Bool
  | .filterAssetEq pre cu co => pre == "MTPPrefix" && cu && co
  | .prefixScan f =>
    match ctors.find? (fun c => c.name == f) with
    | some c => compsOK c.comps && (c.comps.getLast?.map fixedWidth).getD false
    | none => false
  | .unknown _ => false

/-- a parameter getter of x/margin/keeper/params.go -/
inductive Getter where
  | field (name : String)     -- `return k.GetParams(ctx).<name>`: the stored value, unconditionally
  | unknown (src : String)    -- anything else (a default for zero, a clamp, …)
  deriving Repr, DecidableEq

/-- the stored field each getter must return as it is: what the model reads from `Params` -/
def expectedGetters : List (String × Getter) := [
  ("GetSafetyFactor", .field "SafetyFactor"),
  ("GetMaxLeverageParam", .field "LeverageMax"),
  ("GetPoolOpenThreshold", .field "PoolOpenThreshold"),
  ("GetInterestRateMin", .field "InterestRateMin"),
  ("GetEpochLength", .field "EpochLength"),
  ("GetForceCloseFundPercentage", .field "ForceCloseFundPercentage"),
  ("GetIncrementalInterestPaymentFundPercentage", .field "IncrementalInterestPaymentFundPercentage"),
  ("GetMaxOpenPositions", .field "MaxOpenPositions"),
  ("GetIncrementalInterestPaymentEnabled", .field "IncrementalInterestPaymentEnabled"),
  ("IsWhitelistingEnabled", .field "WhitelistingEnabled"),
  ("IsRowanCollateralEnabled", .field "RowanCollateralEnabled")]

end Sif.Spec.C13.Keys
