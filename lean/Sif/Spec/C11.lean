import Sif.Model.Dispensation
/-
  C11 — decidable statements about the dispensation ledger.  Core only.  The theorems of
  Sif/Props/C11.lean are about these definitions; the driver evaluates the same definitions on
  states dumped from the *implementation* (`chk` lines).
-/
namespace Sif.Spec.C11
open Sif Sif.Disp

/-- Σ over a record store of the amount of denom `d` -/
def sumStore (d : Denom) : Store Rec → Nat
  | [] => 0
  | (_, r) :: rest => coinsGet r.coins d + sumStore d rest

/-- amount of denom `d` recorded under key `k` (0 if absent) -/
def amt (st : Store Rec) (k : Key) (d : Denom) : Nat :=
  match sGet st k with
  | some r => coinsGet r.coins d
  | none => 0

/-- Σ of the outputs of a create message that land on key `k` (duplicates of one recipient add up) -/
def outsFor (name : List Char) (t : DType) : List Output → Key → Denom → Nat
  | [], _, _ => 0
  | o :: r, k, d => (if recordKey name t o.addr = k then coinsGet o.coins d else 0) + outsFor name t r k d

/-- Σ of all outputs of a create message -/
def outsTotal : List Output → Denom → Nat
  | [], _ => 0
  | o :: r, d => coinsGet o.coins d + outsTotal r d

/-- `escrow_covers` for one denom: the module account holds at least Σ pending + Σ failed -/
def escrowCovers (module : Addr) (s : DispState) (d : Denom) : Prop :=
  sumStore d s.pending + sumStore d s.failed ≤ s.bank.bal module d

instance (module : Addr) (s : DispState) (d : Denom) : Decidable (escrowCovers module s d) := by
  unfold escrowCovers; infer_instance

/-- the judge's form: on a list of denoms -/
def escrowCoversOn (ds : List Denom) (module : Addr) (s : DispState) : Bool :=
  ds.all fun d => decide (escrowCovers module s d)

/-- cumulative ledger (ghost / observed): per key and denom, what was created for it and what
    was paid out for it -/
structure Ledger where
  created : Key → Denom → Nat
  paid : Key → Denom → Nat
  failedCum : Key → Denom → Nat

def Ledger.zero : Ledger := ⟨fun _ _ => 0, fun _ _ => 0, fun _ _ => 0⟩

/-- the exact ledger equation (ghost `failedCum` = everything that ever moved to failed) -/
def ledgerEq (l : Ledger) (s : DispState) (k : Key) (d : Denom) : Prop :=
  l.paid k d + amt s.pending k d + l.failedCum k d = l.created k d

/-- ghost update of the ledger by what one transaction paid / failed -/
def ledgerPay (l : Ledger) : List (Key × Rec × Outcome) → Ledger
  | [] => l
  | (k, r, .paid) :: os =>
      ledgerPay { l with paid := fun k' d => l.paid k' d + (if k' = k then coinsGet r.coins d else 0) } os
  | (k, r, .failed) :: os =>
      ledgerPay { l with failedCum := fun k' d => l.failedCum k' d + (if k' = k then coinsGet r.coins d else 0) } os
  | (_, _, .skipped) :: os => ledgerPay l os

/-- ghost update of the ledger by an accepted create message -/
def ledgerCreate (l : Ledger) (name : List Char) (t : DType) (outs : List Output) : Ledger :=
  { l with created := fun k d => l.created k d + outsFor name t outs k d }

/-- what a transaction's trace paid to account `a` (`canon` maps a recipient spelling to its account) -/
def paidTo (canon : Addr → Addr) : List (Key × Rec × Outcome) → Addr → Denom → Nat
  | [], _, _ => 0
  | (_, r, .paid) :: os, a, d => (if canon r.rcpt = a then coinsGet r.coins d else 0) + paidTo canon os a d
  | (_, _, _) :: os, a, d => paidTo canon os a d

/-- ghost ledger along a history: an accepted create adds its outputs to `created`, a run adds
    what it paid / failed -/
def ledgerStep (cfg : ChainCfg) (c : Chain) (op : Op) (l : Ledger) : Ledger :=
  match op with
  | .tx (.create m) =>
      if (step cfg c op).2.1 = .ok then ledgerCreate l (distName c.height m.distributor) m.typ m.outputs else l
  | .tx (.run _) => ledgerPay l (step cfg c op).2.2
  | _ => l

def runOpsL (cfg : ChainCfg) : Chain × Ledger → List Op → Chain × Ledger
  | cl, [] => cl
  | (c, l), op :: ops => runOpsL cfg ((step cfg c op).1, ledgerStep cfg c op l) ops

/-- side conditions on operations: the module account has no key, so it never signs a create
    message and never is the sender of a bank transfer -/
def opOK (cfg : ChainCfg) : Op → Bool
  | .tx (.create m) => m.distributor != cfg.disp.module
  | .transfer frm _ _ => frm != cfg.disp.module
  | _ => true

/-- side conditions on the configuration: one module account; the ecosystem pool is another account -/
def cfgOK (cfg : ChainCfg) : Bool :=
  cfg.mint.module == cfg.disp.module && cfg.mint.ecoPool != cfg.disp.module

/-- everything a transaction's trace paid out -/
def paidAll : List (Key × Rec × Outcome) → Denom → Nat
  | [], _ => 0
  | (_, r, .paid) :: os, d => coinsGet r.coins d + paidAll os d
  | (_, _, _) :: os, d => paidAll os d

/-- the observable form (the failed *store* forgets overwritten entries, hence ≤):
    never more paid out, pending and failed for a key than was created for it;
    the completed store never shows more than was paid -/
def ledgerObs (created paid : Key → Denom → Nat) (s : DispState) (k : Key) (d : Denom) : Prop :=
  paid k d + amt s.pending k d + amt s.failed k d ≤ created k d ∧ amt s.completed k d ≤ paid k d

instance (created paid : Key → Denom → Nat) (s : DispState) (k : Key) (d : Denom) :
    Decidable (ledgerObs created paid s k d) := by unfold ledgerObs; infer_instance

def ledgerObsOn (ks : List Key) (ds : List Denom) (created paid : Key → Denom → Nat) (s : DispState) : Bool :=
  ks.all fun k => ds.all fun d => decide (ledgerObs created paid s k d)

/-- `canon` maps a recipient spelling to its account (bech32 is case-insensitive). -/
def canonKey (canon : Addr → Addr) (r : Rec) : Key := recordKey r.name r.typ (canon r.rcpt)

/-- amount recorded in a store for an ACCOUNT-level key: all spellings of the recipient together -/
def amtC (canon : Addr → Addr) (st : Store Rec) (k : Key) (d : Denom) : Nat :=
  ((st.filter fun p => canonKey canon p.2 == k).map fun p => coinsGet p.2.coins d).sum

/-- observable ledger clause per account-level key -/
def ledgerObsC (canon : Addr → Addr) (created paid : Key → Denom → Nat) (s : DispState) (k : Key) (d : Denom) : Bool :=
  decide (paid k d + amtC canon s.pending k d + amtC canon s.failed k d ≤ created k d) &&
  decide (amtC canon s.completed k d ≤ paid k d)

def ledgerObsOnC (canon : Addr → Addr) (ks : List Key) (ds : List Denom) (created paid : Key → Denom → Nat)
    (s : DispState) : Bool :=
  ks.all fun k => ds.all fun d => ledgerObsC canon created paid s k d

/-- records that were pending before the transaction and are not pending after it -/
def leavers (pre post : Store Rec) : List Rec := (pre.filter fun p => !sHas post p.1).map (·.2)

def inFailed (postFailed : Store Rec) (ds : List Denom) (r : Rec) : Bool :=
  match sGet postFailed r.key with
  | some f => ds.all fun d => coinsGet f.coins d == coinsGet r.coins d
  | none => false

/-- all sub-collections of a list (core has no `List.sublists`) -/
def subLists {α} : List α → List (List α)
  | [] => [[]]
  | x :: xs => let r := subLists xs; r ++ r.map (x :: ·)

/-- Per account: the balance increase is exactly the sum of the coins of some of the records of that
    account that left pending (the paid ones), and the other leavers of that account are in the
    failed store.  An account with no leaver gains nothing; a record that leaves pending is paid in
    full or failed — never silently dropped; a record that is paid leaves pending. -/
def accountsOK (canon : Addr → Addr) (pre post postFailed : Store Rec) (deltas : List (Addr × Coins)) (ds : List Denom) : Bool :=
  let lv := leavers pre post
  let accounts := ((lv.map fun r => canon r.rcpt) ++ deltas.map (·.1)).eraseDups
  accounts.all fun a =>
    let la := lv.filter fun r => canon r.rcpt == a
    let delta := ((deltas.find? fun p => p.1 == a).map (·.2)).getD []
    (subLists la).any fun P =>
      (ds.all fun d => ((P.map fun r => coinsGet r.coins d).sum) == coinsGet delta d) &&
      ((la.filter fun r => !P.contains r).all fun r => inFailed postFailed ds r)

/-- One run transaction as observed on the implementation (`deltas` = balance increases per
    account; `pre`/`post` = pending store before/after; `postFailed` = failed store after):
    * at most `count` records leave pending (none if the count is not positive);
    * every record that leaves pending has the message's name and type, and its authorised runner is
      the message's runner (= its signer);
    * `accountsOK`: paid exactly and in full, or failed. -/
def runObsOK (canon : Addr → Addr) (m : MsgRun) (pre post postFailed : Store Rec) (deltas : List (Addr × Coins))
    (ds : List Denom) : Bool :=
  decide (((leavers pre post).length : Int) ≤ max m.count 0) &&
  ((leavers pre post).all fun r => r.runner == m.runner && r.name == m.name && r.typ == m.typ) &&
  accountsOK canon pre post postFailed deltas ds

/-- nothing is silently dropped, nobody is paid without a record leaving pending (the accounting
    clause alone, under its own tag) -/
def leaversOK (canon : Addr → Addr) (pre post postFailed : Store Rec) (deltas : List (Addr × Coins)) (ds : List Denom) : Bool :=
  accountsOK canon pre post postFailed deltas ds

/-- One create message as observed (`outs` = the coins of the outputs of THIS message; `distDec` =
    decrease of the distributor's balances, `modInc` = increase of the module account's): an
    accepted message moves exactly the sum of its outputs, a refused one moves nothing. -/
def createObsOK (ok : Bool) (outs : List Coins) (distDec modInc : Coins) (ds : List Denom) : Bool :=
  ds.all fun d =>
    let want := if ok then (outs.map fun c => coinsGet c d).sum else 0
    coinsGet distDec d == want && coinsGet modInc d == want

/-- keys of a store are pairwise different (a user holds at most one claim per type: the claim
    store has one entry per (user, type) key) -/
def keysNodup {α} (st : Store α) : Bool := decide (st.map (·.1)).Nodup

/-- paying a claim-type record deletes the claim: no claim (rcpt, type) for the paid records -/
def claimsDeleted (claims : Store Unit) (paid : List Rec) : Bool :=
  paid.all fun r => !r.typ.claimable || !sHas claims (claimKey r.rcpt r.typ)

/-- The two claim clauses per ACCOUNT (F28), on the claim store's keys as dumped from the
    implementation (`canon` is applied to the whole key `<address>_<type>`; `_` and the type digit
    are not letters): no two claims of one type for one account, whatever the spellings; and no
    claim of the record's type is left for the account of a claim-type record that was just paid,
    whatever spelling the record used. -/
def claimsPerAccountOK (canon : Addr → Addr) (claimKeys : List Key) (paid : List Rec) : Bool :=
  let ck := claimKeys.map canon
  decide ck.Nodup &&
  paid.all fun r => !r.typ.claimable || !ck.contains (claimKey (canon r.rcpt) r.typ)

end Sif.Spec.C11
