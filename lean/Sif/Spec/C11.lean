import Sif.Model.Dispensation
/-
  C11 — decidable statements about the dispensation ledger.  Core only.  The theorems of
  Sif/Props/C11.lean are about these definitions; the driver evaluates the same definitions on
  states dumped from the *implementation* (`chk` lines).
-/
namespace Sif.Spec.C11
open Sif Sif.Disp

/-- Σ over a record store of the amount of denom `d` -/
def sumStore (d : Denom) : Store Rec → Nat
  | [] => 0
  | (_, r) :: rest => coinsGet r.coins d + sumStore d rest

/-- amount of denom `d` recorded under key `k` (0 if absent) -/
def amt (st : Store Rec) (k : Key) (d : Denom) : Nat :=
  match sGet st k with
  | some r => coinsGet r.coins d
  | none => 0

/-- Σ of the outputs of a create message that land on key `k` (duplicates of one recipient add up) -/
def outsFor (name : List Char) (t : DType) : List Output → Key → Denom → Nat
  | [], _, _ => 0
  | o :: r, k, d => (if recordKey name t o.addr = k then coinsGet o.coins d else 0) + outsFor name t r k d

/-- Σ of all outputs of a create message -/
def outsTotal : List Output → Denom → Nat
  | [], _ => 0
  | o :: r, d => coinsGet o.coins d + outsTotal r d

/-- `escrow_covers` for one denom: the module account holds at least Σ pending + Σ failed -/
def escrowCovers (module : Addr) (s : DispState) (d : Denom) : Prop :=
  sumStore d s.pending + sumStore d s.failed ≤ s.bank.bal module d

instance (module : Addr) (s : DispState) (d : Denom) : Decidable (escrowCovers module s d) := by
  unfold escrowCovers; infer_instance

/-- the judge's form: on a list of denoms -/
def escrowCoversOn (ds : List Denom) (module : Addr) (s : DispState) : Bool :=
  ds.all fun d => decide (escrowCovers module s d)

/-- cumulative ledger (ghost / observed): per key and denom, what was created for it and what
    was paid out for it -/
structure Ledger where
  created : Key → Denom → Nat
  paid : Key → Denom → Nat
  failedCum : Key → Denom → Nat

def Ledger.zero : Ledger := ⟨fun _ _ => 0, fun _ _ => 0, fun _ _ => 0⟩

/-- the exact ledger equation (ghost `failedCum` = everything that ever moved to failed) -/
def ledgerEq (l : Ledger) (s : DispState) (k : Key) (d : Denom) : Prop :=
  l.paid k d + amt s.pending k d + l.failedCum k d = l.created k d

/-- ghost update of the ledger by what one transaction paid / failed -/
def ledgerPay (l : Ledger) : List (Key × Rec × Outcome) → Ledger
  | [] => l
  | (k, r, .paid) :: os =>
      ledgerPay { l with paid := fun k' d => l.paid k' d + (if k' = k then coinsGet r.coins d else 0) } os
  | (k, r, .failed) :: os =>
      ledgerPay { l with failedCum := fun k' d => l.failedCum k' d + (if k' = k then coinsGet r.coins d else 0) } os
  | (_, _, .skipped) :: os => ledgerPay l os

/-- ghost update of the ledger by an accepted create message -/
def ledgerCreate (l : Ledger) (name : List Char) (t : DType) (outs : List Output) : Ledger :=
  { l with created := fun k d => l.created k d + outsFor name t outs k d }

/-- what a transaction's trace paid to account `a` -/
def paidTo : List (Key × Rec × Outcome) → Addr → Denom → Nat
  | [], _, _ => 0
  | (_, r, .paid) :: os, a, d => (if r.rcpt = a then coinsGet r.coins d else 0) + paidTo os a d
  | (_, _, _) :: os, a, d => paidTo os a d

/-- ghost ledger along a history: an accepted create adds its outputs to `created`, a run adds
    what it paid / failed -/
def ledgerStep (cfg : ChainCfg) (c : Chain) (op : Op) (l : Ledger) : Ledger :=
  match op with
  | .tx (.create m) =>
      if (step cfg c op).2.1 = .ok then ledgerCreate l (distName c.height m.distributor) m.typ m.outputs else l
  | .tx (.run _) => ledgerPay l (step cfg c op).2.2
  | _ => l

def runOpsL (cfg : ChainCfg) : Chain × Ledger → List Op → Chain × Ledger
  | cl, [] => cl
  | (c, l), op :: ops => runOpsL cfg ((step cfg c op).1, ledgerStep cfg c op l) ops

/-- side conditions on operations: the module account has no key, so it never signs a create
    message and never is the sender of a bank transfer -/
def opOK (cfg : ChainCfg) : Op → Bool
  | .tx (.create m) => m.distributor != cfg.disp.module
  | .transfer frm _ _ => frm != cfg.disp.module
  | _ => true

/-- side conditions on the configuration: one module account; the ecosystem pool is another account -/
def cfgOK (cfg : ChainCfg) : Bool :=
  cfg.mint.module == cfg.disp.module && cfg.mint.ecoPool != cfg.disp.module

/-- everything a transaction's trace paid out -/
def paidAll : List (Key × Rec × Outcome) → Denom → Nat
  | [], _ => 0
  | (_, r, .paid) :: os, d => coinsGet r.coins d + paidAll os d
  | (_, _, _) :: os, d => paidAll os d

/-- the observable form (the failed *store* forgets overwritten entries, hence ≤):
    never more paid out, pending and failed for a key than was created for it;
    the completed store never shows more than was paid -/
def ledgerObs (created paid : Key → Denom → Nat) (s : DispState) (k : Key) (d : Denom) : Prop :=
  paid k d + amt s.pending k d + amt s.failed k d ≤ created k d ∧ amt s.completed k d ≤ paid k d

instance (created paid : Key → Denom → Nat) (s : DispState) (k : Key) (d : Denom) :
    Decidable (ledgerObs created paid s k d) := by unfold ledgerObs; infer_instance

def ledgerObsOn (ks : List Key) (ds : List Denom) (created paid : Key → Denom → Nat) (s : DispState) : Bool :=
  ks.all fun k => ds.all fun d => decide (ledgerObs created paid s k d)

/-- One run transaction as observed on the implementation: `deltas` = balance increases of the
    accounts (address, coins); `pre`/`post` = pending store before/after.
    * at most `count` accounts were paid (none if the count is not positive);
    * every paid account had a pending record of the message's name and type whose authorised
      runner is the message's runner (= its signer), was paid exactly that record's coins, and the
      record is gone from pending afterwards. -/
def runObsOK (m : MsgRun) (pre post : Store Rec) (deltas : List (Addr × Coins)) (ds : List Denom) : Bool :=
  decide ((deltas.length : Int) ≤ max m.count 0) &&
  deltas.all fun (a, c) =>
    match sGet pre (recordKey m.name m.typ a) with
    | none => false
    | some r => r.runner == m.runner && r.name == m.name && r.typ == m.typ && r.rcpt == a &&
        (ds.all fun d => coinsGet c d == coinsGet r.coins d) &&
        !sHas post (recordKey m.name m.typ a)

/-- Nothing is silently dropped by a run (as observed): every record that was pending before the
    transaction and is not pending after it was either paid — its recipient's balance grew by
    exactly the record's coins — or is now in the failed store with its coins.
    (`pending ∪ completed ∪ failed` keeps accounting for every output ever created.) -/
def leaversOK (pre post postFailed : Store Rec) (deltas : List (Addr × Coins)) (ds : List Denom) : Bool :=
  pre.all fun (k, r) =>
    sHas post k ||
    (deltas.any fun (a, c) => a == r.rcpt && ds.all fun d => coinsGet c d == coinsGet r.coins d) ||
    (match sGet postFailed k with
     | some f => ds.all fun d => coinsGet f.coins d == coinsGet r.coins d
     | none => false)

/-- keys of a store are pairwise different (a user holds at most one claim per type: the claim
    store has one entry per (user, type) key) -/
def keysNodup {α} (st : Store α) : Bool := decide (st.map (·.1)).Nodup

/-- paying a claim-type record deletes the claim: no claim (rcpt, type) for the paid records -/
def claimsDeleted (claims : Store Unit) (paid : List Rec) : Bool :=
  paid.all fun r => !r.typ.claimable || !sHas claims (claimKey r.rcpt r.typ)

end Sif.Spec.C11
