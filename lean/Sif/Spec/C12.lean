import Sif.Model.Registry
/-
  C12 — token-registry permissions gate every AMM operation and IBC export.
  Core only.  Two things live here:
  * `allowed`: the decision function of DESIGN 4/C12 written directly from the property statement
    (which registry facts must hold for a message to go through) — what theorems and `chk` lines use;
  * `table`: the decision table as guard data, the value the regenerated facts
    (Sif/Generated/Perms.lean) must equal.
-/
namespace Sif.Spec.C12
open Sif.Registry

inductive Kind where
  | createPool | addLiquidity | removeLiquidity | removeLiquidityUnits | swap | transfer
  deriving DecidableEq, Repr, Inhabited

/-- the entry of `d` exists and lists permission `p` -/
def hasP (reg : Registry) (d : String) (p : Perm) : Bool :=
  match getEntry reg d with
  | some e => e.perms.contains p
  | none => false

/-- the entry of `d` exists and does not list `p` -/
def lacksP (reg : Registry) (d : String) (p : Perm) : Bool :=
  match getEntry reg d with
  | some e => !(e.perms.contains p)
  | none => false

def registered (reg : Registry) (d : String) : Bool := (getEntry reg d).isSome

/-- the entry of `d` exists and is not an alias denomination -/
def notAlias (reg : Registry) (d : String) : Bool :=
  match getEntry reg d with
  | some e => decide (e.unitDenom = "") || decide (e.unitDenom = e.denom)
  | none => false

/-- a swap selling `s` for `b` is permitted -/
def swapDirOK (reg : Registry) (s b : String) : Bool :=
  lacksP reg s .disableSell && lacksP reg b .disableBuy

/-- DESIGN 4/C12 decision table, as a function of the registry and the message -/
def allowed (reg : Registry) (k : Kind) (m : Msg) : Bool :=
  match k with
  | .createPool | .removeLiquidity | .removeLiquidityUnits => hasP reg m.ext .clp
  | .addLiquidity =>
      registered reg m.native && hasP reg m.ext .clp &&
      (match m.swapStatus with
       | .sellNative => swapDirOK reg m.native m.ext
       | .buyNative => swapDirOK reg m.ext m.native
       | .noSwap => true)
  | .swap =>
      hasP reg m.sent .clp && hasP reg m.received .clp && swapDirOK reg m.sent m.received
  | .transfer =>
      registered reg m.token && notAlias reg m.token && hasP reg m.token .ibcexport && m.amountPositive

def g (gd : Guard) (c : Cond := .always) : Fact := ⟨gd, c, true, false⟩

/-- the same table as guard data, in source order; every failing branch returns an error and no
    state write precedes any guard -/
def table : Kind → HandlerFacts
  | .createPool => ⟨true, false, [g (.present .ext), g (.has .ext .clp)]⟩
  | .removeLiquidity => ⟨true, false, [g (.present .ext), g (.has .ext .clp)]⟩
  | .removeLiquidityUnits => ⟨true, false, [g (.present .ext), g (.has .ext .clp)]⟩
  | .addLiquidity => ⟨true, false,
      [g (.present .native), g (.present .ext), g (.has .ext .clp),
       g (.lacks .native .disableSell) .sellNative, g (.lacks .ext .disableBuy) .sellNative,
       g (.lacks .ext .disableSell) .buyNative, g (.lacks .native .disableBuy) .buyNative]⟩
  | .swap => ⟨true, false,
      [g (.present .sent), g (.present .received), g (.has .sent .clp), g (.has .received .clp),
       g (.lacks .sent .disableSell), g (.lacks .received .disableBuy)]⟩
  | .transfer => ⟨true, true,
      [g (.present .token), g (.notAlias .token), g (.has .token .ibcexport), g .amountPositive]⟩

/-- `GetEntry` looks at `.Denom` only, returns the first element whose denom is equal, else an error -/
def lookupExpected : LookupFacts := ⟨["Denom"], 1, true, true⟩

/-- `SetToken` reads only `.Denom` of stored entries, never writes into the incoming entry, stores it
    verbatim (replace or append) -/
def setTokenExpected : SetTokenFacts := ⟨["Denom"], 0, true, true⟩

/-! ### judge predicates (on the implementation's own registry and outcome) -/

/-- an accepted message held the permissions of the table -/
def acceptedOK (reg : Registry) (k : Kind) (m : Msg) (accepted : Bool) : Bool := !accepted || allowed reg k m

/-- a refused message left the state as it was (`same` = the state digests before and after agree) -/
def refusedOK (accepted same : Bool) : Bool := accepted || same

/-- an accepted registry message left in the store exactly what the edit says: `after` (the registry
    as stored after it) is `applyEdit before edit` — in particular Register REPLACES the entry of
    that denom by the message's entry (permissions included, also when the list is empty) -/
def regStoredOK (before : Registry) (e : Edit) (after : Registry) : Bool := decide (applyEdit before e = after)

end Sif.Spec.C12
