import Sif.Model.MarginHook
/-
  C13 — decidable statements.  Core only: the theorems of Sif/Props/C13.lean are about these
  definitions, and the driver evaluates the same definitions on the state the *implementation*
  dumped (`chk` lines).
-/
namespace Sif.Spec.C13
open Sif Sif.Margin

/-- custody a position contributes to side `nat` (true = native) of pool `sym` -/
def custOf (sym : Asset) (nat : Bool) (m : Mtp) : Nat :=
  if m.poolSym = sym ∧ isNative m.cust = nat then m.custody else 0

/-- liabilities a position contributes to side `nat` of pool `sym` (the side of its collateral) -/
def liabOf (sym : Asset) (nat : Bool) (m : Mtp) : Nat :=
  if m.poolSym = sym ∧ isNative m.coll = nat then m.liab else 0

def sumBy (f : Mtp → Nat) (l : List Mtp) : Nat := (l.map f).sum

/-- one pool agrees with the positions -/
def poolOK (ms : List Mtp) (p : Pool) : Bool :=
  p.nCust == sumBy (custOf p.sym true) ms && p.eCust == sumBy (custOf p.sym false) ms &&
  p.nLiab == sumBy (liabOf p.sym true) ms && p.eLiab == sumBy (liabOf p.sym false) ms

/-- **MarginOK**: per pool and side, custody = Σ positions' custody and liabilities = Σ positions'
    liabilities; the open counter is the number of stored positions; every position's pool exists. -/
def marginOK (pools : List Pool) (ms : List Mtp) (openCount : Nat) : Bool :=
  pools.all (poolOK ms) && openCount == ms.length &&
  ms.all (fun m => pools.any (fun p => p.sym = m.poolSym))

def MarginOK (s : State) : Bool := marginOK s.pools s.mtps s.openCount

/-- a position is between the native asset and exactly one other asset -/
def pairOK (m : Mtp) : Bool := isNative m.coll != isNative m.cust

/-- auxiliary invariant (store well-formedness): distinct position keys, distinct pool symbols, no
    pool of the native asset itself, ids handed out by the counter, every position a proper long
    pair, the counter below 2^64 -/
def WF (s : State) : Bool :=
  decide ((s.mtps.map Mtp.key).Nodup) && decide ((s.pools.map (fun p => p.sym)).Nodup) &&
  s.pools.all (fun p => !isNative p.sym) &&
  s.mtps.all (fun m => decide (m.id ≤ s.mtpCount) && decide (m.id ≠ 0) && pairOK m && decide (m.pos = 1)) &&
  decide (s.mtps.length ≤ s.mtpCount) && decide (s.mtpCount < u64)

/-- the health the chain computes for a position in a pool (`UpdateMTPHealth`), or none if it
    cannot be computed -/
def healthOf (s : State) (m : Mtp) (p : Pool) : Option Dec :=
  match updateMTPHealth s m p with
  | .ok h => some h
  | .error _ => none

/-- "health exceeds the safety factor" -/
def healthAbove (s : State) (m : Mtp) (p : Pool) : Bool :=
  match healthOf s m p with
  | some h => decide (s.params.safetyFactor < h)
  | none => false

/-- judge for a successful Open: the stored position, valued in its stored pool, is above the safety factor -/
def openHealthOK (s : State) (a : Addr) (id : Nat) : Bool :=
  match getMtpL s.mtps (a, id) with
  | none => false
  | some m => match getPoolL s.pools m.poolSym with
    | none => false
    | some p => healthAbove s m p

/-- judge for a liquidation in the BeginBlocker: the health the hook computed for the position
    (the implementation's own value) was at or below the safety factor -/
def forcedOK (health safety : Dec) : Bool := decide (health ≤ safety)

/-- judge for a liquidation in the BeginBlocker, on the state the hook had when the position's turn came
    (the position as stored, the pool record as it stood then): valued by the model's `UpdateMTPHealth`,
    the position was not above the safety factor — the conclusion of `forced_only_unhealthy` -/
def forcedStateOK (s : State) (m : Mtp) : Bool :=
  match getPoolL s.pools m.poolSym with
  | some p => !healthAbove s m p
  | none => false

/-- judge for a close by message: the closer is the owner or holds the margin administrator role -/
def closerOK (signer owner : Addr) (isAdmin : Bool) : Bool := signer == owner || isAdmin

/-- judge for Open's bank effect: exactly the collateral left the trader and arrived at the clp module -/
def openTakesOK (traderBefore traderAfter clpBefore clpAfter collAmt : Nat) : Bool :=
  traderAfter + collAmt == traderBefore && clpAfter == clpBefore + collAmt

/-! ### the backing identity of C01, restricted to the margin world -/

/-- what the pool records say the clp module account holds of token `d`: balance plus custody — of
    every pool for the native token, of the pool of that symbol for an external token (there are no
    reward buckets in the margin histories) -/
def heldFor (pools : List Pool) (d : Asset) : Nat :=
  if isNative d then (pools.map (fun p => p.nBal + p.nCust)).sum
  else ((pools.filter (fun p => p.sym = d)).map (fun p => p.eBal + p.eCust)).sum

/-- **margin backing** (C01 for margin processing): for every listed token the clp module account's
    bank balance is exactly what the pool records account for -/
def backingOK (pools : List Pool) (clpBalances : List (Asset × Nat)) : Bool :=
  clpBalances.all (fun db => db.2 == heldFor pools db.1)

/-- the same on a model state, for a list of tokens -/
def Backing (s : State) (denoms : List Asset) : Bool :=
  backingOK s.pools (denoms.map (fun d => (d, s.bank.bal s.clp.clpAddr d)))

/-- the ledger part of two pool records agrees -/
def sameLedgerB (p0 p : Pool) : Bool :=
  p0.sym == p.sym && p0.nCust == p.nCust && p0.eCust == p.eCust && p0.nLiab == p.nLiab && p0.eLiab == p.eLiab

/-- the ledger part of two position records agrees -/
def mtpSameB (m0 m : Mtp) : Bool :=
  m0.key == m.key && m0.custody == m.custody && m0.liab == m.liab && m0.coll == m.coll && m0.cust == m.cust && m0.pos == m.pos

/-- the world the BeginBlocker hands to the processing of one position: the in-memory position is
    the stored one and the shared in-memory pool is the stored pool of that position (on the ledger) -/
def syncedW (w : W) : Bool :=
  (match getPoolL w.s.pools w.pool.sym with
    | some p0 => sameLedgerB p0 w.pool
    | none => false) &&
  (match getMtpL w.s.mtps w.mtp.key with
    | some m0 => mtpSameB m0 w.mtp
    | none => false) &&
  w.mtp.poolSym == w.pool.sym

/-! ### histories -/

/-- what the environment may change between margin operations: parameters and roles (administrator
    messages of margin, clp, admin), every bank balance, the block height, and the two balance
    fields of any pool (x/clp swaps, liquidity additions and removals).  Custody, liabilities,
    positions and the counters are not in its reach. -/
structure EnvChange where
  params : Params
  clp : ClpParams
  admins : List Addr
  whitelist : List Addr
  bank : Bank
  height : Int
  bals : List (Asset × Nat × Nat)

def applyBals : List (Asset × Nat × Nat) → State → State
  | [], s => s
  | (sym, n, e) :: r, s =>
    applyBals r (match getPoolL s.pools sym with
      | some p => s.setPool { p with nBal := n, eBal := e }
      | none => s)

inductive Op where
  | msg (m : Msg)
  | beginBlock (rates : Asset → Option Dec)
  | env (e : EnvChange)

/-- one step of a history.  A panic in BeginBlock halts the chain: nothing of that block is committed. -/
def step (fx : Fixes) (s : State) : Op → State
  | .msg m => deliver fx s m
  | .beginBlock rates =>
    match beginBlocker fx s rates with
    | .ok s' => s'
    | .error _ => s
  | .env e =>
    applyBals e.bals { s with params := e.params, clp := e.clp, admins := e.admins, whitelist := e.whitelist,
                              bank := e.bank, height := e.height }

def run (fx : Fixes) (s : State) (ops : List Op) : State := ops.foldl (step fx) s

/-- number of Open messages in a history (each takes one id from the 64-bit counter) -/
def opens : List Op → Nat
  | [] => 0
  | .msg (.open _) :: r => opens r + 1
  | _ :: r => opens r

end Sif.Spec.C13
