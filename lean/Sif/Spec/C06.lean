import Sif.Model.EthBridge
import Sif.Spec.C05
/-
  C06 — each bridged Ethereum event is credited at most once, as agreed.  Decidable statements over
  balance / supply views (`Nat → String → Nat`, `String → Nat`) restricted to a list of keys: the theorems
  of Props/C06 state them for every key list; the driver evaluates them on the implementation's dumped
  balances before and after a claim message.  Core only.
-/
namespace Sif.Spec.C06
open Sif.Oracle Sif.Bank Sif.EthBridge

abbrev BalView := Nat → String → Nat
abbrev SupView := String → Nat

/-- nothing moved on the given keys -/
def sameOn (bb ba : BalView) (sb sa : SupView) (keys : List (Nat × String)) (denoms : List String) : Bool :=
  keys.all (fun k => ba k.1 k.2 == bb k.1 k.2) && denoms.all (fun d => sa d == sb d)

/-- the credit a final claim content stands for: receiver, denomination, amount
    (lock of an Ethereum asset: "c" ++ symbol; burn of a Sifchain-native asset: the symbol itself) -/
def creditOf : Content → Option (Nat × String × Nat)
  | .eth recv amount symbol _ ctype =>
    if amount < 0 then none
    else if ctype = 2 then some (recv, peggedPrefix ++ symbol, amount.toNat)
    else if ctype = 1 then some (recv, symbol, amount.toNat)
    else none
  | .empty => none

/-- exactly the credit `(recv, denom, n)` happened on the given keys: receiver and supply up by `n`, nothing else -/
def creditedOn (c : Nat × String × Nat) (bb ba : BalView) (sb sa : SupView) (keys : List (Nat × String)) (denoms : List String) : Bool :=
  keys.all (fun k => ba k.1 k.2 == bb k.1 k.2 + (if k.1 = c.1 ∧ k.2 = c.2.1 then c.2.2 else 0)) &&
  denoms.all (fun d => sa d == sb d + (if d = c.2.1 then c.2.2 else 0))

/-- One claim message, observed from outside: coins move iff the message succeeded and turned the prophecy
    SUCCESS in this very step (`sb ≠ success`, `sa = success`), and then exactly the credit of the final
    claim happens; otherwise no balance and no supply changes. -/
def creditStep (ok : Bool) (sb sa : StatusText) (final : Content)
    (bb ba : BalView) (sB sA : SupView) (keys : List (Nat × String)) (denoms : List String) : Bool :=
  if ok && sb != .success && sa == .success then
    match creditOf final with
    | some c => creditedOn c bb ba sB sA keys denoms
    | none => false
  else sameOn bb ba sB sA keys denoms

/-- The contents, among those the validators' accepted claim MESSAGES carried (`msgs`: validator ↦ content as sent), that
    hold the threshold now: 10 · support ≥ 7 · total > 0 over currently whitelisted bonded validators. -/
def winners (vals : List Validator) (wl : List Nat) (msgs : List (Nat × Content)) : List Content :=
  ((msgs.map (·.2)).eraseDups).filter (fun c =>
    decide (7 * Spec.C05.total vals wl ≤ 10 * Spec.C05.support vals wl msgs c) && decide (0 < Spec.C05.total vals wl))

/-- What a claim message credited is judged against the claim messages themselves, not against the stored final claim:
    either nothing moved, or exactly the credit of a content that the validators' messages carried and that holds the
    threshold (receiver, amount and symbol as the validators sent them). -/
def creditFromMessages (vals : List Validator) (wl : List Nat) (msgs : List (Nat × Content))
    (bb ba : BalView) (sB sA : SupView) (keys : List (Nat × String)) (denoms : List String) : Bool :=
  sameOn bb ba sB sA keys denoms ||
  (winners vals wl msgs).any (fun c =>
    match creditOf c with
    | some cr => creditedOn cr bb ba sB sA keys denoms
    | none => false)

/-- Ledger over a history: the credits observed for one prophecy id (each a list of balance deltas and a list
    of supply deltas) are either none, or a single one that equals the credit of the final claim of a
    successful prophecy. -/
def ledgerOK (status : StatusText) (final : Content) (credits : List (List (Nat × String × Int) × List (String × Int))) : Bool :=
  match credits with
  | [] => true
  | [(db, ds)] =>
    status == .success &&
      (match creditOf final with
       | some c => db == [(c.1, c.2.1, (c.2.2 : Int))] && ds == [(c.2.1, (c.2.2 : Int))]
       | none => false)
  | _ => false

/-- A restart from the exported genesis carries the bridge state: every prophecy (status, final claim, both claim
    maps) and the rest of the oracle / ethbridge state (given as its canonical dump) are the same before and after. -/
def restartCarries (pb pa : List Prophecy) (restB restA : String) : Bool := pb == pa && restB == restA

/-- after a lock credit of `c ++ sym`, `Lock` of that token is refused and `Burn` passes the peggy-token guard -/
def lockThenOnlyBurnable (peggy : List String) (denom : String) : Bool := peggy.contains denom

end Sif.Spec.C06

namespace Sif.EthBridge
open Sif.Oracle Sif.Spec.C06

def Out.isOk : Out → Bool
  | .failed _ => false
  | _ => true

def Msg.isClaim : Msg → Bool
  | .claim _ => true
  | _ => false

/-- status of the prophecy `id` in an oracle state; an absent prophecy counts as pending -/
def statusOf (o : OState) (id : String) : StatusText :=
  match getProphecy o.prophecies id with
  | some p => p.status
  | none => .pending

def finalOf (o : OState) (id : String) : Content :=
  match getProphecy o.prophecies id with
  | some p => p.final
  | none => .empty

/-- the credit a step of a history performs, with the prophecy id it is performed for: a claim message that is
    accepted and reports SUCCESS credits the final claim of its prophecy (`Props.C06.credit_step` ties this to
    the bank); no other step credits anything -/
def stepCredit (ord : List Group → List Group) (w : World) : Step → Option (String × (Nat × String × Nat))
  | .msg (.claim m) =>
    if (deliver ord w.vals w.s (.claim m)).2 = .claimed .success then
      (creditOf (finalOf (deliver ord w.vals w.s (.claim m)).1.oracle (claimOf m).id)).map (fun c => ((claimOf m).id, c))
    else none
  | _ => none

/-- the credits one step performs for prophecy `id` (none or one) -/
def creditFor (ord : List Group → List Group) (w : World) (st : Step) (id : String) : List (Nat × String × Nat) :=
  match stepCredit ord w st with
  | some (i, c) => if i = id then [c] else []
  | none => []

/-- all credits a history performs for prophecy `id`, in order -/
def creditsOf (ord : List Group → List Group) (w : World) : List Step → String → List (Nat × String × Nat)
  | [], _ => []
  | st :: rest, id => creditFor ord w st id ++ creditsOf ord (stepWorld ord w st) rest id

end Sif.EthBridge
