import Sif.Model.Determinism
/-
  C09 — decidable predicates.  Core only.
  (a) the judge of the re-execution harness: N observations of the same block / transaction are equal;
  (b) the coverage table of tie 1: which `range`-over-map sites and which float/time/rand/goroutine
      uses the order-independence theorems (Sif/Props/C09.lean) and the design's argument cover.
      A site of the regenerated facts that is not in these tables fails the obligation.
-/
namespace Sif.Spec.C09
open Sif.Det

/-- all observations equal the first one (what "bit-identical across N executions" means) -/
def allEqual : List String → Bool
  | [] => true
  | x :: xs => xs.all (· == x)

/-- exactly `n` observations (n ≥ 2: a single execution shows nothing), all equal -/
def allEqualN (n : Nat) (xs : List String) : Bool :=
  decide (2 ≤ n) && xs.length == n && allEqual xs

/-- An epoch end as the state shows it (epochs BeginBlocker → `EndEpoch`): the counter goes up by one and the new
    start time is the old start time plus the duration — a function of the stored epoch alone, whatever the clock of
    the executing node says and however long ago the block was produced. -/
def epochEndOK (oldStart duration newStart oldCurrent newCurrent : Int) : Bool :=
  newStart == oldStart + duration && newCurrent == oldCurrent + 1

/-- how a map-range site is covered -/
inductive Cover where
  /-- by the named order-independence theorem of `Sif.Props.C09` -/
  | thm (name : String)
  /-- the loop writes no consensus state: it only builds another map / a slice used for events,
      logs or query answers (reason given) -/
  | noState (why : String)
  deriving DecidableEq, Repr

/-- The covered map-range sites: exactly what the fact translator reports for the reviewed tree
    (package, function, operand, key/value types, calls of the body in source order, exits).  Any
    change of a loop body, and any new site, makes `uncoveredRanges` non-empty. -/
def coveredRanges : List (RangeSite × Cover) := [
  ({ pkg := "app", fn := "GetMaccPerms", operand := "maccPerms", key := "string", val := "[]string",
     calls := [], exits := [], next := "return modAccPerms" },
   .noState "copies a map into a map (insertion order irrelevant)"),
  ({ pkg := "app", fn := "SifchainApp.ModuleAccountAddrs", operand := "maccPerms", key := "string", val := "[]string",
     calls := ["authtypes.NewModuleAddress().String", "authtypes.NewModuleAddress"], exits := [], next := "return modAccAddrs" },
   .noState "builds the blocked-address map (insertion order irrelevant)"),
  -- after repair F20 the epoch payout loop runs over the SORTED assets; the map is only ranged to collect its keys
  ({ pkg := "x/clp/keeper", fn := "Keeper.AfterEpochEnd", operand := "rewardsEligibleLps", key := "types.Asset", val := "[]*types.LiquidityProvider",
     calls := ["append"], exits := [], next := "sort.Slice(assets, func(i, j int) bool { return assets[i].Symbol < assets[j].Symbol })" },
   .noState "collects the map keys; the very next statement sorts them by symbol and the payout loop ranges over the sorted slice (repair F20; before it: epoch_assets_perm + its counterexample)"),
  ({ pkg := "x/clp/keeper", fn := "Keeper.DistributeDepthRewards", operand := "poolRowanMap", key := "*types.Pool", val := "types.Uint",
     calls := ["poolRowanMapSum.Add"], exits := [],
     next := "if !coinsToMint.Equal(poolRowanMapSum) { k.Logger(ctx).Info(fmt.Sprintln(\"coinsToMint\", coinsToMint.String(), \" != poolR" },
   .thm "poolRowanMap_sum_perm"),
  ({ pkg := "x/clp/keeper", fn := "Keeper.DistributeDepthRewards", operand := "poolRowanMap", key := "*types.Pool", val := "types.Uint",
     calls := ["rowan.Equal", "sdk.ZeroUint", "RewardPeriodNativeDistributed.Add", "k.SetPool"], exits := [], next := "" },
   .thm "rewards_poolUpdate_perm"),
  ({ pkg := "x/clp/keeper", fn := "Keeper.TransferProviderDistribution", operand := "poolRowanMap", key := "*types.Pool", val := "types.Uint",
     calls := ["k.RemoveRowanFromPool"], exits := [], next := "" },
   .thm "lppd_poolUpdate_perm"),
  -- after repair F20 the payout loop runs over the SORTED addresses; the map is only ranged to collect its keys
  ({ pkg := "x/clp/keeper", fn := "Keeper.TransferProviderDistributionGeneric", operand := "lpRowanMap", key := "string", val := "types.Uint",
     calls := ["append"], exits := [], next := "sort.Strings(lpAddresses)" },
   .noState "collects the map keys; the very next statement sorts them and the payout loop ranges over the sorted slice (repair F20; before it: transfer_perm + its counterexample)"),
  ({ pkg := "x/clp/keeper", fn := "PoolRowanMapToLPPools", operand := "poolRowanMap", key := "*types.Pool", val := "types.Uint",
     calls := ["append"], exits := [], next := "return arr" },
   .noState "slice in map order, used only for the `amounts` attribute of the rewards event (events are not part of the app hash nor of the compared DeliverTx fields)"),
  ({ pkg := "x/ethbridge/types", fn := "MapOracleClaimsToEthBridgeClaims", operand := "oracleValidatorClaims", key := "string", val := "string",
     calls := ["sdk.ValAddressFromBech32", "sdkerrors.Wrap", "fmt.Sprintf", "f"], exits := ["return", "return"], next := "" },
   .noState "only called by the gRPC query handler (x/ethbridge/keeper/grpc_query.go); query answers are not consensus state"),
  -- the body with the F2 repair (`inWhiteList`): only then are the counted powers bounded by the total
  ({ pkg := "x/oracle/types", fn := "Prophecy.FindHighestClaim", operand := "prophecy.ClaimValidators", key := "string", val := "[]types.ValAddress",
     calls := ["int64", "fmt.Printf", "validatorAddr.String", "validatorAddr.String", "inWhiteList", "validator.GetConsensusPower", "fmt.Printf", "fmt.Printf"], exits := [], next := "" },
   .thm "tally_perm_invariant")
]

/-- sites of the regenerated facts that the table does not cover -/
def uncoveredRanges (sites : List RangeSite) : List RangeSite :=
  sites.filter (fun s => !(coveredRanges.any (fun c => decide (c.1 = s))))

/-- Allowed uses of floats, package math, wall-clock time, local-zone time constructors (`time.Unix…`, `time.Local`,
    `time.Parse`), rendering of time values (`timefmt.*`), environment reads (`env.*`), goroutines (with the reason).  `n` is part
    of the key: one more float expression in a listed function fails the obligation. -/
def allowedUses : List (UseSite × String) := [
  ({ pkg := "app", fn := "init", kind := "env.UserHomeDir", n := 1 }, "DefaultNodeHome (where the node keeps its files); never reaches the state machine"),
  ({ pkg := "x/clp/keeper", fn := "Keeper.DistributeDepthRewards", kind := "timefmt.String", n := 1 },
   "ctx.BlockTime().String() stored as RewardPeriodStartTime: the header time is decoded from protobuf as UTC on every node, so the text does not depend on the process's zone (exercised by the far-environment worker)"),
  ({ pkg := "app", fn := "NewSifAppWithBlacklist", kind := "float", n := 1 }, "passes the constant DefaultConsensusNeeded to the oracle keeper"),
  ({ pkg := "x/admin/types", fn := "<package-level>", kind := "math.Inf", n := 3 }, "protobuf-generated `var _ = math.Inf`"),
  ({ pkg := "x/clp", fn := "BeginBlocker", kind := "time", n := 1 }, "telemetry only (ModuleMeasureSince)"),
  -- where each wall-clock value flows (time.flow:<consumers>): telemetry, or the log line of MeasureBlockTime
  ({ pkg := "x/clp", fn := "BeginBlocker", kind := "time.flow:telemetry", n := 1 }, "passed straight to telemetry.ModuleMeasureSince"),
  ({ pkg := "x/clp", fn := "EndBlocker", kind := "time.flow:telemetry", n := 1 }, "passed straight to telemetry.ModuleMeasureSince"),
  ({ pkg := "x/clp", fn := "MeasureBlockTime", kind := "time.flow:var now -> addr-taken,addr-taken,method-Sub", n := 1 },
   "kept in the package variable blockTime (audited in auditedPkgVars) and subtracted for the `Block took …s` log line"),
  ({ pkg := "x/epochs/keeper", fn := "Keeper.BeginBlocker", kind := "time.flow:telemetry", n := 1 }, "passed straight to telemetry.ModuleMeasureSince"),
  ({ pkg := "x/clp", fn := "EndBlocker", kind := "time", n := 1 }, "telemetry only (ModuleMeasureSince)"),
  ({ pkg := "x/clp", fn := "ExportGenesis", kind := "math.MaxUint64", n := 2 }, "integer constant (pagination limit)"),
  ({ pkg := "x/clp", fn := "MeasureBlockTime", kind := "float", n := 1 }, "logging only (elapsed.Seconds())"),
  ({ pkg := "x/clp", fn := "MeasureBlockTime", kind := "time", n := 1 }, "logging only"),
  ({ pkg := "x/clp/keeper", fn := "DecToRat", kind := "float", n := 1 }, "math.Pow10(18) converted to int64: exact"),
  ({ pkg := "x/clp/keeper", fn := "DecToRat", kind := "math.Pow10", n := 1 }, "exact power of ten (table lookup in Go)"),
  ({ pkg := "x/clp/keeper", fn := "Keeper.GetAllLiquidityProviders", kind := "math.MaxUint64", n := 1 }, "integer constant"),
  ({ pkg := "x/clp/keeper", fn := "Keeper.GetAllLiquidityProvidersForAsset", kind := "math.MaxUint64", n := 1 }, "integer constant"),
  ({ pkg := "x/clp/keeper", fn := "Keeper.PolicyStart", kind := "float", n := 11 }, "NOT CPU-independent (known finding F29): math.Pow with a fractional exponent calls the per-architecture math.Exp; exercised by the cpu-features re-executions"),
  ({ pkg := "x/clp/keeper", fn := "Keeper.PolicyStart", kind := "math.Pow", n := 1 }, "known finding F29: math.Pow is not pure arithmetic (pow.go calls Exp, assembly with an FMA path on amd64)"),
  ({ pkg := "x/clp/keeper", fn := "msgServer.DecommissionPool", kind := "math.MaxUint64", n := 1 }, "integer constant"),
  ({ pkg := "x/clp/types", fn := "<package-level>", kind := "math.Inf", n := 6 }, "protobuf-generated `var _ = math.Inf`"),
  ({ pkg := "x/clp/types", fn := "RegisterQueryHandlerFromEndpoint", kind := "go", n := 1 }, "grpc-gateway generated; REST server, not the state machine"),
  ({ pkg := "x/dispensation/types", fn := "<package-level>", kind := "math.Inf", n := 3 }, "protobuf-generated `var _ = math.Inf`"),
  ({ pkg := "x/epochs/keeper", fn := "Keeper.BeginBlocker", kind := "time", n := 1 }, "telemetry only (ModuleMeasureSince)"),
  ({ pkg := "x/epochs/types", fn := "<package-level>", kind := "math.Inf", n := 2 }, "protobuf-generated `var _ = math.Inf`"),
  ({ pkg := "x/epochs/types", fn := "RegisterQueryHandlerFromEndpoint", kind := "go", n := 1 }, "grpc-gateway generated"),
  ({ pkg := "x/ethbridge/types", fn := "<package-level>", kind := "math.Inf", n := 4 }, "protobuf-generated `var _ = math.Inf`"),
  ({ pkg := "x/margin/keeper", fn := "CalcMTPInterestLiabilities", kind := "float", n := 1 }, "design 4/C09: Dec→float64→big.Rat, IEEE-754 nearest; argued, not proved"),
  ({ pkg := "x/margin/keeper", fn := "Keeper.CheckMinLiabilities", kind := "float", n := 1 }, "design 4/C09: Dec→float64→big.Rat; argued, not proved"),
  ({ pkg := "x/margin/keeper", fn := "Keeper.GetMTPs", kind := "math.MaxUint64", n := 1 }, "integer constant"),
  ({ pkg := "x/margin/keeper", fn := "Keeper.GetMTPsForPool", kind := "math.MaxUint64", n := 1 }, "integer constant"),
  ({ pkg := "x/margin/keeper", fn := "Keeper.GetSQFromBlocks", kind := "float", n := 8 }, "NOT CPU-independent (known finding F29): math.Pow with a fractional exponent calls the per-architecture math.Exp; exercised by the cpu-features re-executions"),
  ({ pkg := "x/margin/keeper", fn := "Keeper.GetSQFromBlocks", kind := "math.E", n := 1 }, "constant"),
  ({ pkg := "x/margin/keeper", fn := "Keeper.GetSQFromBlocks", kind := "math.Pow", n := 1 }, "known finding F29: math.Pow is not pure arithmetic (pow.go calls Exp, assembly with an FMA path on amd64)"),
  ({ pkg := "x/margin/keeper", fn := "Keeper.GetWhitelist", kind := "math.MaxUint64", n := 1 }, "integer constant"),
  ({ pkg := "x/margin/types", fn := "<package-level>", kind := "math.Inf", n := 5 }, "protobuf-generated `var _ = math.Inf`"),
  ({ pkg := "x/margin/types", fn := "RegisterQueryHandlerFromEndpoint", kind := "go", n := 1 }, "grpc-gateway generated"),
  ({ pkg := "x/oracle/keeper", fn := "Keeper.processCompletion", kind := "float", n := 10 }, "two int64→float64 divisions compared with 0.7 (IEEE-754 division is correctly rounded, hence deterministic); C05 models it"),
  ({ pkg := "x/oracle/keeper", fn := "NewKeeper", kind := "float", n := 5 }, "range check of the constant consensusNeeded at start-up"),
  ({ pkg := "x/oracle/types", fn := "<package-level>", kind := "float", n := 1 }, "the constant DefaultConsensusNeeded = 0.7"),
  ({ pkg := "x/oracle/types", fn := "<package-level>", kind := "math.Inf", n := 2 }, "protobuf-generated `var _ = math.Inf`"),
  ({ pkg := "x/tokenregistry/types", fn := "<package-level>", kind := "math.Inf", n := 4 }, "protobuf-generated `var _ = math.Inf`"),
  ({ pkg := "x/tokenregistry/types", fn := "RegisterQueryHandlerFromEndpoint", kind := "go", n := 1 }, "grpc-gateway generated")
]

def unallowedUses (uses : List UseSite) : List UseSite :=
  uses.filter (fun u => !(allowedUses.any (fun c => decide (c.1 = u))))

/-- names of the order-independence theorems the table refers to (checked against the theorems that
    exist in `Sif.Props.C09` by the obligation `coverage_names_exist`) -/
def coverTheorems : List String :=
  (coveredRanges.filterMap (fun c => match c.2 with | .thm n => some n | .noState _ => none)).eraseDups

/-- Audited process-level mutable state: every package-level variable written outside `init`, with the
    exact set of writes and the reason it cannot influence consensus.  Anything a node keeps in such a
    variable survives across blocks, transactions that were rolled back, simulations, and application
    instances in one process; a NEW variable (or a new kind of write to a listed one) fails the obligation. -/
def auditedPkgVars : List (PkgVar × String) := [
  ({ pkg := "app", name := "ModuleBasics", ty := "module.BasicManager",
     writes := ["call:DefaultGenesis", "call:RegisterGRPCGatewayRoutes", "call:RegisterInterfaces", "call:RegisterLegacyAminoCodec", "call:RegisterRESTRoutes"] },
   "value-receiver methods of the fixed module table; nothing is stored in it"),
  ({ pkg := "extern:github.com/cosmos/cosmos-sdk/version", name := "Version", ty := "string",
     writes := ["assign@NewSifAppWithBlacklist"] },
   "idempotent `v` prefixing of the build version at start-up; the version string is not consensus state"),
  ({ pkg := "x/admin/types", name := "ModuleCdc", ty := "*codec.AminoCodec", writes := ["call:MustMarshalJSON"] }, "codec: encodes its argument, keeps nothing"),
  ({ pkg := "x/admin/types", name := "_Msg_serviceDesc", ty := "grpc.ServiceDesc", writes := ["addr@RegisterInterfaces"] }, "generated service descriptor handed to the registry at start-up"),
  ({ pkg := "x/clp", name := "blockTime", ty := "*time.Time", writes := ["assign@MeasureBlockTime"] }, "wall-clock of the previous block, used for a log line only"),
  ({ pkg := "x/clp/types", name := "ModuleCdc", ty := "*codec.AminoCodec", writes := ["call:MustMarshalJSON", "call:MustMarshalLengthPrefixed"] }, "codec: encodes its argument, keeps nothing"),
  ({ pkg := "x/clp/types", name := "_Msg_serviceDesc", ty := "grpc.ServiceDesc", writes := ["addr@RegisterInterfaces"] }, "generated service descriptor"),
  ({ pkg := "x/dispensation/types", name := "ModuleCdc", ty := "*codec.AminoCodec", writes := ["call:MustMarshalJSON", "call:MustUnmarshalJSON"] }, "codec"),
  ({ pkg := "x/dispensation/types", name := "_Msg_serviceDesc", ty := "grpc.ServiceDesc", writes := ["addr@RegisterInterfaces"] }, "generated service descriptor"),
  ({ pkg := "x/ethbridge/types", name := "ModuleCdc", ty := "*codec.AminoCodec", writes := ["call:MustMarshalJSON"] }, "codec"),
  ({ pkg := "x/ethbridge/types", name := "_Msg_serviceDesc", ty := "grpc.ServiceDesc", writes := ["addr@RegisterInterfaces"] }, "generated service descriptor"),
  ({ pkg := "x/margin/types", name := "ModuleCdc", ty := "*codec.AminoCodec", writes := ["call:MustMarshalJSON"] }, "codec"),
  ({ pkg := "x/margin/types", name := "_Msg_serviceDesc", ty := "grpc.ServiceDesc", writes := ["addr@RegisterInterfaces"] }, "generated service descriptor"),
  ({ pkg := "x/tokenregistry/types", name := "ModuleCdc", ty := "*codec.AminoCodec", writes := ["call:MustMarshalJSON"] }, "codec"),
  ({ pkg := "x/tokenregistry/types", name := "_Msg_serviceDesc", ty := "grpc.ServiceDesc", writes := ["addr@RegisterInterfaces"] }, "generated service descriptor")
]

def unauditedPkgVars (vs : List PkgVar) : List PkgVar :=
  vs.filter (fun v => !(auditedPkgVars.any (fun c => decide (c.1 = v))))

end Sif.Spec.C09
