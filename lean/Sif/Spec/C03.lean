import Sif.Model.Clp.Calc
/-
  C03 — decidable statement of the per-leg constant-product bound.  Core only: evaluated by
  `sifdrv` on the outputs the *implementation* produced.
-/
namespace Sif.Spec.C03
open Sif Sif.Clp

/-- the fee-free constant-product output x·Y/(X+x), adjusted by the ratio-shifting rate -/
def adjusted (toRowan : Bool) (X x Y : Nat) (r : Dec) : Rat :=
  if toRowan then rawXYK x X Y / pmtpFactor r else rawXYK x X Y * pmtpFactor r

/-- upper bound of the property for one leg: adjusted·(1 − f) + 1 base unit -/
def upper (toRowan : Bool) (X x Y : Nat) (r f : Dec) : Rat :=
  adjusted toRowan X x Y r * (1 - decToRat f) + 1

/-- the leg bound as a Boolean, for the judge -/
def legOK (toRowan : Bool) (X x Y : Nat) (r f : Dec) (y : Nat) : Bool :=
  decide ((y : Rat) ≤ upper toRowan X x Y r f)

end Sif.Spec.C03
