import Sif.Model.Clp.Calc
/-
  C03 — decidable statement of the per-leg constant-product bound.  Core only: evaluated by
  `sifdrv` on the outputs the *implementation* produced.
-/
namespace Sif.Spec.C03
open Sif Sif.Clp

/-- the fee-free constant-product output x·Y/(X+x), adjusted by the ratio-shifting rate -/
def adjusted (toRowan : Bool) (X x Y : Nat) (r : Dec) : Rat :=
  if toRowan then rawXYK x X Y / pmtpFactor r else rawXYK x X Y * pmtpFactor r

/-- upper bound of the property for one leg: adjusted·(1 − f) + 1 base unit -/
def upper (toRowan : Bool) (X x Y : Nat) (r f : Dec) : Rat :=
  adjusted toRowan X x Y r * (1 - decToRat f) + 1

/-- the leg bound as a Boolean, for the judge -/
def legOK (toRowan : Bool) (X x Y : Nat) (r f : Dec) (y : Nat) : Bool :=
  decide ((y : Rat) ≤ upper toRowan X x Y r f)

end Sif.Spec.C03

namespace Sif.Spec.C03

/-- expected balance change of (account, denomination) by a successful swap -/
def delta (signer sent recv : String) (amt y : Nat) (a d : String) : Int :=
  (if a = signer ∧ d = sent then -(amt : Int) else 0) + (if a = signer ∧ d = recv then (y : Int) else 0) +
  (if a = "clp" ∧ d = sent then (amt : Int) else 0) + (if a = "clp" ∧ d = recv then -(y : Int) else 0)

/-- exact settlement, judged on the balance changes the implementation produced: every reported
    change is the expected one, every expected non-zero change is reported, and the output
    honours the minimum.  `changes` = all (account, denom, before, after) that differ. -/
def settleOK (signer sent recv : String) (amt mn y : Nat) (changes : List (String × String × Nat × Nat)) : Bool :=
  decide (mn ≤ y) &&
  changes.all (fun c => decide ((c.2.2.2 : Int) - (c.2.2.1 : Int) = delta signer sent recv amt y c.1 c.2.1)) &&
  [(signer, sent), (signer, recv), ("clp", sent), ("clp", recv)].all (fun k =>
    decide (delta signer sent recv amt y k.1 k.2 = 0) || changes.any (fun c => c.1 = k.1 && c.2.1 = k.2))

end Sif.Spec.C03

namespace Sif.Spec.C03
open Sif Sif.Clp

/-- adjusted constant-product output for a rational amount (used to chain the two legs) -/
def adjustedQ (toRowan : Bool) (X : Nat) (x : Rat) (Y : Nat) (r : Dec) : Rat :=
  let raw := x * Y / (X + x)
  if toRowan then raw / pmtpFactor r else raw * pmtpFactor r

/-- the price bound of the property for a whole swap, judged on the pool depths before the swap:
    single leg `y ≤ adj·(1−f) + 1`; external→external: the first leg's bound is fed into the second,
    both legs at the fee rate `f` configured for the token the trader sells (one base unit per leg) -/
def swapBoundOK (double toRowan : Bool) (X1 Y1 X2 Y2 x : Nat) (r f : Dec) (y : Nat) : Bool :=
  if double then
    let m : Rat := adjustedQ true X1 x Y1 r * (1 - decToRat f) + 1
    decide ((y : Rat) ≤ adjustedQ false X2 m Y2 r * (1 - decToRat f) + 1)
  else
    decide ((y : Rat) ≤ adjustedQ toRowan X1 x Y1 r * (1 - decToRat f) + 1)

/-- the output of a successful swap is strictly less than the pool's BALANCE of the output token (the coins
    the pool really holds — not its pricing depth, which includes margin liabilities) -/
def belowBalanceOK (y balance : Nat) : Bool := decide (y < balance)

end Sif.Spec.C03
