import Sif.Model.Relayer.Loop
/-
  C17 — the relayer scans contiguously after `t` confirmations and resumes without gaps.
  Decidable statements over an observed trace (`List Ev`): headers delivered, log queries with their
  bounds, submissions, cursor writes, restarts.  The theorems of `Props/C17.lean` prove them for every
  trace the model can produce; the driver evaluates the same definitions on the trace observed from the
  REAL loop (`chk` lines).  Nothing here mentions the model's step function.
-/
namespace Sif.Spec.C17
open Sif.Relayer.Loop

/-- observer state while walking a trace -/
structure Obs where
  c : Nat                        -- cursor the running process works with (0 = not initialised)
  mh : Nat                       -- newest header number delivered so far
  db : Nat                       -- LevelDB cursor
  pending : Option (Nat × Nat)   -- range returned by the last successful query of this iteration
  handled : Bool                 -- that range has been handed to the submitter
  deriving Repr, DecidableEq

/-- one observation; `none` = the trace breaks the property.  Clauses:
    * confirmation: a query / submission never reaches above `newest header − t`;
    * contiguity: a query starts exactly at the process's cursor (the previous range's end + 1, or the
      persisted cursor after a restart); with no cursor yet it is the single block `head − t`;
    * a submission is of exactly the range just queried;
    * cursor after handling: a cursor write happens only after the submission of the queried range and
      writes `end + 1`;
    * restart resumes from the persisted cursor. -/
def observe (t : Nat) (o : Obs) : Ev → Option Obs
  | .head n => some { o with mh := max o.mh n, pending := none, handled := false }
  | .query lo hi ok =>
      if hi + t ≤ o.mh && (if o.c = 0 then lo = hi else lo = o.c) then
        some { o with c := lo, pending := if ok then some (lo, hi) else none, handled := false }
      else none
  | .submit lo hi =>
      if o.pending = some (lo, hi) && hi + t ≤ o.mh then some { o with handled := true } else none
  | .put v =>
      match o.pending with
      | some (_, hi) => if o.handled && v = hi + 1 then some { o with db := v, c := v, pending := none, handled := false } else none
      | none => none
  | .restart p =>
      if p = o.db then some { o with c := p, pending := none, handled := false } else none

def observeAll (t : Nat) : Obs → List Ev → Option Obs
  | o, [] => some o
  | o, e :: es => match observe t o e with
    | none => none
    | some o' => observeAll t o' es

/-- the whole trace is admissible, starting with a process on cursor `p` -/
def traceOK (t p : Nat) (tr : List Ev) : Bool :=
  (observeAll t { c := p, mh := 0, db := p, pending := none, handled := false } tr).isSome

/-- block `b` was handed to the submitter somewhere in the trace -/
def covered (tr : List Ev) (b : Nat) : Bool :=
  tr.any (fun e => match e with | .submit lo hi => decide (lo ≤ b) && decide (b ≤ hi) | _ => false)

/-- cursor bookkeeping read off a trace: (LevelDB cursor, process cursor, first block of the scan) -/
structure Cur where
  db : Nat
  c : Nat
  first : Nat
  deriving Repr, DecidableEq

def curStep (k : Cur) : Ev → Cur
  | .query lo _ _ => if k.c = 0 then { k with c := lo, first := lo } else k
  | .put v => { k with db := v, c := v }
  | .restart p => { k with c := p }
  | _ => k

def curOf (p : Nat) (tr : List Ev) : Cur := tr.foldl curStep { db := p, c := p, first := p }

/-- no gap: every block from the first scanned block up to (excluding) the persisted cursor has been
    handed to the submitter at least once -/
def gapFree (p : Nat) (tr : List Ev) : Bool :=
  let k := curOf p tr
  k.db = 0 || (List.range (k.db - k.first)).all (fun i => covered tr (k.first + i))

/-! ### observations of the real loop, at the level of individual bridge events

  Against the real `EthereumSub.Start` the harness sees headers delivered, `eth_getLogs` ranges, the claims
  that arrive at the (simulated) Sifchain endpoint — possibly in several transactions per iteration —, every
  LevelDB write of the cursor — possibly several per iteration —, and restarts.  `place` is the scripted
  placement of bridge events (`nonce ↦ block`).  The predicates below do not assume how an implementation
  groups claims into transactions or how often it checkpoints: they state what every grouping must respect. -/

inductive Raw
  | head (n : Nat)
  | query (lo hi : Nat) (ok : Bool)
  | claims (nonces : List Nat)        -- one broadcast transaction
  | put (v : Nat)                     -- one LevelDB write of the cursor
  | restart (p : Nat)
  deriving Repr, DecidableEq

structure RObs where
  c : Nat                        -- cursor the running process works with (0 = not initialised)
  mh : Nat                       -- newest header number delivered so far
  db : Nat                       -- LevelDB cursor
  pending : Option (Nat × Nat)   -- range returned by the last successful query of this iteration
  sent : List Nat                -- nonces broadcast since that query (by this process)
  deriving Repr, DecidableEq

/-- nonce `n` is an event placed in one of the blocks lo..hi -/
def placedIn (place : List (Nat × Nat)) (lo hi n : Nat) : Bool :=
  place.any (fun nb => nb.1 = n && decide (lo ≤ nb.2) && decide (nb.2 ≤ hi))

/-- every event placed in a block of `[lo, v)` is among `sent` -/
def allSentBelow (place : List (Nat × Nat)) (sent : List Nat) (lo v : Nat) : Bool :=
  place.all (fun nb => !(decide (lo ≤ nb.2) && decide (nb.2 < v)) || sent.contains nb.1)

/-- one raw observation; `none` = the trace breaks the property.  Clauses:
    * confirmation: a query never reaches above `newest header − t`, and every claim broadcast is an event of
      the range just queried (so of a confirmed block);
    * contiguity: a query starts exactly at the process's cursor (with no cursor yet: the single block `head − t`);
    * cursor after handling: ANY write of the cursor — final or checkpoint — is admissible only if it stays
      within the queried range (`v ≤ hi + 1`) and every event in a block of that range below the written
      value has been broadcast before it: the persisted cursor is never beyond an unsubmitted event;
    * restart resumes from the persisted cursor. -/
def observeRaw (t : Nat) (place : List (Nat × Nat)) (o : RObs) : Raw → Option RObs
  | .head n => some { o with mh := max o.mh n, pending := none, sent := [] }
  | .query lo hi ok =>
      if decide (hi + t ≤ o.mh) && (if o.c = 0 then decide (lo = hi) else decide (lo = o.c)) then
        some { o with c := lo, pending := if ok then some (lo, hi) else none, sent := [] }
      else none
  | .claims ns =>
      match o.pending with
      | some (lo, hi) => if ns.all (placedIn place lo hi) then some { o with sent := ns ++ o.sent } else none
      | none => none
  | .put v =>
      match o.pending with
      | some (lo, hi) =>
          if decide (v ≤ hi + 1) && allSentBelow place o.sent lo v then some { o with db := v, c := v } else none
      | none => none
  | .restart p =>
      if p = o.db then some { o with c := p, pending := none, sent := [] } else none

def observeRawAll (t : Nat) (place : List (Nat × Nat)) : RObs → List Raw → Option RObs
  | o, [] => some o
  | o, e :: es => match observeRaw t place o e with
    | none => none
    | some o' => observeRawAll t place o' es

/-- the whole observed trace is admissible, starting with a process on cursor `p` -/
def rawTraceOK (t p : Nat) (place : List (Nat × Nat)) (raw : List Raw) : Bool :=
  (observeRawAll t place { c := p, mh := 0, db := p, pending := none, sent := [] } raw).isSome

def rawCurStep (k : Cur) : Raw → Cur
  | .query lo _ _ => if k.c = 0 then { k with c := lo, first := lo } else k
  | .put v => { k with db := v, c := v }
  | .restart p => { k with c := p }
  | _ => k

def rawCurOf (p : Nat) (raw : List Raw) : Cur := raw.foldl rawCurStep { db := p, c := p, first := p }

/-- all nonces broadcast anywhere in the trace -/
def allClaims (raw : List Raw) : List Nat :=
  raw.flatMap (fun r => match r with | .claims ns => ns | _ => [])

/-- no gap, per event: every bridge event in a block from the first scanned block up to (excluding) the
    persisted cursor has been broadcast at least once -/
def rawGapFree (p : Nat) (place : List (Nat × Nat)) (raw : List Raw) : Bool :=
  let k := rawCurOf p raw
  k.db = 0 || place.all (fun nb => !(decide (k.first ≤ nb.2) && decide (nb.2 < k.db)) || (allClaims raw).contains nb.1)

/-- nonces of the events placed in blocks lo..hi, ascending -/
def noncesIn (place : List (Nat × Nat)) (lo hi : Nat) : List Nat :=
  ((place.filter (fun nb => decide (lo ≤ nb.2) && decide (nb.2 ≤ hi))).map (·.1)).mergeSort

/-- the raw rendering of a model trace under a placement: the model hands a whole range to the submitter,
    which is one transaction with the events of that range (none if the range has no events) -/
def lowerEv (place : List (Nat × Nat)) : Ev → List Raw
  | .head n => [.head n]
  | .query lo hi ok => [.query lo hi ok]
  | .submit lo hi => if noncesIn place lo hi = [] then [] else [.claims (noncesIn place lo hi)]
  | .put v => [.put v]
  | .restart p => [.restart p]

def lower (place : List (Nat × Nat)) (tr : List Ev) : List Raw := tr.flatMap (lowerEv place)

end Sif.Spec.C17
