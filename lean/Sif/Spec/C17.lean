import Sif.Model.Relayer.Loop
/-
  C17 — the relayer scans contiguously after `t` confirmations and resumes without gaps.
  Decidable statements over an observed trace (`List Ev`): headers delivered, log queries with their
  bounds, submissions, cursor writes, restarts.  The theorems of `Props/C17.lean` prove them for every
  trace the model can produce; the driver evaluates the same definitions on the trace observed from the
  REAL loop (`chk` lines).  Nothing here mentions the model's step function.
-/
namespace Sif.Spec.C17
open Sif.Relayer.Loop

/-- observer state while walking a trace -/
structure Obs where
  c : Nat                        -- cursor the running process works with (0 = not initialised)
  mh : Nat                       -- newest header number delivered so far
  db : Nat                       -- LevelDB cursor
  pending : Option (Nat × Nat)   -- range returned by the last successful query of this iteration
  handled : Bool                 -- that range has been handed to the submitter
  deriving Repr, DecidableEq

/-- one observation; `none` = the trace breaks the property.  Clauses:
    * confirmation: a query / submission never reaches above `newest header − t`;
    * contiguity: a query starts exactly at the process's cursor (the previous range's end + 1, or the
      persisted cursor after a restart); with no cursor yet it is the single block `head − t`;
    * a submission is of exactly the range just queried;
    * cursor after handling: a cursor write happens only after the submission of the queried range and
      writes `end + 1`;
    * restart resumes from the persisted cursor. -/
def observe (t : Nat) (o : Obs) : Ev → Option Obs
  | .head n => some { o with mh := max o.mh n, pending := none, handled := false }
  | .query lo hi ok =>
      if hi + t ≤ o.mh && (if o.c = 0 then lo = hi else lo = o.c) then
        some { o with c := lo, pending := if ok then some (lo, hi) else none, handled := false }
      else none
  | .submit lo hi =>
      if o.pending = some (lo, hi) && hi + t ≤ o.mh then some { o with handled := true } else none
  | .put v =>
      match o.pending with
      | some (_, hi) => if o.handled && v = hi + 1 then some { o with db := v, c := v, pending := none, handled := false } else none
      | none => none
  | .restart p =>
      if p = o.db then some { o with c := p, pending := none, handled := false } else none

def observeAll (t : Nat) : Obs → List Ev → Option Obs
  | o, [] => some o
  | o, e :: es => match observe t o e with
    | none => none
    | some o' => observeAll t o' es

/-- the whole trace is admissible, starting with a process on cursor `p` -/
def traceOK (t p : Nat) (tr : List Ev) : Bool :=
  (observeAll t { c := p, mh := 0, db := p, pending := none, handled := false } tr).isSome

/-- block `b` was handed to the submitter somewhere in the trace -/
def covered (tr : List Ev) (b : Nat) : Bool :=
  tr.any (fun e => match e with | .submit lo hi => decide (lo ≤ b) && decide (b ≤ hi) | _ => false)

/-- cursor bookkeeping read off a trace: (LevelDB cursor, process cursor, first block of the scan) -/
structure Cur where
  db : Nat
  c : Nat
  first : Nat
  deriving Repr, DecidableEq

def curStep (k : Cur) : Ev → Cur
  | .query lo _ _ => if k.c = 0 then { k with c := lo, first := lo } else k
  | .put v => { k with db := v, c := v }
  | .restart p => { k with c := p }
  | _ => k

def curOf (p : Nat) (tr : List Ev) : Cur := tr.foldl curStep { db := p, c := p, first := p }

/-- no gap: every block from the first scanned block up to (excluding) the persisted cursor has been
    handed to the submitter at least once -/
def gapFree (p : Nat) (tr : List Ev) : Bool :=
  let k := curOf p tr
  k.db = 0 || (List.range (k.db - k.first)).all (fun i => covered tr (k.first + i))

/-! ### observations of the real loop

  Against the real `EthereumSub.Start` the harness does not see "range handed to the submitter" but the
  claims that arrive at the (simulated) Sifchain endpoint.  With a scripted placement of bridge events
  (`nonce ↦ block`), a received batch of claims counts as the submission of the range just queried iff it
  is exactly the set of events placed in that range; a queried range without events needs no submission. -/

inductive Raw
  | head (n : Nat)
  | query (lo hi : Nat) (ok : Bool)
  | claims (nonces : List Nat)
  | put (v : Nat)
  | restart (p : Nat)
  deriving Repr, DecidableEq

/-- nonces of the events placed in blocks lo..hi, ascending -/
def noncesIn (place : List (Nat × Nat)) (lo hi : Nat) : List Nat :=
  ((place.filter (fun nb => decide (lo ≤ nb.2) && decide (nb.2 ≤ hi))).map (·.1)).mergeSort

/-- lift raw observations to trace events; `none` when a batch of claims is not the event set of the range
    last queried (events lost, duplicated within a batch, or from other blocks) -/
def liftRaw (place : List (Nat × Nat)) : Option (Nat × Nat) → List Raw → Option (List Ev)
  | _, [] => some []
  | _, .head n :: r => (liftRaw place none r).map (Ev.head n :: ·)
  | _, .query lo hi ok :: r =>
      if ok && noncesIn place lo hi = [] then (liftRaw place none r).map (fun t => Ev.query lo hi ok :: Ev.submit lo hi :: t)
      else (liftRaw place (if ok then some (lo, hi) else none) r).map (Ev.query lo hi ok :: ·)
  | pend, .claims ns :: r =>
      match pend with
      | some (lo, hi) => if ns.mergeSort = noncesIn place lo hi then (liftRaw place none r).map (Ev.submit lo hi :: ·) else none
      | none => none
  | pend, .put v :: r => (liftRaw place pend r).map (Ev.put v :: ·)
  | _, .restart p :: r => (liftRaw place none r).map (Ev.restart p :: ·)

/-- the raw rendering of a model trace under a placement (inverse direction, used by the driver) -/
def lowerEv (place : List (Nat × Nat)) : Ev → List Raw
  | .head n => [.head n]
  | .query lo hi ok => [.query lo hi ok]
  | .submit lo hi => if noncesIn place lo hi = [] then [] else [.claims (noncesIn place lo hi)]
  | .put v => [.put v]
  | .restart p => [.restart p]

def rawTraceOK (t p : Nat) (place : List (Nat × Nat)) (raw : List Raw) : Bool :=
  match liftRaw place none raw with
  | some tr => traceOK t p tr
  | none => false

def rawGapFree (p : Nat) (place : List (Nat × Nat)) (raw : List Raw) : Bool :=
  match liftRaw place none raw with
  | some tr => gapFree p tr
  | none => false

end Sif.Spec.C17
