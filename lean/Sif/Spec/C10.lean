import Sif.Model.Validate
/-
  C10 — decidable statements.  Core only: these are what the theorems of Props/C10 talk about and
  what `drv_policy` evaluates on the observations of the implementation (`chk` lines).
-/
namespace Sif.Spec.C10
open Sif Sif.Hooks Sif.Validate

/-- family 2, observed: a message the chain accepted is never followed by a panicking block hook -/
def safeOK (accepted panicked : Bool) : Bool := !(accepted && panicked)

/-- family 1, observed: a block hook did not panic after a history of permissionless messages -/
def hookOK (panicked : Bool) : Bool := !panicked

/-- family 1, observed: a panicking user message is confined — the transaction returns an error
    and leaves the state (app hash) unchanged -/
def confinedOK (txPanicked errReturned stateUnchanged : Bool) : Bool :=
  !txPanicked || (errReturned && stateUnchanged)

/-! ### envelopes / invariants of the state the clp BeginBlocker reads -/

/-- liquidity protection: the hook divides by the epoch length when active and computes
    `max − current` -/
def LpInv (lp : LiqProt) : Bool :=
  (!lp.active || decide (lp.epochLen ≠ 0)) && decide (lp.cur ≤ lp.max) && decide (lp.max < two256)

end Sif.Spec.C10
