import Sif.Model.Validate
/-
  C10 — decidable statements.  Core only: these are what the theorems of Props/C10 talk about and
  what `drv_policy` evaluates on the observations of the implementation (`chk` lines).
-/
namespace Sif.Spec.C10
open Sif Sif.Hooks Sif.Validate

/-- family 2, observed: a message the chain accepted is never followed by a panicking block hook -/
def safeOK (accepted panicked : Bool) : Bool := !(accepted && panicked)

/-- family 1, observed: a block hook did not panic after a history of permissionless messages -/
def hookOK (panicked : Bool) : Bool := !panicked

/-- family 1, observed: a panicking user message is confined — the transaction returns an error
    and leaves the state (app hash) unchanged -/
def confinedOK (txPanicked errReturned stateUnchanged : Bool) : Bool :=
  !txPanicked || (errReturned && stateUnchanged)

/-! ### envelopes / invariants of the state the clp BeginBlocker reads -/

/-- liquidity protection: the hook divides by the epoch length when active and computes
    `max − current` -/
def LpInv (lp : LiqProt) : Bool :=
  (!lp.active || decide (lp.epochLen ≠ 0)) && decide (lp.cur ≤ lp.max) && decide (lp.max < two256)

/-! ### ratio-shifting policy (PMTP) -/

/-- bound (as a power of two) on the compounded policy factor `(1+blockRate)^numBlocks` -/
def KPOW : Nat := 202
/-- raw bound on the inter-policy rate before/while a policy runs (2^250 / 10^18 ≈ 1.8·10^57) -/
def B1 : Int := 2 ^ 250
/-- raw bound on the running rate at any time -/
def B2 : Int := 2 ^ 270

def numBlocks (pm : Pmtp) : Int := pm.end_ - pm.start + 1
def numEpochs (pm : Pmtp) : Int := Int.tdiv (numBlocks pm) pm.epochLen

/-- `(1 + b + 1ulp)^n ≤ 2^KPOW`: the square-and-multiply loop of `Dec.Power` cannot overflow -/
def PowBoundP (b : Dec) (n : Nat) : Prop :=
  0 ≤ b.i ∧ (Dec.P + b.i.toNat + 1) ^ n ≤ 2 ^ KPOW * Dec.P ^ n

/-- what the (repaired, F12) validation of `UpdatePmtpParams` guarantees of a policy that has not
    started yet -/
def ParamsOKP (pm : Pmtp) : Prop :=
  1 ≤ pm.epochLen ∧ 1 ≤ pm.start ∧ pm.start ≤ pm.end_ ∧ pm.end_ < two63 ∧
  Int.tmod (numBlocks pm) pm.epochLen = 0 ∧
  0 ≤ pm.gov.i ∧ pm.gov.i ≤ Dec.P ∧ pm.gov.i * numEpochs pm ≤ 50 * Dec.P

/-- ENVIRONMENT ASSUMPTION on `math.Pow` in `PolicyStart` (evaluated by the harness on every block
    rate the real code derives): the block rate is ≥ 0 and, compounded over the policy, stays within
    a factor 2 of the governance rate compounded over the epochs -/
def PowAccurateP (pm : Pmtp) (b : Dec) : Prop :=
  0 ≤ b.i ∧
  (Dec.P + b.i.toNat + 1) ^ (numBlocks pm).toNat * Dec.P ^ (numEpochs pm).toNat
    ≤ 2 * (Dec.P + pm.gov.i.toNat) ^ (numEpochs pm).toNat * Dec.P ^ (numBlocks pm).toNat

def ctrZero (pm : Pmtp) : Prop := pm.epochCtr = 0 ∧ pm.blockCtr = 0

/-- invariant of the PMTP state, indexed by the next height `h` to be processed:
    before the start (h ≤ start) the counters are zero and the parameters are as validated;
    inside the window the stored block rate satisfies the power bound; after the end the counters
    are zero again.  The rates stay above −1 and inside the Dec range with room to add. -/
def PmtpInvP (pm : Pmtp) (h : Int) : Prop :=
  pm.start ≤ pm.end_ ∧ -(Dec.P : Int) < pm.inter.i ∧ -(Dec.P : Int) < pm.running.i ∧ pm.inter.i ≤ B2 ∧ pm.running.i ≤ B2 ∧
  (h ≤ pm.start → ctrZero pm ∧ ParamsOKP pm ∧ pm.inter.i ≤ B1) ∧
  (pm.start < h ∧ h ≤ pm.end_ → 1 ≤ pm.start ∧ pm.end_ < two63 ∧ PowBoundP pm.blockRate (numBlocks pm).toNat ∧ pm.inter.i ≤ B1) ∧
  (pm.end_ < h → ctrZero pm)

def powRateOK (pm : Pmtp) : Option Dec → Prop
  | some b => PowAccurateP pm b
  | none => False

/-- per-block environment: a height inside the envelope, and — on the block that starts a policy —
    a block rate from `math.Pow` that satisfies the accuracy assumption -/
def EnvOKP (pm : Pmtp) (env : BEnv) : Prop :=
  0 < env.h ∧ env.h < 2 ^ 62 ∧ (env.h = pm.start → powRateOK pm env.powRate)

/-- pool depths: balance + liabilities fit an sdk.Uint (envelope of DESIGN.md section 5) -/
def PoolsOKP (pools : List PoolDepth) : Prop :=
  ∀ p ∈ pools, p.nb + p.nl < two256 ∧ p.eb + p.el < two256

instance (b : Dec) (n : Nat) : Decidable (PowBoundP b n) := by unfold PowBoundP; infer_instance
instance (pm : Pmtp) : Decidable (ParamsOKP pm) := by unfold ParamsOKP; infer_instance
instance (pm : Pmtp) (b : Dec) : Decidable (PowAccurateP pm b) := by unfold PowAccurateP; infer_instance
instance (pm : Pmtp) : Decidable (ctrZero pm) := by unfold ctrZero; infer_instance
instance (pm : Pmtp) (h : Int) : Decidable (PmtpInvP pm h) := by unfold PmtpInvP; infer_instance
instance (pm : Pmtp) (o : Option Dec) : Decidable (powRateOK pm o) := by
  cases o <;> unfold powRateOK <;> infer_instance
instance (pm : Pmtp) (env : BEnv) : Decidable (EnvOKP pm env) := by unfold EnvOKP; infer_instance
instance (pools : List PoolDepth) : Decidable (PoolsOKP pools) := by unfold PoolsOKP; infer_instance

/-! ### envelope of the state the clp EndBlocker reads (LPPD, depth rewards) -/

def optLe (o : Option Nat) (b : Nat) : Prop := match o with | some a => a ≤ b | none => False
def optDecIn (o : Option Dec) (lo hi : Int) : Prop := match o with | some d => lo ≤ d.i ∧ d.i ≤ hi | none => False
def optDecInOrNone (o : Option Dec) (lo hi : Int) : Prop := match o with | some d => lo ≤ d.i ∧ d.i ≤ hi | none => True

/-- what the (repaired: F5, F13, F18) validation of `AddRewardPeriod` guarantees of a stored period -/
def RewOKP (p : RewardPeriod) : Prop :=
  p.start ≤ p.end_ ∧ p.end_ < 2 ^ 64 ∧ ¬ (p.start = 0 ∧ p.end_ = 2 ^ 64 - 1) ∧ p.mod < 2 ^ 64 ∧
  optLe p.alloc (2 ^ 128 - 1) ∧ optDecIn p.defMult 0 (10 * Dec.P) ∧
  ∀ m ∈ p.mults, optDecInOrNone m.m 0 (10 * Dec.P)

/-- what the validation of `AddProviderDistributionPeriod` guarantees -/
def LppdOKP (p : LppdPeriod) : Prop :=
  p.mod ≠ 0 ∧ p.mod < 2 ^ 64 ∧ 0 ≤ p.rate.i ∧ p.rate.i ≤ Dec.P

/-- envelope of one pool (section 5; `lp ≤ pool units` and `providers ⇒ units > 0` are the C02 invariants) -/
def EPoolOKP (q : EPool) : Prop :=
  q.nb ≤ 2 ^ 200 ∧ q.rpnd ≤ 2 ^ 200 ∧ (q.lps ≠ [] → 1 ≤ q.units) ∧ ∀ u ∈ q.lps, u ≤ q.units

def sumNb : List EPool → Nat
  | [] => 0
  | q :: qs => q.nb + sumNb qs

/-- envelope of the EndBlocker's inputs: validated periods, accumulated block distribution below
    2^254, pools inside the envelope, total native depth below 2^200 -/
def EInvP (s : EState) : Prop :=
  s.accu < 2 ^ 254 ∧ (∀ p ∈ s.lppd, LppdOKP p) ∧ (∀ p ∈ s.rew, RewOKP p) ∧ (∀ q ∈ s.pools, EPoolOKP q) ∧ sumNb s.pools ≤ 2 ^ 200

instance (o : Option Nat) (b : Nat) : Decidable (optLe o b) := by cases o <;> unfold optLe <;> infer_instance
instance (o : Option Dec) (lo hi : Int) : Decidable (optDecIn o lo hi) := by cases o <;> unfold optDecIn <;> infer_instance
instance (o : Option Dec) (lo hi : Int) : Decidable (optDecInOrNone o lo hi) := by cases o <;> unfold optDecInOrNone <;> infer_instance
instance (p : RewardPeriod) : Decidable (RewOKP p) := by unfold RewOKP; infer_instance
instance (p : LppdPeriod) : Decidable (LppdOKP p) := by unfold LppdOKP; infer_instance
instance (q : EPool) : Decidable (EPoolOKP q) := by unfold EPoolOKP; infer_instance
instance (s : EState) : Decidable (EInvP s) := by unfold EInvP; infer_instance
def EInv (s : EState) : Bool := decide (EInvP s)

/-! ### histories of blocks -/

/-- what permissionless traffic between two BeginBlockers can do to the state this hook reads: move
    the current liquidity-protection threshold, never above the maximum
    (`MustUpdateLiquidityProtectionThreshold`); pool depths arrive with the next block's `BEnv` -/
def userMove (s : BState) (c : Nat) : BState := { s with lp := { s.lp with cur := min c s.lp.max } }

/-- a history: BeginBlocker, traffic, BeginBlocker, … ; a panic (`.error`) halts the chain -/
def runBlocks : BState → List (BEnv × Nat) → M BState
  | s, [] => .ok s
  | s, (e, c) :: es => (beginBlock s e).bind (fun o => runBlocks (userMove o.st c) es)

/-- histories that interleave blocks with ACCEPTED admin messages: what one message leaves behind
    (counters, block rate, inter-policy rate, thresholds) is the start state of the next -/
inductive Step where
  | block (e : BEnv) (c : Nat)                              -- BeginBlocker, then traffic
  | updatePmtp (m : MsgUpdatePmtpParams) (c : Ctx)
  | modifyRates (m : MsgModifyPmtpRates) (c : Ctx)
  | updateLP (m : MsgUpdateLPParams)
  | modifyLP (m : MsgModifyLPRates)

def stepState (s : BState) : Step → M BState
  | .block e c => (beginBlock s e).map (fun o => userMove o.st c)
  | .updatePmtp m _ => .ok { s with pm := applyUpdatePmtpParams m s.pm }
  | .modifyRates m c => .ok { s with pm := applyModifyPmtpRates m c s.pm }
  | .updateLP m => .ok { s with lp := applyUpdateLPParams m s.lp }
  | .modifyLP m => .ok { s with lp := applyModifyLPRates m s.lp }

def runSteps : BState → List Step → M BState
  | s, [] => .ok s
  | s, st :: rest => (stepState s st).bind (fun s' => runSteps s' rest)

/-- the next height to be processed after a step -/
def nextH (h : Int) : Step → Int
  | .block _ _ => h + 1
  | _ => h

/-- consecutive heights starting at `h`, each block inside the envelope (`EnvOKP`, `PoolsOKP`) -/
def BlocksOKP (pm : Pmtp) : Int → List (BEnv × Nat) → Prop
  | _, [] => True
  | h, (e, _) :: es => e.h = h ∧ EnvOKP pm e ∧ PoolsOKP e.pools ∧ BlocksOKP pm (h + 1) es

/-- the decidable (Boolean) forms evaluated by the driver -/
def PmtpInv (pm : Pmtp) (h : Int) : Bool := decide (PmtpInvP pm h)
def PowAccurate (pm : Pmtp) (b : Dec) : Bool := decide (PowAccurateP pm b)
def PoolsOK (pools : List PoolDepth) : Bool := decide (PoolsOKP pools)
def EnvOK (pm : Pmtp) (env : BEnv) : Bool := decide (EnvOKP pm env)

end Sif.Spec.C10
