import Sif.Model.Mint
import Sif.Model.RewardsIssuance
import Sif.Model.BridgeCredit
/-
  C20 — decidable statements of bounded issuance.  Core only: the same predicates the theorems of
  Sif/Props/C20.lean talk about are evaluated by the driver on the values the *implementation*
  produced (`chk` lines).
-/
namespace Sif.Spec.C20
open Sif Sif.Disp

/-- the fixed cap of the property statement: 350,000,000 rowan (18 decimals) -/
def capRowan : Nat := 350000000 * 10 ^ 18

/-- what the counter must be after one block -/
def nextCounter (cap perBlock c : Nat) : Nat := if c ≤ cap then min (c + perBlock) cap else c

/-- One BeginBlocker, as observed: counter before/after, rowan supply before/after, balance of the
    ecosystem pool plus the module account before/after.
    * the counter moves to min(c + perBlock, cap) (exactly the remainder in the last block,
      nothing once the cap is reached);
    * the supply grows by exactly the counter's increase (counter = amount actually minted);
    * the minted coins are in the ecosystem pool or (failed send) in the module account. -/
def mintStepOK (cap perBlock cPrev cNow supPrev supNow holdPrev holdNow : Nat) : Bool :=
  decide (cNow = nextCounter cap perBlock cPrev) &&
  decide (supNow = supPrev + (cNow - cPrev)) &&
  decide (holdNow = holdPrev + (cNow - cPrev)) &&
  decide (cPrev ≤ cNow)

/-- the programme's running total over a history that started with counter c₀ ≤ cap: the counter is
    c₀ plus everything the BeginBlockers created so far, and never above the cap — across restarts
    and software upgrades (which must not touch the mint state) -/
def mintTotalOK (cap c0 mintedSum cNow : Nat) : Bool :=
  decide (cNow = c0 + mintedSum) && decide (c0 + mintedSum ≤ cap)

/-- One bridge-claim transaction as observed: a claim transaction creates rowan only when it takes
    its prophecy from not-final to SUCCESS, and then exactly the credited amount; in particular a
    claim on a prophecy that was already final creates nothing. -/
def bridgeTxOK (finalBefore accepted successAfter rowan : Bool) (amount supplyDelta : Nat) : Bool :=
  decide (supplyDelta = (if !finalBefore && accepted && successAfter && rowan then amount else 0))

/-- The supply equation of the property, as observed over a history: every rowan created since the
    baseline is ecosystem mint (counter delta), reward allocation (created by the clp EndBlocker)
    or a consensus-approved bridge credit, each prophecy counted once. -/
def supplyEqOK (supply0 supplyNow ecoMinted rewards : Nat) (approved : List (Nat × Nat)) : Bool :=
  decide ((approved.map (·.1)).Nodup) &&
  decide (supplyNow = supply0 + ecoMinted + rewards + (approved.map (·.2)).sum)

/-- In the wired application (ecosystem pool not a blocked address): whatever the block counted was
    delivered to the ecosystem-pool address, and nothing of it stays in the module account —
    independent of the bank's SendEnabled parameters, which govern user transfers only. -/
def mintToEcoOK (cPrev cNow ecoPrev ecoNow modPrev modNow : Nat) : Bool :=
  decide (ecoNow = ecoPrev + (cNow - cPrev)) && decide (modNow = modPrev) && decide (cPrev ≤ cNow)

/-- a message creates nothing: total supply (per denom, as listed) before = after -/
def txSupplyOK (before after : List Nat) : Bool := before == after

/-- after n blocks from c₀ ≤ cap -/
def mintAfterOK (cap perBlock c0 n cNow : Nat) : Bool :=
  decide (cNow = min (c0 + n * perBlock) cap)

end Sif.Spec.C20

/-! ## (b) AMM depth rewards -/
namespace Sif.Spec.C20
open Sif Sif.Rewards

/-- a period's per-block share ⌊allocation / length⌋ -/
def share (p : Period) : Nat := p.alloc / (p.stop - p.start + 1)

/-- what a block of period `p` (mod already normalised to ≥ 1) may create at most:
    nothing on a non-distribution block; its own share in the period's first block; on a later
    distribution block the shares of the `mod` blocks since the previous distribution block -/
def blockBound (p : Period) (h : Nat) : Nat :=
  if (h - p.start) % p.mod ≠ 0 then 0
  else if h = p.start then share p
  else share p * p.mod

/-- per-block clause, on the current period of the block (none = no reward period covers it) -/
def rewardsBlockOK (cur : Option Period) (h minted : Nat) : Bool :=
  match cur with
  | none => minted == 0
  | some p => if p.alloc = 0 then minted == 0 else decide (minted ≤ blockBound p h)

/-- per-block clause along a history: `ms` are the amounts created at heights h, h+1, … -/
def blocksOK (periods : List Period) : Nat → List Nat → Bool
  | _, [] => true
  | h, m :: ms => rewardsBlockOK (currentPeriod periods h) h m && blocksOK periods (h + 1) ms

/-- Where a block's depth rewards end up (as observed across one EndBlocker): the rowan created by
    the block is exactly what was paid to providers plus what was credited to pools' native
    balances — what cannot be handed out is burnt in the same block — and the clp module account
    keeps exactly the coins that back the pool credits. -/
def rewardsAccountedOK (created paid pooled moduleDelta : Nat) : Bool :=
  decide (created = paid + pooled) && decide (moduleDelta = pooled)

/-- per-period clause: a period never creates more than its allocation -/
def rewardsPeriodOK (p : Period) (total : Nat) : Bool := decide (total ≤ p.alloc)

/-- amounts created at heights inside period `p`; `ms` are the amounts of heights h, h+1, … -/
def sumIn (p : Period) : Nat → List Nat → Nat
  | _, [] => 0
  | h, m :: ms => (if inRange p h then m else 0) + sumIn p (h + 1) ms

/-- the per-block entitlement of height h -/
def entitledAt (periods : List Period) (h : Nat) : Nat :=
  match currentPeriod periods h with
  | none => 0
  | some p => if p.alloc = 0 then 0 else share p

/-- Σ of the per-block entitlements of heights h … h+n-1 -/
def entitled (periods : List Period) : Nat → Nat → Nat
  | _, 0 => 0
  | h, n + 1 => entitledAt periods h + entitled periods (h + 1) n

/-- cumulative clause: everything created so far plus the carried-over accumulator never exceeds
    the initial accumulator plus the per-block entitlements so far -/
def rewardsCumOK (accu0 entitledSoFar totalMinted accu : Nat) : Bool :=
  decide (totalMinted + accu ≤ accu0 + entitledSoFar)

/-- operating envelope of section 5 for reward periods (no uint64 wrap, no 2^256 overflow) -/
def periodOK (p : Period) : Bool :=
  decide (p.start ≤ p.stop) && decide (p.stop < 2 ^ 62) && decide (p.mod < 2 ^ 62) && decide (p.alloc < 2 ^ 128)

def inEnvelope (periods : List Period) : Bool := periods.all periodOK

/-- reward periods do not overlap -/
def disjoint (a b : Period) : Prop := a.stop < b.start ∨ b.stop < a.start
instance (a b : Period) : Decidable (disjoint a b) := by unfold disjoint; infer_instance
def periodsDisjoint (periods : List Period) : Prop := periods.Pairwise disjoint
instance (periods : List Period) : Decidable (periodsDisjoint periods) := by unfold periodsDisjoint; infer_instance

/-- what the accumulator may hold when block h begins (inside a period, after its first block):
    the shares of the non-distribution blocks since the last distribution block -/
def accuInv (periods : List Period) (h accu : Nat) : Prop :=
  ∀ p, currentPeriod periods h = some p → p.alloc ≠ 0 → h ≠ p.start →
    accu ≤ share p * ((h - p.start - 1) % p.mod)

/-! ### histories in which the reward-period list is edited while periods run -/

/-- per-block clause over a trace of blocks -/
def traceBlocksOK : List BlockObs → Bool
  | [] => true
  | (h, cur, m) :: tr => rewardsBlockOK cur h m && traceBlocksOK tr

/-- what was created in the blocks whose current period was `q` -/
def sumFor (q : Period) : List BlockObs → Nat
  | [] => 0
  | (_, cur, m) :: tr => (if cur = some q then m else 0) + sumFor q tr

/-- every period list of the history is in the envelope -/
def stepsEnv : List Period → List Step → Bool
  | ps, [] => inEnvelope ps
  | _, .edit ps' :: r => stepsEnv ps' r
  | ps, .block _ :: r => inEnvelope ps && stepsEnv ps r

/-- Clean switches: whenever a block's current period `q` (allocation ≠ 0) is not in its first
    block, the previous block had the same current period.  I.e. a period only ever takes over at
    its own RewardPeriodStartBlock — by following its predecessor, after a gap, by replacing a
    running period through an edit, or by overtaking an overlapping period listed after it.
    (`prev` = current period of the previous block, `none` before the first block.)  What this
    excludes — a period becoming current in mid-flight — is the residual case of `overlap_residual`. -/
def cleanSwitches : Option Period → List Period → Nat → List Step → Bool
  | _, _, _, [] => true
  | prev, _, h, .edit ps' :: r => cleanSwitches prev ps' h r
  | prev, ps, h, .block _ :: r =>
      (match currentPeriod ps h with
       | none => true
       | some q => decide (q.alloc = 0) || decide (h = q.start) || decide (prev = some q)) &&
      cleanSwitches (currentPeriod ps h) ps (h + 1) r

/-- accumulator invariant relative to the previous block's current period -/
def accuOK (prev : Option Period) (h accu : Nat) : Prop :=
  ∀ q, prev = some q → q.alloc ≠ 0 → h ≠ q.start → accu ≤ share q * ((h - q.start - 1) % q.mod)

end Sif.Spec.C20
