import Sif.Model.Mint
/-
  C20 — decidable statements of bounded issuance.  Core only: the same predicates the theorems of
  Sif/Props/C20.lean talk about are evaluated by the driver on the values the *implementation*
  produced (`chk` lines).
-/
namespace Sif.Spec.C20
open Sif Sif.Disp

/-- the fixed cap of the property statement: 350,000,000 rowan (18 decimals) -/
def capRowan : Nat := 350000000 * 10 ^ 18

/-- what the counter must be after one block -/
def nextCounter (cap perBlock c : Nat) : Nat := if c ≤ cap then min (c + perBlock) cap else c

/-- One BeginBlocker, as observed: counter before/after, rowan supply before/after, balance of the
    ecosystem pool plus the module account before/after.
    * the counter moves to min(c + perBlock, cap) (exactly the remainder in the last block,
      nothing once the cap is reached);
    * the supply grows by exactly the counter's increase (counter = amount actually minted);
    * the minted coins are in the ecosystem pool or (failed send) in the module account. -/
def mintStepOK (cap perBlock cPrev cNow supPrev supNow holdPrev holdNow : Nat) : Bool :=
  decide (cNow = nextCounter cap perBlock cPrev) &&
  decide (supNow = supPrev + (cNow - cPrev)) &&
  decide (holdNow = holdPrev + (cNow - cPrev)) &&
  decide (cPrev ≤ cNow)

/-- after n blocks from c₀ ≤ cap -/
def mintAfterOK (cap perBlock c0 n cNow : Nat) : Bool :=
  decide (cNow = min (c0 + n * perBlock) cap)

end Sif.Spec.C20
