import Sif.Model.Clp.Hooks
/-
  C18 — decidable pro-rata predicates, judged on the implementation's payout vectors.
  D = distributed amount (a rational), ε(D) = 1 + D·10^-18 = the tolerance per provider.
-/
namespace Sif.Spec.C18
open Sif Sif.Clp

def eps (D : Rat) : Rat := 1 + D / Dec.P

/-- one provider: |amt − (u/U)·D| ≤ ε(D) -/
def fairOne (D : Rat) (U u amt : Nat) : Bool :=
  let fair : Rat := mkRat u U * D
  decide ((amt : Rat) ≤ fair + eps D) && decide (fair - eps D ≤ (amt : Rat))

/-- a whole pool: the payouts sum to `total` ≤ cap; nobody gets more than share + ε; when the
    providers' units do not exceed the pool units nobody gets less than share − n·ε (the running
    clamp lets later providers absorb the rounding of earlier ones) -/
def fairPool (D : Rat) (cap U : Nat) (units amts : List Nat) (total : Nat) : Bool :=
  let n := units.length
  decide (amts.length = n) && decide (amts.foldl (· + ·) 0 = total) && decide (total ≤ cap) &&
  (List.zip units amts).all (fun (u, a) =>
    decide ((a : Rat) ≤ mkRat u U * D + eps D) &&
    (decide (units.foldl (· + ·) 0 > U) || decide (mkRat u U * D - (n : Rat) * eps D ≤ (a : Rat))))

/-- bucket rewards of one asset: the amounts add up to at most the bucket; nobody gets more than its share
    of the eligible units + ε; nobody gets less than share − n·ε ("one base unit plus 10⁻¹⁸ of the
    distributed total for each provider of the pool": the running clamp of fix F26 lets the last providers
    absorb the rounding of the earlier ones) -/
def fairBucket (B : Nat) (units amts : List Nat) : Bool :=
  let n : Nat := units.length
  let U : Nat := units.foldl (fun a b => a + b) 0
  decide (amts.length = n) &&
  (U == 0 ||
   (decide (amts.foldl (fun a b => a + b) 0 ≤ B) &&
    (List.zip units amts).all (fun ua =>
      decide ((Nat.cast ua.2 : Rat) ≤ mkRat ua.1 U * (Nat.cast B : Rat) + eps (Nat.cast B : Rat)) &&
      decide (mkRat ua.1 U * (Nat.cast B : Rat) - (Nat.cast n : Rat) * eps (Nat.cast B : Rat) ≤ (Nat.cast ua.2 : Rat)))))

/-- depth rewards: pool rewards sum to at most the block distribution; each pool gets at most its
    weighted share + ε and (unless it is the pool that hits the remaining-amount clamp or later)
    at least share − ε − (clamp slack) -/
def fairSplit (bd : Nat) (weights : List Rat) (rewards : List Nat) (mint : Nat) : Bool :=
  let W := weights.foldl (· + ·) 0
  decide (rewards.foldl (· + ·) 0 = mint) && decide (mint ≤ bd) &&
  (List.zip weights rewards).all (fun (w, r) =>
    decide (W ≤ 0) || decide ((r : Rat) ≤ w / W * bd + 2 * eps bd))

end Sif.Spec.C18

namespace Sif.Spec.C18
open Sif Sif.Clp

/-- depth rewards as recorded by one real EndBlocker (L1): `weights` = configured multiplier × native
    balance of each pool before the block, `rewards` = what the block added to each pool's per-period
    counter.  A pool receives at most its weighted share of what the block distributed in total (T),
    up to rounding (one unit per pool from the truncated shares, 10⁻¹⁷ relative from the 18-decimal
    weights); with no positive weight nothing is distributed. -/
def splitObservedOK (weights : List Rat) (rewards : List Nat) : Bool :=
  let W : Rat := weights.foldl (fun a b => a + b) 0
  let T : Nat := rewards.foldl (fun a b => a + b) 0
  let n : Nat := rewards.length
  decide (weights.length = n) &&
  (if W ≤ 0 then decide (T = 0)
   else (List.zip weights rewards).all (fun (w, r) => decide ((r : Rat) ≤ w / W * (T : Rat) + (n : Rat) + ((n : Rat) + 2) * 4 * eps (T : Rat))))

/-- "accounts that are not eligible providers receive nothing": every account whose balance grew
    during a block hook is a provider (EndBlocker: of some pool, paid in the native token; epoch
    hook: an eligible provider of the pool of the token it was paid in).  `pre` = the state before
    the hook; `changes` = all (account, denom, before, after) that differ. -/
def recipientsOK (epoch : Bool) (pre : St) (changes : List (String × String × Nat × Nat)) : Bool :=
  changes.all (fun c =>
    let acct := c.1; let d := c.2.1
    decide (c.2.2.2 ≤ c.2.2.1) || acct = clpAcct ||
    (if epoch then
       match (pre.lpsOf d).get acct with
       | some lp => eligible pre lp
       | none => false
     else d = rowan && pre.lps.any (fun e => (e.2.get acct).isSome)))

end Sif.Spec.C18

namespace Sif.Spec.C18
open Sif Sif.Clp

/-- bucket rewards as paid by one real epoch hook in wallet mode (L1): for every asset with a bucket and
    eligible providers holding units, each eligible provider's wallet gained its share of the bucket
    (its units over the units of the eligible providers), to within one base unit plus 10⁻¹⁸ of the
    bucket per provider of the pool.  `pre` = the state before the hook, `changes` = all
    (account, denom, before, after) that differ.  Judged only in worlds without blocked recipients. -/
def epochSharesOK (pre : St) (changes : List (String × String × Nat × Nat)) : Bool :=
  pre.buckets.all (fun b =>
    let sym := b.1
    let B := b.2
    let lps := (pre.lpsOf sym).filter (fun e => eligible pre e.2)
    let U : Nat := lps.foldl (fun a e => a + e.2.units) 0
    let n : Nat := lps.length
    lps.all (fun e =>
      let paid : Nat := match changes.find? (fun c => c.1 == e.1 && c.2.1 == sym) with
                        | some c => c.2.2.2 - c.2.2.1
                        | none => 0
      -- no eligible provider holds a unit: nobody has a share, nobody is paid
      if U == 0 then paid == 0 else
      let fair : Rat := mkRat e.2.units U * (Nat.cast B : Rat)
      decide (fair - (Nat.cast n : Rat) * eps (Nat.cast B : Rat) ≤ (Nat.cast paid : Rat)) && decide ((Nat.cast paid : Rat) ≤ fair + eps (Nat.cast B : Rat))))

end Sif.Spec.C18

namespace Sif.Spec.C18
open Sif Sif.Clp

/-- the epoch hook "pays out the rewards bucket": whatever leaves the bucket of an asset reaches a wallet
    (wallet mode) or that asset's pool (pool mode) — nothing leaves the bucket without being received.
    `pre` / `post` = the states before and after the hook. -/
def epochFlowOK (pre post : St) : Bool :=
  pre.buckets.all (fun b =>
    let sym := b.1
    let left : Nat := b.2 - (post.buckets.get sym).getD 0
    let accounts := (pre.bank.map (·.1) ++ post.bank.map (·.1)).eraseDups.filter (· != clpAcct)
    let toWallets : Nat := accounts.foldl (fun a acct => a + (post.bal acct sym - pre.bal acct sym)) 0
    let toPool : Nat := match pre.getPool sym, post.getPool sym with
      | some p, some q => q.eBal - p.eBal
      | _, _ => 0
    decide ((post.buckets.get sym).getD 0 ≤ b.2) && decide (left ≤ toWallets + toPool))

end Sif.Spec.C18

namespace Sif.Spec.C18
open Sif Sif.Clp

/-- provider distribution (LPPD) as paid by one real EndBlocker (L1): every account's native-token gain is the sum,
    over the pools it is a provider OF, of its share (its units over the pool's units) of that pool's
    distribution (block rate × native balance), to within one base unit plus 10⁻¹⁸ of the distribution per provider
    of the pool; an account that is a provider of no pool gains nothing.  `rate` = the block rate when an LPPD
    period distributes at this height, 0 otherwise.  Judged in worlds without blocked recipients and only when no
    reward period distributes depth rewards to providers in the same block. -/
def lppdSharesOK (rate : Dec) (pre : St) (changes : List (String × String × Nat × Nat)) : Bool :=
  let accounts := ((pre.lps.map (fun e => e.2.map (·.1))).flatten ++ (changes.map (·.1)).filter (· != clpAcct)).eraseDups
  accounts.all (fun acct =>
    let paid : Nat := match changes.find? (fun c => c.1 == acct && c.2.1 == rowan) with
                      | some c => c.2.2.2 - c.2.2.1
                      | none => 0
    -- (fair share, tolerance, some pool of the account has more provider units than pool units)
    let ft : Rat × Rat × Bool := pre.pools.foldl (fun (acc : Rat × Rat × Bool) e =>
        let p := e.2
        match (pre.lpsOf p.sym).get acct with
        | none => acc
        | some lp =>
          let D : Rat := decToRat rate * (Nat.cast p.nBal : Rat)
          let n : Nat := (pre.lpsOf p.sym).length
          let over : Bool := decide ((pre.lpsOf p.sym).foldl (fun a x => a + x.2.units) 0 > p.units)
          (acc.1 + mkRat lp.units p.units * D, acc.2.1 + (Nat.cast n : Rat) * eps D, acc.2.2 || over)) (0, 0, false)
    -- the running clamp at the pool's distribution starves later providers when the providers' units exceed
    -- the pool units (C02's finding F17 leaves such pools): the lower bound is judged only without such a pool
    decide ((Nat.cast paid : Rat) ≤ ft.1 + ft.2.1) && (ft.2.2 || decide (ft.1 - ft.2.1 ≤ (Nat.cast paid : Rat))))

end Sif.Spec.C18

namespace Sif.Spec.C18
open Sif Sif.Clp

/-- `epochSharesOK` with every provider's update height taken from the harness's ledger of accepted creates, adds
    and removals (where it has an entry) instead of the stored record: a provider past the lock period by its own
    messages gets its share, whatever a hook wrote into the record in between. -/
def epochSharesByLedgerOK (pre : St) (changes : List (String × String × Nat × Nat))
    (ledger : List (String × String × Int)) : Bool :=
  epochSharesOK { pre with lps := pre.lps.map (fun pe =>
    (pe.1, pe.2.map (fun ae =>
      (ae.1, match ledger.find? (fun l => l.1 == pe.1 && l.2.1 == ae.1) with
             | some l => { ae.2 with lastUpdated := l.2.2 }
             | none => ae.2)))) } changes

/-- "accounts that are not eligible providers receive nothing", judged against the harness's own ledger of the adds the
    implementation accepted (pool symbol, address, height of the last accepted create / add) instead of the stored
    `LastUpdatedBlock`: an account whose balance of a pool's asset grew during the epoch hook last added to that pool
    strictly more than the rewards lock period ago (`last < height − lock`, the code's own eligibility test).  Removals
    are not in the ledger (if they restart the period too, the predicate is only more permissive). -/
def eligibleByLedgerOK (lock : Nat) (height : Int) (changes : List (String × String × Nat × Nat))
    (ledger : List (String × String × Int)) : Bool :=
  changes.all (fun c =>
    let acct := c.1; let d := c.2.1
    decide (c.2.2.2 ≤ c.2.2.1) || acct = clpAcct || d = rowan ||
    (match ledger.find? (fun e => e.1 == d && e.2.1 == acct) with
     | some e => decide (e.2.2 < height - (lock : Int))
     | none => false))

end Sif.Spec.C18
