import Sif.Model.Clp.Calc
import Sif.Spec.C03
/-
  C04 — decidable statements of the no-free-value clauses, with the rounding dust of DESIGN.md 4/C04:
  dust(t, v) = 4·(1 + ⌈D_t / D_o⌉) + ⌈v / 10^9⌉ + ⌈D_t / 10^16⌉ base units of token t.
-/
namespace Sif.Spec.C04
open Sif

def ceilDiv (a b : Nat) : Nat := if b = 0 then 0 else (a + b - 1) / b

/-- rounding dust for an amount `v` of the token with depth `Dt`, the other side having depth `Do` -/
def dust (Dt Do v : Nat) : Nat := 4 * (1 + ceilDiv Dt Do) + ceilDiv v (10^9) + ceilDiv Dt (10^16)

/-- clause 1: what comes back from a there-and-back swap is at most what was sent -/
def swapBackOK (x x' : Nat) : Bool := decide (x' ≤ x)

/-- clauses 2 and 3: add (n, e) into a pool with depths (R, A) under ratio-shifting rate `r`, remove
    the units received, get (n', e') back.  Never more of both (beyond dust); a one-sided gain is at most what swapping
    the given-up amount of the other token would have bought fee-free at the pool ratio, plus dust
    — unless that swap would take more than 90 % of a side.  `fSell` / `fBuy` = the swap-fee rates
    configured for the native / the external token (what a swap selling that token is charged). -/
def addRemoveOK (r fSell fBuy : Dec) (R A n e n' e' : Nat) : Bool :=
  let dn := dust R A n
  let de := dust A R e
  let notBoth := !(decide (n' > n + dn) && decide (e' > e + de))
  -- gain of native paid for by external given up
  let gainN : Bool :=
    if n' > n + dn then
      let gave := e - e'
      -- what `MsgSwap` would pay for selling `gave` external: constant-product output at the current
      -- ratio-shifting rate minus the fee rate configured for the external token
      let buys : Rat := Sif.Spec.C03.adjusted true A gave R r * (1 - decToRat fBuy)
      decide (buys * 10 > (R : Rat) * 9) || decide (((n' - n : Nat) : Rat) ≤ buys + dn)
    else true
  let gainE : Bool :=
    if e' > e + de then
      let gave := n - n'
      let buys : Rat := Sif.Spec.C03.adjusted false R gave A r * (1 - decToRat fSell)
      decide (buys * 10 > (A : Rat) * 9) || decide (((e' - e : Nat) : Rat) ≤ buys + de)
    else true
  notBoth && gainN && gainE

/-- clause 4 (ratio shifting off): the backing per unit √(R·A)/P does not drop by more than dust.  The units
    that exist both before and after the message are min(P, P′); what they can claim of each side must not
    drop by more than the dust of that token (depths of the dust formula are those BEFORE the message:
    DESIGN 4/C04).
    * P′ ≤ P (removal, swap): the remaining P′ units claimed (R·P′/P, A·P′/P) and now claim (R′, A′):
      (R′ + dust)·(A′ + dust)·P² ≥ R·A·P′².
    * P′ > P (addition): the P old units claimed (R, A) and now claim (R′·P/P′, A′·P/P′):
      (R′·P + dust·P′)·(A′·P + dust·P′) ≥ R·A·P′².  (The first draft applied the dust to the new depths
      here too, which divides it by P′/P: for an addition many times larger than the pool that demands far
      less than one base unit of rounding from the pool's own side — see DESIGN 9.3.) -/
def backingOK (R A P R' A' P' : Nat) : Bool :=
  if P' ≤ P then
    decide (R * A * (P' * P') ≤ (R' + dust R A R') * (A' + dust A R A') * (P * P))
  else
    decide (R * A * (P' * P') ≤ (R' * P + dust R A R * P') * (A' * P + dust A R A * P'))

end Sif.Spec.C04
