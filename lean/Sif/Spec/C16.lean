import Sif.Model.Relayer.Parser
/-
  C16 — the relayer translates bridge events faithfully in both directions.
  Decidable statements of the property's clauses.  The theorems of `Sif/Props/C16.lean` are about these
  definitions, and the driver evaluates the very same definitions on what the *implementation* returned
  (`chk` lines).  None of them mentions the model's translation functions: they relate an input event to
  an observed output.
-/
namespace Sif.Spec.C16
open Sif Sif.Relayer

/-- representable as int64 (the envelope of the property is `0 ≤ · < 2^63`) -/
def inInt64 (i : Int) : Bool := decide (-(2 ^ 63 : Int) ≤ i) && decide (i < 2 ^ 63)

/-- a well-formed Ethereum bridge event: recipient decodes to a non-empty address, the amount fits
    256 bits, and a lock of "eth" (any letter case) names the null token -/
def ethWellFormed (env : Env) (ev : EthEvent) : Bool :=
  (match env.bech32 ev.to with | some r => r ≠ [] | none => false) &&
  decide (bitLen ev.value.natAbs ≤ 256) &&
  !(ev.claimType = ctLock && toLower env ev.symbol = str "eth" && !isZeroAddr ev.token)

/-- Ethereum → Sifchain field fidelity: the claim carries the same chain id and nonce (when they fit
    int64), sender, recipient, token and bridge contract, amount, claim type and validator; the symbol is
    lower-cased for locks and mapped through the symbol table for burns. -/
def claimFaithful (env : Env) (val : Str) (ev : EthEvent) (c : Claim) : Bool :=
  (!inInt64 ev.chainId || c.chainId = ev.chainId) &&
  (!inInt64 ev.nonce || c.nonce = ev.nonce) &&
  c.sender = addrString ev.sender &&
  c.token = addrString ev.token &&
  c.bridge = addrString ev.bridge &&
  env.bech32 ev.to = some c.receiver &&
  c.validator = val &&
  c.amount = ev.value &&
  c.claimType = ev.claimType &&
  (ev.claimType ≠ ctLock || c.symbol = toLower env ev.symbol) &&
  (ev.claimType ≠ ctBurn || c.symbol = ethToSif env.table ev.symbol)

/-- verdict classes of a translation: 0 = ok, 1 = error returned, 2 = panic -/
def ethVerdictOK (env : Env) (ev : EthEvent) (cls : Nat) : Bool :=
  if ethWellFormed env ev then cls = 0 else cls ≠ 0

/-- two claims of one chain have the same identity only if they have the same nonce and sender
    (senders of the fixed width of an Ethereum address text) -/
def idInjective (c₁ c₂ : Claim) (id₁ id₂ : Str) : Bool :=
  !(c₁.chainId = c₂.chainId && c₁.sender.length = 42 && c₂.sender.length = 42 && id₁ = id₂) ||
  (c₁.nonce = c₂.nonce && c₁.sender = c₂.sender)

/-! ### the batch the relayer actually submits -/

/-- an event that must appear in the submitted transaction: well-formed, and its claim passes the chain's
    stateless validation (validator set, nonce not negative after narrowing, "eth" only with the null token) -/
def submittable (env : Env) (val : Str) (ev : EthEvent) : Bool :=
  ethWellFormed env ev && val ≠ [] && decide (0 ≤ int64OfBig ev.nonce) &&
  !(toLower env (claimSymbol env ev) = str "eth" && !isZeroAddr ev.token)

/-- number of submitted claims = number of submittable events of the batch -/
def batchCountOK (env : Env) (val : Str) (events : List EthEvent) (claims : List Claim) : Bool :=
  claims.length = (events.filter (submittable env val)).length

/-- every submitted claim is the faithful translation of ITS OWN source event (k-th claim ↔ k-th
    submittable event of the batch) -/
def batchFieldsOK (env : Env) (val : Str) (events : List EthEvent) (claims : List Claim) : Bool :=
  ((events.filter (submittable env val)).zip claims).all (fun p => claimFaithful env val p.1 p.2)

def inEnvelope (ev : EthEvent) : Bool := decide (0 ≤ ev.nonce) && decide (ev.nonce < 2 ^ 63) && ev.sender.length = 40

/-- source events with different (nonce, sender) — same chain, nonces in the envelope — got different ids -/
def idsPairwise : List (EthEvent × Str) → Bool
  | [] => true
  | (e, i) :: rest =>
    rest.all (fun q => !(e.chainId = q.1.chainId && inEnvelope e && inEnvelope q.1) ||
                       (e.nonce = q.1.nonce && e.sender = q.1.sender) || i ≠ q.2) && idsPairwise rest

/-- distinct events of a batch ⇒ distinct claim identities (`ids` = the ids of the submitted claims, in order) -/
def batchIdsOK (env : Env) (val : Str) (events : List EthEvent) (ids : List Str) : Bool :=
  idsPairwise ((events.filter (submittable env val)).zip ids)

/-! ### the content the chain derives from the relayed claim -/

/-- The content read back on the chain (what the validators agree on and what is credited), compared field
    by field with the ORIGINAL Ethereum event: recipient as decoded, amount, token contract, claim type, and the
    symbol exactly — after the relayer's own documented lowering (lock) / table mapping (burn) only. -/
def contentFaithful (env : Env) (ev : EthEvent) (k : Content) : Bool :=
  env.bech32 ev.to = some k.receiver &&
  k.amount = ev.value &&
  k.token = addrString ev.token &&
  k.claimType = ev.claimType &&
  k.symbol = claimSymbol env ev

/-- what the content of an event must consist of -/
def expectedContent (env : Env) (ev : EthEvent) : Option Content :=
  (env.bech32 ev.to).map (fun r =>
    { receiver := r, amount := ev.value, symbol := claimSymbol env ev, token := addrString ev.token, claimType := ev.claimType })

/-- distinct events ⇒ distinct contents: two events whose content texts coincide agree on recipient, amount,
    symbol (after the relayer's lowering / mapping), token and claim type -/
def contentDistinctOK (env : Env) (e₁ e₂ : EthEvent) (text₁ text₂ : Str) : Bool :=
  text₁ ≠ text₂ || expectedContent env e₁ = expectedContent env e₂

/-! ### Sifchain → Ethereum -/

/-- value of the last attribute with key `k` (the code overwrites: last wins) -/
def lastVal (k : Str) (attrs : List Attr) : Option Str :=
  attrs.foldl (fun o a => if a.key = k then some a.val else o) none

def hasKey (k : Str) (attrs : List Attr) : Bool := attrs.any (fun a => a.key = k)

/-- all five attributes of a lock/burn event are present -/
def complete (attrs : List Attr) : Bool :=
  hasKey kCosmosSender attrs && hasKey kCosmosSenderSequence attrs && hasKey kEthereumReceiver attrs &&
  hasKey kSymbol attrs && hasKey kAmount attrs

/-- an accepted attribute list is complete (malformed = incomplete lists are rejected) -/
def completeOK (attrs : List Attr) (accepted : Bool) : Bool := !accepted || complete attrs

/-- the burn symbol is the (last) symbol attribute with exactly the leading pegged prefix "c" removed;
    in particular an accepted burn's symbol attribute starts with the prefix -/
def burnSymbolOK (attrs : List Attr) (accepted : Bool) (sym : Str) : Bool :=
  !accepted || (match lastVal kSymbol attrs with | some v => v = 'c' :: sym | none => sym = [])

def startsWithC : Str → Bool
  | 'c' :: _ => true
  | _ => false

/-- Sifchain → Ethereum field fidelity on an accepted message: sender, sequence, receiver and amount are
    those of the (last) attributes; the symbol is mapped through the table for locks and has the prefix
    removed for burns. -/
def msgFaithful (kind : Nat) (env : Env) (attrs : List Attr) (m : CosmosMsg) : Bool :=
  m.kind = kind &&
  m.sender = lastVal kCosmosSender attrs &&
  m.seq = (lastVal kCosmosSenderSequence attrs).bind (parseBig false) &&
  m.receiver = ((lastVal kEthereumReceiver attrs).bind parseHexAddr).getD zeroAddr &&
  m.amount = (lastVal kAmount attrs).bind parseSdkInt &&
  (kind ≠ kLock || m.symbol = ((lastVal kSymbol attrs).map (sifToEth env.table)).getD [])

/-- composition with the chain: what the relayer parsed out of the event the chain emitted for `msg`
    (sender sequence `seq`) is `msg`'s sender, that sequence, receiver, amount and symbol -/
def composeOK (kind : Nat) (env : Env) (b : BridgeMsg) (seq : Nat) (m : CosmosMsg) : Bool :=
  m.kind = kind &&
  m.sender = some b.sender &&
  m.seq = some (seq : Int) &&
  some m.receiver = parseHexAddr b.receiver &&
  m.amount = some b.amount &&
  (kind ≠ kLock || m.symbol = sifToEth env.table b.symbol) &&
  (kind ≠ kBurn || b.symbol = 'c' :: m.symbol)

/-- every lock event, and every burn event of a prefixed token, that the chain emitted is translated -/
def composeAcceptOK (kind : Nat) (symbol : Str) (accepted : Bool) : Bool :=
  accepted || (kind = kBurn && !startsWithC symbol)

end Sif.Spec.C16
