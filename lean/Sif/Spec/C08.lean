import Sif.Model.Auth
/-
  C08 — decidable statement of "privileged messages have no effect unless signed by the matching
  role".  Core only; evaluated by the driver on the implementation's observations.
-/
namespace Sif.Spec.C08
open Sif.Auth Sif.AuthTypes

/-- One observed message: `res` the implementation's result class, `changed` whether the hash of
    the whole multistore differs after the handler returned.  If the signer does not hold what the
    handler's guard asks for (per the model's role stores), it must be refused and nothing may have
    changed. -/
def refusedUnchanged (st : AuthState) (h : Handler) (signer : Addr) (res : Outcome) (changed : Bool) : Bool :=
  holds st h.store h.role signer || (res == .err && !changed)

/-- `AccAddress.String()` of the account a (valid, hence single-case) bech32 spelling denotes: the
    lower-case form.  Handlers decode `msg.Signer` and hand `IsAdminAccount` the account, which is
    compared with the stored strings through `.String()`. -/
def canonAddr (spelling : String) : String := spelling.toLower

/-- "removing a role takes effect for the very next message", on the implementation's own answer:
    `still` = what the real `IsAdminAccount(role, account)` says right after an accepted
    `RemoveAccount(role, spelling-of-account)`. -/
def removalEffective (still : Bool) : Bool := !still

/-- The property on its own terms, judged on the implementation only: `roles` = the admin roles the
    signer holds according to the RAW key/value pairs of the x/admin store in the state the message
    met, `oracle` / `clp` = whether the raw oracle admin entry / clp whitelist entry name the signer.
    An accepted privileged message must have been signed by a holder of the role AS STORED. -/
def storedOK (h : Handler) (roles : List Role) (oracle clp : Bool) (res : Outcome) : Bool :=
  res == .err ||
    match h.store with
    | .none => true
    | .admin => roles.contains h.role
    | .oracle => oracle
    | .clpWhitelist => clp
    | .unknown => false

/-- a refused message never changes state, authorised or not (keeper level, no wrapper) -/
def errUnchanged (res : Outcome) (changed : Bool) : Bool := res == .ok || !changed

/-- the 30 privileged handlers of DESIGN 4/C08 with their role store and role -/
def expected : List (String × String × Store × String) := [
  ("admin", "AddAccount", .admin, "ADMIN"), ("admin", "RemoveAccount", .admin, "ADMIN"), ("admin", "SetParams", .admin, "ADMIN"),
  ("tokenregistry", "Register", .admin, "TOKENREGISTRY"), ("tokenregistry", "SetRegistry", .admin, "TOKENREGISTRY"),
  ("tokenregistry", "Deregister", .admin, "TOKENREGISTRY"),
  ("clp", "SetSymmetryThreshold", .admin, "CLPDEX"), ("clp", "UpdateLiquidityProtectionParams", .admin, "CLPDEX"),
  ("clp", "ModifyLiquidityProtectionRates", .admin, "CLPDEX"),
  ("clp", "UpdateStakingRewardParams", .admin, "PMTPREWARDS"), ("clp", "UpdateRewardsParams", .admin, "PMTPREWARDS"),
  ("clp", "AddRewardPeriod", .admin, "PMTPREWARDS"), ("clp", "AddProviderDistributionPeriod", .admin, "PMTPREWARDS"),
  ("clp", "UpdatePmtpParams", .admin, "PMTPREWARDS"), ("clp", "ModifyPmtpRates", .admin, "PMTPREWARDS"),
  ("clp", "UpdateSwapFeeParams", .admin, "PMTPREWARDS"),
  ("clp", "DecommissionPool", .clpWhitelist, ""),
  ("margin", "UpdateParams", .admin, "MARGIN"), ("margin", "UpdatePools", .admin, "MARGIN"),
  ("margin", "UpdateRowanCollateral", .admin, "MARGIN"), ("margin", "Whitelist", .admin, "MARGIN"),
  ("margin", "Dewhitelist", .admin, "MARGIN"), ("margin", "ForceClose", .admin, "MARGIN"),
  ("margin", "AdminClose", .admin, "MARGIN"), ("margin", "AdminCloseAll", .admin, "MARGIN"),
  ("ethbridge", "SetPause", .admin, "ETHBRIDGE"), ("ethbridge", "SetBlacklist", .admin, "ETHBRIDGE"),
  ("ethbridge", "UpdateWhiteListValidator", .oracle, ""), ("ethbridge", "UpdateCethReceiverAccount", .oracle, ""),
  ("ethbridge", "RescueCeth", .oracle, "")]

/-- the handler record the *specification* prescribes (store and role from `expected`; a handler that
    is not in the table is permissionless).  The judge and the matrix model use this one — never the
    regenerated record, so that a guard deleted or changed in the code cannot excuse itself. -/
def specHandler (module name : String) : Handler :=
  match expected.find? (fun e => e.1 == module && e.2.1 == name) with
  | some e => { module := module, name := name, msgType := "", store := e.2.2.1, role := e.2.2.2, callee := "", signerField := "",
                getSignersField := "", pre := [], guardTop := true, failReturnsError := true, authCalls := 1 }
  | none => { module := module, name := name, msgType := "", store := .none, role := "", callee := "", signerField := "",
              getSignersField := "", pre := [], guardTop := false, failReturnsError := false, authCalls := 0 }

/-- the one authorisation function each store is consulted through -/
def calleeOf : Store → String
  | .admin => "adminKeeper.IsAdminAccount"
  | .oracle => "oracleKeeper.IsAdminAccount"
  | .clpWhitelist => "clpKeeper.ValidateAddress"
  | _ => ""

/-- what the table demands of a handler that contains an authorisation call -/
def rowOK (h : Handler) : Bool :=
  guardFirst h && h.failReturnsError && h.store != .unknown && h.callee == calleeOf h.store &&
  h.signerField != "" && h.signerField != "?" && h.signerField == h.getSignersField

end Sif.Spec.C08
