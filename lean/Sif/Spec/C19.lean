import Sif.Model.Ante
/-
  C19 — decidable statement of "fee floors and validator-concentration rules hold however a
  message is wrapped".  Core only.  These predicates are what the theorems of `Sif/Props/C19.lean`
  talk about AND what the driver evaluates on the implementation's own observations (`chk` lines).
  They mention no model function of the decorators: only the message tree, the property's table
  of message kinds, and plain integer comparisons.
-/
namespace Sif.Spec.C19
open Sif Sif.Ante Sif.AnteTypes

/-- the kinds of message the property names -/
inductive Kind where
  | std        -- bank send / multi-send, liquidity add / removal, swap, user claim
  | transfer   -- IBC transfer
  | proposal   -- governance proposal
  deriving Repr, DecidableEq

/-- the property's message kinds by exact protobuf type URL -/
def kindTable : List (String × Kind) := [
  ("/cosmos.bank.v1beta1.MsgSend", .std),
  ("/cosmos.bank.v1beta1.MsgMultiSend", .std),
  ("/sifnode.clp.v1.MsgAddLiquidity", .std),
  ("/sifnode.clp.v1.MsgRemoveLiquidity", .std),
  ("/sifnode.clp.v1.MsgRemoveLiquidityUnits", .std),
  ("/sifnode.clp.v1.MsgSwap", .std),
  ("/sifnode.dispensation.v1.MsgCreateUserClaim", .std),
  ("/ibc.applications.transfer.v1.MsgTransfer", .transfer),
  ("/cosmos.gov.v1beta1.MsgSubmitProposal", .proposal)]

def kindOf (url : String) : Option Kind := (kindTable.find? (fun e => e.1 = url)).map (·.2)

/-- the fee floors as documented (app/ante/test.md, property text): 0.1 rowan, 0.01 rowan, and the
    admin parameter `SubmitProposalFee` -/
def floorOfKind (propFee : Int) : Kind → Int
  | .std => 100000000000000000
  | .transfer => 10000000000000000
  | .proposal => propFee

def floorOfUrl (propFee : Int) (url : String) : Int :=
  match kindOf url with
  | some k => floorOfKind propFee k
  | none => 0

/-- the highest floor over every message of the tree, wrapped or not -/
def required (propFee : Int) (ms : List Msg) : Int :=
  (leavesList ms).foldl (fun a l => max a (floorOfUrl propFee l.url)) 0

/-- clause 1: an accepted transaction pays at least the highest floor, in rowan -/
def feeOK (accepted : Bool) (propFee : Int) (tx : Tx) : Bool :=
  !accepted || decide (required propFee tx.msgs ≤ rowanFee tx.fees)

/-- the same on the fee actually deducted (executed effect) -/
def paidOK (propFee paid : Int) (ms : List Msg) : Bool := decide (required propFee ms ≤ paid)

/-- `100 · v / t < cap` for a cap given as a raw sdk.Dec integer, as an exact integer inequality -/
def shareBelow (cap v t : Int) : Bool := decide (100 * (Dec.P : Int) * v < cap * t)

/-- clause 2 on one message -/
def commissionOK (minCommission : Int) : Body → Bool
  | .createVal r _ _ => decide (minCommission ≤ r)
  | .editVal (some r) => decide (minCommission ≤ r)
  | _ => true

/-- clause 3 on one message, against the stake as it will be when the message executes: the state
    the transaction starts from plus what its earlier messages (`p`) add -/
def capOK (cap : Int) (env : StakeEnv) (p : Pending) : Body → Bool
  | .delegate v amt =>
    match env.tokens v with
    | none => true
    | some tok => shareBelow cap (tok + (p.get v + amt)) (env.total + (p.total + amt))
  | .redelegate src dst amt =>
    match env.tokens dst with
    | none => true
    | some tok => shareBelow cap (tok + (p.get dst + (if src = dst then 0 else amt))) (env.total + p.total)
  | _ => true

/-- what an executed message adds -/
def stepPending (env : StakeEnv) (p : Pending) : Body → Pending
  | .delegate v amt =>
    match env.tokens v with
    | none => p
    | some _ => p.add v amt amt
  | .redelegate src dst amt =>
    match env.tokens dst with
    | none => p
    | some _ => p.add dst (if src = dst then 0 else amt) 0
  | _ => p

/-- every (re)delegation of the list, in execution order, stays below the cap (fixed base state) -/
def seqCapOK (cap : Int) (env : StakeEnv) : Pending → List Leaf → Bool
  | _, [] => true
  | p, l :: ls => capOK cap env p l.body && seqCapOK cap env (stepPending env p l.body) ls

def finalPending (env : StakeEnv) : Pending → List Leaf → Pending
  | p, [] => p
  | p, l :: ls => finalPending env (stepPending env p l.body) ls

/-- after the whole transaction: no validator that received stake through it holds the cap or more -/
def endOK (cap : Int) (env : StakeEnv) (p : Pending) : Bool :=
  p.byVal.all (fun e =>
    match env.tokens e.1 with
    | none => true
    | some tok => shareBelow cap (tok + p.get e.1) (env.total + p.total))

/-- a MsgCreateValidator that executes puts a new validator holding its self-delegation `value` into the
    stake the later messages of the transaction meet (creating an existing validator cannot execute) -/
def createEnv (env : StakeEnv) : Body → StakeEnv
  | .createVal _ v value =>
    match env.tokens v with
    | some _ => env
    | none => ⟨env.total + value, (v, value) :: env.vals⟩
  | _ => env

/-- the same in execution order over a stake that also gains the validators the transaction creates:
    a (re)delegation to a validator created earlier in the transaction is judged with that validator's
    self-delegation in its tokens and in the total -/
def seqCapOKx (cap : Int) : StakeEnv → Pending → List Leaf → Bool
  | _, _, [] => true
  | env, p, l :: ls => capOK cap env p l.body && seqCapOKx cap (createEnv env l.body) (stepPending env p l.body) ls

def finalX : StakeEnv → Pending → List Leaf → StakeEnv × Pending
  | env, p, [] => (env, p)
  | env, p, l :: ls => finalX (createEnv env l.body) (stepPending env p l.body) ls

/-- clauses 2 and 3: an accepted transaction contains, at any nesting depth, no validator
    creation/edit below the minimum commission; every (re)delegation, judged against the stake as it
    will be when it executes (including validators the transaction itself creates, with their
    self-delegation), stays below the cap; and so does, once all messages ran, every validator that
    received a (re)delegation -/
def stakingOK (accepted : Bool) (minCommission cap : Int) (env : StakeEnv) (ms : List Msg) : Bool :=
  !accepted ||
    ((leavesList ms).all (fun l => commissionOK minCommission l.body) &&
     seqCapOKx cap env Pending.empty (leavesList ms) &&
     endOK cap (finalX env Pending.empty (leavesList ms)).1 (finalX env Pending.empty (leavesList ms)).2)

/-- executed effects -/
def commissionEffectOK (minCommission rate : Int) : Bool := decide (minCommission ≤ rate)
def powerEffectOK (cap tokensAfter totalAfter : Int) : Bool := shareBelow cap tokensAfter totalAfter

/-- the documented constants: 5 % and 6.6 % -/
def docMinCommission : Int := 50000000000000000
def docMaxVotingPower : Int := 6600000000000000000

/-- preconditions of the theorems, as explicit decidable predicates -/
def feesValid (tx : Tx) : Bool := tx.fees.all (fun c => decide (0 ≤ c.2))

def envValid (env : StakeEnv) : Bool := decide (0 ≤ env.total) && env.vals.all (fun p => decide (0 ≤ p.2))

def bodyAmountsValid : Body → Bool
  | .delegate _ amt => decide (0 ≤ amt)
  | .redelegate _ _ amt => decide (0 ≤ amt)
  | .createVal _ _ value => decide (0 ≤ value)
  | _ => true

def amountsValid (ms : List Msg) : Bool := (leavesList ms).all (fun l => bodyAmountsValid l.body)

end Sif.Spec.C19
