/-
  The one float64 computation in the bridge: `float64(p) / float64(t) >= 0.7` (processCompletion).
  Core Lean only.  For integers below 2^53 the conversions are exact and IEEE-754 division is the correctly
  rounded quotient; for a quotient in the binade [1/2, 1) the double has a 53-bit significand with unit 2^-53,
  so its significand is round-half-even of p·2^53 / t.  `float64(0.7)` is 0x3FE6666666666666, i.e.
  6305039478318694 · 2^-53.
-/
namespace Sif.F64

/-- significand (in units of 2^-53) of the correctly rounded quotient p/t, round-half-even; this *is* the double
    when 1/2 ≤ p/t < 1 -/
def sigDiv (p t : Nat) : Nat :=
  let n := p * 2 ^ 53
  let f := n / t
  let r := n % t
  if 2 * r < t then f else if t < 2 * r then f + 1 else if f % 2 = 0 then f else f + 1

/-- significand of float64(0.7) -/
def c07sig : Nat := 6305039478318694

/-- `float64(p) / float64(t) >= 0.7` (for 0 < t, p and t below 2^53) -/
def divGE07 (p t : Nat) : Bool := decide (c07sig ≤ sigDiv p t)

end Sif.F64
