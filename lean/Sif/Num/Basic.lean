/-
  Exact models of the number types the chain computes with (cosmos-sdk v0.45.16 `sdk.Uint`,
  `sdk.Int`, `sdk.Dec`, Go `math/big`).  Core Lean only (no Mathlib): this file is linked into
  the `sifdrv` executable.  Panics of the Go code are `Except.error`.
-/
namespace Sif

inductive Panic where
  | overflow | underflow | divZero | negative | sqrtNeg | other
  deriving Repr, DecidableEq, Inhabited

def Panic.toString : Panic → String
  | .overflow => "overflow" | .underflow => "underflow" | .divZero => "divzero"
  | .negative => "negative" | .sqrtNeg => "sqrtneg" | .other => "other"

abbrev M := Except Panic

/-- number of bits of a natural number (`big.Int.BitLen` of the magnitude) -/
def bitLen (n : Nat) : Nat := if n = 0 then 0 else Nat.log2 n + 1

def two256 : Nat := 2 ^ 256

namespace Uint
/-- `sdk.Uint`: every result goes through `checkNewUint` (≤ 256 bits, non-negative). -/
def chk (n : Nat) : M Nat := if n < two256 then .ok n else .error .overflow
def add (a b : Nat) : M Nat := chk (a + b)
def sub (a b : Nat) : M Nat := if b ≤ a then .ok (a - b) else .error .underflow
def mul (a b : Nat) : M Nat := chk (a * b)
def quo (a b : Nat) : M Nat := if b = 0 then .error .divZero else .ok (a / b)
/-- `NewUintFromBigInt` of a possibly negative big.Int -/
def ofInt (i : Int) : M Nat := if i < 0 then .error .negative else chk i.toNat
end Uint

/-- `sdk.Dec`: the integer `i` stands for `i / 10^18`. -/
structure Dec where
  i : Int
  deriving Repr, DecidableEq, Inhabited

namespace Dec
def P : Nat := 10 ^ 18
def half : Nat := 5 * 10 ^ 17
def maxBits : Nat := 315

def ofNat (n : Nat) : Dec := ⟨(n * P : Nat)⟩
def ofInt (n : Int) : Dec := ⟨n * P⟩
def zero : Dec := ⟨0⟩
def one : Dec := ⟨P⟩

def chk (i : Int) : M Dec := if bitLen i.natAbs ≤ maxBits then .ok ⟨i⟩ else .error .overflow

/-- `chopPrecisionAndRound` on a non-negative magnitude: banker's rounding of n / 10^18 -/
def chopRoundNat (n : Nat) : Nat :=
  let q := n / P
  let r := n % P
  if r < half then q
  else if r > half then q + 1
  else if q % 2 = 0 then q else q + 1

def chopRound (i : Int) : Int :=
  if i < 0 then - (chopRoundNat i.natAbs : Int) else (chopRoundNat i.natAbs : Int)

def add (a b : Dec) : M Dec := chk (a.i + b.i)
def sub (a b : Dec) : M Dec := chk (a.i - b.i)
def mul (a b : Dec) : M Dec := chk (chopRound (a.i * b.i))
def mulTruncate (a b : Dec) : M Dec := chk (Int.tdiv (a.i * b.i) P)
def mulInt (a : Dec) (n : Int) : M Dec := chk (a.i * n)
def quo (a b : Dec) : M Dec :=
  if b.i = 0 then .error .divZero else chk (chopRound (Int.tdiv (a.i * P * P) b.i))
def quoTruncate (a b : Dec) : M Dec :=
  if b.i = 0 then .error .divZero else chk (Int.tdiv (Int.tdiv (a.i * P * P) b.i) P)
def quoInt (a : Dec) (n : Int) : M Dec :=
  if n = 0 then .error .divZero else .ok ⟨Int.tdiv a.i n⟩
def truncateInt (a : Dec) : Int := Int.tdiv a.i P
def roundInt (a : Dec) : Int := chopRound a.i
def neg (a : Dec) : Dec := ⟨-a.i⟩
def abs (a : Dec) : Dec := ⟨a.i.natAbs⟩
def isNegative (a : Dec) : Bool := a.i < 0
def isPositive (a : Dec) : Bool := a.i > 0
def isZero (a : Dec) : Bool := a.i = 0
instance : LE Dec := ⟨fun a b => a.i ≤ b.i⟩
instance : LT Dec := ⟨fun a b => a.i < b.i⟩
instance (a b : Dec) : Decidable (a ≤ b) := inferInstanceAs (Decidable (a.i ≤ b.i))
instance (a b : Dec) : Decidable (a < b) := inferInstanceAs (Decidable (a.i < b.i))

/-- `Dec.Power` of v0.45.16 (square and multiply, rounding and overflow at each step) -/
def powerLoop : Nat → Nat → Dec → Dec → M (Dec × Dec)
  | 0, _, d, tmp => .ok (d, tmp)
  | fuel+1, i, d, tmp =>
    if i > 1 then do
      let tmp' ← if i % 2 ≠ 0 then tmp.mul d else pure tmp
      let d' ← d.mul d
      powerLoop fuel (i / 2) d' tmp'
    else .ok (d, tmp)

def power (d : Dec) (n : Nat) : M Dec :=
  if n = 0 then .ok one else do
    let (d', tmp) ← powerLoop 64 n d one
    d'.mul tmp

/-- the rational value -/
def toRat (a : Dec) : Rat := mkRat a.i P

/-- digits for `Dec.String()` (18 decimals always) -/
def toString (a : Dec) : String :=
  let n := a.i.natAbs
  let ip := n / P
  let fp := n % P
  let fs := Nat.repr fp
  let pad := String.ofList (List.replicate (18 - fs.length) '0')
  (if a.i < 0 then "-" else "") ++ Nat.repr ip ++ "." ++ pad ++ fs
end Dec

/-- `RatIntQuo`: numerator `quo` denominator, truncation toward zero -/
def ratIntQuo (r : Rat) : Int := Int.tdiv r.num r.den

/-- `DecToRat` -/
def decToRat (d : Dec) : Rat := mkRat d.i Dec.P

/-- `ApproxRatSquareRoot`: floor(sqrt(num quo den)); panics (big.Int.Sqrt) on a negative input -/
def approxRatSqrt (r : Rat) : M Nat :=
  let q := ratIntQuo r
  if q < 0 then .error .sqrtNeg else .ok (Nat.sqrt q.toNat)

/-- `RatToDec`: see x/clp/keeper/pureCalculation.go -/
def ratDiv (a b : Rat) : M Rat := if b = 0 then .error .divZero else .ok (a / b)

end Sif
