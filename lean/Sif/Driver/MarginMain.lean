import Sif.Driver.Margin
/-
  `drv_margin`: stateful driver of the `margin` family; one answer line per operation line.
-/
open Sif.Drv.Margin

partial def loop (h : IO.FS.Stream) (out : IO.FS.Stream) (d : DS) : IO Unit := do
  let line ← h.getLine
  if line.isEmpty then return ()
  let toks := (line.trimAscii.toString.splitOn " ").filter (· ≠ "")
  match step d toks with
  | some (d', ans) =>
    out.putStrLn ans
    loop h out d'
  | none =>
    out.putStrLn "bad-op"
    loop h out d

def main : IO Unit := do
  let out ← IO.getStdout
  loop (← IO.getStdin) out initDS
