import Sif.Spec.C09
/-
  drv_replay: judge of the C09 re-execution family.  One line in, one line out.
    chk allEqual[/<t>] tag=<t> n=<N> [k=v …] | v₁ … v_N   → `true` iff exactly N (≥ 2) observations, all equal
    note …                                          → `ok`
  The observations are what N executions of the REAL application produced for the same block /
  transaction; the predicate is `Sif.Spec.C09.allEqualN`.
-/
open Sif.Spec.C09

def judge (toks : List String) : String :=
  match toks with
  | "note" :: _ => "ok"
  | "chk" :: p :: rest =>
    -- chk epochEnd[/<tag>] … | oldStartNs durationNs newStartNs oldCurrent newCurrent
    if p == "epochEnd" || p.startsWith "epochEnd/" then
      match ((rest.dropWhile (· ≠ "|")).drop 1).mapM (fun (s : String) => s.toInt?) with
      | some [a, b, c, d, e] => toString (epochEndOK a b c d e)
      | _ => "bad-op"
    else
    -- the predicate token is `allEqual` or `allEqual/<tag>` (the tag makes bin/check report the first failure per tag)
    if !(p == "allEqual" || p.startsWith "allEqual/") then "bad-op" else
    let hdr := rest.takeWhile (· ≠ "|")
    let obs := (rest.dropWhile (· ≠ "|")).drop 1
    match (hdr.find? (·.startsWith "n=")).bind (fun s => (s.drop 2).toString.toNat?) with
    | some n => toString (allEqualN n obs)
    | none => "bad-op"
  | _ => "bad-op"

partial def loop (h : IO.FS.Stream) (out : IO.FS.Stream) : IO Unit := do
  let line ← h.getLine
  if line.isEmpty then return ()
  let toks := (line.trimAscii.toString.splitOn " ").filter (· ≠ "")
  out.putStrLn (judge toks)
  loop h out

def main : IO Unit := do
  let out ← IO.getStdout
  loop (← IO.getStdin) out
