import Sif.Driver.Unlock
/-
  `drv_unlock`: reads one operation per line on stdin (family `unlock`, C15), threads the model
  state and the judge's ledgers, prints exactly one answer line per operation.
-/
open Sif.Drv.Unlock

partial def loop (h : IO.FS.Stream) (out : IO.FS.Stream) (d : DS) : IO Unit := do
  let line ← h.getLine
  if line.isEmpty then return ()
  let toks := (line.trimAscii.toString.splitOn " ").filter (· ≠ "")
  match handle d toks with
  | some (d', ans) => out.putStrLn ans; loop h out d'
  | none => out.putStrLn "bad-op"; loop h out d

def main : IO Unit := do
  let out ← IO.getStdout
  loop (← IO.getStdin) out DS.init
