import Sif.Driver.Util
import Sif.Spec.C10
/-
  Driver for the `policy` group (C10).  Stateless: every line carries the slice of implementation
  state the hook reads.  Grammar (numbers decimal, `sdk.Dec` as raw scaled integers, `x` = none):

    bb <h> <lpActive> <lpMax> <lpCur> <lpEpochLen> <start> <end> <epochLen> <gov> <epochCtr> <blockCtr>
       <blockRate> <running> <inter> <powRate|x> <np> (<nb> <eb> <nl> <el> <decOK> <dec>)*np
       → ok <lpCur'> <epochCtr'> <blockCtr'> <blockRate'> <running'> <inter'> (| <priceN> <priceE> or | -)*np
       | panic
-/
namespace Sif.Drv
open Sif Sif.Hooks Sif.Validate

def parseOptDec (s : String) : Option (Option Dec) :=
  if s = "x" then some none else (parseDec s).map some

def parsePools : Nat → List String → Option (List PoolDepth × List String)
  | 0, rest => some ([], rest)
  | n+1, nb :: eb :: nl :: el :: ok :: dec :: rest => do
      let p : PoolDepth := ⟨← parseNat nb, ← parseNat eb, ← parseNat nl, ← parseNat el, ← parseBool ok, ← parseNat dec⟩
      let (ps, rest) ← parsePools n rest
      some (p :: ps, rest)
  | _, _ => none

def showPrices : List (Option (Dec × Dec)) → String
  | [] => ""
  | none :: t => " | -" ++ showPrices t
  | some (a, b) :: t => s!" | {a.i} {b.i}" ++ showPrices t

def showBOut (o : BOut) : String :=
  s!"{o.st.lp.cur} {o.st.pm.epochCtr} {o.st.pm.blockCtr} {o.st.pm.blockRate.i} {o.st.pm.running.i} {o.st.pm.inter.i}" ++ showPrices o.prices

def handleBB : List String → Option String
  | h :: act :: mx :: cur :: lel :: st :: en :: el :: gov :: ec :: bc :: br :: rr :: ir :: pw :: np :: rest => do
      let lp : LiqProt := ⟨← parseBool act, ← parseNat mx, ← parseNat cur, ← parseNat lel⟩
      let pm : Pmtp := ⟨← parseInt st, ← parseInt en, ← parseInt el, ← parseDec gov, ← parseInt ec, ← parseInt bc,
                         ← parseDec br, ← parseDec rr, ← parseDec ir⟩
      let (pools, rest) ← parsePools (← parseNat np) rest
      if !rest.isEmpty then none
      let env : BEnv := ⟨← parseInt h, ← parseOptDec pw, pools⟩
      some (showM showBOut (beginBlock ⟨lp, pm⟩ env))
  | _ => none

def parseOptNat (s : String) : Option (Option Nat) :=
  if s = "n" then some none else (parseNat s).map some
def parseOptDecN (s : String) : Option (Option Dec) :=
  if s = "n" then some none else (parseDec s).map some

def parseLppd : Nat → List String → Option (List LppdPeriod × List String)
  | 0, rest => some ([], rest)
  | n+1, r :: s :: e :: m :: rest => do
      let p : LppdPeriod := ⟨← parseDec r, ← parseNat s, ← parseNat e, ← parseNat m⟩
      let (ps, rest) ← parseLppd n rest
      some (p :: ps, rest)
  | _, _ => none

def parseMults : Nat → List String → Option (List Mult × List String)
  | 0, rest => some ([], rest)
  | n+1, a :: m :: rest => do
      let x : Mult := ⟨a, ← parseOptDecN m⟩
      let (xs, rest) ← parseMults n rest
      some (x :: xs, rest)
  | _, _ => none

def parseRew : Nat → List String → Option (List RewardPeriod × List String)
  | 0, rest => some ([], rest)
  | n+1, s :: e :: a :: m :: d :: df :: km :: rest => do
      let (ms, rest) ← parseMults (← parseNat km) rest
      let p : RewardPeriod := ⟨← parseNat s, ← parseNat e, ← parseOptNat a, ← parseNat m, ← parseBool d, ← parseOptDecN df, ms⟩
      let (ps, rest) ← parseRew n rest
      some (p :: ps, rest)
  | _, _ => none

def parseNats : Nat → List String → Option (List Nat × List String)
  | 0, rest => some ([], rest)
  | n+1, x :: rest => do
      let v ← parseNat x
      let (vs, rest) ← parseNats n rest
      some (v :: vs, rest)
  | _, _ => none

def parseEPools : Nat → List String → Option (List EPool × List String)
  | 0, rest => some ([], rest)
  | n+1, sym :: nb :: u :: rp :: nlp :: rest => do
      let (lps, rest) ← parseNats (← parseNat nlp) rest
      let p : EPool := ⟨sym, ← parseNat nb, ← parseNat u, ← parseNat rp, lps⟩
      let (ps, rest) ← parseEPools n rest
      some (p :: ps, rest)
  | _, _ => none

def showEPools : List EPool → String
  | [] => ""
  | p :: t => s!" | {p.nb} {p.rpnd}" ++ showEPools t

def parseEState : List String → Option (EState × Int)
  | h :: accu :: nl :: rest => do
      let (lppd, rest) ← parseLppd (← parseNat nl) rest
      match rest with
      | nr :: rest =>
        let (rew, rest) ← parseRew (← parseNat nr) rest
        match rest with
        | np :: rest =>
          let (pools, rest) ← parseEPools (← parseNat np) rest
          if !rest.isEmpty then none
          some (⟨← parseNat accu, lppd, rew, pools⟩, ← parseInt h)
        | _ => none
      | _ => none
  | _ => none

/-- `einv …` (same fields as `eb`): the envelope `EInv` on the implementation's state -/
def handleEInv (toks : List String) : Option String := do
  let (s, _) ← parseEState toks
  some (if Sif.Spec.C10.EInv s then "holds" else "outside")

def handleEB : List String → Option String
  | h :: accu :: nl :: rest => do
      let (lppd, rest) ← parseLppd (← parseNat nl) rest
      match rest with
      | nr :: rest =>
        let (rew, rest) ← parseRew (← parseNat nr) rest
        match rest with
        | np :: rest =>
          let (pools, rest) ← parseEPools (← parseNat np) rest
          if !rest.isEmpty then none
          let s : EState := ⟨← parseNat accu, lppd, rew, pools⟩
          some (showM (fun (o : EState) => s!"{o.accu}" ++ showEPools o.pools) (endBlock s (← parseInt h)))
        | _ => none
      | _ => none
  | _ => none

/-! ### admin messages: `adm <implAccepted> <kind> <h> <inWindow> <signer> <fields…> | <hook state before>` -/

def parseDecStr (s : String) : Option DecStr :=
  if s = "e" then some .empty else if s = "b" then some .bad else (parseDec s).map .val

def parseCtx (h inw sg : String) : Option Ctx := do
  some ⟨← parseInt h, ← parseBool inw, sg = "bad" || sg = "empty", sg != "adm"⟩

def parsePm : List String → Option Pmtp
  | [st, en, el, gov, ec, bc, br, rr, ir] => do
      some ⟨← parseInt st, ← parseInt en, ← parseInt el, ← parseDec gov, ← parseInt ec, ← parseInt bc, ← parseDec br, ← parseDec rr, ← parseDec ir⟩
  | _ => none
def showPm (pm : Pmtp) : String :=
  s!"{pm.start} {pm.end_} {pm.epochLen} {pm.gov.i} {pm.epochCtr} {pm.blockCtr} {pm.blockRate.i} {pm.running.i} {pm.inter.i}"
def parseLp : List String → Option LiqProt
  | [a, mx, cur, el] => do some ⟨← parseBool a, ← parseNat mx, ← parseNat cur, ← parseNat el⟩
  | _ => none
def showLp (lp : LiqProt) : String := s!"{if lp.active then 1 else 0} {lp.max} {lp.cur} {lp.epochLen}"

def parseOptDecs : Nat → List String → Option (List (Option Dec) × List String)
  | 0, rest => some ([], rest)
  | n+1, x :: rest => do
      let v ← parseOptDecN x
      let (vs, rest) ← parseOptDecs n rest
      some (v :: vs, rest)
  | _, _ => none

def parseMsgRew : Nat → List String → Option (List MsgRewardPeriod × List String)
  | 0, rest => some ([], rest)
  | n+1, ide :: s :: e :: a :: m :: d :: df :: km :: rest => do
      let (ms, rest) ← parseOptDecs (← parseNat km) rest
      let p : RewardPeriod := ⟨← parseNat s, ← parseNat e, ← parseOptNat a, ← parseNat m, ← parseBool d, ← parseOptDecN df, ms.map (fun x => ⟨"", x⟩)⟩
      let (ps, rest) ← parseMsgRew n rest
      some (⟨← parseBool ide, p⟩ :: ps, rest)
  | _, _ => none

def parseMsgLppd : Nat → List String → Option (List MsgLppdPeriod × List String)
  | 0, rest => some ([], rest)
  | n+1, r :: s :: e :: m :: rest => do
      let p : MsgLppdPeriod := ⟨← parseOptDecN r, ← parseNat s, ← parseNat e, ← parseNat m⟩
      let (ps, rest) ← parseMsgLppd n rest
      some (p :: ps, rest)
  | _, _ => none

def parseOldRew : Nat → List String → Option (List RewardPeriod × List String)
  | 0, rest => some ([], rest)
  | n+1, s :: e :: a :: m :: rest => do
      let p : RewardPeriod := ⟨← parseNat s, ← parseNat e, ← parseOptNat a, ← parseNat m, false, none, []⟩
      let (ps, rest) ← parseOldRew n rest
      some (p :: ps, rest)
  | _, _ => none

/-- the model's verdict and (if it accepts) the hook state after the message -/
def admModel (kind : String) (c : Ctx) (fields pre : List String) : Option (Bool × String) :=
  match kind, fields with
  | "ModifyPmtpRates", [br, rr, ep] => do
      let m : MsgModifyPmtpRates := ⟨← parseDecStr br, ← parseDecStr rr, ← parseBool ep⟩
      let pm ← parsePm pre
      some (acceptsModifyPmtpRates m c {}, showPm (applyModifyPmtpRates m c pm))
  | "UpdatePmtpParams", [gov, el, st, en, stored] => do
      let m : MsgUpdatePmtpParams := ⟨← parseDecStr gov, ← parseInt el, ← parseInt st, ← parseInt en⟩
      let pm ← parsePm pre
      some (acceptsUpdatePmtpParams m c { gov := ← parseDec stored }, showPm (applyUpdatePmtpParams m pm))
  | "ModifyLiquidityProtectionRates", [cur, mx] => do
      let m : MsgModifyLPRates := ⟨← parseNat cur⟩
      let lp ← parseLp pre
      some (acceptsModifyLPRates m c { lpMax := ← parseNat mx }, showLp (applyModifyLPRates m lp))
  | "UpdateLiquidityProtectionParams", [mx, el, act] => do
      let m : MsgUpdateLPParams := ⟨← parseNat mx, ← parseNat el, ← parseBool act⟩
      let lp ← parseLp pre
      some (acceptsUpdateLPParams m c {}, showLp (applyUpdateLPParams m lp))
  | "AddRewardPeriod", n :: rest => do
      let (ps, rest) ← parseMsgRew (← parseNat n) rest
      if !rest.isEmpty then none
      -- pre-state: <accu> <nOld> (<start> <end> <alloc|n> <mod>)*
      match pre with
      | accu :: nOld :: prest =>
        let (old, prest) ← parseOldRew (← parseNat nOld) prest
        if !prest.isEmpty then none
        let s : EState := ⟨← parseNat accu, [], old, []⟩
        some (acceptsAddRewardPeriod ⟨ps⟩ c {}, s!"{(applyAddRewardPeriod ⟨ps⟩ c s).accu}")
      | _ => none
  | "AddProviderDistributionPeriod", n :: rest => do
      let (ps, rest) ← parseMsgLppd (← parseNat n) rest
      if !rest.isEmpty then none
      some (acceptsAddLppd ⟨ps⟩ c {}, "-")
  | "UpdateSwapFeeParams", d :: km :: rest => do
      let (ts, rest) ← parseOptDecs (← parseNat km) rest
      if !rest.isEmpty then none
      some (acceptsUpdateSwapFee ⟨← parseOptDecN d, ts⟩ c {}, "-")
  | "UpdateRewardsParams", _ => some (true, "-")
  | "SetSymmetryThreshold", _ => some (true, "-")
  | "UpdateStakingRewardParams", _ => some (true, "-")
  | _, _ => none

def splitBar (l : List String) : List String × List String :=
  (l.takeWhile (· ≠ "|"), (l.dropWhile (· ≠ "|")).drop 1)

/-- one-directional: the code may be stricter than the model, never laxer -/
def handleAdm : List String → Option String
  | acc :: kind :: h :: inw :: sg :: rest => do
      let acc ← parseBool acc
      let c ← parseCtx h inw sg
      let (fields, pre) := splitBar rest
      let (ok, post) ← admModel kind c fields pre
      if !acc then some "consistent"
      else if ok then some ("consistent " ++ post)
      else some "code-accepts-what-the-model-rejects"
  | _ => none

def handleChk : List String → Option String
  | "c10.safe" :: _tag :: acc :: pan :: _ => do
      some (toString (Sif.Spec.C10.safeOK (← parseBool acc) (← parseBool pan)))
  | "c10.hook" :: _tag :: pan :: _ => do
      some (toString (Sif.Spec.C10.hookOK (← parseBool pan)))
  | "c10.confined" :: _tag :: p :: e :: u :: _ => do
      some (toString (Sif.Spec.C10.confinedOK (← parseBool p) (← parseBool e) (← parseBool u)))
  | _ => none

/-- `inv <h> <lp 4> <pm 9>`: the invariants assumed by the theorems, on the implementation's state -/
def handleInv : List String → Option String
  | h :: a :: mx :: cur :: el :: rest => do
      let lp ← parseLp [a, mx, cur, el]
      let pm ← parsePm rest
      let h ← parseInt h
      some (if Sif.Spec.C10.LpInv lp && Sif.Spec.C10.PmtpInv pm h then "holds" else "violated")
  | _ => none

/-- `powenv <start> <end> <epochLen> <gov> <blockRate>`: the assumption on math.Pow -/
def handlePowEnv : List String → Option String
  | [st, en, el, gov, b] => do
      let pm : Pmtp := ⟨← parseInt st, ← parseInt en, ← parseInt el, ← parseDec gov, 0, 0, Dec.zero, Dec.zero, Dec.zero⟩
      some (if Sif.Spec.C10.PowAccurate pm (← parseDec b) then "holds" else "violated")
  | _ => none

/-- `lpu <lp 4> <sellNative> <value>`: MustUpdateLiquidityProtectionThreshold → ok <cur'> | panic -/
def handleLpu : List String → Option String
  | [a, mx, cur, el, sell, v] => do
      let lp ← parseLp [a, mx, cur, el]
      some (showM (fun (l : LiqProt) => s!"{l.cur}") (lpUserUpdate lp (← parseBool sell) (← parseNat v)))
  | _ => none

def handlePolicy : List String → Option String
  | ["reset"] => some "ok"
  | "lpu" :: rest => handleLpu rest
  | "inv" :: rest => handleInv rest
  | "powenv" :: rest => handlePowEnv rest
  | "bb" :: rest => handleBB rest
  | "eb" :: rest => handleEB rest
  | "einv" :: rest => handleEInv rest
  | "adm" :: rest => handleAdm rest
  | "chk" :: rest => handleChk rest
  | _ => none

end Sif.Drv
