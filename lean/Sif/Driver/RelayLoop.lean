import Sif.Driver.Util
import Sif.Model.Relayer.Loop
import Sif.Spec.C17
/-
  Line protocol of family `relayloop` (C17).
    looprun <t> <p> <place> <inputs>        → the model's trace, rendered as raw observations
    chk c17.trace   tag=… <t> <p> <place> <raw trace>   → Spec.C17.rawTraceOK on the observed trace
    chk c17.gapfree tag=… <t> <p> <place> <raw trace>   → Spec.C17.rawGapFree
  place  = `nonce@block,…` or `-`;  inputs = `h<n>:<d|f|c0..c5>` / `x`, comma separated;
  raw trace = `H<n>`, `Q<lo>-<hi>+|-`, `C<n1>.<n2>…`, `P<v>`, `R<p>`, comma separated, or `-`.
-/
namespace Sif.Drv.RelayLoop
open Sif.Relayer.Loop Sif.Spec.C17

/-- `nonce@block` = a (good) bridge event; `nonce!block` = an event the translator refuses (recipient that does not
    decode, …): emitted by the node, but not among the events the property demands — dropped here -/
def parsePlace (s : String) : Option (List (Nat × Nat)) :=
  if s = "-" then some [] else
  ((s.splitOn ",").mapM (fun (x : String) => match x.splitOn "@" with
    | [a, b] => do let a ← a.toNat?; let b ← b.toNat?; some (some (a, b))
    | _ => match x.splitOn "!" with
      | [a, b] => do let _ ← a.toNat?; let _ ← b.toNat?; some none
      | _ => none)).map (fun (l : List (Option (Nat × Nat))) => l.filterMap id)

def parseCrash : String → Option Crash
  | "c0" => some .beforeQuery | "c1" => some .afterQuery | "c2" => some .beforeSubmit
  | "c3" => some .afterSubmit | "c4" => some .beforePut | "c5" => some .afterPut
  | _ => none

def parseInput (s : String) : Option In :=
  if s = "x" then some .crashIdle else
  match (s.drop 1).toString.splitOn ":" with
  | [n, o] => do
      if !s.startsWith "h" then none
      let n ← n.toNat?
      if o = "d" then some (.head n .done)
      else if o = "f" then some (.head n .queryFail)
      else (parseCrash o).map (fun c => .head n (.crash c))
  | _ => none

def parseInputs (s : String) : Option (List In) :=
  if s = "-" then some [] else (s.splitOn ",").mapM parseInput

def parseRaw1 (s : String) : Option Raw :=
  let body := (s.drop 1).toString
  if s.startsWith "H" then body.toNat?.map .head
  else if s.startsWith "P" then body.toNat?.map .put
  else if s.startsWith "R" then body.toNat?.map .restart
  else if s.startsWith "C" then ((body.splitOn ".").mapM (fun (x : String) => x.toNat?)).map .claims
  else if s.startsWith "Q" then
    let ok := body.endsWith "+"
    match ((body.dropEnd 1).toString).splitOn "-" with
    | [lo, hi] => do let lo ← lo.toNat?; let hi ← hi.toNat?; some (.query lo hi ok)
    | _ => none
  else none

def parseRaw (s : String) : Option (List Raw) :=
  if s = "-" then some [] else (s.splitOn ",").mapM parseRaw1

def showRaw1 : Raw → String
  | .head n => s!"H{n}"
  | .query lo hi ok => s!"Q{lo}-{hi}" ++ (if ok then "+" else "-")
  | .claims ns => "C" ++ ".".intercalate (ns.map toString)
  | .put v => s!"P{v}"
  | .restart p => s!"R{p}"

def showRaw (r : List Raw) : String := if r = [] then "-" else ",".intercalate (r.map showRaw1)

def handle : List String → Option String
  | ["looprun", t, p, place, ins] => do
      let t ← t.toNat?; let p ← p.toNat?; let place ← parsePlace place; let ins ← parseInputs ins
      some (showRaw (lower place (run t (init p) ins).2))
  | ["chk", "c17.trace", _tag, t, p, place, raw] => do
      let t ← t.toNat?; let p ← p.toNat?; let place ← parsePlace place; let raw ← parseRaw raw
      some (toString (rawTraceOK t p place raw))
  | ["chk", "c17.gapfree", _tag, _t, p, place, raw] => do
      let p ← p.toNat?; let place ← parsePlace place; let raw ← parseRaw raw
      some (toString (rawGapFree p place raw))
  | _ => none

end Sif.Drv.RelayLoop
