import Sif.Spec.C14
/-
  drv_genesis: judge of the C14 export/import family.
    chk docEq tag=… [k=v …] | d₁ d₂                          → docEq
    chk epochsRebased tag=… h=<H> | rows… // rows…            → epochsRebased H before after
      row = id,startTimeNs,durationNs,currentEpoch,currentEpochStartTimeNs,started(true|false),startHeight
    note …                                                    → ok
-/
open Sif.Spec.C14

def parseRow (s : String) : Option EpochRow :=
  match s.splitOn "," with
  | [id, st, du, cu, cs, sd, sh] => do
    let st ← st.toInt?
    let du ← du.toInt?
    let cu ← cu.toInt?
    let cs ← cs.toInt?
    let sd ← (if sd = "true" then some true else if sd = "false" then some false else none)
    let sh ← sh.toInt?
    pure { id := id, startTime := st, duration := du, current := cu, currentStartTime := cs, started := sd, startHeight := sh }
  | _ => none

def judge (toks : List String) : String :=
  match toks with
  | "note" :: _ => "ok"
  | "chk" :: p :: rest =>
    if p == "docEq" || p.startsWith "docEq/" then toString (docEq ((rest.dropWhile (· ≠ "|")).drop 1))
    else if !(p == "epochsRebased" || p.startsWith "epochsRebased/") then "bad-op" else
    let hdr := rest.takeWhile (· ≠ "|")
    let body := (rest.dropWhile (· ≠ "|")).drop 1
    let before := body.takeWhile (· ≠ "//")
    let after := (body.dropWhile (· ≠ "//")).drop 1
    match (hdr.find? (·.startsWith "h=")).bind (fun s => (s.drop 2).toString.toInt?), before.mapM parseRow, after.mapM parseRow with
    | some h, some b, some a => toString (epochsRebased h b a)
    | _, _, _ => "bad-op"
  | _ => "bad-op"

partial def loop (h : IO.FS.Stream) (out : IO.FS.Stream) : IO Unit := do
  let line ← h.getLine
  if line.isEmpty then return ()
  let toks := (line.trimAscii.toString.splitOn " ").filter (· ≠ "")
  out.putStrLn (judge toks)
  loop h out

def main : IO Unit := do
  let out ← IO.getStdout
  loop (← IO.getStdin) out
