import Sif.Driver.Util
import Sif.Model.Clp.Calc
import Sif.Model.Clp.Units
import Sif.Spec.C03
namespace Sif.Drv
open Sif Sif.Clp

def handleCalc : List String → Option String
  | ["calcswap", t, X, x, Y, r, f] => do
      let t ← parseBool t; let X ← parseNat X; let x ← parseNat x; let Y ← parseNat Y
      let r ← parseDec r; let f ← parseDec f
      some (showM (fun (p : Nat × Nat) => s!"{p.1} {p.2}") (calcSwapResult t X x Y r f))
  | ["poolunits", P, R, A, r, a, fS, fB, p] => do
      let P ← parseNat P; let R ← parseNat R; let A ← parseNat A; let r ← parseNat r; let a ← parseNat a
      let fS ← parseDec fS; let fB ← parseDec fB; let p ← parseDec p
      some (match calculatePoolUnits P R A r a fS fB p with
        | .error _ => "panic"
        | .ok none => "err"
        | .ok (some u) =>
          let st := match u.status with | .sellNative => 0 | .buyNative => 1 | .noSwap => 2
          s!"ok {u.poolUnits} {u.lpUnits} {st} {u.swapAmount}")
  | ["withdraw", P, R, A, lp, w] => do
      let P ← parseNat P; let R ← parseNat R; let A ← parseNat A; let lp ← parseNat lp; let w ← parseNat w
      some (showM (fun (t : Nat × Nat × Nat) => s!"{t.1} {t.2.1} {t.2.2}") (calculateWithdrawal P R A lp w))
  | ["withdrawunits", P, R, A, lp, w] => do
      let P ← parseNat P; let R ← parseNat R; let A ← parseNat A; let lp ← parseNat lp; let w ← parseNat w
      some (showM (fun (t : Nat × Nat × Nat) => s!"{t.1} {t.2.1} {t.2.2}") (calculateWithdrawalFromUnits P R A lp w))
  | ["chk", "c03.leg", _tag, t, X, x, Y, r, f, y] => do
      let t ← parseBool t; let X ← parseNat X; let x ← parseNat x; let Y ← parseNat Y
      let r ← parseDec r; let f ← parseDec f; let y ← parseNat y
      some (toString (Sif.Spec.C03.legOK t X x Y r f y))
  | _ => none

end Sif.Drv
