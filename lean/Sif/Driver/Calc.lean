import Sif.Driver.Util
import Sif.Model.Clp.Calc
import Sif.Spec.C03
namespace Sif.Drv
open Sif Sif.Clp

def handleCalc : List String → Option String
  | ["calcswap", t, X, x, Y, r, f] => do
      let t ← parseBool t; let X ← parseNat X; let x ← parseNat x; let Y ← parseNat Y
      let r ← parseDec r; let f ← parseDec f
      some (showM (fun (p : Nat × Nat) => s!"{p.1} {p.2}") (calcSwapResult t X x Y r f))
  | ["chk", "c03.leg", _tag, t, X, x, Y, r, f, y] => do
      let t ← parseBool t; let X ← parseNat X; let x ← parseNat x; let Y ← parseNat Y
      let r ← parseDec r; let f ← parseDec f; let y ← parseNat y
      some (toString (Sif.Spec.C03.legOK t X x Y r f y))
  | _ => none

end Sif.Drv
