import Sif.Driver.Util
import Sif.Spec.C20
import Sif.Generated.DispConsts
import Sif.Generated.DispHooks
/-
  Driver side of the C20 families.  State of family `mint`: the model's MintState plus the
  configuration read from the `mint.cfg` line (module address, whether the ecosystem pool is blocked).
-/
namespace Sif.Drv
open Sif Sif.Disp

/-- state of family `rewards`: stored periods and accumulator, plus running totals for the
    cumulative predicate (entitlements computed by the model, amounts observed) -/
structure RwSt where
  periods : List Sif.Rewards.Period := []
  accu : Nat := 0
  accu0 : Nat := 0
  entitledSoFar : Nat := 0

structure IssueSt where
  br : Sif.Bridge.BState := Sif.Bridge.BState.empty
  cfg : MintCfg
  ecoBlocked : Bool
  ms : MintState
  rw : RwSt := {}

def rowan : Denom := "rowan".toList

def IssueSt.init : IssueSt :=
  { cfg := { cap := Sif.Generated.DispConsts.maxMintAmount, perBlock := Sif.Generated.DispConsts.mintAmountPerBlock,
             denom := rowan, ecoPool := Sif.Generated.DispConsts.ecoPool.toList, module := "dispensation".toList },
    ecoBlocked := false, ms := { counter := none, bank := Bank.empty } }

def showCounter : Option Nat → String
  | none => "none"
  | some c => toString c

def parseCounter (s : String) : Option (Option Nat) :=
  if s = "none" then some none else (parseNat s).map some

def showMint (st : IssueSt) : String :=
  let b := st.ms.bank
  s!"c={showCounter st.ms.counter} sup={b.sup rowan} eco={b.bal st.cfg.ecoPool rowan} mod={b.bal st.cfg.module rowan}"

def blockedOf (st : IssueSt) : Addr → Bool := fun a => st.ecoBlocked && decide (a = st.cfg.ecoPool)

/-- returns (new state, answer) -/
def handleMint (st : IssueSt) : List String → Option (IssueSt × String)
  | ["mint.cfg", modAddr, eb] => do
      let eb ← parseBool eb
      let cfg := { st.cfg with module := modAddr.toList }
      some ({ st with cfg := cfg, ecoBlocked := eb },
        s!"cap={cfg.cap} per={cfg.perBlock} eco={String.ofList cfg.ecoPool}")
  | ["mint.init", c, sup, eco, mod] => do
      let c ← parseCounter c; let sup ← parseNat sup; let eco ← parseNat eco; let mod ← parseNat mod
      let b := ((Bank.empty.setSup rowan sup).setBal st.cfg.ecoPool rowan eco).setBal st.cfg.module rowan mod
      some ({ st with ms := { counter := c, bank := b } }, "ok")
  | ["mint.add", who, amt] => do
      let amt ← parseNat amt
      let a ← if who = "eco" then some st.cfg.ecoPool else if who = "mod" then some st.cfg.module else none
      let b := st.ms.bank
      let b' := (b.setBal a rowan (b.bal a rowan + amt)).setSup rowan (b.sup rowan + amt)
      some ({ st with ms := { st.ms with bank := b' } }, "ok")
  | ["mint.bankparams", _default, _rowan] =>
      -- bank SendEnabled parameters: not an input of the model (they govern MsgSend / MsgMultiSend only)
      some (st, "ok")
  | ["chk", "c20.minteco", _tag, cPrev, cNow, ecoPrev, ecoNow, modPrev, modNow] => do
      let cPrev ← parseNat cPrev; let cNow ← parseNat cNow; let ecoPrev ← parseNat ecoPrev; let ecoNow ← parseNat ecoNow
      let modPrev ← parseNat modPrev; let modNow ← parseNat modNow
      some (st, toString (Sif.Spec.C20.mintToEcoOK cPrev cNow ecoPrev ecoNow modPrev modNow))
  | ["mint.chain", _id] =>
      -- the chain id of the block header: not an input of the model (fact `mint_amount_from_constant`)
      some (st, "ok")
  | ["mint.addsupply", amt] => do
      let amt ← parseNat amt
      let b := st.ms.bank
      some ({ st with ms := { st.ms with bank := b.setSup rowan (b.sup rowan + amt) } }, "ok")
  | ["mint.appbegin", _h, _cprev] =>
      -- BeginBlock of the whole application: the BeginBlocker runs once per entry of SetOrderBeginBlockers
      let k := (Sif.Generated.DispHooks.beginBlockers.filter
        (fun p => "github.com/Sifchain/sifnode/x/dispensation".toList.isPrefixOf p.toList)).length
      match runBlocks st.cfg (blockedOf st) k st.ms with
      | .ok ms' => let st' := { st with ms := ms' }; some (st', showMint st')
      | .error _ => some (st, "panic")
  | ["mint.begin", _h, _cprev] =>
      match beginBlocker st.cfg (blockedOf st) st.ms with
      | .ok ms' => let st' := { st with ms := ms' }; some (st', showMint st')
      | .error _ => some (st, "panic")
  | ["chk", "c20.mintstep", _tag, per, cPrev, cNow, supPrev, supNow, holdPrev, holdNow] => do
      let per ← parseNat per; let cPrev ← parseNat cPrev; let cNow ← parseNat cNow
      let supPrev ← parseNat supPrev; let supNow ← parseNat supNow
      let holdPrev ← parseNat holdPrev; let holdNow ← parseNat holdNow
      -- judged against the property's own numbers: the regenerated constant must be the one on the line
      some (st, toString (decide (per = Sif.Generated.DispConsts.mintAmountPerBlock) &&
        Sif.Spec.C20.mintStepOK Sif.Spec.C20.capRowan Sif.Generated.DispConsts.mintAmountPerBlock cPrev cNow supPrev supNow holdPrev holdNow))
  | ["chk", "c20.minttotal", _tag, c0, mintedSum, cNow] => do
      let c0 ← parseNat c0; let mintedSum ← parseNat mintedSum; let cNow ← parseNat cNow
      some (st, toString (Sif.Spec.C20.mintTotalOK Sif.Spec.C20.capRowan c0 mintedSum cNow))
  | ["chk", "c20.mintafter", _tag, per, c0, n, cNow] => do
      let per ← parseNat per; let c0 ← parseNat c0; let n ← parseNat n; let cNow ← parseNat cNow
      some (st, toString (Sif.Spec.C20.mintAfterOK Sif.Spec.C20.capRowan per c0 n cNow))
  | _ => none

def parsePeriods : List String → Option (List Sif.Rewards.Period)
  | [] => some []
  | a :: b :: c :: d :: rest => do
      let a ← parseNat a; let b ← parseNat b; let c ← parseNat c; let d ← parseNat d
      let r ← parsePeriods rest
      some (⟨a, b, c, d⟩ :: r)
  | _ => none

def parseCur (s : String) : Option (Option Sif.Rewards.Period) :=
  if s = "cur=none" then some none else
  match ((s.drop 4).toString.splitOn ",") with
  | [a, b, c, d] => do
      let a ← parseNat a; let b ← parseNat b; let c ← parseNat c; let d ← parseNat d
      some (some ⟨a, b, c, d⟩)
  | _ => none

open Sif.Rewards in
def handleRewards (st : IssueSt) : List String → Option (IssueSt × String)
  | "rw.periods" :: rest => do
      let ps ← parsePeriods rest
      some ({ st with rw := { st.rw with periods := ps } }, "ok")
  | ["rw.init", accu] => do
      let accu ← parseNat accu
      some ({ st with rw := { st.rw with accu := accu, accu0 := accu, entitledSoFar := 0 } }, "ok")
  | "rw.edit" :: h :: rest => do
      -- an accepted AddRewardPeriod message delivered in block h: the handler's accumulator rule
      let h ← parseNat h
      let ps ← parsePeriods rest
      some ({ st with rw := { st.rw with periods := ps, accu := editAccu st.rw.periods ps h st.rw.accu } }, "ok")
  | ["rw.end", h, observed] => do
      let h ← parseNat h; let observed ← parseNat observed
      let env : Env := { active := true, raws := [observed], burned := 0 }
      match endBlockR st.rw.periods h st.rw.accu env with
      | .ok (accu', m) =>
          let ent := Sif.Spec.C20.entitledAt st.rw.periods h
          some ({ st with rw := { st.rw with accu := accu', entitledSoFar := st.rw.entitledSoFar + ent } }, s!"accu={accu'} minted={m}")
      | .error _ => some (st, "panic")
  | ["chk", "c20.rwblock", _tag, h, minted, cur] => do
      let h ← parseNat h; let minted ← parseNat minted; let cur ← parseCur cur
      some (st, toString (Sif.Spec.C20.rewardsBlockOK cur h minted))
  | ["chk", "c20.rwaccount", _tag, created, paid, pooled, modDelta] => do
      let created ← parseNat created; let paid ← parseNat paid; let pooled ← parseNat pooled; let modDelta ← parseNat modDelta
      some (st, toString (Sif.Spec.C20.rewardsAccountedOK created paid pooled modDelta))
  | ["chk", "c20.rwperiod", _tag, a, b, c, d, total] => do
      let a ← parseNat a; let b ← parseNat b; let c ← parseNat c; let d ← parseNat d; let total ← parseNat total
      some (st, toString (Sif.Spec.C20.rewardsPeriodOK ⟨a, b, c, d⟩ total))
  | ["chk", "c20.rwcum", _tag, totalMinted, accuNow] => do
      let totalMinted ← parseNat totalMinted; let accuNow ← parseNat accuNow
      some (st, toString (Sif.Spec.C20.rewardsCumOK st.rw.accu0 st.rw.entitledSoFar totalMinted accuNow))
  | _ => none

def parseApproved (s : String) : Option (List (Nat × Nat)) :=
  (if s = "-" then [] else s.splitOn ",").mapM fun x =>
    match x.splitOn ":" with
    | [a, b] => do let a ← parseNat a; let b ← parseNat b; some (a, b)
    | _ => none

/-- family `bridgecredit` -/
def handleBridge (st : IssueSt) : List String → Option (IssueSt × String)
  | ["br.init"] => some ({ st with br := Sif.Bridge.BState.empty }, "ok")
  | ["br.claim", pid, amount, rowan, accepted, success] => do
      let pid ← parseNat pid; let amount ← parseNat amount; let rowan ← parseBool rowan
      let accepted ← parseBool accepted; let success ← parseBool success
      let (s', acc, created) := Sif.Bridge.claim st.br ⟨pid, amount, rowan, accepted, success⟩
      some ({ st with br := s' }, s!"res={if acc then "ok" else "err"} created={created}")
  | ["chk", "c20.bridgetx", _tag, fb, acc, sa, rowan, amount, delta] => do
      let fb ← parseBool fb; let acc ← parseBool acc; let sa ← parseBool sa; let rowan ← parseBool rowan
      let amount ← parseNat amount; let delta ← parseNat delta
      some (st, toString (Sif.Spec.C20.bridgeTxOK fb acc sa rowan amount delta))
  | ["chk", "c20.supplyeq", _tag, s0, s1, eco, rewards, approved] => do
      let s0 ← parseNat s0; let s1 ← parseNat s1; let eco ← parseNat eco; let rewards ← parseNat rewards
      let approved ← parseApproved approved
      some (st, toString (Sif.Spec.C20.supplyEqOK s0 s1 eco rewards approved))
  | _ => none

/-- a node restart is not an operation of the model: its state is exactly the stored counters -/
def handleRestart (st : IssueSt) : List String → Option (IssueSt × String)
  | ["restart", _h] => some (st, s!"c={showCounter st.ms.counter} accu={st.rw.accu}")
  | _ => none

def handleIssue (st : IssueSt) (toks : List String) : Option (IssueSt × String) :=
  match handleMint st toks with
  | some r => some r
  | none =>
    match handleRewards st toks with
    | some r => some r
    | none =>
      match handleBridge st toks with
      | some r => some r
      | none => handleRestart st toks

end Sif.Drv
