import Sif.Driver.Util
import Sif.Model.Clp.Hooks
import Sif.Spec.C01
import Sif.Spec.C03
import Sif.Spec.C18
import Sif.Spec.C04
/-
  Driver of the stateful family `amm`: the AMM messages and hooks on the model state.
-/
namespace Sif.Drv
open Sif Sif.Clp

def showPool (p : Pool) : String :=
  s!"{p.sym} {p.nBal} {p.eBal} {p.units} {p.nLiab} {p.eLiab} {p.nCust} {p.eCust} {p.rpnd} {p.rae}"
def showLP (l : LP) : String := s!"{l.sym} {l.addr} {l.units} {l.lastUpdated}"

def dump (s : St) : String :=
  let bank := (s.bank.map (fun a => (a.2.filter (fun e => e.2 ≠ 0)).map (fun e => s!"{a.1} {e.1} {e.2}"))).flatten
  let bankToks := bank
  let lpl := (s.lps.map (fun a => a.2.map (·.2))).flatten
  String.intercalate " " (
    ["pools", toString s.pools.length] ++ s.pools.map (fun e => showPool e.2) ++
    ["lps", toString lpl.length] ++ lpl.map showLP ++
    ["buckets", toString s.buckets.length] ++ s.buckets.map (fun e => s!"{e.1} {e.2}") ++
    ["bank", toString bank.length] ++ bankToks ++
    ["accu", toString s.accu, "height", toString s.height, "lpcur", toString s.lpCur])

/-- parse the observation part of a `chk` line (same token format as `dump`) -/
partial def parsePools : Nat → List String → AList Pool → Option (AList Pool × List String)
  | 0, ts, acc => some (acc, ts)
  | n+1, sym :: a :: b :: c :: d :: e :: f :: g :: h :: i :: ts, acc => do
      let p : Pool := { sym := sym, nBal := ← parseNat a, eBal := ← parseNat b, units := ← parseNat c, nLiab := ← parseNat d,
                        eLiab := ← parseNat e, nCust := ← parseNat f, eCust := ← parseNat g, rpnd := ← parseNat h, rae := ← parseNat i }
      parsePools n ts (acc.set (poolKey sym) p)
  | _, _, _ => none

partial def parseLps : Nat → List String → AList (AList LP) → Option (AList (AList LP) × List String)
  | 0, ts, acc => some (acc, ts)
  | n+1, sym :: addr :: u :: lu :: ts, acc => do
      let l : LP := { sym := sym, addr := addr, units := ← parseNat u, lastUpdated := ← parseInt lu }
      parseLps n ts (acc.set sym (((acc.get sym).getD []).set addr l))
  | _, _, _ => none

partial def parseKV : Nat → List String → AList Nat → Option (AList Nat × List String)
  | 0, ts, acc => some (acc, ts)
  | n+1, k :: v :: ts, acc => do parseKV n ts (acc.set k (← parseNat v))
  | _, _, _ => none

partial def parseBank : Nat → List String → AList (AList Nat) → Option (AList (AList Nat) × List String)
  | 0, ts, acc => some (acc, ts)
  | n+1, a :: d :: v :: ts, acc => do parseBank n ts (acc.set a (((acc.get a).getD []).set d (← parseNat v)))
  | _, _, _ => none

def parseDump (ts : List String) : Option St :=
  match ts with
  | "pools" :: n :: ts => do
    let (pools, ts) ← parsePools (← parseNat n) ts []
    match ts with
    | "lps" :: n :: ts => do
      let (lps, ts) ← parseLps (← parseNat n) ts []
      match ts with
      | "buckets" :: n :: ts => do
        let (buckets, ts) ← parseKV (← parseNat n) ts []
        match ts with
        | "bank" :: n :: ts => do
          let (bank, ts) ← parseBank (← parseNat n) ts []
          match ts with
          | ["accu", a, "height", h, "lpcur", c] => some { bank := bank, pools := pools, lps := lps, buckets := buckets, accu := ← parseNat a, height := ← parseInt h, lpCur := ← parseNat c }
          | _ => none
        | _ => none
      | _ => none
    | _ => none
  | _ => none

partial def parseMults : List String → AList Dec → Option (AList Dec)
  | [], acc => some acc
  | sym :: m :: ts, acc => do parseMults ts (acc.set sym (← parseDec m))
  | _, _ => none

def applyCfg (s : St) : List String → Option St
  | ["r", d] => do some { s with params := { s.params with r := ← parseDec d } }
  | ["fee", d] => do some { s with params := { s.params with feeDefault := ← parseDec d } }
  | ["feetoken", sym, d] => do some { s with params := { s.params with feeTokens := s.params.feeTokens.set sym (← parseDec d) } }
  | ["nofeetoken", sym] => some { s with params := { s.params with feeTokens := s.params.feeTokens.erase sym } }
  | ["distribute", b] => do some { s with params := { s.params with rewardsDistribute := ← parseBool b } }
  | ["lock", n] => do some { s with params := { s.params with rewardsLockPeriod := ← parseNat n } }
  | "rewardperiod" :: a :: b :: alloc :: m :: d :: dm :: rest => do
      let rp : RewardPeriod := { start := ← parseNat a, stop := ← parseNat b, allocation := ← parseNat alloc, mod := ← parseNat m,
                                 distribute := ← parseBool d, defaultMult := ← parseDec dm, mults := ← parseMults rest [] }
      some { s with params := { s.params with rewardPeriod := some rp } }
  | ["norewardperiod"] => some { s with params := { s.params with rewardPeriod := none } }
  | ["lppd", a, b, rate, m] => do
      let p : LppdPeriod := { start := ← parseNat a, stop := ← parseNat b, rate := ← parseDec rate, mod := ← parseNat m }
      some { s with params := { s.params with lppd := some p } }
  | ["nolppd"] => some { s with params := { s.params with lppd := none } }
  | ["register", sym] => some { s with params := { s.params with registered := sym :: s.params.registered } }
  | ["whitelist", a] => some { s with params := { s.params with whitelist := a :: s.params.whitelist } }
  | ["block", a] => some { s with params := { s.params with blocked := a :: s.params.blocked } }
  | ["marginpool", sym, b] => do
      let on ← parseBool b
      let l := s.params.marginPools.filter (· != sym)
      some { s with params := { s.params with marginPools := if on then sym :: l else l } }
  | ["lp", b, mx, asset, cur] => do
      some { s with params := { s.params with lpActive := ← parseBool b, lpMax := ← parseNat mx, lpAsset := asset }, lpCur := ← parseNat cur }
  | ["removalthreshold", d] => do some { s with params := { s.params with removalThreshold := ← parseDec d } }
  | ["poolmargin", sym, a, b, c, d] => do
      -- what x/margin leaves on a pool: liabilities are bookkeeping only, custody is carved out of the
      -- pool's own balance (balance + custody unchanged, no coins move)
      let p ← s.pools.get (poolKey sym)
      let nL ← parseNat a; let eL ← parseNat b; let nC ← parseNat c; let eC ← parseNat d
      if nC > p.nBal + p.nCust || eC > p.eBal + p.eCust then none else
      let p' : Pool := { p with nLiab := nL, eLiab := eL, nCust := nC, eCust := eC, nBal := p.nBal + p.nCust - nC, eBal := p.eBal + p.eCust - eC }
      some { s with pools := s.pools.set (poolKey sym) p' }
  | _ => none

partial def parseChanges : List String → List (String × String × Nat × Nat) → Option (List (String × String × Nat × Nat))
  | [], acc => some acc.reverse
  | a :: d :: b :: af :: ts, acc => do parseChanges ts ((a, d, ← parseNat b, ← parseNat af) :: acc)
  | _, _ => none

def natList (ts : List String) : Option (List Nat) := ts.mapM parseNat

def resR (r : R St) (s : St) : St × String :=
  match r with
  | .ok s' => (s', "ok")
  | .error _ => (s, "fail")

def resHook (r : M St) (s : St) : St × String :=
  match r with
  | .ok s' => (s', "ok")
  | .error _ => (s, "panic")

def step (s : St) (toks : List String) : St × String :=
  match toks with
  | ["height", h] => match parseInt h with | some h => ({ s with height := h }, "ok") | none => (s, "bad-op")
  | "cfg" :: rest => match applyCfg s rest with | some s' => (s', "ok") | none => (s, "bad-op")
  | ["fund", a, d, n] => match parseNat n with | some n => (s.setBal a d (s.bal a d + n), "ok") | none => (s, "bad-op")
  | ["create", a, sym, n, e] => match parseNat n, parseNat e with
      | some n, some e => resR (createPool s a sym n e) s | _, _ => (s, "bad-op")
  | ["add", a, sym, n, e] => match parseNat n, parseNat e with
      | some n, some e => resR (addLiquidity s a sym n e) s | _, _ => (s, "bad-op")
  | ["rm", a, sym, w] => match parseNat w with | some w => resR (removeLiquidity s a sym w) s | none => (s, "bad-op")
  | ["rma", a, sym, w, asym] =>
      -- `RemoveLiquidity` with an asymmetry: refused unless the asymmetry is 0
      (match parseNat w, parseInt asym with
       | some w, some y => if y != 0 then (s, "fail") else resR (removeLiquidity s a sym w) s
       | _, _ => (s, "bad-op"))
  | ["rmu", a, sym, u] => match parseNat u with | some u => resR (removeLiquidityUnits s a sym u) s | none => (s, "bad-op")
  | ["swap", a, sent, recv, amt, mn] => match parseNat amt, parseNat mn with
      | some amt, some mn => (match swap s a sent recv amt mn with
          | .ok (s', y) => (s', s!"ok {y}")
          | .error _ => (s, "fail"))
      | _, _ => (s, "bad-op")
  | ["decom", a, sym] => resR (decommissionPool s a sym) s
  | ["bucket", a, d, n] => match parseNat n with | some n => resR (addToBucket s a d n) s | none => (s, "bad-op")
  | ["lpbegin", n] => match parseNat n with | some n => resHook (lpBeginBlock s n) s | none => (s, "bad-op")
  | ["endblock"] => resHook (endBlocker s) s
  | ["epoch"] => resHook (afterEpochEnd s) s
  | ["obs"] => (s, dump s)
  | "chk" :: "c03.settle" :: _tag :: signer :: sent :: recv :: amt :: mn :: y :: rest =>
      (match parseNat amt, parseNat mn, parseNat y, parseChanges rest [] with
       | some amt, some mn, some y, some ch => (s, toString (Sif.Spec.C03.settleOK signer sent recv amt mn y ch))
       | _, _, _, _ => (s, "bad-op"))
  | ["chk", "c04.swapback", _tag, x, x'] =>
      (match parseNat x, parseNat x' with
       | some x, some x' => (s, toString (Sif.Spec.C04.swapBackOK x x'))
       | _, _ => (s, "bad-op"))
  | ["chk", "c04.addremove", _tag, r, fS, fB, R, A, n, e, n', e'] =>
      (match parseDec r, parseDec fS, parseDec fB, natList [R, A, n, e, n', e'] with
       | some r, some fS, some fB, some [R, A, n, e, n', e'] => (s, toString (Sif.Spec.C04.addRemoveOK r fS fB R A n e n' e'))
       | _, _, _, _ => (s, "bad-op"))
  | ["chk", "c02.payout", _tag, P, nD, eD, burned, n', e'] =>
      (match natList [P, nD, eD, burned, n', e'] with
       | some [P, nD, eD, burned, n', e'] => (s, toString (Sif.Spec.C01.payoutOK P nD eD burned n' e'))
       | _ => (s, "bad-op"))
  | ["chk", "c03.bound", _tag, dbl, t, X1, Y1, X2, Y2, x, r, f, y] =>
      (match parseBool dbl, parseBool t, natList [X1, Y1, X2, Y2, x], parseDec r, parseDec f, parseNat y with
       | some dbl, some t, some [X1, Y1, X2, Y2, x], some r, some f, some y =>
         (s, toString (Sif.Spec.C03.swapBoundOK dbl t X1 Y1 X2 Y2 x r f y))
       | _, _, _, _, _, _ => (s, "bad-op"))
  | ["chk", "c03.below", _tag, y, bal] =>
      (match parseNat y, parseNat bal with
       | some y, some bal => (s, toString (Sif.Spec.C03.belowBalanceOK y bal))
       | _, _ => (s, "bad-op"))
  | ["chk", "c04.backing", _tag, R, A, P, R', A', P'] =>
      (match parseNat R, parseNat A, parseNat P, parseNat R', parseNat A', parseNat P' with
       | some R, some A, some P, some R', some A', some P' => (s, toString (Sif.Spec.C04.backingOK R A P R' A' P'))
       | _, _, _, _, _, _ => (s, "bad-op"))
  | "chk" :: "c18.l1split" :: _tag :: rest =>
      -- rest = w1 r1 w2 r2 … (weights as integers: raw multiplier × native balance)
      (match natList rest with
       | some l =>
         let rec pairs : List Nat → List (Nat × Nat)
           | a :: b :: t => (a, b) :: pairs t
           | _ => []
         let ps := pairs l
         if l.length % 2 != 0 then (s, "bad-op")
         else (s, toString (Sif.Spec.C18.splitObservedOK (ps.map (fun p => (p.1 : Rat))) (ps.map (·.2))))
       | none => (s, "bad-op"))
  | "chk" :: "c18.l1flow" :: _tag :: rest =>
      -- rest = <pre dump> || <post dump>
      (let i := rest.idxOf "||"
       match parseDump (rest.take i), parseDump (rest.drop (i + 1)) with
       | some pre, some post => (s, toString (Sif.Spec.C18.epochFlowOK pre post))
       | _, _ => (s, "bad-op"))
  | "chk" :: "c18.l1bucket" :: _tag :: lock :: nch :: rest =>
      (match parseNat lock, parseNat nch with
       | some lock, some nch =>
         match parseChanges (rest.take (4 * nch)) [], parseDump (rest.drop (4 * nch)) with
         | some ch, some pre =>
           let pre := { pre with params := { pre.params with rewardsLockPeriod := lock } }
           (s, toString (Sif.Spec.C18.epochSharesOK pre ch))
         | _, _ => (s, "bad-op")
       | _, _ => (s, "bad-op"))
  | "chk" :: "c18.l1bucketl" :: _tag :: lock :: nch :: rest =>
      -- rest = <changes> <pre dump> || <ledger triples>: eligibility from the ledger's update heights
      (match parseNat lock, parseNat nch with
       | some lock, some nch =>
         let r := rest.drop (4 * nch)
         let i := r.idxOf "||"
         let rec triplesB : List String → Option (List (String × String × Int))
           | [] => some []
           | a :: b :: c :: t => do
               let h ← parseInt c
               let r ← triplesB t
               pure ((a, b, h) :: r)
           | _ => none
         match parseChanges (rest.take (4 * nch)) [], parseDump (r.take i), triplesB (r.drop (i + 1)) with
         | some ch, some pre, some lg =>
           let pre := { pre with params := { pre.params with rewardsLockPeriod := lock } }
           (s, toString (Sif.Spec.C18.epochSharesByLedgerOK pre ch lg))
         | _, _, _ => (s, "bad-op")
       | _, _ => (s, "bad-op"))
  | "chk" :: "c18.l1elig" :: _tag :: lock :: height :: nch :: rest =>
      (match parseNat lock, parseInt height, parseNat nch with
       | some lock, some height, some nch =>
         let chTok := rest.take (4 * nch)
         let lrest := (rest.drop (4 * nch)).drop 1   -- skip "||"
         let rec triples : List String → Option (List (String × String × Int))
           | [] => some []
           | a :: b :: c :: t => do
               let h ← parseInt c
               let r ← triples t
               pure ((a, b, h) :: r)
           | _ => none
         match parseChanges chTok [], triples lrest with
         | some ch, some lg => (s, toString (Sif.Spec.C18.eligibleByLedgerOK lock height ch lg))
         | _, _ => (s, "bad-op")
       | _, _, _ => (s, "bad-op"))
  | "chk" :: "c18.l1lppd" :: _tag :: nch :: rest =>
      (match parseNat nch with
       | some nch =>
         match parseChanges (rest.take (4 * nch)) [], parseDump (rest.drop (4 * nch)) with
         | some ch, some pre =>
           -- the policy in force is the driver's (the hook does not change it); the height is the dump's
           let distributing : Bool := match s.params.rewardPeriod with
             | some rp => periodActive pre.height rp.start rp.stop && rp.distribute && rp.allocation != 0
             | none => false
           if distributing then (s, "true") else
           let rate : Dec := match s.params.lppd with
             | some p => if periodActive pre.height p.start p.stop && (match isDistributionBlock pre.height p.start p.mod with | .ok b => b | .error _ => false)
                         then p.rate else ⟨0⟩
             | none => ⟨0⟩
           (s, toString (Sif.Spec.C18.lppdSharesOK rate pre ch))
         | _, _ => (s, "bad-op")
       | none => (s, "bad-op"))
  | "chk" :: "c18.recipients" :: _tag :: hook :: lock :: nch :: rest =>
      (match parseNat lock, parseNat nch with
       | some lock, some nch =>
         match parseChanges (rest.take (4 * nch)) [], parseDump (rest.drop (4 * nch)) with
         | some ch, some pre =>
           let pre := { pre with params := { pre.params with rewardsLockPeriod := lock } }
           (s, toString (Sif.Spec.C18.recipientsOK (hook == "epoch") pre ch))
         | _, _ => (s, "bad-op")
       | _, _ => (s, "bad-op"))
  | "chk" :: "c01.exact" :: _tag :: budget :: obs =>
      (match parseNat budget, parseDump obs with
       | some b, some o => (s, toString (Sif.Spec.C01.exact o b))
       | _, _ => (s, "bad-op"))
  | "chk" :: pred :: _tag :: obs =>
      match parseDump obs with
      | none => (s, "bad-op")
      | some o =>
        match pred with
        | "c01.solvent" => (s, toString (Sif.Spec.C01.solvent o))
        | "c02.units" => (s, toString (Sif.Spec.C01.unitsOK o))
        | _ => (s, "bad-op")
  | _ => (s, "bad-op")

end Sif.Drv
