import Sif.Driver.Util
import Sif.Spec.C13
/-
  Line protocol of the `margin` family (stateful): see harness/margin/margin.go.  The model state
  is threaded through the loop; `obs` prints it canonically; `chk` lines are evaluated on the
  state the implementation dumped (carried on the line), never on the model's own state.
-/
namespace Sif.Drv.Margin
open Sif Sif.Margin Sif.Spec.C13

structure DS where
  s : State
  watch : List Addr
  denoms : List Asset
  fx : Fixes := Fixes.repaired    -- which code the model follows; the harness never changes it

def emptyBank : Bank := { bal := fun _ _ => 0, blocked := [] }

def initState : State :=
  { pools := [], mtps := [], mtpCount := 0, openCount := 0, params := default, clp := default, bank := emptyBank,
    admins := [], whitelist := [], height := 1 }

def initDS : DS := { s := initState, watch := [], denoms := [] }

def splitList (s : String) (sep : Char) : List String :=
  if s = "-" ∨ s = "" then [] else s.split (· == sep) |>.toList |>.map (·.toString)

def parseB (s : String) : Option Bool := if s = "1" then some true else if s = "0" then some false else none

def showDec (d : Dec) : String := toString d.i

def parsePool (f : List String) : Option Pool :=
  match f with
  | [sym, nb, eb, nc, ec, nl, el, un, ue, bn, be, h, r, lh] => do
    pure { sym := sym, nBal := ← parseNat nb, eBal := ← parseNat eb, nCust := ← parseNat nc, eCust := ← parseNat ec,
           nLiab := ← parseNat nl, eLiab := ← parseNat el, unsN := ← parseNat un, unsE := ← parseNat ue,
           biN := ← parseNat bn, biE := ← parseNat be, health := ← parseDec h, rate := ← parseDec r, lastH := ← parseInt lh }
  | _ => none

def showPool (p : Pool) : String :=
  ",".intercalate [p.sym, toString p.nBal, toString p.eBal, toString p.nCust, toString p.eCust, toString p.nLiab,
    toString p.eLiab, toString p.unsN, toString p.unsE, toString p.biN, toString p.biE, showDec p.health, showDec p.rate, toString p.lastH]

def parseMtp (f : List String) : Option Mtp :=
  match f with
  | [a, id, coll, cust, ca, li, pc, pk, un, cu, lev, h, pos] => do
    pure { addr := a, id := ← parseNat id, coll := coll, cust := cust, collAmt := ← parseNat ca, liab := ← parseNat li,
           paidColl := ← parseNat pc, paidCust := ← parseNat pk, unpaid := ← parseNat un, custody := ← parseNat cu,
           leverage := ← parseDec lev, health := ← parseDec h, pos := ← parseNat pos }
  | _ => none

def showMtp (m : Mtp) : String :=
  ",".intercalate [m.addr, toString m.id, m.coll, m.cust, toString m.collAmt, toString m.liab, toString m.paidColl,
    toString m.paidCust, toString m.unpaid, toString m.custody, showDec m.leverage, showDec m.health, toString m.pos]

def showList (l : List String) : String := if l.isEmpty then "-" else ";".intercalate l

def parseAll {α} (f : List String → Option α) (s : String) : Option (List α) :=
  (splitList s ';').mapM (fun x => f (splitList x ','))

def obs (d : DS) : String :=
  let bals := d.watch.flatMap (fun a => d.denoms.map (fun dn => s!"{a},{dn},{d.s.bank.bal a dn}"))
  s!"P={showList (d.s.pools.map showPool)} M={showList (d.s.mtps.map showMtp)} C={d.s.mtpCount},{d.s.openCount} B={showList bals}"

def stripPrefix (s pre : String) : Option String :=
  if s.startsWith pre then some (s.drop pre.length).toString else none

/-- parameters needed to value a position on an implementation-observed state -/
def withObserved (d : DS) (pools : List Pool) (ms : List Mtp) : State :=
  { d.s with pools := pools, mtps := ms }

def txResult (d : DS) (r : Except Err State) : DS × String :=
  match r with
  | .ok s' => ({ d with s := s' }, "ok")
  | .error e => (d, e.cls)

def step (d : DS) (toks : List String) : Option (DS × String) :=
  match toks with
  | ["init"] => some ({ initDS with fx := d.fx }, "ok")
  | ["fixes", a, b, c] => do some ({ d with fx := ⟨← parseB a, ← parseB b, ← parseB c⟩ }, "ok")
  | ["denoms", l] => some ({ d with denoms := splitList l ',' }, "ok")
  | ["watch", l] => some ({ d with watch := splitList l ',' }, "ok")
  | ["cfg", "params", lm, sf, pth, rmin, el, mo, fp, fa, ip, ia, ie, wl, rc] => do
    let lm ← parseDec lm; let sf ← parseDec sf; let pth ← parseDec pth; let rmin ← parseDec rmin
    let el ← parseInt el; let mo ← parseNat mo; let fp ← parseDec fp; let ip ← parseDec ip
    let ie ← parseB ie; let wl ← parseB wl; let rc ← parseB rc
    let p : Params := { d.s.params with leverageMax := lm, safetyFactor := sf, poolOpenThreshold := pth, rateMin := rmin, epochLength := el, maxOpen := mo, fcPct := fp, fcAddr := (if fa = "-" then "" else fa), iipPct := ip, iipAddr := (if ia = "-" then "" else ia), iipEnabled := ie, whitelisting := wl, rowanCollateral := rc }
    some ({ d with s := { d.s with params := p } }, "ok")
  | ["cfg", "pools", en, cl] =>
    some ({ d with s := { d.s with params := { d.s.params with pools := splitList en ',', closedPools := splitList cl ',' } } }, "ok")
  | ["cfg", "clp", r, fd, addr, toksFees] => do
    let fees ← (splitList toksFees ',').mapM (fun x => match splitList x ':' with
      | [a, f] => (parseDec f).map (fun f => (a, f))
      | _ => none)
    some ({ d with s := { d.s with clp := { r := ← parseDec r, feeDefault := ← parseDec fd, feeTokens := fees, clpAddr := addr } } }, "ok")
  | ["cfg", "admins", l] => some ({ d with s := { d.s with admins := splitList l ',' } }, "ok")
  | ["cfg", "whitelist", l] => some ({ d with s := { d.s with whitelist := splitList l ',' } }, "ok")
  | ["cfg", "blocked", l] => some ({ d with s := { d.s with bank := { d.s.bank with blocked := splitList l ',' } } }, "ok")
  | ["pool", f] => do
    let p ← parsePool (splitList f ',')
    some ({ d with s := d.s.setPool p }, "ok")
  | ["bal", a, dn, amt] => do
    some ({ d with s := { d.s with bank := d.s.bank.setBal a dn (← parseNat amt) } }, "ok")
  | ["height", h] => do some ({ d with s := { d.s with height := ← parseInt h } }, "ok")
  | ["tx", "open", signer, coll, amt, bor, pos, lev] => do
    let m : MsgOpen := { signer := signer, coll := coll, collAmt := ← parseNat amt, borrow := bor, position := ← parseNat pos, leverage := ← parseDec lev }
    some (txResult d (handle d.fx d.s (.open m)))
  | ["tx", "close", signer, id] => do some (txResult d (handle d.fx d.s (.close signer (← parseNat id))))
  | ["tx", "adminclose", signer, a, id, tf] => do
    some (txResult d (handle d.fx d.s (.adminClose signer a (← parseNat id) (← parseB tf))))
  | ["tx", "forceclose", signer, a, id] => do some (txResult d (handle d.fx d.s (.forceClose signer a (← parseNat id))))
  | ["bb", rates] => do
    let rs ← (splitList rates ',').mapM (fun x => match splitList x ':' with
      | [a, r] => (parseDec r).map (fun r => (a, r))
      | _ => none)
    let f : Asset → Option Dec := fun a => (rs.find? (fun p => p.1 = a)).map (·.2)
    match beginBlocker d.fx d.s f with
    | .ok s' => some ({ d with s := s' }, "ok")
    | .error _ => some (d, "panic")
  | ["obs"] => some (d, obs d)
  -- judges: evaluated on what the implementation dumped
  | ["chk", "c13.marginok", _tag, ps, ms, oc] => do
    let pools ← parseAll parsePool ((stripPrefix ps "P=").getD "?")
    let mtps ← parseAll parseMtp ((stripPrefix ms "M=").getD "?")
    some (d, toString (marginOK pools mtps (← parseNat oc)))
  | ["chk", "c13.openhealth", _tag, ps, ms, a, id] => do
    let pools ← parseAll parsePool ((stripPrefix ps "P=").getD "?")
    let mtps ← parseAll parseMtp ((stripPrefix ms "M=").getD "?")
    some (d, toString (openHealthOK (withObserved d pools mtps) a (← parseNat id)))
  | ["chk", "c01.marginbacking", _tag, ps, ds] => do
    let pools ← parseAll parsePool ((stripPrefix ps "P=").getD "?")
    let bals ← (splitList ((stripPrefix ds "D=").getD "?") ';').mapM (fun x => match splitList x ',' with
      | [dn, amt] => (parseNat amt).map (fun a => (dn, a))
      | _ => none)
    some (d, toString (backingOK pools bals))
  | ["chk", "c13.forcedstate", _tag, ps, ms] => do
    let pools ← parseAll parsePool ((stripPrefix ps "P=").getD "?")
    let mtps ← parseAll parseMtp ((stripPrefix ms "M=").getD "?")
    match mtps with
    | [m] => some (d, toString (forcedStateOK (withObserved d pools mtps) m))
    | _ => none
  | ["chk", "c13.forced", _tag, h, sf] => do some (d, toString (forcedOK (← parseDec h) (← parseDec sf)))
  | ["chk", "c13.closer", _tag, signer, owner, adm] => do some (d, toString (closerOK signer owner (← parseB adm)))
  | ["chk", "c13.pair", _tag, coll, cust] => some (d, toString (pairOK { (default : Mtp) with coll := coll, cust := cust }))
  | ["chk", "c13.opentakes", _tag, tb, ta, cb, ca, amt] => do
    some (d, toString (openTakesOK (← parseNat tb) (← parseNat ta) (← parseNat cb) (← parseNat ca) (← parseNat amt)))
  | _ => none

end Sif.Drv.Margin
