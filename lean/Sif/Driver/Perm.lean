import Sif.Driver.Util
import Sif.Model.Registry
import Sif.Spec.C12
import Sif.Generated.Perms
/-
  Driver helpers for family `perm` (C12): registry parsing/printing, registry edits on the model,
  the decision of every AMM message / IBC transfer by the guards REGENERATED from the source, the
  judge predicates of Sif/Spec/C12 on `chk` lines, and `GetLiquidityAddSymmetryState` (L0).
-/
namespace Sif.Drv.Perm
open Sif Sif.Registry Sif.Spec.C12 Sif.Drv

def parsePerms (s : String) : Option (List Perm) :=
  if s = "-" then some [] else s.toList.mapM (fun c => Perm.ofCode (c.toNat - '0'.toNat))

def showPerms (ps : List Perm) : String :=
  if ps.isEmpty then "-" else String.ofList (ps.map (fun p => Char.ofNat (p.code + '0'.toNat)))

def dash (s : String) : String := if s = "" then "-" else s
def undash (s : String) : String := if s = "-" then "" else s

def parseEntry (s : String) : Option Entry :=
  match s.splitOn "," with
  | [d, u, p] => do let ps ← parsePerms p; some ⟨d, undash u, ps⟩
  | _ => none

def parseReg (s : String) : Option Registry :=
  if s = "-" then some [] else (s.splitOn ";").mapM parseEntry

def showEntry (e : Entry) : String := s!"{e.denom},{dash e.unitDenom},{showPerms e.perms}"
def showReg (r : Registry) : String := if r.isEmpty then "-" else ";".intercalate (r.map showEntry)

def parseKind : String → Option Kind
  | "createpool" => some .createPool | "add" => some .addLiquidity | "rm" => some .removeLiquidity
  | "rmu" => some .removeLiquidityUnits | "swap" => some .swap | "transfer" => some .transfer
  | _ => none

/-- the guards read from the current source -/
def generated : Kind → HandlerFacts
  | .createPool => Sif.Generated.Perms.createPool
  | .addLiquidity => Sif.Generated.Perms.addLiquidity
  | .removeLiquidity => Sif.Generated.Perms.removeLiquidity
  | .removeLiquidityUnits => Sif.Generated.Perms.removeLiquidityUnits
  | .swap => Sif.Generated.Perms.swap
  | .transfer => Sif.Generated.Perms.transfer

/-- message fields: native ext sent received token amountPositive R A r a -/
def parseMsg : List String → Option Msg
  | [native, ext, sent, received, token, ap, R, A, r, a] => do
      let ap ← parseBool ap
      let R ← parseNat R; let A ← parseNat A; let r ← parseNat r; let a ← parseNat a
      some ⟨native, undash ext, undash sent, undash received, undash token, ap, swapStatusOf R A r a⟩
  | [native, ext, sent, received, token, ap, R, A, r, a, _note] =>   -- trailing note (the registry at that moment), ignored
      parseMsg [native, ext, sent, received, token, ap, R, A, r, a]
  | _ => none

def symCode : Sym → Nat
  | .emptyPool => 0 | .nothingAdded => 1 | .needMoreY => 2 | .symmetric => 3 | .needMoreX => 4

def handle (reg : Registry) : List String → Option (Registry × String)
  | ["reset"] => some ([], "ok")
  | ["reg", "set", r] => do let r ← parseReg r; let reg' := applyEdit reg (.setRegistry r); some (reg', showReg reg')
  | ["reg", "register", e] => do let e ← parseEntry e; let reg' := applyEdit reg (.register e); some (reg', showReg reg')
  | ["reg", "deregister", d] => let reg' := applyEdit reg (.deregister d); some (reg', showReg reg')
  | "msg" :: kind :: rest => do
      let k ← parseKind kind
      let m ← parseMsg rest
      -- the model handler: guards of the current source, an always-succeeding body
      let out := (handler (σ := Unit) (generated k).guards id (fun w _ => some w) ⟨reg, ()⟩ m).1
      let ans := match out with
        | .ok => if k = .transfer && !(generated k).delegates then "lost" else "pass"
        | .refusedPerm => "refuse prewrite=0"
        | .failedBody => "other"
      some (reg, ans)
  | ["sym", X, x, Y, y] => do
      let X ← parseNat X; let x ← parseNat x; let Y ← parseNat Y; let y ← parseNat y
      some (reg, toString (symCode (symmetryState X x Y y)))
  | "chk" :: "c12.accepted" :: _tag :: r :: kind :: acc :: rest => do
      let r ← parseReg r; let k ← parseKind kind; let acc ← parseBool acc; let m ← parseMsg rest
      some (reg, toString (acceptedOK r k m acc))
  | ["chk", "c12.refused", _tag, acc, same] => do
      let acc ← parseBool acc; let same ← parseBool same
      some (reg, toString (refusedOK acc same))
  | _ => none

end Sif.Drv.Perm
