import Sif.Driver.Util
import Sif.Model.Registry
import Sif.Spec.C12
import Sif.Generated.Perms
/-
  Driver helpers for family `perm` (C12): registry parsing/printing, registry edits on the model,
  the decision of every AMM message / IBC transfer by the guards REGENERATED from the source, the
  judge predicates of Sif/Spec/C12 on `chk` lines, and `GetLiquidityAddSymmetryState` (L0).
-/
namespace Sif.Drv.Perm
open Sif Sif.Registry Sif.Spec.C12 Sif.Drv

def parsePerms (s : String) : Option (List Perm) :=
  if s = "-" then some [] else s.toList.mapM (fun c => Perm.ofCode (c.toNat - '0'.toNat))

def showPerms (ps : List Perm) : String :=
  if ps.isEmpty then "-" else String.ofList (ps.map (fun p => Char.ofNat (p.code + '0'.toNat)))

def dash (s : String) : String := if s = "" then "-" else s
def undash (s : String) : String := if s = "-" then "" else s

def parseEntry (s : String) : Option Entry :=
  match s.splitOn "," with
  | [d, u, p] => do let ps ← parsePerms p; some ⟨d, undash u, ps⟩
  -- 4th field: base denom ~ counterparty denom ~ display name ~ display symbol ~ external symbol of the
  -- implementation's entry; the lookup does not look at them (fact `lookup`), the model has no such fields
  | [d, u, p, _aux] => do let ps ← parsePerms p; some ⟨d, undash u, ps⟩
  | _ => none

def parseReg (s : String) : Option Registry :=
  if s = "-" then some [] else (s.splitOn ";").mapM parseEntry

def showEntry (e : Entry) : String := s!"{e.denom},{dash e.unitDenom},{showPerms e.perms}"
def showReg (r : Registry) : String := if r.isEmpty then "-" else ";".intercalate (r.map showEntry)

def parseKind : String → Option Kind
  | "createpool" => some .createPool | "add" => some .addLiquidity | "rm" => some .removeLiquidity
  | "rmu" => some .removeLiquidityUnits | "swap" => some .swap | "transfer" => some .transfer
  | _ => none

/-- the guards read from the current source -/
def generated : Kind → HandlerFacts
  | .createPool => Sif.Generated.Perms.createPool
  | .addLiquidity => Sif.Generated.Perms.addLiquidity
  | .removeLiquidity => Sif.Generated.Perms.removeLiquidity
  | .removeLiquidityUnits => Sif.Generated.Perms.removeLiquidityUnits
  | .swap => Sif.Generated.Perms.swap
  | .transfer => Sif.Generated.Perms.transfer

/-- message fields: native ext sent received token amountPositive R A r a -/
def parseMsg : List String → Option Msg
  | [native, ext, sent, received, token, ap, R, A, r, a] => do
      let ap ← parseBool ap
      let R ← parseNat R; let A ← parseNat A; let r ← parseNat r; let a ← parseNat a
      some ⟨native, undash ext, undash sent, undash received, undash token, ap, swapStatusOf R A r a⟩
  | [native, ext, sent, received, token, ap, R, A, r, a, _note] =>   -- trailing note (the registry at that moment), ignored
      parseMsg [native, ext, sent, received, token, ap, R, A, r, a]
  | _ => none

def symCode : Sym → Nat
  | .emptyPool => 0 | .nothingAdded => 1 | .needMoreY => 2 | .symmetric => 3 | .needMoreX => 4

/-- driver state: the committed registry; inside a transaction the branch (`working`) and whether a
    message of the transaction has failed -/
structure DS where
  committed : Registry
  working : Registry
  inTx : Bool
  failed : Bool

def DS.init : DS := ⟨[], [], false, false⟩

/-- the registry the next message sees -/
def DS.cur (d : DS) : Registry := if d.inTx then d.working else d.committed

/-- a registry message: on the branch inside a transaction, else a one-message transaction -/
def DS.edit (d : DS) (e : Edit) : DS × String :=
  match txStep d.cur (.edit e) with
  | some r => (if d.inTx then { d with working := r } else { d with committed := r, working := r }, showReg r)
  | none => (d, "bad-op")

/-- an AMM / IBC message through the guards of the current source; `bodyOk` = the harness did not
    rig the body to fail -/
def DS.msg (d : DS) (k : Kind) (m : Msg) (bodyOk : Bool) : DS × String :=
  let out := (handler (σ := Unit) (generated k).guards id (fun w _ => if bodyOk then some w else none) ⟨d.cur, ()⟩ m).1
  let ok := (txStep d.cur (.msg (generated k).guards m bodyOk)).isSome
  let ans := match out with
    | .ok => if k = .transfer && !(generated k).delegates then "lost" else "pass"
    | .refusedPerm => "refuse prewrite=0"
    | .failedBody => "bodyfail"
  (if d.inTx && !ok then { d with failed := true } else d, ans)

def handle (d : DS) : List String → Option (DS × String)
  | ["reset"] => some (DS.init, "ok")
  | ["tx", "begin"] => some ({ d with working := d.committed, inTx := true, failed := false }, "ok")
  | ["tx", "end", sim] => do
      let sim ← parseBool sim
      if d.inTx && !d.failed && !sim then
        some (⟨d.working, d.working, false, false⟩, s!"committed {showReg d.working}")
      else
        some (⟨d.committed, d.committed, false, false⟩, s!"rolledback {showReg d.committed}")
  | ["reg", "set", r] => do let r ← parseReg r; some (d.edit (.setRegistry r))
  | ["reg", "register", e] => do let e ← parseEntry e; some (d.edit (.register e))
  | ["reg", "deregister", dn] => some (d.edit (.deregister dn))
  | "msg" :: kind :: rest => do
      let k ← parseKind kind
      let m ← parseMsg rest
      some (d.msg k m true)
  | "msgf" :: kind :: rest => do   -- the same message with a body rigged to fail after the guards
      let k ← parseKind kind
      let m ← parseMsg rest
      some (d.msg k m false)
  | ["sym", X, x, Y, y] => do
      let X ← parseNat X; let x ← parseNat x; let Y ← parseNat Y; let y ← parseNat y
      some (d, toString (symCode (symmetryState X x Y y)))
  | "chk" :: "c12.accepted" :: _tag :: r :: kind :: acc :: rest => do
      let r ← parseReg r; let k ← parseKind kind; let acc ← parseBool acc; let m ← parseMsg rest
      some (d, toString (acceptedOK r k m acc))
  | ["chk", "c12.regstored", _tag, before, kind, arg, after] => do
      let before ← parseReg before; let after ← parseReg after
      let e ← match kind with
        | "register" => (parseEntry arg).map Edit.register
        | "deregister" => some (Edit.deregister arg)
        | "set" => (parseReg arg).map Edit.setRegistry
        | _ => none
      some (d, toString (regStoredOK before e after))
  | ["chk", "c12.refused", _tag, acc, same] => do
      let acc ← parseBool acc; let same ← parseBool same
      some (d, toString (refusedOK acc same))
  | _ => none

end Sif.Drv.Perm
