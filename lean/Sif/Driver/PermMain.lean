import Sif.Driver.Perm
/-
  `drv_perm`: family `perm` (C12).  Threads the model's registry through the lines; one answer line
  per operation.
-/
open Sif.Drv.Perm

partial def loop (h : IO.FS.Stream) (out : IO.FS.Stream) (reg : DS) : IO Unit := do
  let line ← h.getLine
  if line.isEmpty then return ()
  let toks := (line.trimAscii.toString.splitOn " ").filter (· ≠ "")
  match handle reg toks with
  | some (reg', ans) => out.putStrLn ans; loop h out reg'
  | none => out.putStrLn "bad-op"; loop h out reg

def main : IO Unit := do
  let out ← IO.getStdout
  loop (← IO.getStdin) out DS.init
