import Sif.Driver.Util
import Sif.Spec.C18
/- L0 driver ops for the three payout collectors (C18). -/
namespace Sif.Drv
open Sif Sif.Clp Sif.Spec.C18

def natList (ts : List String) : Option (List Nat) := ts.mapM parseNat

def mkLps (us : List Nat) : List LP :=
  (List.zip (List.range us.length) us).map (fun (i, u) => { sym := "p", addr := toString i, units := u, lastUpdated := 0 })

def showNats (l : List Nat) : String := String.intercalate " " (l.map toString)

partial def parsePairs : List String → Option (List (Nat × Dec))
  | [] => some []
  | a :: b :: ts => do
      let r ← parsePairs ts
      some ((← parseNat a, ← parseDec b) :: r)
  | _ => none

def mkPeriod (defMult : Dec) (pairs : List (Nat × Dec)) : RewardPeriod × List (String × Pool) :=
  let idx := List.range pairs.length
  let named := (List.zip idx pairs).map (fun (i, (nb, m)) =>
    -- names sort in list order (zero padded)
    let name := "p" ++ (if i < 10 then "00" else if i < 100 then "0" else "") ++ toString i
    (name, nb, m))
  let mults : AList Dec := named.foldl (fun acc (nm, _, m) => acc.set nm m) []
  let pools := named.map (fun (nm, nb, _) => (poolKey nm, ({ sym := nm, nBal := nb, eBal := 1, units := 1 } : Pool)))
  ({ start := 0, stop := 10, allocation := 1, mod := 1, distribute := false, defaultMult := defMult, mults := mults }, pools)

def handleDist : List String → Option String
  | ["provamt", pd, pu, lu] => do
      let pd ← parseDec pd; let pu ← parseNat pu; let lu ← parseNat lu
      some (showM toString (providerAmount pd pu lu))
  | ["chk", "c18.fair", _tag, pd, pu, lu, amt] => do
      let pd ← parseDec pd; let pu ← parseNat pu; let lu ← parseNat lu; let amt ← parseNat amt
      some (toString (fairOne (decToRat pd) pu lu amt))
  | "collect" :: rate :: depth :: pu :: _n :: us => do
      let rate ← parseDec rate; let depth ← parseNat depth; let pu ← parseNat pu; let us ← natList us
      some (match (do
          let pd ← rate.mul (Dec.ofNat depth)
          collectProviderDistribution pd pu (mkLps us)) with
        | .ok (l, tot) => s!"ok {tot} " ++ showNats (l.map (·.2))
        | .error _ => "panic")
  | "chk" :: "c18.pool" :: _tag :: rate :: depth :: pu :: n :: rest => do
      let rate ← parseDec rate; let depth ← parseNat depth; let pu ← parseNat pu; let n ← parseNat n
      let us ← natList (rest.take n)
      let total ← parseNat (rest.getD n "x")
      let amts ← natList (rest.drop (n + 1))
      let D : Rat := decToRat rate * depth
      match rate.mul (Dec.ofNat depth) with
      | .ok pd => some (toString (fairPool D pd.roundInt.toNat pu us amts total))
      | .error _ => some "true"
  | "tuples" :: bd :: defMult :: _n :: rest => do
      let bd ← parseNat bd; let dm ← parseDec defMult; let pairs ← parsePairs rest
      let (rp, pools) := mkPeriod dm pairs
      some (match (do
          let td ← totalDepth rp pools Dec.zero
          if td.i ≤ 0 then pure ([], 0) else rewardTuples rp td bd pools bd 0 []) with
        | .ok (l, mint) =>
          let rs := pools.map (fun (_, p) => ((l.find? (·.1 = p.sym)).map (·.2)).getD 0)
          s!"ok {mint} " ++ showNats rs
        | .error _ => "panic")
  | "chk" :: "c18.split" :: _tag :: bd :: _dm :: n :: rest => do
      let bd ← parseNat bd; let n ← parseNat n
      let pairs ← parsePairs (rest.take (2 * n))
      let mint ← parseNat (rest.getD (2 * n) "x")
      let rs ← natList (rest.drop (2 * n + 1))
      let ws : List Rat := pairs.map (fun (nb, m) => (nb : Rat) * decToRat m)
      some (toString (fairSplit bd ws rs mint))
  | "bucket" :: b :: _n :: us => do
      let b ← parseNat b; let us ← natList us
      let lps := (mkLps us).map (fun lp => (lp.addr, lp))
      some (match rewardAmounts lps b with
        | .ok l => "ok " ++ showNats (l.map (·.2))
        | .error _ => "panic")
  | "chk" :: "c18.bucket" :: _tag :: b :: n :: rest => do
      let b ← parseNat b; let n ← parseNat n
      let us ← natList (rest.take n); let amts ← natList (rest.drop n)
      some (toString (fairBucket b us amts))
  | _ => none

end Sif.Drv
