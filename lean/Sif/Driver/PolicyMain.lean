import Sif.Driver.Policy
/- `drv_policy`: one operation per line on stdin, one answer line per operation (C10 families). -/
open Sif.Drv

partial def loop (h : IO.FS.Stream) (out : IO.FS.Stream) : IO Unit := do
  let line ← h.getLine
  if line.isEmpty then return ()
  let toks := (line.trimAscii.toString.splitOn " ").filter (· ≠ "")
  out.putStrLn ((handlePolicy toks).getD "bad-op")
  loop h out

def main : IO Unit := do
  let out ← IO.getStdout
  loop (← IO.getStdin) out
