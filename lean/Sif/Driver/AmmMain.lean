import Sif.Driver.Amm
open Sif.Drv

partial def loop (h : IO.FS.Stream) (out : IO.FS.Stream) (s : Sif.Clp.St) : IO Unit := do
  let line ← h.getLine
  if line.isEmpty then return ()
  let toks := (line.trimAscii.toString.splitOn " ").filter (· ≠ "")
  -- `reset` starts a new history
  if toks = ["reset"] then
    out.putStrLn "ok"
    loop h out {}
  else
    let (s', ans) := step s toks
    out.putStrLn ans
    loop h out s'

def main : IO Unit := do
  let out ← IO.getStdout
  loop (← IO.getStdin) out {}
