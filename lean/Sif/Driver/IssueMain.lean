import Sif.Driver.Issue
/-
  `drv_issue`: families of C20 (`mint`: dispensation BeginBlocker; `rewards`: clp depth rewards).
  One operation per line on stdin, exactly one answer line per operation.
-/
open Sif.Drv

partial def loop (h : IO.FS.Stream) (out : IO.FS.Stream) (st : IssueSt) : IO Unit := do
  let line ← h.getLine
  if line.isEmpty then return ()
  let toks := (line.trimAscii.toString.splitOn " ").filter (· ≠ "")
  match handleIssue st toks with
  | some (st', ans) => out.putStrLn ans; loop h out st'
  | none => out.putStrLn "bad-op"; loop h out st

def main : IO Unit := do
  let out ← IO.getStdout
  loop (← IO.getStdin) out IssueSt.init
