import Sif.Num.Basic
namespace Sif.Drv

def parseNat (s : String) : Option Nat := s.toNat?
def parseInt (s : String) : Option Int := s.toInt?
def parseBool (s : String) : Option Bool := if s = "1" then some true else if s = "0" then some false else none
def parseDec (s : String) : Option Dec := (s.toInt?).map Dec.mk

def showM {α} (f : α → String) : M α → String
  | .ok a => "ok " ++ f a
  | .error _ => "panic"

end Sif.Drv
