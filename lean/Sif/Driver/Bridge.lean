import Sif.Spec.C05
import Sif.Spec.C06
import Sif.Spec.C07
/-
  Reader / printer of the bridge families' line protocol (harness/bridge/bridge.go) and the evaluation of
  the `chk` predicates of Spec/C05, C06, C07 on the implementation's observations.  Core only.
-/
namespace Sif.Drv.Bridge
open Sif.Oracle Sif.Bank Sif.EthBridge

/-! ### small parsing helpers -/

def splitFirst (s : String) (sep : Char) : String × String :=
  let cs := s.toList
  let a := cs.takeWhile (· != sep)
  let b := (cs.dropWhile (· != sep)).drop 1
  (String.ofList a, String.ofList b)

def listOf (s : String) (sep : String) : List String := if s == "-" || s == "" then [] else s.splitOn sep

def sortStrings (l : List String) : List String := l.mergeSort (fun a b => decide (a ≤ b))

def joinOrDash (l : List String) (sep : String) : String := if l.isEmpty then "-" else sep.intercalate l

def hexChar (n : Nat) : Char := if n < 10 then Char.ofNat (48 + n) else Char.ofNat (87 + n)

def hex40 (n : Nat) : String :=
  String.ofList ((List.range 40).reverse.map (fun i => hexChar ((n / 16 ^ i) % 16)))

def parseHex40 (s : String) : Option Nat := if s.length = 40 then hexValAux s.toList 0 else none

/-! ### contents, prophecies -/

/-- claim symbols travel through the line protocol as they are when made of letters, digits, `.`, `/`, `-` only, and
    as `%` followed by the hex of their bytes otherwise (quotes, commas, braces … would break the line format) -/
def symSafe (c : Char) : Bool := c.isAlphanum || c == '.' || c == '/' || c == '-'

def hexPair (n : Nat) : List Char := [hexChar (n / 16), hexChar (n % 16)]

def encodeSym (s : String) : String :=
  if !s.isEmpty && s.toList.all symSafe then s
  else "%" ++ String.ofList (s.toList.flatMap (fun c => hexPair c.toNat))

def decodeHexChars : List Char → Option (List Char)
  | [] => some []
  | [_] => none
  | a :: b :: rest => do
    let x ← hexDigit a
    let y ← hexDigit b
    let r ← decodeHexChars rest
    pure (Char.ofNat (x * 16 + y) :: r)

def decodeSym (s : String) : Option String :=
  match s.toList with
  | '%' :: rest => (decodeHexChars rest).map String.ofList
  | _ => some s

def showContent : Content → String
  | .empty => "-"
  | .eth r a s t c => s!"{r}|{a}|{encodeSym s}|{hex40 t}|{c}"

def parseContent (s : String) : Option Content :=
  if s == "-" then some .empty else
  match s.splitOn "|" with
  | [r, a, sym, t, c] => do
    let r ← r.toNat?
    let a ← a.toInt?
    let t ← parseHex40 t
    let c ← c.toNat?
    let sym ← decodeSym sym
    pure (.eth r a sym t c)
  | _ => none

def statusNum : StatusText → Nat
  | .pending => 1 | .success => 2 | .failed => 3

def parseStatus (s : String) : Option StatusText :=
  if s == "1" then some .pending else if s == "2" then some .success else if s == "3" then some .failed else none

def showProphecy (p : Prophecy) : String :=
  let vc := sortStrings (p.vclaims.map (fun e => s!"{e.1}={showContent e.2}"))
  let gs := sortStrings (p.groups.map (fun g => showContent g.1 ++ "=" ++ ".".intercalate (g.2.map toString)))
  s!"P;{p.id};{statusNum p.status};{showContent p.final};{joinOrDash vc ","};{joinOrDash gs ","}"

def parseProphecy (s : String) : Option Prophecy :=
  match s.splitOn ";" with
  | ["P", id, st, fin, vc, gs] => do
    let st ← parseStatus st
    let fin ← parseContent fin
    let vc ← (listOf vc ",").mapM (fun e => do
      let (v, c) := splitFirst e '='
      let v ← v.toNat?
      let c ← parseContent c
      pure (v, c))
    let gs ← (listOf gs ",").mapM (fun e => do
      let (c, vs) := splitFirst e '='
      let c ← parseContent c
      let vs ← (listOf vs ".").mapM (·.toNat?)
      pure (c, vs))
    pure ⟨id, st, fin, gs, vc⟩
  | _ => none

def parseVals (s : String) : Option (List Validator) :=
  (listOf s ",").mapM (fun e =>
    match e.splitOn ":" with
    | [i, p, b, sb] => do
      let i ← i.toNat?
      let p ← p.toNat?
      pure ⟨i, p, b == "1", sb == "1"⟩
    | _ => none)

def parseNatList (s : String) (sep : String) : Option (List Nat) := (listOf s sep).mapM (·.toNat?)

/-! ### bank views -/

/-- "a:denom=n,…" -/
def parseBal (s : String) : Option (List (Nat × String × Nat)) :=
  (listOf s ",").mapM (fun e => do
    let (k, v) := splitFirst e '='
    let (a, d) := splitFirst k ':'
    let a ← a.toNat?
    let v ← v.toNat?
    pure (a, d, v))

def parseBalDelta (s : String) : Option (List (Nat × String × Int)) :=
  (listOf s ",").mapM (fun e => do
    let (k, v) := splitFirst e '='
    let (a, d) := splitFirst k ':'
    let a ← a.toNat?
    let v ← v.toInt?
    pure (a, d, v))

/-- "denom=n,…" -/
def parseSup (s : String) : Option (List (String × Nat)) :=
  (listOf s ",").mapM (fun e => do
    let (d, v) := splitFirst e '='
    let v ← v.toNat?
    pure (d, v))

def parseSupDelta (s : String) : Option (List (String × Int)) :=
  (listOf s ",").mapM (fun e => do
    let (d, v) := splitFirst e '='
    let v ← v.toInt?
    pure (d, v))

/-- "denom|n,…" -/
def parseAmounts (s : String) : Option (List (String × Nat)) :=
  (listOf s ",").mapM (fun e => do
    let (d, v) := splitFirst e '|'
    let v ← v.toNat?
    pure (d, v))

def balView (l : List (Nat × String × Nat)) : Nat → String → Nat :=
  fun a d => match l.find? (fun e => e.1 == a && e.2.1 == d) with
    | some e => e.2.2
    | none => 0

def supView (l : List (String × Nat)) : String → Nat :=
  fun d => match l.find? (fun e => e.1 == d) with
    | some e => e.2
    | none => 0

/-! ### driver state -/

structure DState where
  vals : List Validator
  s : BState
  denoms : List String

def DState.init : DState := ⟨[], BState.init, []⟩

def nAccts : Nat := 9

def addDenom (st : DState) (d : String) : DState := if st.denoms.contains d then st else { st with denoms := st.denoms ++ [d] }

def setVal (vals : List Validator) (v : Validator) : List Validator :=
  if vals.any (·.id == v.id) then vals.map (fun w => if w.id == v.id then v else w) else vals ++ [v]

/-- genesis funding: mint in the module, send to the account (the harness does it with the real bank) -/
def fund (b : Bank) (a : Nat) (d : String) (n : Nat) : Bank :=
  let b1 := setSupply (setBal b a d (b.bal a d + n)) d (b.supply d + n)
  setAcc (setAcc b1 a) moduleAcct

def showBlKey : BlKey → String
  | .addr n => "a:" ++ hex40 n
  | .raw s => match ethAddr s with
    | some n => "a:" ++ hex40 n
    | none => "r:" ++ s

def dump (st : DState) : String :=
  let s := st.s
  let wl := joinOrDash (s.oracle.whitelist.map toString) ","
  let ps := joinOrDash (sortStrings (s.oracle.prophecies.map showProphecy)) "/"
  let peggy := joinOrDash (sortStrings s.peggy) ","
  let recv := match s.cethReceiver with | some a => toString a | none => "-"
  let bl := joinOrDash (sortStrings (s.blacklist.map showBlKey)) ","
  let bal := (List.range nAccts).flatMap (fun a => st.denoms.filterMap (fun d =>
    if s.bank.bal a d = 0 then none else some s!"{a}:{d}={s.bank.bal a d}"))
  let sup := st.denoms.filterMap (fun d => if s.bank.supply d = 0 then none else some s!"{d}={s.bank.supply d}")
  s!"wl={wl} proph={ps} peggy={peggy} paused={if s.paused then 1 else 0} recv={recv} bl={bl} bal={joinOrDash (sortStrings bal) ","} sup={joinOrDash (sortStrings sup) ","}"

def showEvent (e : Event) : String := s!"{e.kind}:{e.chain}:{e.sender}:{e.receiver}:{e.amount}:{e.symbol}:{e.ceth}"

def parseEvent (s : String) : Option Event :=
  match s.splitOn ":" with
  | [k, ch, snd, r, a, sym, c] => do
    let ch ← ch.toInt?
    let snd ← snd.toNat?
    let a ← a.toInt?
    let c ← c.toInt?
    pure ⟨k, ch, snd, r, a, sym, c⟩
  | _ => none

def showOut : Out → String
  | .claimed st => s!"ok {statusNum st}"
  | .event e => "ok " ++ showEvent e
  | .done => "ok"
  | .failed f => f.toString

/-- an address field: alias, optionally followed by `U` = the all-upper-case bech32 spelling of the same bytes.
    Returns (alias, spelling) with spelling 0 = canonical. -/
def parseSpelled (s : String) : Option (Nat × Nat) :=
  if s.endsWith "U" then (s.dropEnd 1).toString.toNat?.map (fun n => (n, 1)) else s.toNat?.map (fun n => (n, 0))

/-- account / validator fields the code decodes (`AccAddressFromBech32`, `ValAddressFromBech32`) before it uses them:
    the spelling plays no role -/
def parseAcct (s : String) : Option Nat := (parseSpelled s).map (·.1)

def parsePeg (t : List String) : Option PegMsg :=
  match t with
  | [s, ch, r, a, sym, c] => do
    let s ← parseAcct s
    let ch ← ch.toInt?
    let a ← a.toInt?
    let c ← c.toInt?
    pure ⟨s, ch, r, a, sym, c⟩
  | _ => none

def parseMsg (kind : String) (t : List String) : Option Msg :=
  match kind, t with
  | "claim", [v, ch, n, snd, r, a, sym, tok, ty] => do
    let (v, sp) ← parseSpelled v
    let ch ← ch.toInt?
    let n ← n.toInt?
    let r ← parseAcct r
    let a ← a.toInt?
    let ty ← ty.toNat?
    let sym ← decodeSym sym
    pure (.claim ⟨v, ch, n, snd, r, a, sym, tok, ty, sp⟩)
  | "lock", t => (parsePeg t).map .lock
  | "burn", t => (parsePeg t).map .burn
  | "wl", [s, op, v] => do pure (.whitelist (← parseAcct s) op (← parseAcct v))
  | "pause", [s, b] => do pure (.pause (← parseAcct s) (b == "1"))
  | "bl", [s, l] => do pure (.blacklist (← parseAcct s) (listOf l ","))
  | "recv", [s, a] => do pure (.cethReceiver (← parseAcct s) (← parseAcct a))
  | "rescue", [s, a, n] => do pure (.rescue (← parseAcct s) (← parseAcct a) (← n.toInt?))
  | _, _ => none

def msgDenoms : Msg → List String
  | .claim m => [m.symbol, peggedPrefix ++ m.symbol]
  | .lock m => [m.symbol, cethSymbol]
  | .burn m => [m.symbol, cethSymbol]
  | .rescue _ _ _ => [cethSymbol]
  | _ => []

/-- the iteration order the driver uses for the claim groups: the stored order.  The implementation uses
    Go's random map order; `Props/C05.tally_perm_invariant` is why the two agree. -/
def drvOrd : List Group → List Group := id

/-! ### chk predicates on the implementation's observations -/

def kvs (toks : List String) : List (String × String) := toks.map (fun t => splitFirst t '=')

def get (m : List (String × String)) (k : String) : Option String := m.lookup k

def keysOf (l1 l2 : List (Nat × String × Nat)) (extra : List (Nat × String)) : List (Nat × String) :=
  ((l1 ++ l2).map (fun e => (e.1, e.2.1)) ++ extra).eraseDups

def denomsOf (l1 l2 : List (String × Nat)) (extra : List String) : List String :=
  ((l1 ++ l2).map (·.1) ++ extra).eraseDups

def boolStr (b : Bool) : String := if b then "true" else "false"

/-- "set:0.1.1.2,remove:1,add:3" -/
def parseWlOps (s : String) : Option (List Spec.C05.WlOp) :=
  (listOf s ",").mapM (fun e => do
    let (k, v) := splitFirst e ':'
    if k == "set" then (parseNatList v ".").map Spec.C05.WlOp.set
    else if k == "add" then v.toNat?.map Spec.C05.WlOp.add
    else if k == "remove" then v.toNat?.map Spec.C05.WlOp.remove
    else none)

def chk (pred : String) (m : List (String × String)) : Option Bool :=
  match pred with
  | "wf" => do
    let p ← parseProphecy (← get m "p")
    pure (Spec.C05.prophecyWF p)
  | "wlmember" => do
    let ops ← parseWlOps (← get m "ops")
    pure (Spec.C05.sameMembers (← parseNatList (← get m "stored") ",") (Spec.C05.wlLedger ops))
  | "accept" => do
    let vals ← parseVals (← get m "vals")
    let wl ← (parseWlOps (← get m "wlops")).map Spec.C05.wlLedger
    pure (Spec.C05.acceptedClaimantOK vals wl (← parseAcct (← get m "v")))
  | "wlview" => do
    pure (Spec.C05.viewIsStore (← parseNatList (← get m "view") ",") (← parseNatList (← get m "stored") ","))
  | "statusread" => do
    let rep ← parseStatus (← get m "reported")
    pure (Spec.C05.reportedIsStored rep (parseStatus (← get m "stored")))
  | "finledger" => do
    let rep ← parseStatus (← get m "reported")
    let same := (← get m "balb") == (← get m "bala") && (← get m "supb") == (← get m "supa")
    pure (Spec.C05.finalByLedger rep ((← get m "res") == "ok") (parseStatus (← get m "stored")) same)
  | "finhist" => do
    let first ← parseProphecy (← get m "first")
    let ns ← get m "now"
    let now ← if ns == "-" then pure none else (parseProphecy ns).map some
    pure (Spec.C05.finalKept first now)
  | "storebytes" => do
    pure (Spec.C05.storeBytesSame (← get m "first") (← get m "now"))
  | "thr" => do
    let vals ← parseVals (← get m "vals")
    let wl ← (parseWlOps (← get m "wlops")).map Spec.C05.wlLedger
    let p ← parseProphecy (← get m "p")
    pure (Spec.C05.thresholdMet vals wl p)
  | "fin" => do
    let pb ← parseProphecy (← get m "pb")
    let pas ← get m "pa"
    let pa ← if pas == "-" then pure none else (parseProphecy pas).map some
    let res ← get m "res"
    let same := (← get m "balb") == (← get m "bala") && (← get m "supb") == (← get m "supa")
    pure (Spec.C05.finalStable pb pa (res == "ok") same)
  | "credit" => do
    let res ← get m "res"
    let sbs ← get m "sb"
    let sas ← get m "sa"
    let sb := (parseStatus sbs).getD .pending
    let sa := (parseStatus sas).getD .pending
    let final ← parseContent (← get m "final")
    let bb ← parseBal (← get m "balb")
    let ba ← parseBal (← get m "bala")
    let sB ← parseSup (← get m "supb")
    let sA ← parseSup (← get m "supa")
    let extraK := match Spec.C06.creditOf final with | some c => [(c.1, c.2.1)] | none => []
    let extraD := match Spec.C06.creditOf final with | some c => [c.2.1] | none => []
    pure (Spec.C06.creditStep (res == "ok") sb sa final (balView bb) (balView ba) (supView sB) (supView sA)
      (keysOf bb ba extraK) (denomsOf sB sA extraD))
  | "carry" => do
    let pb ← (listOf (← get m "pb") "/").mapM parseProphecy
    let pa ← (listOf (← get m "pa") "/").mapM parseProphecy
    pure (Spec.C06.restartCarries pb pa (← get m "restb") (← get m "resta"))
  | "creditmsg" => do
    let vals ← parseVals (← get m "vals")
    let wl ← parseNatList (← get m "wl") ","
    let msgs ← (listOf (← get m "msgs") ",").mapM (fun e => do
      let (v, c) := splitFirst e '='
      let v ← v.toNat?
      let c ← parseContent c
      pure (v, c))
    let bb ← parseBal (← get m "balb")
    let ba ← parseBal (← get m "bala")
    let sB ← parseSup (← get m "supb")
    let sA ← parseSup (← get m "supa")
    let crs := (Spec.C06.winners vals wl msgs).filterMap Spec.C06.creditOf
    pure (Spec.C06.creditFromMessages vals wl msgs (balView bb) (balView ba) (supView sB) (supView sA)
      (keysOf bb ba (crs.map (fun c => (c.1, c.2.1)))) (denomsOf sB sA (crs.map (·.2.1))))
  | "ledger" => do
    let sa := (parseStatus (← get m "sa")).getD .pending
    let final ← parseContent (← get m "final")
    let cs ← (listOf (← get m "credits") "/").mapM (fun e => do
      let (db, ds) := splitFirst e '~'
      let db ← parseBalDelta db
      let ds ← parseSupDelta ds
      pure (db, ds))
    pure (Spec.C06.ledgerOK sa final cs)
  | "gate" => do
    pure (Spec.C07.gateOK (← get m "kind") (← get m "res") ((← get m "paused") == "1") (listOf (← get m "bl") ",")
      (listOf (← get m "peggy") ",") (listOf (← get m "minted") ",") (← get m "recv") (← get m "symbol"))
  | "pauseview" => do
    pure (Spec.C07.pauseViewIsStore ((← get m "view") == "1") ((← get m "stored") == "1"))
  | "peggyreg" => do
    let final ← parseContent (← get m "final")
    pure (Spec.C07.peggyRegOK final (listOf (← get m "peggyb") ",") (listOf (← get m "peggya") ","))
  | "blset" => do
    pure (Spec.C07.blSetOK (listOf (← get m "req") ",") (listOf (← get m "bl") ","))
  | "fx" => do
    let kind ← get m "kind"
    let res ← get m "res"
    let pm ← parsePeg [← get m "sender", ← get m "chain", ← get m "recv", ← get m "amount", ← get m "symbol", ← get m "ceth"]
    let feeS ← get m "feeto"
    let feeTo ← if feeS == "-" then pure none else feeS.toNat?.map some
    let bb ← parseBal (← get m "balb")
    let ba ← parseBal (← get m "bala")
    let sB ← parseSup (← get m "supb")
    let sA ← parseSup (← get m "supa")
    let evs ← (listOf (← get m "ev") ",").mapM parseEvent
    let extraK := [(pm.sender, pm.symbol), (pm.sender, cethSymbol), (Spec.C07.feeAcct feeTo, cethSymbol)]
    pure (Spec.C07.pegStep kind (res == "ok") pm feeTo (balView bb) (balView ba) (supView sB) (supView sA)
      (keysOf bb ba extraK) (denomsOf sB sA [pm.symbol]) evs)
  | "supply" => do
    let g ← parseAmounts (← get m "genesis")
    let c ← parseAmounts (← get m "credits")
    let l ← parseAmounts (← get m "locks")
    let b ← parseAmounts (← get m "burns")
    let sup ← parseSup (← get m "sup")
    pure (Spec.C07.supplyOK g c l b (supView sup) ((sup.map (·.1) ++ (g ++ c ++ l ++ b).map (·.1)).eraseDups))
  | _ => none

/-- split a token list at the separator token "|" -/
def splitToks : List String → List (List String)
  | [] => [[]]
  | t :: ts =>
    match splitToks ts with
    | [] => [[t]]
    | seg :: segs => if t == "|" then [] :: seg :: segs else (t :: seg) :: segs

/-! ### one line -/

def step (st : DState) (toks : List String) : DState × String :=
  match toks with
  | ["reset"] => (DState.init, "ok")
  | ["restart"] => ({ st with s := (stepWorld drvOrd ⟨st.vals, st.s⟩ .restart).s }, "ok")
  | ["val", i, p, b] =>
    match i.toNat?, p.toNat? with
    | some i, some p => ({ st with vals := setVal st.vals ⟨i, p, b == "1", b == "1"⟩ }, "ok")
    | _, _ => (st, "bad-op")
  | ["jail", i] =>
    -- staking `Jail`: out of the power index at once, status still Bonded until the next staking EndBlocker
    match i.toNat? with
    | some i =>
      if st.vals.any (fun v => v.id == i && v.bonded) then
        ({ st with vals := st.vals.map (fun v => if v.id == i then { v with bonded := false } else v) }, "ok")
      else (st, "noop")
    | none => (st, "bad-op")
  | ["unjail", i] =>
    -- staking `Unjail` of a validator jailed earlier in this block: back into the power index, counted again
    match i.toNat? with
    | some i =>
      if st.vals.any (fun v => v.id == i && !v.bonded && v.statusBonded) then
        ({ st with vals := st.vals.map (fun v => if v.id == i then { v with bonded := true } else v) }, "ok")
      else (st, "noop")
    | none => (st, "bad-op")
  | ["pegset", l] =>
    ({ st with s := initGenesisPeggy st.s (listOf l ",") }, "ok")
  | ["stakeend"] =>
    -- the staking EndBlocker applies the validator-set updates: a jailed validator leaves the bonded status (one of
    -- zero power has no "last power" record and is not looked at)
    ({ st with vals := st.vals.map (fun v => if v.bonded || v.power == 0 then v else { v with statusBonded := false }) }, "ok")
  | ["fund", a, d, n] =>
    match a.toNat?, n.toNat? with
    | some a, some n => (addDenom { st with s := { st.s with bank := fund st.s.bank a d n } } d, "ok")
    | _, _ => (st, "bad-op")
  | ["admin", "oracle", a] =>
    match a.toNat? with
    | some a => ({ st with s := { st.s with oracle := { st.s.oracle with admin := some a } } }, "ok")
    | none => (st, "bad-op")
  | ["admin", "bridge", a] =>
    match a.toNat? with
    | some a => ({ st with s := { st.s with bridgeAdmins := st.s.bridgeAdmins ++ [a] } }, "ok")
    | none => (st, "bad-op")
  | ["wlset", l] =>
    match parseNatList l "," with
    | some l => ({ st with s := { st.s with oracle := { st.s.oracle with whitelist := l } } }, "ok")
    | none => (st, "bad-op")
  | "tx" :: kind :: t =>
    match parseMsg kind t with
    | some msg =>
      let (s', out) := deliver drvOrd st.vals st.s msg
      let st' := (msgDenoms msg).foldl addDenom { st with s := s' }
      (st', showOut out)
    | none => (st, "bad-op")
  | "txm" :: rest =>
    -- several messages in one transaction: segments separated by the token "|"
    let segs := (splitToks rest).filter (fun l => !l.isEmpty)
    match segs.mapM (fun seg => match seg with | kind :: t => parseMsg kind t | [] => none) with
    | some msgs =>
      let (s', outs) := deliverTx drvOrd st.vals st.s msgs
      let st' := (msgs.flatMap msgDenoms).foldl addDenom { st with s := s' }
      (st', ";".intercalate (outs.map showOut))
    | none => (st, "bad-op")
  | ["blk", n] =>
    match n.toNat? with
    | some n => ({ st with s := (stepWorld drvOrd ⟨st.vals, st.s⟩ (.blocks n)).s }, "ok")
    | none => (st, "bad-op")
  | ["obs"] => (st, dump st)
  | "chk" :: pred :: rest =>
    match chk pred (kvs rest) with
    | some b => (st, boolStr b)
    | none => (st, "bad-op")
  | _ => (st, "bad-op")

end Sif.Drv.Bridge
