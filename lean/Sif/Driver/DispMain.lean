import Sif.Driver.Disp
/- `drv_disp`: family `disp` (C11).  One operation per line on stdin, one answer line per operation. -/
open Sif.Drv

partial def loop (h : IO.FS.Stream) (out : IO.FS.Stream) (st : DispSt) : IO Unit := do
  let line ← h.getLine
  if line.isEmpty then return ()
  let toks := (line.trimAscii.toString.splitOn " ").filter (· ≠ "")
  match handleDisp st toks with
  | some (st', ans) => out.putStrLn ans; loop h out st'
  | none => out.putStrLn "bad-op"; loop h out st

def main : IO Unit := do
  let out ← IO.getStdout
  loop (← IO.getStdin) out DispSt.init
