import Sif.Driver.Util
import Sif.Model.Relayer.Parser
import Sif.Spec.C16
/-
  Line protocol of family `relayxlate` (C16).  Byte strings travel as lower-case hex ("-" = empty),
  attribute lists as `k:v,k:v` of hex ("-" = empty list), symbol tables likewise (denom:symbol).
-/
namespace Sif.Drv.RelayXlate
open Sif Sif.Relayer Sif.Spec.C16

def hexVal (c : Char) : Option Nat :=
  if '0' ≤ c ∧ c ≤ '9' then some (c.toNat - 48)
  else if 'a' ≤ c ∧ c ≤ 'f' then some (c.toNat - 87)
  else none

def unhexL : List Char → Option Str
  | [] => some []
  | a :: b :: r => do
      let x ← hexVal a; let y ← hexVal b; let t ← unhexL r
      some (Char.ofNat (x * 16 + y) :: t)
  | _ => none

/-- "-" = empty string -/
def unhex (s : String) : Option Str := if s = "-" then some [] else unhexL s.toList

def hexDigit (n : Nat) : Char := if n < 10 then Char.ofNat (48 + n) else Char.ofNat (87 + n)

def hex (s : Str) : String :=
  if s = [] then "-" else String.ofList (s.flatMap (fun c => [hexDigit (c.toNat / 16), hexDigit (c.toNat % 16)]))

def parsePairs (s : String) : Option (List (Str × Str)) :=
  if s = "-" then some [] else
  (s.splitOn ",").mapM (fun kv =>
    match kv.splitOn ":" with
    | [k, v] => do let k ← unhex k; let v ← unhex v; some (k, v)
    | _ => none)

def parseAttrs (s : String) : Option (List Attr) := (parsePairs s).map (·.map (fun p => ⟨p.1, p.2⟩))

/-- an observed decode result: "ERR" = the library refused, otherwise the decoded bytes in hex -/
def parseDec (s : String) : Option (Option Str) :=
  if s = "ERR" then some none else (unhex s).map some

/-- observed decode results per input text: `text:bytes` or `text:ERR` -/
def parseDecTable (s : String) : Option (List (Str × Option Str)) :=
  if s = "-" then some [] else
  (s.splitOn ",").mapM (fun kv =>
    match kv.splitOn ":" with
    | [k, v] => do let k ← unhex k; let v ← parseDec v; some (k, v)
    | _ => none)

def showOptStr : Option Str → String
  | none => "nil"
  | some s => hex s

def showOptInt : Option Int → String
  | none => "nil"
  | some i => toString i

def parseOptStr (s : String) : Option (Option Str) := if s = "nil" then some none else (unhex s).map some
def parseOptInt (s : String) : Option (Option Int) := if s = "nil" then some none else s.toInt?.map some

/-- plain 40-digit address text (already lower-case hex, *not* hex-of-bytes) -/
def parseAddr (s : String) : Option Str := if s.length = 40 then some s.toList else none

def showClaim (c : Claim) : String :=
  s!"ok chain={c.chainId} bridge={String.ofList c.bridge} nonce={c.nonce} sym={hex c.symbol} token={String.ofList c.token} sender={String.ofList c.sender} val={hex c.validator} recv={hex c.receiver} amount={c.amount} type={c.claimType}"

def showFail : Fail → String
  | .err _ => "err"
  | .panic => "panic"

def showMsg (m : CosmosMsg) : String :=
  s!"ok kind={m.kind} sender={showOptStr m.sender} seq={showOptInt m.seq} recv={String.ofList m.receiver} sym={hex m.symbol} amount={showOptInt m.amount}"

def mkEnv (todec : Option Str) (symlow : Str) (table : List (Str × Str)) : Env :=
  { bech32 := fun _ => todec, bech32Val := fun _ => todec, lower := fun _ => symlow, table := table }

/-- common argument block of the eth→claim lines:
    val to todec sym symlow chain value nonce type bridge sender token table -/
def parseEthArgs : List String → Option (Env × Str × EthEvent)
  | [val, to, todec, sym, symlow, chain, value, nonce, ty, bridge, sender, token, table] => do
      let val ← unhex val; let to ← unhex to; let todec ← parseDec todec
      let sym ← unhex sym; let symlow ← unhex symlow
      let chain ← chain.toInt?; let value ← value.toInt?; let nonce ← nonce.toInt?; let ty ← ty.toNat?
      let bridge ← parseAddr bridge; let sender ← parseAddr sender; let token ← parseAddr token
      let table ← parsePairs table
      some (mkEnv todec symlow table, val,
        { to := to, symbol := sym, chainId := chain, value := value, nonce := nonce, claimType := ty,
          bridge := bridge, sender := sender, token := token })
  | _ => none

/-- an observed claim: chain bridge nonce sym token sender val recv amount type -/
def parseClaim : List String → Option Claim
  | [chain, bridge, nonce, sym, token, sender, val, recv, amount, ty] => do
      let chain ← chain.toInt?; let nonce ← nonce.toInt?; let sym ← unhex sym
      let val ← unhex val; let recv ← unhex recv; let amount ← amount.toInt?; let ty ← ty.toNat?
      some { chainId := chain, bridge := bridge.toList, nonce := nonce, symbol := sym, token := token.toList,
             sender := sender.toList, validator := val, receiver := recv, amount := amount, claimType := ty }
  | _ => none

/-- an observed CosmosMsg: kind sender seq recv sym amount -/
def parseMsg : List String → Option CosmosMsg
  | [kind, sender, seq, recv, sym, amount] => do
      let kind ← kind.toNat?; let sender ← parseOptStr sender; let seq ← parseOptInt seq
      let recv ← parseAddr recv; let sym ← unhex sym; let amount ← parseOptInt amount
      some { kind := kind, sender := sender, seq := seq, receiver := recv, symbol := sym, amount := amount }
  | _ => none

def showExcept {α} (f : α → String) : Except Fail α → String
  | .ok a => f a
  | .error e => showFail e

/-- bridge message block: chain sender receiver amount symbol ceth seq -/
def parseBridgeMsg : List String → Option (BridgeMsg × Nat)
  | [chain, sender, receiver, amount, symbol, ceth, seq] => do
      let chain ← chain.toInt?; let sender ← unhex sender; let receiver ← unhex receiver
      let amount ← amount.toInt?; let symbol ← unhex symbol; let ceth ← ceth.toInt?; let seq ← seq.toNat?
      some ({ chainId := chain, sender := sender, receiver := receiver, amount := amount, symbol := symbol, ceth := ceth }, seq)
  | _ => none

def showAttrs (as : List Attr) : String :=
  if as = [] then "-" else ",".intercalate (as.map (fun a => hex a.key ++ ":" ++ hex a.val))

/-- a claim with only the identity-relevant fields filled in -/
def idClaim (chain nonce : Int) (sender : Str) : Claim :=
  { chainId := chain, bridge := [], nonce := nonce, symbol := [], token := [], sender := sender,
    validator := [], receiver := [], amount := 0, claimType := 0 }

/-- one event of a batch: to todec sym chain value nonce type bridge sender token -/
def parseBatchEvent : List String → Option (EthEvent × Option Str)
  | [to, todec, sym, chain, value, nonce, ty, bridge, sender, token] => do
      let to ← unhex to; let todec ← parseDec todec; let sym ← unhex sym
      let chain ← chain.toInt?; let value ← value.toInt?; let nonce ← nonce.toInt?; let ty ← ty.toNat?
      let bridge ← parseAddr bridge; let sender ← parseAddr sender; let token ← parseAddr token
      some ({ to := to, symbol := sym, chainId := chain, value := value, nonce := nonce, claimType := ty,
              bridge := bridge, sender := sender, token := token }, todec)
  | _ => none

def chunks (n : Nat) : Nat → List String → Option (List (List String))
  | 0, [] => some []
  | 0, _ => none
  | k + 1, l => if l.length < n then none else (chunks n k (l.drop n)).map (l.take n :: ·)

/-- `<val> <table> <k> <event>×k <rest…>` → environment (bech32 answers as observed per recipient text; symbols
    of the batch family are ASCII, so the Unicode path of ToLower is never taken), validator, events, rest -/
def parseBatch : List String → Option (Env × Str × List EthEvent × List String)
  | val :: table :: k :: rest => do
      let val ← unhex val; let table ← parsePairs table; let k ← k.toNat?
      let evs ← (← chunks 10 k (rest.take (10 * k))).mapM parseBatchEvent
      let env : Env := { bech32 := fun s => match evs.find? (fun p => p.1.to = s) with | some p => p.2 | none => none,
                         bech32Val := fun _ => none, lower := fun s => s, table := table }
      some (env, val, evs.map (·.1), rest.drop (10 * k))
  | _ => none

def parseClaims : List String → Option (List Claim)
  | m :: rest => do
      let m ← m.toNat?
      (← chunks 10 m rest).mapM parseClaim
  | _ => none

def claimTokens (c : Claim) : String :=
  s!"{c.chainId} {String.ofList c.bridge} {c.nonce} {hex c.symbol} {String.ofList c.token} {String.ofList c.sender} {hex c.validator} {hex c.receiver} {c.amount} {c.claimType}"

def showContent (k : Content) : String :=
  s!"ok recv={hex k.receiver} amount={k.amount} sym={hex k.symbol} token={String.ofList k.token} type={k.claimType}"

/-- an observed content: recv amount sym token type -/
def parseContent : List String → Option Content
  | [recv, amount, sym, token, ty] => do
      let recv ← unhex recv; let amount ← amount.toInt?; let sym ← unhex sym; let ty ← ty.toNat?
      some { receiver := recv, amount := amount, symbol := sym, token := token.toList, claimType := ty }
  | _ => none

def handle : List String → Option String
  -- the two paths into EthereumEventToEthBridgeClaim (direct, and through ABI packing + logToEvent)
  | "eth2claim" :: args => do
      let (env, val, ev) ← parseEthArgs args
      some (showExcept showClaim (ethToClaim env val ev))
  | "log2claim" :: args => do
      let (env, val, ev) ← parseEthArgs args
      some (showExcept showClaim (ethToClaim env val ev))
  | "chk" :: "c16.claim" :: _tag :: rest => do
      let (env, val, ev) ← parseEthArgs (rest.take 13)
      let c ← parseClaim (rest.drop 13)
      some (toString (claimFaithful env val ev c))
  | "chk" :: "c16.ethverdict" :: _tag :: rest => do
      let (env, _, ev) ← parseEthArgs (rest.take 13)
      match rest.drop 13 with
      | [cls] => do let cls ← cls.toNat?; some (toString (ethVerdictOK env ev cls))
      | _ => none
  | ["claimid", chain, nonce, sender] => do
      let chain ← chain.toInt?; let nonce ← nonce.toInt?; let sender ← unhex sender
      some (hex (claimId (idClaim chain nonce sender)))
  | ["chk", "c16.idinj", _tag, chain, n1, s1, n2, s2, id1, id2] => do
      let chain ← chain.toInt?; let n1 ← n1.toInt?; let n2 ← n2.toInt?
      let s1 ← unhex s1; let s2 ← unhex s2; let id1 ← unhex id1; let id2 ← unhex id2
      some (toString (idInjective (idClaim chain n1 s1) (idClaim chain n2 s2) id1 id2))
  | ["cosmos2msg", kind, attrs, table] => do
      let kind ← kind.toNat?; let attrs ← parseAttrs attrs; let table ← parsePairs table
      some (showExcept showMsg (cosmosToMsg kind (mkEnv none [] table) attrs))
  | ["chk", "c16.complete", _tag, attrs, acc] => do
      let attrs ← parseAttrs attrs; let acc ← parseBool acc
      some (toString (completeOK attrs acc))
  | ["chk", "c16.burnsym", _tag, attrs, acc, sym] => do
      let attrs ← parseAttrs attrs; let acc ← parseBool acc; let sym ← unhex sym
      some (toString (burnSymbolOK attrs acc sym))
  | ["chk", "c16.composeacc", _tag, kind, sym, acc] => do
      let kind ← kind.toNat?; let sym ← unhex sym; let acc ← parseBool acc
      some (toString (composeAcceptOK kind sym acc))
  | "chk" :: "c16.msg" :: _tag :: kind :: attrs :: table :: rest => do
      let kind ← kind.toNat?; let attrs ← parseAttrs attrs; let table ← parsePairs table
      let m ← parseMsg rest
      some (toString (msgFaithful kind (mkEnv none [] table) attrs m))
  | "content" :: args => do
      let (env, val, ev) ← parseEthArgs args
      some (showExcept (fun c => showContent (oracleContent c)) (ethToClaim env val ev))
  | "chk" :: "c16.content" :: _tag :: rest => do
      let (env, _, ev) ← parseEthArgs (rest.take 13)
      let k ← parseContent (rest.drop 13)
      some (toString (contentFaithful env ev k))
  | "chk" :: "c16.contentdistinct" :: _tag :: args => do
      let (env, _, evs, rest) ← parseBatch args
      match evs, rest with
      | [e1, e2], [t1, t2] => do
          let t1 ← unhex t1; let t2 ← unhex t2
          some (toString (contentDistinctOK env e1 e2 t1 t2))
      | _, _ => none
  | "batch" :: args => do
      let (env, val, evs, _) ← parseBatch args
      match handleBatch env val evs with
      | .error e => some (showFail e)
      | .ok none => some "none"
      | .ok (some cs) => some (" ".intercalate (s!"ok {cs.length}" :: cs.map claimTokens))
  | "chk" :: "c16.batchcount" :: _tag :: args => do
      let (env, val, evs, rest) ← parseBatch args
      let cs ← parseClaims rest
      some (toString (batchCountOK env val evs cs))
  | "chk" :: "c16.batchfields" :: _tag :: args => do
      let (env, val, evs, rest) ← parseBatch args
      let cs ← parseClaims rest
      some (toString (batchFieldsOK env val evs cs))
  | "chk" :: "c16.batchids" :: _tag :: args => do
      let (env, val, evs, rest) ← parseBatch args
      match rest with
      | m :: ids => do
          let m ← m.toNat?
          if ids.length ≠ m then none
          let ids ← ids.mapM unhex
          some (toString (batchIdsOK env val evs ids))
      | _ => none
  | "emit" :: rest => do
      let (b, seq) ← parseBridgeMsg rest
      some (showAttrs (emitAttrs b seq))
  | "compose" :: kind :: table :: rest => do
      let kind ← kind.toNat?; let table ← parsePairs table
      let (b, seq) ← parseBridgeMsg rest
      some (showExcept showMsg (cosmosToMsg kind (mkEnv none [] table) (emitAttrs b seq)))
  | "chk" :: "c16.compose" :: _tag :: kind :: table :: rest => do
      let kind ← kind.toNat?; let table ← parsePairs table
      let (b, seq) ← parseBridgeMsg (rest.take 7)
      let m ← parseMsg (rest.drop 7)
      some (toString (composeOK kind (mkEnv none [] table) b seq m))
  | ["attrs2claim", attrs, decs] => do
      let attrs ← parseAttrs attrs; let decs ← parseDecTable decs
      let env : Env := { bech32 := fun _ => none, lower := fun s => s, table := [],
                         bech32Val := fun s => match decs.find? (fun p => p.1 = s) with | some p => p.2 | none => none }
      match attrsToBridgeClaim env attrs {} with
      | .ok k => some s!"ok ethsender={String.ofList k.ethSender} cosmossender={showOptStr k.cosmosSender} nonce={showOptInt k.nonce}"
      | .error e => some (showFail e)
  | _ => none

end Sif.Drv.RelayXlate
