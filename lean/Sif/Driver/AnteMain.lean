import Sif.Driver.Ante
/- `drv_ante`: one operation per line on stdin, one answer line per operation (C19 families). -/
open Sif.Drv

partial def loop (h : IO.FS.Stream) (out : IO.FS.Stream) : IO Unit := do
  let line ← h.getLine
  if line.isEmpty then return ()
  let toks := (line.trimAscii.toString.splitOn " ").filter (· ≠ "")
  out.putStrLn ((handleAnte toks).getD "bad-op")
  loop h out

def main : IO Unit := do
  let out ← IO.getStdout
  loop (← IO.getStdin) out
