import Sif.Driver.RelayLoop
/-
  `drv_relayloop`: one operation per line on stdin, one answer per line on stdout.  Family `relayloop` (C17).
-/
def dispatchRelayLoop (toks : List String) : String :=
  match Sif.Drv.RelayLoop.handle toks with
  | some s => s
  | none => "bad-op"

partial def loopRelayLoop (h : IO.FS.Stream) (out : IO.FS.Stream) : IO Unit := do
  let line ← h.getLine
  if line.isEmpty then return ()
  let toks := (line.trimAscii.toString.splitOn " ").filter (· ≠ "")
  out.putStrLn (dispatchRelayLoop toks)
  loopRelayLoop h out

def main : IO Unit := do
  let out ← IO.getStdout
  loopRelayLoop (← IO.getStdin) out
