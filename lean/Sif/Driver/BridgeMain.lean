import Sif.Driver.Bridge
/-
  `drv_bridge`: stateful driver of the families bridge_oracle / bridge_credit / bridge_peg (C05, C06, C07).
  One operation per line on stdin, exactly one answer line per operation.
-/
open Sif.Drv.Bridge

partial def loop (h : IO.FS.Stream) (out : IO.FS.Stream) (st : DState) : IO Unit := do
  let line ← h.getLine
  if line.isEmpty then return ()
  let toks := (line.trimAscii.toString.splitOn " ").filter (· ≠ "")
  let (st', ans) := step st toks
  out.putStrLn ans
  loop h out st'

def main : IO Unit := do
  let out ← IO.getStdout
  loop (← IO.getStdin) out DState.init
