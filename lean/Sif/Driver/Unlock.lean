import Sif.Driver.Util
import Sif.Model.Unlock
import Sif.Spec.C15
/-
  Driver helpers for family `unlock` (C15): parsing / printing of provider records, one model
  step per `tx` line, the judge predicates of Sif/Spec/C15 on `chk` lines.
-/
namespace Sif.Drv.Unlock
open Sif Sif.Unlock Sif.Spec.C15 Sif.Drv

def parseRec (s : String) : Option Rec :=
  match s.splitOn ":" with
  | [h, u] => do let h ← parseInt h; let u ← parseNat u; some ⟨h, u⟩
  | _ => none

/-- `-` = empty list, else `h:u,h:u,…` -/
def parseRecs (s : String) : Option (List Rec) :=
  if s = "-" then some [] else (s.splitOn ",").mapM parseRec

def showRecs (rs : List Rec) : String :=
  if rs.isEmpty then "-" else ",".intercalate (rs.map (fun r => s!"{r.height}:{r.units}"))

def showLP : Option LP → String
  | none => "none"
  | some lp => s!"U={lp.units};{showRecs lp.unlocks}"

def parseRes (s : String) : Option Res :=
  match s with
  | "ok" => some .ok | "err.nolp" => some (.err .nolp) | "err.bal" => some (.err .bal)
  | "err.units" => some (.err .units) | "err.asym" => some (.err .asym)
  | "err.validate" => some (.err .validate) | "panic" => some (.err .panic)
  | "err.queued" => some (.err .queued) | "err.health" => some (.err .health)
  | "err.other" => some (.err .panic)   -- never produced by the model; only read on chk lines
  | _ => none

/-- driver state: the model's chain state and the judge's ledgers (built from the implementation's
    observations only) -/
structure DS where
  st : St
  ledgers : List (String × Ledger)
  /-- per provider: the unlock requests the implementation accepted, with the height of the message -/
  reqs : List (String × List Rec) := []

def DS.init : DS := ⟨St.init 0 0, [], []⟩

def getReqs (rs : List (String × List Rec)) (k : String) : List Rec :=
  match rs.find? (fun p => p.1 == k) with
  | some p => p.2
  | none => []

def getLedger (ls : List (String × Ledger)) (k : String) : Ledger :=
  match ls.find? (fun p => p.1 == k) with
  | some p => p.2
  | none => ⟨0, 0⟩

def setLedger (ls : List (String × Ledger)) (k : String) (g : Ledger) : List (String × Ledger) :=
  (k, g) :: ls.filter (fun p => p.1 != k)

def parseHealth : String → Option Health
  | "pass" => some .pass | "queue" => some .queue | "block" => some .block | "panic" => some .panic
  | "calcpanic" => some .calcPanic
  | _ => none

def parseOp (key kind : String) (args : List String) : Option Op :=
  match kind, args with
  | "unlock", [u] => do let u ← parseNat u; some (.unlock key u)
  | "cancel", [u] => do let u ← parseNat u; some (.cancel key u)
  | "rmu", [w, hc] => do let w ← parseNat w; let hc ← parseHealth hc; some (.removeUnits key w hc)
  | "rm", [wb, a, hc] => do let wb ← parseInt wb; let a ← parseInt a; let hc ← parseHealth hc; some (.remove key wb a hc)
  | _, _ => none

def handle (d : DS) : List String → Option (DS × String)
  | ["reset", L, C] => do
      let L ← parseNat L; let C ← parseNat C
      some (⟨St.init L C, [], []⟩, "ok")
  | ["par", _h, L, C] => do
      let L ← parseNat L; let C ← parseNat C
      some ({ d with st := (step d.st 0 (.setParams L C)).1 }, "ok")
  | "tx" :: h :: key :: kind :: args => do
      let h ← parseInt h
      -- `calcpanic:<pool units>`: the implementation's payout calculation panicked on the pre-state.  The
      -- driver accepts that as an environment value only when the stored facts explain it — the provider
      -- record holds 0 units (unitsToClaim = 0) or the pool has 0 units; a panic of the calculation on
      -- ordinary inputs is NOT predicted (the model then answers as if it had passed: a mismatch).
      let args := args.map (fun a =>
        if a.startsWith "calcpanic:" then
          let explained := unitsOf (d.st.lps key) == 0 || (a.drop 10).toString == "0"
          if explained then "calcpanic" else "pass"
        else a)
      let op ← parseOp key kind args
      let r := step d.st h op
      some ({ d with st := r.1 }, s!"{r.2.toString} {showLP (r.1.lps key)}")
  | ["add", h, key, minted] => do
      let h ← parseInt h; let m ← parseNat minted
      let r := step d.st h (.add key m)
      some ({ d with st := r.1 }, s!"{r.2.toString} {showLP (r.1.lps key)}")
  | ["obs", key] => some (d, showLP (d.st.lps key))
  | ["chk", "c15.remove", _tag, L, C, h, before, burned, acc] => do
      let L ← parseNat L; let C ← parseNat C; let h ← parseInt h
      let before ← parseRecs before; let burned ← parseNat burned; let acc ← parseBool acc
      some (d, toString (removeOK L C h before burned acc))
  | ["chk", "c15.request", _tag, key, h, u, acc, after] => do
      -- an unlock message the implementation answered: remember it if accepted, then the stored list
      -- must be within the remembered requests
      let h ← parseInt h; let u ← parseNat u; let acc ← parseBool acc; let after ← parseRecs after
      let rq := getReqs d.reqs key
      let rq' := if acc then rq ++ [⟨h, u⟩] else rq
      some ({ d with reqs := (key, rq') :: d.reqs.filter (fun p => p.1 != key) }, toString (genuineOK rq' after))
  | ["chk", "c15.genuine", _tag, key, stored] => do
      let stored ← parseRecs stored
      some (d, toString (genuineOK (getReqs d.reqs key) stored))
  | ["chk", "c15.removereal", _tag, key, L, C, h, before, burned, acc] => do
      let L ← parseNat L; let C ← parseNat C; let h ← parseInt h
      let before ← parseRecs before; let burned ← parseNat burned; let acc ← parseBool acc
      some (d, toString (removeRealOK (getReqs d.reqs key) L C h before burned acc))
  | ["chk", "c02.units", _tag, _pool, pu, provs] => do
      let pu ← parseNat pu
      let ps ← if provs = "-" then some [] else (provs.splitOn ",").mapM parseNat
      some (d, toString (poolUnitsOK pu ps))
  | ["chk", "c02.burn", _tag, before, w, after, acc] => do
      let before ← parseNat before; let w ← parseNat w; let after ← parseNat after; let acc ← parseBool acc
      some (d, toString (burnOK before w after acc))
  | ["chk", "c15.consume", _tag, L, before, after, burned, acc] => do
      let L ← parseNat L
      let before ← parseRecs before; let after ← parseRecs after
      let burned ← parseNat burned; let acc ← parseBool acc
      some (d, toString (consumedOK L before after burned acc))
  | ["chk", "c15.outstanding", _tag, units, unlocks] => do
      let units ← parseNat units; let unlocks ← parseRecs unlocks
      some (d, toString (outstandingOK units unlocks))
  | ["chk", "c15.lockzero", _tag, L, res] => do
      let L ← parseNat L; let res ← parseRes res
      some (d, toString (lockZeroOK L res))
  | ["chk", "c15.once", _tag, key, kind, acc, L, u, burned, after] => do
      let acc ← parseBool acc; let L ← parseNat L; let u ← parseNat u; let burned ← parseNat burned
      let after ← parseRecs after
      let g := getLedger d.ledgers key
      let g' := if kind = "unlock" then g.onUnlock acc u
                else if kind = "removal" then g.onRemoval acc L burned else g
      some ({ d with ledgers := setLedger d.ledgers key g' }, toString (onceOK g' (total after)))
  | _ => none

end Sif.Drv.Unlock
