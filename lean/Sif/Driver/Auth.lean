import Sif.Driver.Util
import Sif.Spec.C08
/-
  Driver for the C08 family `auth` (stateful: threads the model's three role stores).
    cfg admin <role> <addr> | cfg oracle <addr>|- | cfg clp - | cfg clp <n> <addr>*n      → ok
    msg <module> <handler> <signer> [<role> <addr> <canonical form of addr, or ->]       → ok | err
    chk c08.guard.<module>.<handler> tag=… <module> <handler> <signer> <ok|err> <changed> → true | false
    chk c08.removed tag=… <role> <spelling> <still>                                       → true | false
    tx  <n> (<module> <handler> <signer> <role|-> <addr|-> <canon|->)*n                   → ok | err   (all-or-nothing)
    sim <n> (…)*n                                                                         → ok | err   (never changes anything)
    chk c08.stored.<module>.<handler> tag=… <module> <handler> <ok|err> <roles held per raw store|-> <oracle> <clp>
    chk c08.txatomic tag=… <ok|err> <changed>
  Addresses are the spellings the messages carried (upper- or lower-case bech32); the role table is
  keyed by the raw string, signers are compared through their canonical (lower-case) form.
-/
namespace Sif.Drv
open Sif.Auth Sif.AuthTypes Sif.Spec.C08

def parseOutcome : String → Option Outcome
  | "ok" => some .ok
  | "err" => some .err
  | _ => none

def showOutcome : Outcome → String
  | .ok => "ok"
  | .err => "err"

/-- `n` message descriptors of six tokens each: module handler signer role addr canon (`-` = no payload) -/
def parseTxMsgs : Nat → List String → Option (List TxMsg)
  | 0, [] => some []
  | n+1, m :: h :: s :: r :: a :: c :: rest => do
    let ms ← parseTxMsgs n rest
    let payload := if r == "-" then none else some ⟨r, a, if c == "-" then none else some c⟩
    some (⟨m, h, canonAddr s, payload⟩ :: ms)
  | _, _ => none

/-- returns (new state, answer) -/
def handleAuth (st : AuthState) : List String → AuthState × String
  | ["cfg", "admin", role, addr] => ({ st with admin := st.admin.add (role, addr) }, "ok")
  | ["reset"] => (AuthState.empty, "ok")   -- a new world: the cfg lines that follow describe its role stores
  | ["reimport"] => (st, "ok")   -- export → import round trip of the role table: nothing may change
  | ["cfg", "oracle", "-"] => ({ st with oracleAdmin := none }, "ok")
  | ["cfg", "oracle", addr] => ({ st with oracleAdmin := some addr }, "ok")
  | ["cfg", "clp", "-"] => ({ st with clpWhitelist := none }, "ok")
  | "cfg" :: "clp" :: n :: addrs =>
    if n.toNat? == some addrs.length then ({ st with clpWhitelist := some addrs }, "ok") else (st, "bad-op")
  | ["msg", module, name, signer] =>
    let (st', o) := stepMsg st (specHandler module name) (canonAddr signer) none; (st', showOutcome o)
  | ["msg", module, name, signer, role, addr, canon] =>
    let c := if canon == "-" then none else some canon
    let (st', o) := stepMsg st (specHandler module name) (canonAddr signer) (some ⟨role, addr, c⟩); (st', showOutcome o)
  | ["chk", pred, _tag, module, name, signer, res, changed] =>
    if pred.startsWith "c08.guard" then
      match parseOutcome res, parseBool changed with
      | some r, some c => (st, toString (refusedUnchanged st (specHandler module name) (canonAddr signer) r c))
      | _, _ => (st, "bad-op")
    else (st, "bad-op")
  | "tx" :: n :: rest =>
    match n.toNat? >>= fun k => parseTxMsgs k rest with
    | some ms => let (st', o) := stepTx specHandler st ms; (st', showOutcome o)
    | none => (st, "bad-op")
  | "sim" :: n :: rest =>
    match n.toNat? >>= fun k => parseTxMsgs k rest with
    | some ms => let (st', o) := stepSim specHandler st ms; (st', showOutcome o)
    | none => (st, "bad-op")
  | ["chk", "c08.txatomic", _tag, res, changed] =>
    match parseOutcome res, parseBool changed with
    | some r, some c => (st, toString (errUnchanged r c))
    | _, _ => (st, "bad-op")
  | ["chk", pred, _tag, module, name, res, roles, oracle, clp] =>
    if pred.startsWith "c08.stored" then
      match parseOutcome res, parseBool oracle, parseBool clp with
      | some r, some o, some c =>
        let rs := if roles == "-" then [] else roles.splitOn ","
        (st, toString (storedOK (specHandler module name) rs o c r))
      | _, _, _ => (st, "bad-op")
    else (st, "bad-op")
  | ["chk", "c08.removed", _tag, _role, _spelling, still] =>
    match parseBool still with
    | some b => (st, toString (removalEffective b))
    | none => (st, "bad-op")
  | _ => (st, "bad-op")

end Sif.Drv
