import Sif.Driver.Util
import Sif.Spec.C08
/-
  Driver for the C08 family `auth` (stateful: threads the model's three role stores).
    cfg admin <role> <addr> | cfg oracle <addr>|- | cfg clp - | cfg clp <n> <addr>*n      → ok
    msg <module> <handler> <signer> [<role> <addr> <canonical form of addr, or ->]       → ok | err
    chk c08.guard.<module>.<handler> tag=… <module> <handler> <signer> <ok|err> <changed> → true | false
    chk c08.removed tag=… <role> <spelling> <still>                                       → true | false
  Addresses are the spellings the messages carried (upper- or lower-case bech32); the role table is
  keyed by the raw string, signers are compared through their canonical (lower-case) form.
-/
namespace Sif.Drv
open Sif.Auth Sif.AuthTypes Sif.Spec.C08

def parseOutcome : String → Option Outcome
  | "ok" => some .ok
  | "err" => some .err
  | _ => none

def showOutcome : Outcome → String
  | .ok => "ok"
  | .err => "err"

/-- returns (new state, answer) -/
def handleAuth (st : AuthState) : List String → AuthState × String
  | ["cfg", "admin", role, addr] => ({ st with admin := st.admin.add (role, addr) }, "ok")
  | ["cfg", "oracle", "-"] => ({ st with oracleAdmin := none }, "ok")
  | ["cfg", "oracle", addr] => ({ st with oracleAdmin := some addr }, "ok")
  | ["cfg", "clp", "-"] => ({ st with clpWhitelist := none }, "ok")
  | "cfg" :: "clp" :: n :: addrs =>
    if n.toNat? == some addrs.length then ({ st with clpWhitelist := some addrs }, "ok") else (st, "bad-op")
  | ["msg", module, name, signer] =>
    let (st', o) := stepMsg st (specHandler module name) (canonAddr signer) none; (st', showOutcome o)
  | ["msg", module, name, signer, role, addr, canon] =>
    let c := if canon == "-" then none else some canon
    let (st', o) := stepMsg st (specHandler module name) (canonAddr signer) (some ⟨role, addr, c⟩); (st', showOutcome o)
  | ["chk", pred, _tag, module, name, signer, res, changed] =>
    if pred.startsWith "c08.guard" then
      match parseOutcome res, parseBool changed with
      | some r, some c => (st, toString (refusedUnchanged st (specHandler module name) (canonAddr signer) r c))
      | _, _ => (st, "bad-op")
    else (st, "bad-op")
  | ["chk", "c08.removed", _tag, _role, _spelling, still] =>
    match parseBool still with
    | some b => (st, toString (removalEffective b))
    | none => (st, "bad-op")
  | _ => (st, "bad-op")

end Sif.Drv
