import Sif.Driver.Auth
/- `drv_auth`: one operation per line on stdin, one answer line per operation (C08 family `auth`). -/
open Sif.Drv Sif.Auth

partial def loop (h : IO.FS.Stream) (out : IO.FS.Stream) (st : AuthState) : IO Unit := do
  let line ← h.getLine
  if line.isEmpty then return ()
  let toks := (line.trimAscii.toString.splitOn " ").filter (· ≠ "")
  let (st', ans) := handleAuth st toks
  out.putStrLn ans
  loop h out st'

def main : IO Unit := do
  let out ← IO.getStdout
  loop (← IO.getStdin) out AuthState.empty
