import Sif.Driver.Calc
import Sif.Driver.Dist
/-
  `sifdrv`: reads one operation per line on stdin, prints the model's answer, one line per
  operation.  Stateless families are dispatched by their first token.
-/
open Sif.Drv

def dispatch (toks : List String) : String :=
  match handleCalc toks with
  | some s => s
  | none => match handleDist toks with
    | some s => s
    | none => "bad-op"

partial def loop (h : IO.FS.Stream) (out : IO.FS.Stream) : IO Unit := do
  let line ← h.getLine
  if line.isEmpty then return ()
  let toks := (line.trimAscii.toString.splitOn " ").filter (· ≠ "")
  out.putStrLn (dispatch toks)
  loop h out

def main : IO Unit := do
  let out ← IO.getStdout
  loop (← IO.getStdin) out
