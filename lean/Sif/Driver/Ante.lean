import Sif.Driver.Util
import Sif.Spec.C19
/-
  Driver for the C19 families (`antefee`, `antecom`, `antetx`).  Line grammar:
    fee <propFee> <fees> <msgs>                       → ok | ok.lowgas | err
    com <total> <vals> <msgs>                         → ok | err | panic
    chk c19.fee.<shape> tag=… <acc> <propFee> <fees> <msgs>   → true | false
    chk c19.com.<shape> tag=… <acc> <total> <vals> <msgs>
    chk c19.paid.<shape> tag=… <propFee> <paid> <msgs>
    chk c19.effcom.<shape> tag=… <rate>
    chk c19.effpow.<shape> tag=… <tokensAfter> <totalAfter>
  (the predicate name carries the input shape so that bin/check reports the first failure of
   each shape separately)
  <fees> = n (denom amt)*n ; <vals> = n (id tokens)*n ; <msgs> = n tree*n ;
  tree = X n tree*n | L url o | L url cv r val value | L url ev r|- | L url dg val amt | L url rd src dst amt
-/
namespace Sif.Drv
open Sif Sif.Ante Sif.Spec.C19

mutual
partial def parseMsg : List String → Option (Msg × List String)
  | "X" :: n :: rest => do
      let n ← parseNat n
      let (ms, rest) ← parseMsgs n rest
      some (.exec ms, rest)
  | "L" :: url :: "o" :: rest => some (.leaf ⟨url, .other⟩, rest)
  | "L" :: url :: "cv" :: r :: v :: a :: rest => do some (.leaf ⟨url, .createVal (← parseInt r) v (← parseInt a)⟩, rest)
  | "L" :: url :: "ev" :: "-" :: rest => some (.leaf ⟨url, .editVal none⟩, rest)
  | "L" :: url :: "ev" :: r :: rest => do some (.leaf ⟨url, .editVal (some (← parseInt r))⟩, rest)
  | "L" :: url :: "dg" :: v :: a :: rest => do some (.leaf ⟨url, .delegate v (← parseInt a)⟩, rest)
  | "L" :: url :: "rd" :: s :: d :: a :: rest => do some (.leaf ⟨url, .redelegate s d (← parseInt a)⟩, rest)
  | _ => none
partial def parseMsgs : Nat → List String → Option (List Msg × List String)
  | 0, rest => some ([], rest)
  | n+1, toks => do
      let (m, rest) ← parseMsg toks
      let (ms, rest) ← parseMsgs n rest
      some (m :: ms, rest)
end

def parsePairs : Nat → List String → Option (List (String × Int) × List String)
  | 0, rest => some ([], rest)
  | n+1, k :: v :: rest => do
      let v ← parseInt v
      let (ps, rest) ← parsePairs n rest
      some ((k, v) :: ps, rest)
  | _, _ => none

def parseCounted {α} (f : Nat → List String → Option (α × List String)) : List String → Option (α × List String)
  | n :: rest => do f (← parseNat n) rest
  | [] => none

def parseTxTail (toks : List String) : Option Tx := do
  let (fees, rest) ← parseCounted parsePairs toks
  let (ms, rest) ← parseCounted parseMsgs rest
  if rest.isEmpty then some ⟨ms, fees⟩ else none

def parseComTail (toks : List String) : Option (StakeEnv × List Msg) := do
  match toks with
  | total :: rest =>
    let total ← parseInt total
    let (vals, rest) ← parseCounted parsePairs rest
    let (ms, rest) ← parseCounted parseMsgs rest
    if rest.isEmpty then some (⟨total, vals⟩, ms) else none
  | [] => none

def showFee : FeeRes → String
  | .ok => "ok" | .okLowGas => "ok.lowgas" | .err => "err"

def showCom : M Bool → String
  | .ok true => "ok" | .ok false => "err" | .error _ => "panic"

def handleAnte : List String → Option String
  | "fee" :: p :: rest => do
      let p ← parseInt p
      let tx ← parseTxTail rest
      some (showFee (feeDecide genFeeCfg p tx))
  | "com" :: rest => do
      let (env, ms) ← parseComTail rest
      some (showCom (comDecide genComCfg env ms))
  | "chk" :: pred :: _tag :: rest =>
      if pred.startsWith "c19.fee" then
        match rest with
        | acc :: p :: rest => do
          let acc ← parseBool acc; let p ← parseInt p
          let tx ← parseTxTail rest
          some (toString (feeOK acc p tx))
        | _ => none
      else if pred.startsWith "c19.com" then
        match rest with
        | acc :: rest => do
          let acc ← parseBool acc
          let (env, ms) ← parseComTail rest
          some (toString (stakingOK acc docMinCommission docMaxVotingPower env ms))
        | _ => none
      else if pred.startsWith "c19.paid" then
        match rest with
        | p :: paid :: rest => do
          let p ← parseInt p; let paid ← parseInt paid
          let (ms, rest) ← parseCounted parseMsgs rest
          if rest.isEmpty then some (toString (paidOK p paid ms)) else none
        | _ => none
      else if pred.startsWith "c19.effcom" then
        match rest with
        | [rate] => do some (toString (commissionEffectOK docMinCommission (← parseInt rate)))
        | _ => none
      else if pred.startsWith "c19.effpow" then
        match rest with
        | [tok, total] => do some (toString (powerEffectOK docMaxVotingPower (← parseInt tok) (← parseInt total)))
        | _ => none
      else none
  | _ => none

end Sif.Drv
