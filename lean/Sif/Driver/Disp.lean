import Sif.Driver.Util
import Sif.Spec.C11
import Sif.Spec.C20
import Sif.Generated.DispConsts
/-
  Driver side of family `disp` (C11): threads the model chain through the operation lines and
  evaluates the Sif/Spec/C11 predicates on dumps of the implementation's state.
-/
namespace Sif.Drv
open Sif Sif.Disp Sif.Spec.C11

structure DispSt where
  cfg : ChainCfg
  c : Chain

/-- bech32 accepts an all-lower-case or an all-upper-case spelling -/
def validAddrModel (a : Addr) : Bool :=
  ("sif1".toList.isPrefixOf a && a.all (fun ch => ch.isDigit || ch.isLower)) ||
  ("SIF1".toList.isPrefixOf a && a.all (fun ch => ch.isDigit || ch.isUpper))

def canonAddr (a : Addr) : Addr := a.map Char.toLower

def mkCfg (module : Addr) (blockedList : List Addr) : ChainCfg :=
  { disp := { module := module, blocked := fun a => blockedList.contains a, validAddr := validAddrModel, canon := canonAddr },
    mint := { cap := Sif.Generated.DispConsts.maxMintAmount, perBlock := Sif.Generated.DispConsts.mintAmountPerBlock,
              denom := "rowan".toList, ecoPool := Sif.Generated.DispConsts.ecoPool.toList, module := module },
    maxRecords := Sif.Generated.DispConsts.maxRecordsPerBlock }

def DispSt.init : DispSt :=
  { cfg := mkCfg "dispensation".toList [], c := { height := 1, st := DispState.empty, counter := some 0 } }

/-! parsing -/

def parseList (s : String) (sep : String) : List String :=
  if s = "-" || s = "" then [] else s.splitOn sep

def parseCoin (s : String) : Option (Denom × Nat) :=
  match s.splitOn ":" with
  | [d, n] => (parseNat n).map fun n => (d.toList, n)
  | _ => none

def parseCoins (s : String) : Option Coins := (parseList s ",").mapM parseCoin

def parseDType (s : String) : DType :=
  if s = "1" then .airdrop else if s = "2" then .validatorSubsidy else if s = "3" then .liquidityMining else .unspecified

/-- record dump: name|type|rcpt|coins|runner|start|done -/
def parseRec (s : String) : Option Rec :=
  match s.splitOn "|" with
  | [name, t, rcpt, coins, runner, st, dn] => do
      let coins ← parseCoins coins; let st ← parseInt st; let dn ← parseInt dn
      some { name := name.toList, typ := parseDType t, rcpt := rcpt.toList, coins := coins, runner := runner.toList, start := st, done := dn }
  | _ => none

/-- a dumped record store, in the order the implementation iterated it (not re-sorted) -/
def parseStore (s : String) : Option (Store Rec) :=
  (parseList s ";").mapM fun x => (parseRec x).map fun r => (r.key, r)

def parseKeyCoins (s : String) : Option (List (Key × Coins)) :=
  (parseList s ";").mapM fun x =>
    match x.splitOn "|" with
    | [name, t, rcpt, coins] => (parseCoins coins).map fun c => (recordKey name.toList (parseDType t) (rcpt.toList.map Char.toLower), c)
    | _ => none

def parseAddrCoins (s : String) : Option (List (Addr × Coins)) :=
  (parseList s ";").mapM fun x =>
    match x.splitOn "|" with
    | [a, coins] => (parseCoins coins).map fun c => (a.toList, c)
    | _ => none

def parseOutputs : List String → Option (List Output)
  | [] => some []
  | a :: c :: rest => do
      let c ← parseCoins c
      let r ← parseOutputs rest
      some ({ addr := a.toList, coins := c } :: r)
  | _ => none

/-! printing -/

def showCoins (c : Coins) : String :=
  if c.isEmpty then "-" else ",".intercalate (c.map fun (d, n) => s!"{String.ofList d}:{n}")

def showRec (r : Rec) : String :=
  s!"{String.ofList r.name}|{r.typ.digit}|{String.ofList r.rcpt}|{showCoins r.coins}|{String.ofList r.runner}|{r.start}|{r.done}"

def showStore (st : Store Rec) : String :=
  if st.isEmpty then "-" else ";".intercalate (st.map fun p => showRec p.2)

def showKeys (st : Store Unit) : String :=
  if st.isEmpty then "-" else ";".intercalate (st.map fun p => String.ofList p.1)

def showStoreK (st : Store Rec) : String :=
  if st.isEmpty then "-" else ";".intercalate (st.map fun p => String.ofList p.1 ++ "#" ++ showRec p.2)

def showObs (s : DispState) : String :=
  s!"pending={showStoreK s.pending} completed={showStoreK s.completed} failed={showStoreK s.failed} dists={showKeys s.dists} claims={showKeys s.claims}"

def lookupKC (l : List (Key × Coins)) (k : Key) (d : Denom) : Nat :=
  l.foldl (fun acc p => if p.1 = k then acc + coinsGet p.2 d else acc) 0

def stripPrefix (p s : String) : Option String :=
  if s.startsWith p then some ((s.drop p.length).toString) else none

def handleDisp (st : DispSt) : List String → Option (DispSt × String)
  | ["d.cfg", modAddr, blocked] =>
      let cfg := mkCfg modAddr.toList ((parseList blocked ",").map String.toList)
      some ({ cfg := cfg, c := { height := 1, st := DispState.empty, counter := some 0 } },
        s!"max={cfg.maxRecords} per={cfg.mint.perBlock}")
  | ["d.fund", a, coins] => do
      let coins ← parseCoins coins
      let (c', res, _) := step st.cfg st.c (.fund a.toList coins)
      some ({ st with c := c' }, res.toString)
  | ["d.transfer", f, t, coins] => do
      let coins ← parseCoins coins
      let (c', res, _) := step st.cfg st.c (.transfer f.toList t.toList coins)
      some ({ st with c := c' }, res.toString)
  | ["d.begin"] =>
      let (c', res, _) := step st.cfg st.c .beginBlock
      some ({ st with c := c' }, s!"{res.toString} h={c'.height} c={match c'.counter with | some n => toString n | none => "none"}")
  | "d.create" :: distributor :: runner :: t :: outs => do
      let outs ← parseOutputs outs
      let m : MsgCreate := { distributor := distributor.toList, runner := runner.toList, typ := parseDType t, outputs := outs }
      let (c', res, _) := step st.cfg st.c (.tx (.create m))
      some ({ st with c := c' }, res.toString)
  | ["d.run", runner, name, t, count] => do
      let count ← parseInt count
      let m : MsgRun := { runner := runner.toList, name := name.toList, typ := parseDType t, count := count }
      let (c', res, _) := step st.cfg st.c (.tx (.run m))
      some ({ st with c := c' }, res.toString)
  | ["d.claim", user, t] =>
      let m : MsgClaim := { user := user.toList, typ := parseDType t }
      let (c', res, _) := step st.cfg st.c (.tx (.claim m))
      some ({ st with c := c' }, res.toString)
  | ["d.obs"] => some (st, showObs st.c.st)
  | ["d.bal", a, d] => some (st, toString (st.c.st.bank.bal a.toList d.toList))
  | ["chk", "c11.escrow", _tag, denoms, bals, pending, failed] => do
      -- bals: module balance per denom, same order as denoms
      let ds := (parseList denoms ",").map String.toList
      let bs ← (parseList bals ",").mapM parseNat
      let pending ← parseStore (← stripPrefix "pending=" pending)
      let failed ← parseStore (← stripPrefix "failed=" failed)
      let bank := (ds.zip bs).foldl (fun b (p : Denom × Nat) => b.setBal st.cfg.disp.module p.1 p.2) Bank.empty
      let s : DispState := { DispState.empty with pending := pending, failed := failed, bank := bank }
      some (st, toString (escrowCoversOn ds st.cfg.disp.module s))
  | ["chk", "c11.ledger", _tag, denoms, created, paid, pending, failed, completed] => do
      let ds := (parseList denoms ",").map String.toList
      let created ← parseKeyCoins (← stripPrefix "created=" created)
      let paid ← parseKeyCoins (← stripPrefix "paid=" paid)
      let pending ← parseStore (← stripPrefix "pending=" pending)
      let failed ← parseStore (← stripPrefix "failed=" failed)
      let completed ← parseStore (← stripPrefix "completed=" completed)
      let s : DispState := { DispState.empty with pending := pending, failed := failed, completed := completed }
      let ck := fun (st : Store Rec) => st.map fun p => canonKey canonAddr p.2
      let ks := (created.map (·.1)) ++ (paid.map (·.1)) ++ ck pending ++ ck failed ++ ck completed
      some (st, toString (ledgerObsOnC canonAddr ks.eraseDups ds (lookupKC created) (lookupKC paid) s))
  | ["chk", "c11.run", _tag, denoms, runner, name, t, count, pre, post, postFailed, deltas] => do
      let ds := (parseList denoms ",").map String.toList
      let count ← parseInt count
      let m : MsgRun := { runner := runner.toList, name := name.toList, typ := parseDType t, count := count }
      let pre ← parseStore (← stripPrefix "pre=" pre)
      let post ← parseStore (← stripPrefix "post=" post)
      let pf ← parseStore (← stripPrefix "postfailed=" postFailed)
      let deltas ← parseAddrCoins (← stripPrefix "deltas=" deltas)
      some (st, toString (runObsOK canonAddr m pre post pf deltas ds))
  | ["chk", "c11.leavers", _tag, denoms, pre, post, postFailed, deltas] => do
      let ds := (parseList denoms ",").map String.toList
      let pre ← parseStore (← stripPrefix "pre=" pre)
      let post ← parseStore (← stripPrefix "post=" post)
      let pf ← parseStore (← stripPrefix "postfailed=" postFailed)
      let deltas ← parseAddrCoins (← stripPrefix "deltas=" deltas)
      some (st, toString (leaversOK canonAddr pre post pf deltas ds))
  | ["chk", "c11.create", _tag, denoms, ok, outs, dist, mod] => do
      let ds := (parseList denoms ",").map String.toList
      let ok ← parseBool ok
      let outs ← (parseList (← stripPrefix "outs=" outs) ";").mapM parseCoins
      let dist ← parseCoins (← stripPrefix "dist=" dist)
      let mod ← parseCoins (← stripPrefix "mod=" mod)
      some (st, toString (createObsOK ok outs dist mod ds))
  | ["chk", "c20.txsupply", _tag, before, after] => do
      let b ← (parseList before ",").mapM parseNat
      let a ← (parseList after ",").mapM parseNat
      some (st, toString (Sif.Spec.C20.txSupplyOK b a))
  | ["chk", "c11.claims", _tag, claims, paidRecs] => do
      let keys := (parseList ((← stripPrefix "claims=" claims)) ";").map String.toList
      let paid ← parseStore (← stripPrefix "paid=" paidRecs)
      some (st, toString (claimsPerAccountOK canonAddr keys (paid.map (·.2))))
  | _ => none

end Sif.Drv
