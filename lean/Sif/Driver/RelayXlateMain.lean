import Sif.Driver.RelayXlate
/-
  `drv_relayxlate`: one operation per line on stdin, the model's answer (or the Lean predicate's verdict
  for `chk` lines) per line on stdout.  Family `relayxlate` (C16).
-/
def dispatchRelayXlate (toks : List String) : String :=
  match Sif.Drv.RelayXlate.handle toks with
  | some s => s
  | none => "bad-op"

partial def loopRelayXlate (h : IO.FS.Stream) (out : IO.FS.Stream) : IO Unit := do
  let line ← h.getLine
  if line.isEmpty then return ()
  let toks := (line.trimAscii.toString.splitOn " ").filter (· ≠ "")
  out.putStrLn (dispatchRelayXlate toks)
  loopRelayXlate h out

def main : IO Unit := do
  let out ← IO.getStdout
  loopRelayXlate (← IO.getStdin) out
