import Sif.Proofs.C02Hooks
import Sif.Proofs.C02Payout
import Sif.Model.Clp.Machine
import Sif.Spec.C01
/-
  C02 — Pool units equal the sum of provider units; removals never exceed holdings.
  Property theorems only.  Quantifier: every history of AMM messages, hooks, heights and policy
  changes, any number of providers, any magnitudes.
-/
namespace Sif.Props.C02
open Sif Sif.Clp Sif.AList

/-- the one excluded step (finding F17): an `AddLiquidity` that hits a pool with an empty side -/
def OpOK (s : St) : Op → Prop
  | .add _ sym _ _ => ∀ p, s.getPool sym = some p → p.nBal + p.nLiab ≠ 0 ∧ p.eBal + p.eLiab ≠ 0
  | _ => True

def RunOK : St → List Op → Prop
  | _, [] => True
  | s, op :: rest => OpOK s op ∧ RunOK (step s op) rest

/-- the full statement of the invariant clause of C02 -/
def reachable_units_Statement : Prop := ∀ ops : List Op, UnitsInv (run {} ops)

/-- one step of the machine preserves "pool units = Σ provider units ∧ every provider record has a
    pool", for every operation except an add into a pool with an empty side -/
theorem step_units (s : St) (op : Op) (hinv : UnitsInv s) (hok : OpOK s op) : UnitsInv (step s op) := by
  cases op with
  | create a sym n e =>
    simp only [step, txR]; split
    · exact createPool_units hinv ‹_›
    · exact hinv
  | add a sym n e =>
    simp only [step, txR]; split
    · exact addLiquidity_units hinv ‹_› hok
    · exact hinv
  | remove a sym w =>
    simp only [step, txR]; split
    · exact removeLiquidity_units hinv ‹_›
    · exact hinv
  | removeUnits a sym u =>
    simp only [step, txR]; split
    · exact removeLiquidityUnits_units hinv ‹_›
    · exact hinv
  | swap a sent recv amt mn =>
    simp only [step]; split
    · exact swap_units hinv ‹_›
    · exact hinv
  | decommission a sym =>
    simp only [step, txR]; split
    · exact decommissionPool_units hinv ‹_›
    · exact hinv
  | bucket a d n =>
    simp only [step, txR]; split
    · exact addToBucket_units hinv ‹_›
    · exact hinv
  | endBlock =>
    simp only [step, hookM]; split
    · exact (endBlocker_upres ‹_›).unitsInv hinv
    · exact hinv
  | epochEnd =>
    simp only [step, hookM]; split
    · exact afterEpochEnd_units hinv ‹_›
    · exact hinv
  | setHeight h => exact hinv.congr rfl rfl
  | setParams p => exact hinv.congr rfl rfl
  | fund a d n => exact hinv.congr rfl rfl

/-- every reachable state satisfies the invariant, for histories of any length (induction over
    the operation list), provided no add hits an empty-sided pool (F17) -/
theorem reachable_units_partial (ops : List Op) (s : St) (hinv : UnitsInv s) (hok : RunOK s ops) :
    UnitsInv (run s ops) := by
  induction ops generalizing s with
  | nil => exact hinv
  | cons op rest ih =>
    unfold run; simp only [List.foldl]
    exact ih (step s op) (step_units s op hinv hok.1) hok.2

theorem reachable_units_from_genesis (ops : List Op) (hok : RunOK {} ops) : UnitsInv (run {} ops) :=
  reachable_units_partial ops {} unitsInv_init hok

/-- a removal burns exactly `lp.units − left` units, never more than the provider holds -/
theorem removal_burns_at_most_holdings {pool pool' : Pool} {lu left wN wE : Nat}
    (h : poolAfterRemoval pool lu left wN wE = .ok pool') :
    pool'.units = pool.units - lu + left ∧ lu ≤ pool.units :=
  poolAfterRemoval_units h

end Sif.Props.C02

namespace Sif.Props.C02
open Sif Sif.Clp Sif.AList

/-- **Payout bound, removal by units.**  Removing `w` of the pool's `P` units pays at most the
    pro-rata fraction w/P of each depth, up to one base unit plus 10^-15 relative — all magnitudes. -/
theorem removeUnits_payout_le_prorata {Pu nD eD lu w n e left : Nat} (hw : 0 < w) (hwP : w ≤ Pu)
    (h : calculateWithdrawalFromUnits Pu nD eD lu w = .ok (n, e, left)) :
    (n : ℚ) ≤ (nD : ℚ) * w / Pu * (1 + 1 / 10 ^ 15) + 1 ∧ (e : ℚ) ≤ (eD : ℚ) * w / Pu * (1 + 1 / 10 ^ 15) + 1 :=
  withdrawFromUnits_le_prorata hw hwP h

/-- **Payout bound, removal by basis points.**  With `burned = lpUnits − lpUnitsLeft` the units the
    removal burns (never more than the provider holds), both payouts are at most depth·burned/P, up
    to one base unit plus 10^-15 relative. -/
theorem removeBps_payout_le_prorata {Pu nD eD lu w n e left : Nat} (hw0 : 0 < w) (hw : w ≤ 10000) (hlu : lu ≤ Pu)
    (h : calculateWithdrawal Pu nD eD lu w = .ok (n, e, left)) :
    left ≤ lu ∧
    (n : ℚ) ≤ (nD : ℚ) * ((lu - left : Nat) : ℚ) / Pu * (1 + 1 / 10 ^ 15) + 1 ∧
    (e : ℚ) ≤ (eD : ℚ) * ((lu - left : Nat) : ℚ) / Pu * (1 + 1 / 10 ^ 15) + 1 :=
  withdraw_le_prorata hw0 hw hlu h

/-- decidable version of `OpOK`/`RunOK` (used for the non-vacuity example and by the judge) -/
def opOKb (s : St) : Op → Bool
  | .add _ sym _ _ => match s.getPool sym with
      | none => true
      | some p => p.nBal + p.nLiab ≠ 0 && p.eBal + p.eLiab ≠ 0
  | _ => true

def runOKb : St → List Op → Bool
  | _, [] => true
  | s, op :: rest => opOKb s op && runOKb (step s op) rest

theorem opOK_of_b {s : St} {op : Op} (h : opOKb s op = true) : OpOK s op := by
  cases op <;> simp only [OpOK] <;> try trivial
  rename_i a sym n e
  intro p hp
  simp only [opOKb, hp, Bool.and_eq_true, decide_eq_true_eq] at h
  exact h

theorem runOK_of_b : ∀ (ops : List Op) (s : St), runOKb s ops = true → RunOK s ops := by
  intro ops
  induction ops with
  | nil => intro s _; trivial
  | cons op rest ih =>
    intro s h
    simp only [runOKb, Bool.and_eq_true] at h
    exact ⟨opOK_of_b h.1, ih _ h.2⟩

/-- a concrete non-trivial history (create, asymmetric add by a second provider, swap, removal)
    meets the hypothesis of `reachable_units_partial` -/
def sampleOps : List Op :=
  [.setParams { registered := ["rowan", "cusdc"] },
   .fund "alice" "rowan" (10^30), .fund "alice" "cusdc" (10^30), .fund "bob" "rowan" (10^30), .fund "bob" "cusdc" (10^30),
   .create "alice" "cusdc" (10^21) (2 * 10^21),
   .add "bob" "cusdc" (10^20) (10^19),
   .swap "bob" "rowan" "cusdc" (10^18) 0,
   .removeUnits "bob" "cusdc" (10^19)]

example : runOKb {} sampleOps = true := by decide +kernel

end Sif.Props.C02

namespace Sif.Props.C02
open Sif Sif.Clp
/- the sample history really creates a pool with two providers (non-trivial instance) -/
example : ((run {} sampleOps).getPool "cusdc").map (·.units) = some 1041354635416309115111 := by decide +kernel
example : ((run {} sampleOps).lpsOf "cusdc").map (fun e => (e.1, e.2.units)) =
    [("alice", 1000000000000000000000), ("bob", 41354635416309115111)] := by decide +kernel
end Sif.Props.C02
