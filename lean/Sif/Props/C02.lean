import Sif.Spec.C01
/-
  C02 — pool units = Σ provider units.  (theorems are added below as they are proved)
-/
namespace Sif.Props.C02
open Sif Sif.Clp Sif.Spec.C01

theorem unitsOK_init : unitsOK ({} : St) = true := by decide

end Sif.Props.C02
