import Sif.Spec.C06
/-
  C06 — each bridged Ethereum event is credited at most once, as agreed.  Property theorems only.
-/
namespace Sif.Props.C06
open Sif.Oracle Sif.Bank Sif.EthBridge Sif.Spec.C06

/-- A claim message that does not pass `ValidateBasic` changes nothing. -/
theorem invalid_claim_no_change (ord : List Group → List Group) (vals : List Validator) (s : BState) (m : ClaimMsg)
    (h : claimValidate m = false) : (deliver ord vals s (.claim m)).1 = s := by
  simp [deliver, validateBasic, h]

example : claimValidate ⟨0, 1, -1, "", 0, 0, "", "", 0⟩ = false := by decide

end Sif.Props.C06
