import Sif.Proofs.C06
import Sif.Props.C05
import Std.Data.String.ToInt
/-
  C06 — each bridged Ethereum event is credited at most once, as agreed.
  Property theorems only (helpers: Sif/Proofs/C06.lean).  Quantifiers: every state (any balances, any store of
  prophecies), every validator set, every claim message (any amount incl. zero / negative / huge, any symbol,
  any receiver incl. blocked module accounts, any claim type), every iteration order of the claim map, every
  history of messages and validator-set changes.
-/
namespace Sif.Props.C06
open Sif.Oracle Sif.Bank Sif.EthBridge Sif.Spec.C06 Sif.Generated

/-- ProcessSuccessfulClaim is called only under `status.Text == SUCCESS`, exactly once (regenerated fact) -/
theorem facts_credit_guard :
    BridgeConsts.creditGuard = "status.Text == oracletypes.StatusText_STATUS_TEXT_SUCCESS" ∧
    BridgeConsts.peggedCoinPrefix = "c" := by decide

/-- **One claim message, all clauses at once** (`creditStep` is also what the driver evaluates on the
    implementation's balances): coins move iff the message was accepted and turned its prophecy SUCCESS in this very
    step — then exactly the credit of the final claim (receiver, amount, `"c" ++ symbol` for a lock / `symbol` for a
    burn) is added to the receiver and to the supply and nothing else changes (frame) — otherwise no balance and
    no supply changes.  For every list of accounts × denominations. -/
theorem credit_step (ord : List Group → List Group) (vals : List Validator) (s : BState) (m : ClaimMsg)
    (keys : List (Nat × String)) (denoms : List String) :
    creditStep (deliver ord vals s (.claim m)).2.isOk
      (statusOf s.oracle (claimOf m).id) (statusOf (deliver ord vals s (.claim m)).1.oracle (claimOf m).id)
      (finalOf (deliver ord vals s (.claim m)).1.oracle (claimOf m).id)
      s.bank.bal (deliver ord vals s (.claim m)).1.bank.bal s.bank.supply (deliver ord vals s (.claim m)).1.bank.supply
      keys denoms = true := by
  rcases deliver_claim_cases ord vals s m with ⟨f, hd⟩ | ⟨s', status, hc, hd⟩
  · rw [hd]
    simp [creditStep, Out.isOk, sameOn]
  · rw [hd]
    obtain ⟨o, fin, hp, eo, _, _, _, _, hcase⟩ := createClaim_ok hc
    obtain ⟨sb, sa, fa⟩ := processClaim_status hp
    simp only [Out.isOk]
    rw [eo, sb, sa, fa]
    rcases hcase with ⟨hs, hsucc⟩ | ⟨hs, hsame⟩
    · obtain ⟨c, hcred, _, hbal, hsup, _⟩ := processSuccessfulClaim_ok hsucc
      subst hs
      unfold creditStep
      rw [if_pos (by decide)]
      simp only [hcred, creditedOn, Bool.and_eq_true, List.all_eq_true, beq_iff_eq]
      constructor
      · intro k _
        have := hbal k.1 k.2
        simp only [at_] at this
        simpa using this
      · intro d _
        have := hsup d
        simp only [atD] at this
        simpa using this
    · have hne : (status == StatusText.success) = false := by simpa using hs
      subst hsame
      simp [creditStep, hne, sameOn]

/-- two validators of power 50, both whitelisted -/
def exVals : List Validator := [⟨0, 50, true, true⟩, ⟨1, 50, true, true⟩]
def exState : BState := { BState.init with oracle := ⟨[0, 1], [], none⟩ }
def exClaim (v recv : Nat) : Msg :=
  .claim ⟨v, 1, 5, "0x1111111111111111111111111111111111111111", recv, 1000, "usdc", "0x2222222222222222222222222222222222222222", 2, 0⟩

/-- non-vacuity: the second of two agreeing claims credits 1000 cusdc to account 4, the first credits nothing -/
example : (deliver id exVals exState (exClaim 0 4)).1.bank.bal 4 "cusdc" = 0 ∧
    (deliver id exVals (deliver id exVals exState (exClaim 0 4)).1 (exClaim 1 4)).1.bank.bal 4 "cusdc" = 1000 ∧
    (deliver id exVals (deliver id exVals exState (exClaim 0 4)).1 (exClaim 1 4)).2 = .claimed .success := by decide

/-- Credit only on the transition: a claim message whose result is anything but "accepted, SUCCESS" leaves the whole
    bank (balances, supply, accounts) and the peggy-token list untouched. -/
theorem credit_only_on_transition (ord : List Group → List Group) (vals : List Validator) (s : BState) (m : ClaimMsg)
    (h : (deliver ord vals s (.claim m)).2 ≠ .claimed .success) :
    (deliver ord vals s (.claim m)).1.bank = s.bank ∧ (deliver ord vals s (.claim m)).1.peggy = s.peggy := by
  rcases deliver_claim_cases ord vals s m with ⟨f, hd⟩ | ⟨s', status, hc, hd⟩
  · rw [hd]; exact ⟨rfl, rfl⟩
  · rw [hd] at h ⊢
    obtain ⟨o, fin, _, _, _, _, _, _, hcase⟩ := createClaim_ok hc
    rcases hcase with ⟨hs, _⟩ | ⟨_, hsame⟩
    · subst hs; exact (h rfl).elim
    · subst hsame; exact ⟨rfl, rfl⟩

/-- …and SUCCESS is reported only by the step that moves the prophecy from pending (or absent) to SUCCESS, which by
    `Props.C05.final_is_final` happens at most once per prophecy id. -/
theorem success_is_a_transition (ord : List Group → List Group) (vals : List Validator) (s : BState) (m : ClaimMsg)
    (h : (deliver ord vals s (.claim m)).2 = .claimed .success) :
    statusOf s.oracle (claimOf m).id = .pending ∧ statusOf (deliver ord vals s (.claim m)).1.oracle (claimOf m).id = .success := by
  rcases deliver_claim_cases ord vals s m with ⟨f, hd⟩ | ⟨s', status, hc, hd⟩
  · rw [hd] at h; cases h
  · rw [hd] at h ⊢
    cases h
    obtain ⟨o, fin, hp, eo, _⟩ := createClaim_ok hc
    obtain ⟨sb, sa, _⟩ := processClaim_status hp
    rw [eo]
    exact ⟨sb, sa⟩

/-- The credit matches the final claim: on "accepted, SUCCESS" the receiver named in the final content gets exactly
    its amount in the pegged (lock) or native (burn) denomination, supply grows by the same, nothing else moves;
    the receiver is not a blocked (module) account. -/
theorem credit_matches_final (ord : List Group → List Group) (vals : List Validator) (s : BState) (m : ClaimMsg)
    (h : (deliver ord vals s (.claim m)).2 = .claimed .success) :
    ∃ c, creditOf (finalOf (deliver ord vals s (.claim m)).1.oracle (claimOf m).id) = some c ∧ blocked c.1 = false ∧
      (∀ a d, (deliver ord vals s (.claim m)).1.bank.bal a d = s.bank.bal a d + (if a = c.1 ∧ d = c.2.1 then c.2.2 else 0)) ∧
      (∀ d, (deliver ord vals s (.claim m)).1.bank.supply d = s.bank.supply d + (if d = c.2.1 then c.2.2 else 0)) := by
  rcases deliver_claim_cases ord vals s m with ⟨f, hd⟩ | ⟨s', status, hc, hd⟩
  · rw [hd] at h; cases h
  · rw [hd] at h ⊢
    cases h
    obtain ⟨o, fin, hp, eo, _, _, _, _, hcase⟩ := createClaim_ok hc
    obtain ⟨_, _, fa⟩ := processClaim_status hp
    rcases hcase with ⟨_, hsucc⟩ | ⟨hs, _⟩
    · obtain ⟨c, hcred, hb, hbal, hsup, _⟩ := processSuccessfulClaim_ok hsucc
      refine ⟨c, ?_, hb, hbal, hsup⟩
      simp only
      rw [eo, fa]; exact hcred
    · exact (hs rfl).elim

/-- **At most once, as agreed, over whole histories.**  Take any history of messages (claims by any validators
    about any events, locks, burns, administrative messages) and validator-set changes, from any state.  The
    credits performed for one prophecy id are either none, or exactly one — and then the prophecy ends SUCCESS
    and that credit is the credit of its final claim.  (`credit_step` says the bank moves by exactly these credits.) -/
theorem credited_at_most_once (ord : List Group → List Group) (steps : List Step) (w : World) (id : String) :
    creditsOf ord w steps id = [] ∨
    ∃ c, creditsOf ord w steps id = [c] ∧ statusOf (run ord w steps).s.oracle id = .success ∧
      creditOf (finalOf (run ord w steps).s.oracle id) = some c := by
  induction steps generalizing w with
  | nil => left; rfl
  | cons st rest ih =>
    have hrun : run ord w (st :: rest) = run ord (stepWorld ord w st) rest := rfl
    rcases creditFor_cases ord w st id with e | ⟨m, c, hst, hid, hs, hcr, e⟩
    · rcases ih (stepWorld ord w st) with h | ⟨c, h1, h2, h3⟩
      · left; simp only [creditsOf]; rw [e, h]; rfl
      · right; refine ⟨c, ?_, ?_, ?_⟩
        · simp only [creditsOf]; rw [e, h1]; rfl
        · rw [hrun]; exact h2
        · rw [hrun]; exact h3
    · right
      have hafter : statusOf (stepWorld ord w st).s.oracle id = .success := by
        rw [hst]; subst hid; exact (credit_needs_pending hs).2
      have hnp : statusOf (stepWorld ord w st).s.oracle id ≠ .pending := by rw [hafter]; decide
      obtain ⟨k1, k2⟩ := run_nonpending_stable ord rest (stepWorld ord w st) id hnp
      obtain ⟨c1, c2⟩ := statusOf_congr (o' := (run ord (stepWorld ord w st) rest).s.oracle) k1
      refine ⟨c, ?_, ?_, ?_⟩
      · simp only [creditsOf]; rw [e, k2]; rfl
      · rw [hrun, c1]; exact hafter
      · rw [hrun, c2, hst]; exact hcr

/-- non-vacuity: three claims (two agreeing validators, then a late one) credit exactly once -/
example : creditsOf id ⟨exVals, exState⟩ [.msg (exClaim 0 4), .msg (exClaim 1 4), .msg (exClaim 0 4), .msg (exClaim 1 4)]
    "150x1111111111111111111111111111111111111111" = [(4, "cusdc", 1000)] := by decide

/-- **The credit is what the validators' messages said.**  When a claim message is accepted and reports SUCCESS, what
    moves in the bank is the credit of a content that (a) is the recorded claim — i.e. the content of the accepted claim
    message — of validators holding 70 % of the current whitelisted bonded power, with (b) receiver, amount and symbol
    exactly as in those messages (`creditFromMessages`, also evaluated by the driver on the implementation with the
    contents of the messages it sent).  `vclaims` of the stored prophecy is the ledger of the accepted messages' contents. -/
theorem credit_supported_by_messages (ord : List Group → List Group) (hord : ∀ l, (ord l).Perm l)
    (vals : List Validator) (s : BState) (m : ClaimMsg) (hv : Spec.C05.ValsWF vals) (hwf : OStateWF s.oracle)
    (h : (deliver ord vals s (.claim m)).2 = .claimed .success)
    (keys : List (Nat × String)) (denoms : List String) :
    ∃ p', getProphecy (deliver ord vals s (.claim m)).1.oracle.prophecies (claimOf m).id = some p' ∧
      creditFromMessages vals (deliver ord vals s (.claim m)).1.oracle.whitelist p'.vclaims
        s.bank.bal (deliver ord vals s (.claim m)).1.bank.bal s.bank.supply (deliver ord vals s (.claim m)).1.bank.supply
        keys denoms = true := by
  obtain ⟨c, hcred, _, hbal, hsup⟩ := credit_matches_final ord vals s m h
  rcases deliver_claim_cases ord vals s m with ⟨f, hd⟩ | ⟨s', status, hc, hd⟩
  · rw [hd] at h; cases h
  · rw [hd] at h hcred hbal hsup ⊢
    cases h
    obtain ⟨o, fin, hp, eo, _⟩ := createClaim_ok hc
    obtain ⟨p', hget, hst, hfin, _, hineq, hpos⟩ := Sif.Props.C05.success_needs_threshold ord hord vals s.oracle o (claimOf m) fin hv hwf hp
    obtain ⟨_, _, fa⟩ := processClaim_status hp
    simp only at hcred hbal hsup ⊢
    rw [eo] at hcred ⊢
    rw [fa] at hcred
    refine ⟨p', hget, ?_⟩
    unfold creditFromMessages
    apply Bool.or_eq_true_iff.mpr
    right
    rw [List.any_eq_true]
    refine ⟨fin, ?_, ?_⟩
    · unfold winners
      rw [List.mem_filter]
      refine ⟨?_, by simp [hineq, hpos]⟩
      rw [List.mem_eraseDups]
      exact support_pos_mem vals o.whitelist p'.vclaims fin (by omega)
    · rw [hcred]
      simp only [creditedOn, Bool.and_eq_true, List.all_eq_true, beq_iff_eq]
      exact ⟨fun k _ => hbal k.1 k.2, fun d _ => hsup d⟩

/-- Panics and errors are confined by the transaction wrapper: a claim message that fails for whatever reason
    (negative amount, invalid denomination, blocked receiver ⇒ `panic(err)`, unspecified claim type ⇒ error)
    leaves the whole state as it was — in particular the prophecy stays pending *without* that claim. -/
theorem failed_claim_changes_nothing (ord : List Group → List Group) (vals : List Validator) (s : BState) (m : Msg) (f : Fail)
    (h : (deliver ord vals s m).2 = .failed f) : (deliver ord vals s m).1 = s := deliver_failed h

/-- non-vacuity: the crossing claim names a blocked receiver (module account 1): panic, state unchanged -/
example : (deliver id exVals (deliver id exVals exState (exClaim 0 1)).1 (exClaim 1 1)).2 = .failed .panic := by decide

/-- After a lock credit of `"c" ++ sym` that token is in the peggy list: `Lock` of it is refused, `Burn` passes the
    peggy-token guard — and the list only grows, so this holds thereafter. -/
theorem lock_then_only_burnable (ord : List Group → List Group) (vals : List Validator) (s : BState) (m : ClaimMsg)
    (r : Nat) (a : Int) (sym : String) (t : Nat)
    (h : (deliver ord vals s (.claim m)).2 = .claimed .success)
    (hf : finalOf (deliver ord vals s (.claim m)).1.oracle (claimOf m).id = .eth r a sym t 2) :
    lockThenOnlyBurnable (deliver ord vals s (.claim m)).1.peggy (peggedPrefix ++ sym) = true ∧
    (∀ pm : PegMsg, pm.symbol = peggedPrefix ++ sym → ∃ f, lock (deliver ord vals s (.claim m)).1 pm = .error f) := by
  rcases deliver_claim_cases ord vals s m with ⟨f, hd⟩ | ⟨s', status, hc, hd⟩
  · rw [hd] at h; cases h
  · rw [hd] at h hf ⊢
    cases h
    obtain ⟨o, fin, hp, eo, _, _, _, _, hcase⟩ := createClaim_ok hc
    obtain ⟨_, _, fa⟩ := processClaim_status hp
    simp only at hf
    rw [eo, fa] at hf
    rcases hcase with ⟨_, hsucc⟩ | ⟨hs, _⟩
    · obtain ⟨c, _, _, _, _, _, _, _, _, _, _, hpeg⟩ := processSuccessfulClaim_ok hsucc
      have hp' := hpeg r a sym t hf
      have hin : s'.peggy.contains (peggedPrefix ++ sym) = true := by
        rw [hp']
        unfold addPeggy
        split
        · assumption
        · simp
      refine ⟨hin, ?_⟩
      intro pm hsym
      unfold lock
      by_cases hpa : s'.paused = true
      · exact ⟨.err .paused, by simp [hpa]⟩
      · refine ⟨.err .pegged, ?_⟩
        have : s'.paused = false := by simpa using hpa
        simp only [this, hsym, hin, Bool.false_eq_true, if_false, if_true]
    · exact (hs rfl).elim

theorem peggy_only_grows (ord : List Group → List Group) (vals : List Validator) (s : BState) (m : Msg) (tkn : String)
    (h : s.peggy.contains tkn = true) : (deliver ord vals s m).1.peggy.contains tkn = true := by
  unfold deliver
  split
  · exact h
  · cases hh : handle ord vals s m with
    | error e => exact h
    | ok r =>
      simp only
      cases m with
      | claim cm =>
        simp only [handle] at hh
        obtain ⟨y, hy, e⟩ := map_ok hh
        subst e
        obtain ⟨o, fin, _, _, _, _, _, _, hcase⟩ := createClaim_ok (s' := y.1) (status := y.2) hy
        rcases hcase with ⟨_, hsucc⟩ | ⟨_, hsame⟩
        · obtain ⟨c, _, _, _, _, _, _, _, _, _, hpeg, _⟩ := processSuccessfulClaim_ok hsucc
          rcases hpeg with e | ⟨sym, e, _⟩
          · simp only; rw [e]; exact h
          · simp only; rw [e]
            unfold addPeggy
            split
            · exact h
            · simp only [List.contains_eq_mem, List.mem_append, decide_eq_true_eq] at h ⊢
              exact Or.inl h
        · simp only; rw [hsame]; exact h
      | lock pm =>
        simp only [handle] at hh
        obtain ⟨y, hy, e⟩ := map_ok hh
        subst e
        simp only; rw [(lock_ok_frame (s' := y.1) (e := y.2) hy).2.1]; exact h
      | burn pm =>
        simp only [handle] at hh
        obtain ⟨y, hy, e⟩ := map_ok hh
        subst e
        simp only; rw [(burn_ok_frame (s' := y.1) (e := y.2) hy).2.1]; exact h
      | pause a p =>
        simp only [handle] at hh
        obtain ⟨y, hy, e⟩ := map_ok hh
        subst e
        unfold setPause at hy
        split at hy <;> cases hy
        exact h
      | blacklist a l =>
        simp only [handle] at hh
        obtain ⟨y, hy, e⟩ := map_ok hh
        subst e
        unfold setBlacklist at hy
        split at hy <;> cases hy
        exact h
      | cethReceiver a r' =>
        simp only [handle] at hh
        obtain ⟨y, hy, e⟩ := map_ok hh
        subst e
        unfold setCethReceiver at hy
        repeat (split at hy <;> try cases hy)
        exact h
      | rescue a r' n =>
        simp only [handle] at hh
        obtain ⟨y, hy, e⟩ := map_ok hh
        subst e
        unfold rescueCeth at hy
        repeat (split at hy <;> try cases hy)
        exact h
      | whitelist a op v =>
        simp only [handle] at hh
        obtain ⟨y, hy, e⟩ := map_ok hh
        subst e
        unfold EthBridge.updateWhiteList at hy
        split at hy
        · cases hy
        · split at hy
          · cases hy
          · cases hy; exact h

/-- For a fixed chain id the prophecy id `decimal(chain) ++ decimal(nonce) ++ sender` determines nonce and sender,
    when senders have equal length (the fixed 42-character form): distinct events never share a tally. -/
theorem prophecyId_injective_fixed_chain (chain n₁ n₂ : Int) (s₁ s₂ : String) (hl : s₁.length = s₂.length)
    (h : prophecyId chain n₁ s₁ = prophecyId chain n₂ s₂) : n₁ = n₂ ∧ s₁ = s₂ := by
  unfold prophecyId at h
  have h' := congrArg String.toList h
  simp only [String.toList_append, List.append_assoc] at h'
  have h2 := List.append_cancel_left h'
  have hl' : s₁.toList.length = s₂.toList.length := by simpa [String.length_toList] using hl
  obtain ⟨e1, e2⟩ := List.append_inj' h2 hl'
  exact ⟨Int.repr_injective (String.toList_inj.mp e1), String.toList_inj.mp e2⟩

/-- Observation O1 (not a violation of "at most once": it can only merge two events into one tally, i.e. suppress
    a credit): across chain ids the un-separated concatenation is not injective. -/
theorem prophecyId_not_injective_across_chains : prophecyId 1 23 "0xab" = prophecyId 12 3 "0xab" := by decide

end Sif.Props.C06
