import Sif.Proofs.C01Hooks
import Sif.Model.Clp.Machine
/-
  C01 — AMM solvency: for every token the coins held by the liquidity-pool module account cover
  the sum over all pools of recorded balance and margin custody plus the rewards bucket.
  Property theorems only.
-/
namespace Sif.Props.C01
open Sif Sif.Clp Sif.AList Sif.Spec.C01

/-- the empty chain state is solvent -/
theorem solvent_init : Solv ({} : St) := solv_init

/-- hypotheses on one operation: messages are signed by ordinary accounts (the module account has
    no key); `fund` (coins arriving from outside the AMM) never takes coins from the module.
    `endBlock` is covered by `endBlock_solvent_Statement` below (not proved yet). -/
def OpOK : Op → Prop
  | .create a _ _ _ | .add a _ _ _ | .swap a _ _ _ _ | .bucket a _ _ => a ≠ clpAcct
  | .endBlock => False
  | _ => True

/-- full statement for the block hook (provider distribution + depth rewards), still unproved:
    it needs the clamp lemma Σ provider amounts ≤ rnd(rate·balance) ≤ balance for rates in [0,1]
    and, in distribute mode, that every rewarded pool has a provider record -/
def endBlock_solvent_Statement : Prop :=
  ∀ s s', Solv s → endBlocker s = .ok s' → Solv s'

/-- every message and the epoch hook preserve solvency -/
theorem step_solvent (s : St) (op : Op) (hinv : Solv s) (hok : OpOK op) : Solv (step s op) := by
  cases op with
  | create a sym n e =>
    simp only [step, txR]; split
    · exact createPool_solv hok hinv ‹_›
    · exact hinv
  | add a sym n e =>
    simp only [step, txR]; split
    · exact addLiquidity_solv hok hinv ‹_›
    · exact hinv
  | remove a sym w =>
    simp only [step, txR]; split
    · exact removeLiquidity_solv hinv ‹_›
    · exact hinv
  | removeUnits a sym u =>
    simp only [step, txR]; split
    · exact removeLiquidityUnits_solv hinv ‹_›
    · exact hinv
  | swap a sent recv amt mn =>
    simp only [step]; split
    · exact swap_solv hok hinv ‹_›
    · exact hinv
  | decommission a sym =>
    simp only [step, txR]; split
    · exact decommissionPool_solv hinv ‹_›
    · exact hinv
  | bucket a d n =>
    simp only [step, txR]; split
    · exact addToBucket_solv hok hinv ‹_›
    · exact hinv
  | endBlock => exact absurd hok id
  | epochEnd =>
    simp only [step, hookM]; split
    · exact afterEpochEnd_solv hinv ‹_›
    · exact hinv
  | setHeight h =>
    obtain ⟨a, b, c⟩ := hinv
    exact ⟨a, poolKeysOK_congr rfl b, fun d => c d⟩
  | setParams p =>
    obtain ⟨a, b, c⟩ := hinv
    exact ⟨a, poolKeysOK_congr rfl b, fun d => c d⟩
  | fund a d0 n =>
    obtain ⟨h1, h2, h3⟩ := hinv
    refine ⟨h1, poolKeysOK_congr rfl h2, ?_⟩
    intro d
    show recorded s d ≤ (s.setBal a d0 (s.bal a d0 + n)).bal clpAcct d
    rw [bal_setBal]
    have := h3 d
    split
    · rename_i hc; obtain ⟨rfl, rfl⟩ := hc; omega
    · exact this

/-- solvency in every reachable state, for histories of any length -/
theorem reachable_solvent_partial (ops : List Op) (s : St) (hinv : Solv s) (hok : ∀ op ∈ ops, OpOK op) :
    Solv (run s ops) := by
  induction ops generalizing s with
  | nil => exact hinv
  | cons op rest ih =>
    unfold run; simp only [List.foldl]
    exact ih (step s op) (step_solvent s op hinv (hok op (List.mem_cons_self ..)))
      (fun o ho => hok o (List.mem_cons_of_mem _ ho))

/-- the Boolean the judge evaluates on implementation states is implied by the invariant -/
theorem solvent_bool_of_solv (s : St) (h : Solv s) : solvent s = true := by
  unfold solvent
  simp only [List.all_eq_true, decide_eq_true_eq]
  intro d _
  exact h.2.2 d

end Sif.Props.C01
