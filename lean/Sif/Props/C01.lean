import Sif.Proofs.C01Lppd
import Sif.Proofs.C01Exact
import Sif.Model.Clp.Machine
/-
  C01 — AMM solvency: for every token the coins held by the liquidity-pool module account cover
  the sum over all pools of recorded balance and margin custody plus the rewards bucket.
  Property theorems only.
-/
namespace Sif.Props.C01
open Sif Sif.Clp Sif.AList Sif.Spec.C01

/-- the empty chain state is solvent -/
theorem solvent_init : Solv ({} : St) := solv_init

/-- hypotheses on one operation: messages are signed by ordinary accounts (the module account has
    no key); for the block hook the LPPD block rate lies in [0,1] (validation enforces it) and, in
    distribute mode, every rewarded pool has a provider record (`EndBlockOK`). -/
def OpOK (s : St) : Op → Prop
  | .create a _ _ _ | .add a _ _ _ | .swap a _ _ _ _ | .bucket a _ _ => a ≠ clpAcct
  | .endBlock => EndBlockOK s
  | _ => True

def RunOK : St → List Op → Prop
  | _, [] => True
  | s, op :: rest => OpOK s op ∧ RunOK (step s op) rest

/-- every message and both hooks (epoch payout; provider distribution + depth rewards) preserve
    solvency -/
theorem step_solvent (s : St) (op : Op) (hinv : Solv s) (hok : OpOK s op) : Solv (step s op) := by
  cases op with
  | create a sym n e =>
    simp only [step, txR]; split
    · exact createPool_solv hok hinv ‹_›
    · exact hinv
  | add a sym n e =>
    simp only [step, txR]; split
    · exact addLiquidity_solv hok hinv ‹_›
    · exact hinv
  | remove a sym w =>
    simp only [step, txR]; split
    · exact removeLiquidity_solv hinv ‹_›
    · exact hinv
  | removeUnits a sym u =>
    simp only [step, txR]; split
    · exact removeLiquidityUnits_solv hinv ‹_›
    · exact hinv
  | swap a sent recv amt mn =>
    simp only [step]; split
    · exact swap_solv hok hinv ‹_›
    · exact hinv
  | decommission a sym =>
    simp only [step, txR]; split
    · exact decommissionPool_solv hinv ‹_›
    · exact hinv
  | bucket a d n =>
    simp only [step, txR]; split
    · exact addToBucket_solv hok hinv ‹_›
    · exact hinv
  | endBlock =>
    simp only [step, hookM]; split
    · exact endBlocker_solv hok hinv ‹_›
    · exact hinv
  | epochEnd =>
    simp only [step, hookM]; split
    · exact afterEpochEnd_solv hinv ‹_›
    · exact hinv
  | setHeight h =>
    obtain ⟨a, b, c⟩ := hinv
    exact ⟨a, poolKeysOK_congr rfl b, fun d => c d⟩
  | setParams p =>
    obtain ⟨a, b, c⟩ := hinv
    exact ⟨a, poolKeysOK_congr rfl b, fun d => c d⟩
  | fund a d0 n =>
    obtain ⟨h1, h2, h3⟩ := hinv
    refine ⟨h1, poolKeysOK_congr rfl h2, ?_⟩
    intro d
    show recorded s d ≤ (s.setBal a d0 (s.bal a d0 + n)).bal clpAcct d
    rw [bal_setBal]
    have := h3 d
    split
    · rename_i hc; obtain ⟨rfl, rfl⟩ := hc; omega
    · exact this

/-- solvency in every reachable state, for histories of any length -/
theorem reachable_solvent (ops : List Op) (s : St) (hinv : Solv s) (hok : RunOK s ops) :
    Solv (run s ops) := by
  induction ops generalizing s with
  | nil => exact hinv
  | cons op rest ih =>
    unfold run; simp only [List.foldl]
    exact ih (step s op) (step_solvent s op hinv hok.1) hok.2

theorem reachable_solvent_from_genesis (ops : List Op) (hok : RunOK {} ops) : Solv (run {} ops) :=
  reachable_solvent ops {} solv_init hok

/-! ### exact equality (the "apart from the decommission remainder, exactly equal" half) -/

/-- the user messages other than a decommission, signed by ordinary accounts, and the bookkeeping operations
    of the machine (height, parameters) -/
def UserMsg : Op → Prop
  | .create a _ _ _ | .add a _ _ _ | .remove a _ _ | .removeUnits a _ _ | .swap a _ _ _ _ | .bucket a _ _ => a ≠ clpAcct
  | .setHeight _ | .setParams _ => True
  | _ => False

/-- full statement of the exact half: along every history the module account holds, for every token, exactly
    the recorded amounts plus what the decommissions of the history left behind.  Proved below for histories of
    user messages (`reachable_exact_messages_partial`: no decommission, so no remainder at all); for
    decommissions (remainder ≤ the refund budget) and for the block hooks (minted rewards that cannot be paid are
    burned again) the equality is judged on every implementation state (`chk c01.exact`), not proved. -/
def Exact_Statement : Prop :=
  ∀ (ops : List Op), RunOK {} ops → (∀ op ∈ ops, ∀ a sym, op ≠ .decommission a sym) →
    ∀ d, (run {} ops).bal clpAcct d = recorded (run {} ops) d

/-- one user message (create, add, remove by basis points or by units, swap on either route, bucket funding),
    successful or failed, leaves the slack of every token exactly unchanged -/
theorem messages_keep_slack_partial (s : St) (op : Op) (hinv : Solv s) (hm : UserMsg op) : SlackEq s (step s op) := by
  cases op with
  | create a sym n e =>
    simp only [step, txR]; split
    · exact createPool_slack hm ‹_›
    · exact SlackEq.refl s
  | add a sym n e =>
    simp only [step, txR]; split
    · exact addLiquidity_slack hm hinv ‹_›
    · exact SlackEq.refl s
  | remove a sym w =>
    simp only [step, txR]; split
    · exact removeLiquidity_slack hm hinv ‹_›
    · exact SlackEq.refl s
  | removeUnits a sym u =>
    simp only [step, txR]; split
    · exact removeLiquidityUnits_slack hm hinv ‹_›
    · exact SlackEq.refl s
  | swap a sent recv amt mn =>
    simp only [step]; split
    · exact swap_slack hm hinv ‹_›
    · exact SlackEq.refl s
  | bucket a d n =>
    simp only [step, txR]; split
    · exact addToBucket_slack hm ‹_›
    · exact SlackEq.refl s
  | setHeight h => exact fun _ => rfl
  | setParams p => exact fun _ => rfl
  | decommission a sym => exact absurd hm (by simp [UserMsg])
  | endBlock => exact absurd hm (by simp [UserMsg])
  | epochEnd => exact absurd hm (by simp [UserMsg])
  | fund a d n => exact absurd hm (by simp [UserMsg])

theorem userMsg_opOK (s : St) (op : Op) (hm : UserMsg op) : OpOK s op := by
  cases op <;> simp_all [UserMsg, OpOK]

/-- histories of user messages of any length: the slack of every token at the end is the slack at the start -/
theorem reachable_slack_messages_partial (ops : List Op) (s : St) (hinv : Solv s) (hall : ∀ op ∈ ops, UserMsg op) :
    SlackEq s (run s ops) := by
  induction ops generalizing s with
  | nil => exact SlackEq.refl s
  | cons op rest ih =>
    unfold run; simp only [List.foldl]
    have hm := hall op List.mem_cons_self
    have h1 := messages_keep_slack_partial s op hinv hm
    have h2 := ih (step s op) (step_solvent s op hinv (userMsg_opOK s op hm)) (fun o ho => hall o (List.mem_cons_of_mem _ ho))
    exact h1.trans h2

/-- from genesis, after any history of user messages, the module account holds exactly the recorded amounts -/
theorem reachable_exact_messages_partial (ops : List Op) (hall : ∀ op ∈ ops, UserMsg op) (d : String) :
    (run {} ops).bal clpAcct d = recorded (run {} ops) d := by
  have h := reachable_slack_messages_partial ops {} solv_init hall d
  have h0 : ({} : St).bal clpAcct d = 0 := by simp [St.bal, AList.get]
  have r0 : recorded ({} : St) d = 0 := by simp [recorded, AList.sumBy, AList.get]
  omega

/-- the Boolean the judge evaluates on implementation states is implied by the invariant -/
theorem solvent_bool_of_solv (s : St) (h : Solv s) : solvent s = true := by
  unfold solvent
  simp only [List.all_eq_true, decide_eq_true_eq]
  intro d _
  exact h.2.2 d

end Sif.Props.C01
