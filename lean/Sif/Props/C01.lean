import Sif.Spec.C01
/-
  C01 — AMM solvency.  (theorems are added below as they are proved)
-/
namespace Sif.Props.C01
open Sif Sif.Clp Sif.Spec.C01

/-- the empty chain state is solvent -/
theorem solvent_init : solvent ({} : St) = true := by decide

end Sif.Props.C01
