import Sif.Proofs.C01Lppd
import Sif.Model.Clp.Machine
/-
  C01 — AMM solvency: for every token the coins held by the liquidity-pool module account cover
  the sum over all pools of recorded balance and margin custody plus the rewards bucket.
  Property theorems only.
-/
namespace Sif.Props.C01
open Sif Sif.Clp Sif.AList Sif.Spec.C01

/-- the empty chain state is solvent -/
theorem solvent_init : Solv ({} : St) := solv_init

/-- hypotheses on one operation: messages are signed by ordinary accounts (the module account has
    no key); for the block hook the LPPD block rate lies in [0,1] (validation enforces it) and, in
    distribute mode, every rewarded pool has a provider record (`EndBlockOK`). -/
def OpOK (s : St) : Op → Prop
  | .create a _ _ _ | .add a _ _ _ | .swap a _ _ _ _ | .bucket a _ _ => a ≠ clpAcct
  | .endBlock => EndBlockOK s
  | _ => True

def RunOK : St → List Op → Prop
  | _, [] => True
  | s, op :: rest => OpOK s op ∧ RunOK (step s op) rest

/-- every message and both hooks (epoch payout; provider distribution + depth rewards) preserve
    solvency -/
theorem step_solvent (s : St) (op : Op) (hinv : Solv s) (hok : OpOK s op) : Solv (step s op) := by
  cases op with
  | create a sym n e =>
    simp only [step, txR]; split
    · exact createPool_solv hok hinv ‹_›
    · exact hinv
  | add a sym n e =>
    simp only [step, txR]; split
    · exact addLiquidity_solv hok hinv ‹_›
    · exact hinv
  | remove a sym w =>
    simp only [step, txR]; split
    · exact removeLiquidity_solv hinv ‹_›
    · exact hinv
  | removeUnits a sym u =>
    simp only [step, txR]; split
    · exact removeLiquidityUnits_solv hinv ‹_›
    · exact hinv
  | swap a sent recv amt mn =>
    simp only [step]; split
    · exact swap_solv hok hinv ‹_›
    · exact hinv
  | decommission a sym =>
    simp only [step, txR]; split
    · exact decommissionPool_solv hinv ‹_›
    · exact hinv
  | bucket a d n =>
    simp only [step, txR]; split
    · exact addToBucket_solv hok hinv ‹_›
    · exact hinv
  | endBlock =>
    simp only [step, hookM]; split
    · exact endBlocker_solv hok hinv ‹_›
    · exact hinv
  | epochEnd =>
    simp only [step, hookM]; split
    · exact afterEpochEnd_solv hinv ‹_›
    · exact hinv
  | setHeight h =>
    obtain ⟨a, b, c⟩ := hinv
    exact ⟨a, poolKeysOK_congr rfl b, fun d => c d⟩
  | setParams p =>
    obtain ⟨a, b, c⟩ := hinv
    exact ⟨a, poolKeysOK_congr rfl b, fun d => c d⟩
  | fund a d0 n =>
    obtain ⟨h1, h2, h3⟩ := hinv
    refine ⟨h1, poolKeysOK_congr rfl h2, ?_⟩
    intro d
    show recorded s d ≤ (s.setBal a d0 (s.bal a d0 + n)).bal clpAcct d
    rw [bal_setBal]
    have := h3 d
    split
    · rename_i hc; obtain ⟨rfl, rfl⟩ := hc; omega
    · exact this

/-- solvency in every reachable state, for histories of any length -/
theorem reachable_solvent (ops : List Op) (s : St) (hinv : Solv s) (hok : RunOK s ops) :
    Solv (run s ops) := by
  induction ops generalizing s with
  | nil => exact hinv
  | cons op rest ih =>
    unfold run; simp only [List.foldl]
    exact ih (step s op) (step_solvent s op hinv hok.1) hok.2

theorem reachable_solvent_from_genesis (ops : List Op) (hok : RunOK {} ops) : Solv (run {} ops) :=
  reachable_solvent ops {} solv_init hok

/-- the Boolean the judge evaluates on implementation states is implied by the invariant -/
theorem solvent_bool_of_solv (s : St) (h : Solv s) : solvent s = true := by
  unfold solvent
  simp only [List.all_eq_true, decide_eq_true_eq]
  intro d _
  exact h.2.2 d

end Sif.Props.C01
