import Sif.Proofs.C15Run
set_option linter.unusedSimpArgs false
/-
  C15 — Liquidity removal requires a matured, unexpired, unconsumed unlock request.
  Property theorems only (helper lemmas: Sif/Proofs/C15.lean, C15Run.lean).

  The model (Sif/Model/Unlock.lean) copies `UnlockLiquidity`, `CancelUnlockLiquidity`,
  `PruneUnlockRecords`, `UseUnlockedLiquidity` (with its pointer aliasing), the unit bookkeeping of
  `RemoveLiquidity`, `RemoveLiquidityUnits`, `AddLiquidity` and `UpdateRewardsParams`, with int64
  wrap-around.  The specification (Sif/Spec/C15.lean) is over mathematical integers.  Quantifiers:
  every state, every provider, every history of the six messages, every lock / cancel period; the
  only hypotheses are the operating envelope `L + C + h < 2^62` where the statement is about the
  meaning of "matured" (the int64 expressions of the code wrap beyond it), and "block heights do not
  decrease" for `outstanding_le_units`.
-/
namespace Sif.Props.C15
open Sif Sif.Unlock Sif.Spec.C15 Sif.Proofs.C15

/-! ### remove_requires_matured -/

/-- An accepted `MsgRemoveLiquidityUnits` was allowed by the rule: with `burned` = units before −
    units after, `L = 0`, or the provider's stored requests that are matured and unexpired at `h`
    (specification meaning, mathematical integers) total at least `burned` — inside the envelope.
    Also: an accepted removal under a lock period consumed what it burned (`consumedOK`). -/
theorem remove_requires_matured (s s' : St) (h : Int) (k : String) (w : Nat) (hc : Health)
    (hok : step s h (.removeUnits k w hc) = (s', .ok)) :
    ∃ lp, s.lps k = some lp ∧ unitsOf (s'.lps k) ≤ lp.units ∧
      removeOK s.L s.C h lp.unlocks (lp.units - unitsOf (s'.lps k)) true = true ∧
      consumedOK s.L lp.unlocks (unlocksOf (s'.lps k)) (lp.units - unitsOf (s'.lps k)) true = true := by
  obtain ⟨lp, left, o, hlp, hc, hs⟩ := step_removeUnits_ok hok
  subst hs
  exact ⟨lp, hlp, removal_accepted hc⟩

/-- the same for `MsgRemoveLiquidity` (by basis points) -/
theorem remove_requires_matured_wbasis (s s' : St) (h : Int) (k : String) (wb a : Int) (hc : Health)
    (hok : step s h (.remove k wb a hc) = (s', .ok)) :
    ∃ lp, s.lps k = some lp ∧ unitsOf (s'.lps k) ≤ lp.units ∧
      removeOK s.L s.C h lp.unlocks (lp.units - unitsOf (s'.lps k)) true = true ∧
      consumedOK s.L lp.unlocks (unlocksOf (s'.lps k)) (lp.units - unitsOf (s'.lps k)) true = true := by
  obtain ⟨lp, left, o, hlp, hc, hs⟩ := step_remove_ok hok
  subst hs
  exact ⟨lp, hlp, removal_accepted hc⟩

/-- spelled out: under a lock period, inside the envelope, the burned units are covered by matured,
    unexpired requests -/
theorem remove_requires_matured_explicit (s s' : St) (h : Int) (k : String) (w : Nat) (hc : Health) (lp : LP)
    (hlp : s.lps k = some lp) (hL : s.L ≠ 0) (henv : inEnvelope s.L s.C h lp.unlocks = true)
    (hok : step s h (.removeUnits k w hc) = (s', .ok)) :
    lp.units - unitsOf (s'.lps k) ≤ usable s.L s.C h lp.unlocks := by
  obtain ⟨lp', hlp', _, hr, _⟩ := remove_requires_matured s s' h k w hc hok
  rw [hlp] at hlp'; cases hlp'
  unfold removeOK allowed at hr
  simp [henv, hL] at hr
  omega

/-- a refused (or panicking) message changes nothing (transaction wrapper) -/
theorem refused_changes_nothing (s : St) (h : Int) (op : Op) (hr : (step s h op).2 ≠ .ok) :
    (step s h op).1 = s := by
  have hcm : ∀ k (r : Except Err (Option LP)), (commit s k r).2 ≠ .ok → (commit s k r).1 = s := by
    intro k r hne
    cases r with
    | ok v => exact absurd rfl hne
    | error e => rfl
  cases op with
  | setParams L C => exact absurd rfl hr
  | unlock k u => exact hcm _ _ hr
  | cancel k u => exact hcm _ _ hr
  | removeUnits k w hc => exact hcm _ _ hr
  | remove k wb a hc => exact hcm _ _ hr
  | add k m => exact hcm _ _ hr

/-! ### each_unit_once -/

/-- Along every history from the empty chain, for every provider: units burned by accepted removals
    while a lock period was in force, plus the requests still outstanding, never exceed the units
    requested by accepted unlock messages.  No requested unit backs two removals. -/
theorem each_unit_once (L C : Nat) (ops : List (Int × Op)) (k : String) :
    onceOK ((runL (St.init L C) (fun _ => ⟨0, 0⟩) ops).2 k)
      (total (unlocksOf ((runL (St.init L C) (fun _ => ⟨0, 0⟩) ops).1.lps k))) = true := by
  have hJ : J (St.init L C) (fun _ => ⟨0, 0⟩) := by intro k; simp [St.init, unlocksOf, total]
  have := J_run ops hJ k
  unfold onceOK
  simpa using this

/-- …and from any state whose ledger satisfies the inequality (so it is inductive) -/
theorem each_unit_once_from (s : St) (g : String → Ledger) (ops : List (Int × Op))
    (h0 : ∀ k, onceOK (g k) (total (unlocksOf (s.lps k))) = true) (k : String) :
    onceOK ((runL s g ops).2 k) (total (unlocksOf ((runL s g ops).1.lps k))) = true := by
  have hJ : J s g := by intro k; have := h0 k; unfold onceOK at this; simpa using this
  have := J_run ops hJ k
  unfold onceOK
  simpa using this

/-- one call of the consumption loop never grows a record, keeps heights and positions, and takes
    exactly `u − leftover` units in total: consumption per request is bounded by the request -/
theorem consume_each_record_once (any : Bool) (L : Nat) (h : Int) (rs : List Rec) (u : Nat) :
    shrinks rs (consume any L h rs u).1 = true ∧
    total (consume any L h rs u).1 + (u - (consume any L h rs u).2) = total rs :=
  ⟨consume_shrinks any L h rs u, (consume_total any L h rs u).1⟩

/-! ### exactness, refusal, aliasing, zero records -/

/-- `MsgRemoveLiquidityUnits{WithdrawUnits = w}` that is accepted burns exactly `w` units -/
theorem removeUnits_burns_exactly (s s' : St) (h : Int) (k : String) (w : Nat) (hc : Health)
    (hok : step s h (.removeUnits k w hc) = (s', .ok)) :
    ∃ lp, s.lps k = some lp ∧ w ≤ lp.units ∧ unitsOf (s'.lps k) = lp.units - w := by
  obtain ⟨o, hr, hs⟩ := commit_ok (show commit s k (gate hc (removeUnitsH s.L s.C h (s.lps k) w)) = (s', .ok) from hok)
  obtain ⟨lp, hlp, hle, _, hc⟩ := removeUnitsH_ok_exact (gate_ok hr)
  obtain ⟨_, hu, _⟩ := removeCore_ok hc
  subst hs
  exact ⟨lp, hlp, hle, by rw [set_same, hu]⟩

/-- the refusing direction: under a lock period, inside the envelope, a removal of `w` units that
    the provider's matured, unexpired requests do not cover is NOT accepted, and nothing changes -/
theorem remove_refused_when_short (s : St) (h : Int) (k : String) (w : Nat) (hc : Health) (lp : LP)
    (hlp : s.lps k = some lp) (hL : s.L ≠ 0) (henv : inEnvelope s.L s.C h lp.unlocks = true)
    (hw : w ≤ lp.units) (hshort : usable s.L s.C h lp.unlocks < w) :
    (step s h (.removeUnits k w hc)).2 ≠ .ok ∧ (step s h (.removeUnits k w hc)).1 = s := by
  have hne : (step s h (.removeUnits k w hc)).2 ≠ .ok := by
    intro hok
    have hst : step s h (.removeUnits k w hc) = ((step s h (.removeUnits k w hc)).1, .ok) := by rw [← hok]
    obtain ⟨lp', hlp', _, hexact⟩ := removeUnits_burns_exactly _ _ h k w hc hst
    rw [hlp] at hlp'; cases hlp'
    have := remove_requires_matured_explicit s _ h k w hc lp hlp hL henv hst
    rw [hexact] at this
    omega
  exact ⟨hne, refused_changes_nothing s h _ hne⟩

/-- pointer aliasing: what an accepted removal leaves in the store is the list as CONSUMED by
    `UseUnlockedLiquidity` (records keep position and height, units only shrink), although that
    function received the provider record by value and its own zero-record filter is lost -/
theorem removal_stores_consumed_records (s s' : St) (h : Int) (k : String) (w : Nat) (hc : Health)
    (hok : step s h (.removeUnits k w hc) = (s', .ok)) :
    ∃ lp, s.lps k = some lp ∧ ∀ lp', s'.lps k = some lp' →
      lp'.unlocks = (consume false s.L h (prune s.L s.C h lp.unlocks) (lp.units - lp'.units)).1 ∧
      shrinks (prune s.L s.C h lp.unlocks) lp'.unlocks = true := by
  obtain ⟨lp, left, o, hlp, hc, hs⟩ := step_removeUnits_ok hok
  refine ⟨lp, hlp, ?_⟩
  intro lp' hlp'
  subst hs
  rw [set_same] at hlp'
  obtain ⟨_, hu, _, _, _, hun⟩ := removeCore_ok hc
  have e := hun lp' hlp'
  have hl : lp'.units = left := by rw [hlp'] at hu; exact hu
  rw [hl]
  exact ⟨e, by rw [e]; exact consume_shrinks _ _ _ _ _⟩

/-- zero-unit records that linger in the store never count: the four handlers see the stored list
    only through `PruneUnlockRecords`, so they answer the same with or without them -/
theorem zero_records_never_count (L C : Nat) (h : Int) (lp : LP) (u : Nat) (wb a : Int) :
    unlockH L C h (some lp) u = unlockH L C h (some ⟨lp.units, lp.unlocks.filter nonzero⟩) u ∧
    cancelH L C h (some lp) u = cancelH L C h (some ⟨lp.units, lp.unlocks.filter nonzero⟩) u ∧
    removeUnitsH L C h (some lp) u = removeUnitsH L C h (some ⟨lp.units, lp.unlocks.filter nonzero⟩) u ∧
    removeH L C h (some lp) wb a = removeH L C h (some ⟨lp.units, lp.unlocks.filter nonzero⟩) wb a := by
  have hp := prune_filter_nonzero L C h lp.unlocks
  refine ⟨?_, ?_, ?_, ?_⟩
  · simp only [unlockH, unlockLP, hp]
  · simp only [cancelH, cancelLP, hp]
  · simp only [removeUnitsH, removeUnitsLP, hp]
  · simp only [removeH, removeLP, removeLP2, hp]

/-! ### every decrease of a provider's units is a covered removal; a queued removal is refused -/

/-- when the margin-health stage does not pass (the removal would be queued, is blocked, or the
    handler panics there) the message is refused and NOTHING changes: in particular the unlock
    records `UseUnlockedLiquidity` had just consumed and stored are rolled back, and no queue entry
    survives (`types.ErrQueued` is an error) -/
theorem removal_queued_is_refused (s : St) (h : Int) (k : String) (w : Nat) (wb a : Int) (hc : Health)
    (hne : hc ≠ .pass) :
    ((step s h (.removeUnits k w hc)).2 ≠ .ok ∧ (step s h (.removeUnits k w hc)).1 = s) ∧
    ((step s h (.remove k wb a hc)).2 ≠ .ok ∧ (step s h (.remove k wb a hc)).1 = s) := by
  have h1 : (step s h (.removeUnits k w hc)).2 ≠ .ok := by
    intro hok
    have hst : step s h (.removeUnits k w hc) = ((step s h (.removeUnits k w hc)).1, .ok) := by rw [← hok]
    obtain ⟨o, hr, _⟩ := commit_ok (show commit s k (gate hc (removeUnitsH s.L s.C h (s.lps k) w)) = (_, .ok) from hst)
    exact gate_not_pass hne o hr
  have h2 : (step s h (.remove k wb a hc)).2 ≠ .ok := by
    intro hok
    have hst : step s h (.remove k wb a hc) = ((step s h (.remove k wb a hc)).1, .ok) := by rw [← hok]
    obtain ⟨o, hr, _⟩ := commit_ok (show commit s k (gate hc (removeH s.L s.C h (s.lps k) wb a)) = (_, .ok) from hst)
    exact gate_not_pass hne o hr
  exact ⟨⟨h1, refused_changes_nothing s h _ h1⟩, ⟨h2, refused_changes_nothing s h _ h2⟩⟩

/-- WHATEVER the message and whoever signed it: if it leaves some provider with fewer units than
    before, then it was an accepted removal by that provider, the rule allowed the burned units
    (matured, unexpired requests, inside the envelope) and they were consumed.  Unlock, cancel, add and
    parameter messages, and messages of other providers, never lower a provider's units. -/
theorem any_decrease_requires_matured (s : St) (h : Int) (op : Op) (k : String)
    (hdec : unitsOf ((step s h op).1.lps k) < unitsOf (s.lps k)) :
    ∃ lp, s.lps k = some lp ∧
      removeOK s.L s.C h lp.unlocks (lp.units - unitsOf ((step s h op).1.lps k)) true = true ∧
      consumedOK s.L lp.unlocks (unlocksOf ((step s h op).1.lps k)) (lp.units - unitsOf ((step s h op).1.lps k)) true = true := by
  -- a committed handler result that keeps or raises the units of its own key cannot lower anybody's
  have keep : ∀ (k0 : String) (r : Except Err (Option LP)),
      (∀ o, r = .ok o → unitsOf (s.lps k0) ≤ unitsOf o) →
      ¬ unitsOf ((commit s k0 r).1.lps k) < unitsOf (s.lps k) := by
    intro k0 r hr hlt
    cases r with
    | error e => exact Nat.lt_irrefl _ hlt
    | ok o =>
      simp only [commit] at hlt
      by_cases hk : k = k0
      · subst hk; rw [set_same] at hlt; have := hr o rfl; omega
      · rw [set_other s o hk] at hlt; exact Nat.lt_irrefl _ hlt
  -- a removal: the state is unchanged unless accepted, and then only its own key moves
  have removal : ∀ (k0 : String) (op0 : Op) (r : Except Err (Option LP)),
      step s h op0 = commit s k0 r →
      (∀ s', step s h op0 = (s', .ok) → ∃ lp, s.lps k0 = some lp ∧ unitsOf (s'.lps k0) ≤ lp.units ∧
        removeOK s.L s.C h lp.unlocks (lp.units - unitsOf (s'.lps k0)) true = true ∧
        consumedOK s.L lp.unlocks (unlocksOf (s'.lps k0)) (lp.units - unitsOf (s'.lps k0)) true = true) →
      unitsOf ((step s h op0).1.lps k) < unitsOf (s.lps k) →
      ∃ lp, s.lps k = some lp ∧
        removeOK s.L s.C h lp.unlocks (lp.units - unitsOf ((step s h op0).1.lps k)) true = true ∧
        consumedOK s.L lp.unlocks (unlocksOf ((step s h op0).1.lps k)) (lp.units - unitsOf ((step s h op0).1.lps k)) true = true := by
    intro k0 op0 r hstep hacc hlt
    cases r with
    | error e => rw [hstep] at hlt; exact absurd hlt (Nat.lt_irrefl _)
    | ok o =>
      have hs : step s h op0 = (s.set k0 o, .ok) := by rw [hstep]; rfl
      by_cases hk : k = k0
      · subst hk
        obtain ⟨lp, hlp, _, h1, h2⟩ := hacc _ hs
        rw [hs]
        exact ⟨lp, hlp, h1, h2⟩
      · rw [hs] at hlt
        simp only at hlt
        rw [set_other s o hk] at hlt
        exact absurd hlt (Nat.lt_irrefl _)
  cases op with
  | setParams L C => exact absurd hdec (Nat.lt_irrefl _)
  | unlock k0 u =>
    refine absurd hdec (keep k0 _ ?_)
    intro o ho
    obtain ⟨lp, hlp, hu⟩ := unlockH_ok ho
    obtain ⟨ho', _⟩ := unlockLP_ok hu
    rw [hlp, ho']; exact Nat.le_refl _
  | cancel k0 u =>
    refine absurd hdec (keep k0 _ ?_)
    intro o ho
    obtain ⟨lp, hlp, hu⟩ := cancelH_ok ho
    obtain ⟨st, ho', _⟩ := cancelLP_ok hu
    rw [hlp, ho']; exact Nat.le_refl _
  | add k0 m =>
    refine absurd hdec (keep k0 _ ?_)
    intro o ho
    obtain ⟨lp, ho', _, hle⟩ := addH_ok ho
    rw [ho']; exact hle
  | removeUnits k0 w hc =>
    exact removal k0 _ _ rfl (fun s' hs' => remove_requires_matured s s' h k0 w hc hs') hdec
  | remove k0 wb a hc =>
    exact removal k0 _ _ rfl (fun s' hs' => remove_requires_matured_wbasis s s' h k0 wb a hc hs') hdec

/-! ### stored records are the provider's real requests, at their real heights -/

/-- Along every history from the empty chain, for every provider and every height q: the units of the
    stored unlock records dated q never exceed the units of the unlock requests that were ACCEPTED at
    height q.  No message — in particular no parameter change by the admin — re-dates, duplicates or
    grows a request; so "matured" always refers to the height at which the request was really made. -/
theorem stored_records_are_requests (L C : Nat) (ops : List (Int × Op)) (k : String) :
    genuineOK ((runR (St.init L C) (fun _ => []) ops).2 k)
      (unlocksOf ((runR (St.init L C) (fun _ => []) ops).1.lps k)) = true := by
  have hG : G (St.init L C) (fun _ => []) := by intro k q; simp [St.init, unlocksOf, unitsAt, total]
  have := G_run ops hG k
  unfold genuineOK
  rw [List.all_eq_true]
  intro r _
  exact decide_eq_true (this r.height)

/-- a parameter change leaves every provider record exactly as it was -/
theorem param_change_touches_no_record (s : St) (h : Int) (L' C' : Nat) (k : String) :
    (step s h (.setParams L' C')).1.lps k = s.lps k := rfl

/-! ### outstanding_le_units -/

/-- After every message of every history whose block heights do not decrease (and are valid int64
    heights), for every provider: the stored requests total at most the provider's units. -/
theorem outstanding_le_units (L C : Nat) (ops : List (Int × Op)) (hm : heightsMono 0 ops = true) (k : String) :
    outstandingOK (unitsOf ((run (St.init L C) ops).lps k)) (unlocksOf ((run (St.init L C) ops).lps k)) = true := by
  have hw : WF 0 (St.init L C) := by intro k lp hlp; simp [St.init] at hlp
  obtain ⟨hc, hw'⟩ := WF_run ops (Int.le_refl 0) hm hw
  unfold outstandingOK
  cases hs : (run (St.init L C) ops).lps k with
  | none => simp [unitsOf, unlocksOf, total]
  | some lp => simp only [unitsOf, unlocksOf]; exact decide_eq_true (hw' k lp hs).1

/-! ### lock_zero_free -/

/-- With lock period 0 a removal is never refused for lack of unlock requests. -/
theorem lock_zero_free (s : St) (h : Int) (k : String) (w : Nat) (hc : Health) (hL : s.L = 0) :
    lockZeroOK s.L (step s h (.removeUnits k w hc)).2 = true := by
  unfold lockZeroOK
  simp only [hL, decide_true, Bool.not_true, Bool.false_or, decide_eq_true_eq]
  intro hbal
  have hst : step s h (.removeUnits k w hc) = ((step s h (.removeUnits k w hc)).1, .err .bal) := by rw [← hbal]
  obtain ⟨hr0, _⟩ := commit_err (show commit s k (gate hc (removeUnitsH s.L s.C h (s.lps k) w)) = (_, .err .bal) from hst)
  have hr := gate_err_bal hr0
  unfold removeUnitsH at hr
  split at hr
  · cases hr
  · cases hlp : s.lps k with
    | none => rw [hlp] at hr; cases hr
    | some lp =>
      rw [hlp] at hr
      simp only [removeUnitsLP] at hr
      split at hr
      · cases hr
      · cases hl : liftP (leftFromUnits lp.units w) with
        | error e =>
          rw [hl] at hr
          cases hm : leftFromUnits lp.units w with
          | ok v => rw [hm] at hl; cases hl
          | error e' => rw [hm] at hl; simp only [liftP] at hl; cases hl; cases hr
        | ok left =>
          rw [hl, hL] at hr
          exact removeCore_not_bal_of_lock_zero hr

theorem lock_zero_free_wbasis (s : St) (h : Int) (k : String) (wb a : Int) (hc : Health) (hL : s.L = 0) :
    lockZeroOK s.L (step s h (.remove k wb a hc)).2 = true := by
  unfold lockZeroOK
  simp only [hL, decide_true, Bool.not_true, Bool.false_or, decide_eq_true_eq]
  intro hbal
  have hst : step s h (.remove k wb a hc) = ((step s h (.remove k wb a hc)).1, .err .bal) := by rw [← hbal]
  obtain ⟨hr0, _⟩ := commit_err (show commit s k (gate hc (removeH s.L s.C h (s.lps k) wb a)) = (_, .err .bal) from hst)
  have hr := gate_err_bal hr0
  unfold removeH at hr
  split at hr
  · cases hr
  · cases hlp : s.lps k with
    | none => rw [hlp] at hr; cases hr
    | some lp =>
      rw [hlp] at hr
      simp only [removeLP] at hr
      split at hr
      · cases hr
      · simp only [removeLP2] at hr
        have hpanic : ∀ {α} (m : M α) (e : Err), liftP m = .error e → e = .panic := by
          intro α m e hm
          cases m with
          | ok v => cases hm
          | error e' => simp only [liftP] at hm; cases hm; rfl
        cases hm : liftP (convWBasis lp.units wb.toNat) with
        | error e => rw [hm] at hr; have := hpanic _ _ hm; subst this; cases hr
        | ok mu =>
          rw [hm] at hr
          simp only at hr
          split at hr
          · cases hr
          · cases hl : liftP (leftFromWBasis lp.units wb.toNat) with
            | error e => rw [hl] at hr; have := hpanic _ _ hl; subst this; cases hr
            | ok left =>
              rw [hl, hL] at hr
              exact removeCore_not_bal_of_lock_zero hr

/-! ### param_change_uses_current_L -/

/-- After the admin changes the periods, the next removal is judged with the NEW lock and cancel
    periods (a request that matured under the old period does not stay matured, and vice versa):
    the rule of `remove_requires_matured` holds with `L'`, `C'`. -/
theorem param_change_uses_current_L (s s' : St) (h h' : Int) (L' C' : Nat) (k : String) (w : Nat) (hc : Health)
    (hok : step (step s h (.setParams L' C')).1 h' (.removeUnits k w hc) = (s', .ok)) :
    ∃ lp, s.lps k = some lp ∧
      removeOK L' C' h' lp.unlocks (lp.units - unitsOf (s'.lps k)) true = true := by
  obtain ⟨lp, hlp, _, hr, _⟩ := remove_requires_matured _ s' h' k w hc hok
  exact ⟨lp, hlp, hr⟩

/-! ### observation outside the envelope (DESIGN 4/C15, candidate): a lock period ≥ 2^63 makes
    `int64(lockPeriod)` negative, so the code treats a request as matured at once, although by the
    specification it is not.  `UpdateRewardsParams` validates nothing. -/
theorem lock_period_wrap_observation :
    maturedGo 9223372036854775808 10 ⟨10, 5⟩ = true ∧ matured 9223372036854775808 10 ⟨10, 5⟩ = false := by
  decide

/-! ### non-vacuity: concrete histories that meet the hypotheses -/

/-- provider "p" gets 100 units, L = 3, C = 50; requests 40 at height 10; removal of 40 units at
    height 12 is refused, at height 13 accepted; a second removal of 1 unit at 13 is refused (the
    request was consumed) -/
def exampleHistory : List (Int × Op) :=
  [(1, .add "p" 100), (10, .unlock "p" 40), (12, .removeUnits "p" 40 .pass), (13, .removeUnits "p" 40 .pass), (13, .removeUnits "p" 1 .pass)]

example : heightsMono 0 exampleHistory = true := by decide
example : (step (run (St.init 3 50) (exampleHistory.take 2)) 12 (.removeUnits "p" 40 .pass)).2 = .err .bal := by decide
example : (step (run (St.init 3 50) (exampleHistory.take 2)) 13 (.removeUnits "p" 40 .pass)).2 = .ok := by decide
example : (step (run (St.init 3 50) (exampleHistory.take 4)) 13 (.removeUnits "p" 1 .pass)).2 = .err .bal := by decide
example : inEnvelope 3 50 13 [⟨10, 40⟩] = true := by decide
/-- hypotheses of `remove_refused_when_short` at height 12: nothing usable yet, 40 ≤ 100 units -/
example : inEnvelope 3 50 12 [⟨10, 40⟩] = true ∧ usable 3 50 12 [⟨10, 40⟩] < 40 := by decide
/-- at height 63 = 10 + 3 + 50 the request has expired -/
example : usable 3 50 62 [⟨10, 40⟩] = 40 ∧ usable 3 50 63 [⟨10, 40⟩] = 0 := by decide
/-- the zero-unit record lingers in the store after a removal (it is dropped at the next prune) -/
example : ((run (St.init 3 50) (exampleHistory.take 4)).lps "p") = some ⟨60, [⟨10, 0⟩]⟩ := by decide
/-- the same removal when the margin-health stage would queue it: refused, the request is untouched -/
example : (step (run (St.init 3 50) (exampleHistory.take 2)) 13 (.removeUnits "p" 40 .queue)).2 = .err .queued ∧
    (step (run (St.init 3 50) (exampleHistory.take 2)) 13 (.removeUnits "p" 40 .queue)).1.lps "p" = some ⟨100, [⟨10, 40⟩]⟩ := by decide
/-- a record re-dated to an earlier height is not covered by the request ledger, and counts for nothing -/
example : genuineOK [⟨10, 40⟩] [⟨10, 40⟩] = true ∧ genuineOK [⟨10, 40⟩] [⟨7, 40⟩] = false ∧
    removeRealOK [⟨10, 40⟩] 3 50 12 [⟨7, 40⟩] 40 true = false ∧ removeRealOK [⟨10, 40⟩] 3 50 13 [⟨10, 40⟩] 40 true = true := by decide
/-- lock period 0: the same removal needs no request -/
example : (step (run (St.init 0 50) (exampleHistory.take 1)) 5 (.removeUnits "p" 40 .pass)).2 = .ok := by decide

end Sif.Props.C15
