import Sif.Proofs.C20Mint
import Sif.Proofs.C20Rewards
import Sif.Proofs.C20RewardsEdits
import Sif.Proofs.C20RewardsR
import Sif.Proofs.C11Chain
import Sif.Generated.DispConsts
import Sif.Generated.MintCallers
import Sif.Generated.DispHooks
import Sif.Generated.AccuReset
import Sif.Generated.BlockShare
import Sif.Generated.Migrations
import Sif.Generated.MintSource
/-
  C20 — Policy-driven issuance is bounded.  Property theorems only.

  Part (a): the dispensation BeginBlocker (ecosystem mint).  Quantifiers: every cap, per-block
  amount, starting counter ≤ cap, number of blocks, bank state, set of blocked addresses (so the
  send to the ecosystem pool may fail in any block), arbitrary bank traffic between blocks.
-/
namespace Sif.Props.C20
open Sif Sif.Disp Sif.Spec.C20

/-! ## (a) ecosystem mint -/

/-- The BeginBlocker never panics (`NewCoin` never sees a negative amount). -/
theorem mint_no_panic (cfg : MintCfg) (blocked : Addr → Bool) (s : MintState) :
    ∃ s', beginBlocker cfg blocked s = .ok s' := by
  obtain ⟨s', h, _⟩ := beginBlocker_ok cfg blocked s
  exact ⟨s', h⟩

/-- One block: the counter moves to min(c + perBlock, cap) when c ≤ cap and stays otherwise. -/
theorem mint_step_counter (cfg : MintCfg) (blocked : Addr → Bool) (s s' : MintState)
    (h : beginBlocker cfg blocked s = .ok s') :
    s'.counter = s.counter.map (nextCounter cfg.cap cfg.perBlock) := by
  obtain ⟨s'', h', hc, _⟩ := beginBlocker_ok cfg blocked s
  rw [h] at h'; cases h'; exact hc

/-- `mint_counter`: after n blocks — with arbitrary changes to the bank between blocks and
    whether or not the sends to the ecosystem pool succeed — the counter is
    min(c₀ + n·perBlock, cap). -/
theorem mint_counter (cfg : MintCfg) (blocked : Addr → Bool) (gs : List (Bank → Bank)) (s : MintState)
    (c0 : Nat) (hc : s.counter = some c0) (h0 : c0 ≤ cfg.cap) :
    ∃ s', runWith cfg blocked gs s = .ok s' ∧
      s'.counter = some (min (c0 + gs.length * cfg.perBlock) cfg.cap) := by
  induction gs generalizing s c0 with
  | nil => exact ⟨s, rfl, by simp [hc, Nat.min_eq_left h0]⟩
  | cons g gs ih =>
    obtain ⟨s1, h1, hc1, _⟩ := beginBlocker_ok cfg blocked { s with bank := g s.bank }
    have hc1' : s1.counter = some (min (c0 + cfg.perBlock) cfg.cap) := by
      rw [hc1]; simp only [hc, Option.map, nextCounter, if_pos h0]
    obtain ⟨s', h', hc'⟩ := ih s1 _ hc1' (Nat.min_le_right _ _)
    refine ⟨s', ?_, ?_⟩
    · simp only [runWith, h1]; exact h'
    · rw [hc']; congr 1
      simp only [List.length_cons, Nat.add_mul]
      omega

/-- The cumulative total never exceeds the cap. -/
theorem mint_le_cap (cfg : MintCfg) (blocked : Addr → Bool) (gs : List (Bank → Bank)) (s s' : MintState)
    (c0 : Nat) (hc : s.counter = some c0) (h0 : c0 ≤ cfg.cap) (h : runWith cfg blocked gs s = .ok s') :
    ∃ c, s'.counter = some c ∧ c ≤ cfg.cap := by
  obtain ⟨s'', h', hc'⟩ := mint_counter cfg blocked gs s c0 hc h0
  rw [h] at h'; cases h'
  exact ⟨_, hc', Nat.min_le_right _ _⟩

/-- In the last block exactly the remainder is minted and the counter reaches the cap. -/
theorem mint_last_block_remainder (cfg : MintCfg) (blocked : Addr → Bool) (s s' : MintState) (c : Nat)
    (hc : s.counter = some c) (hlt : c < cfg.cap) (hlast : cfg.cap - c ≤ cfg.perBlock)
    (h : beginBlocker cfg blocked s = .ok s') :
    s'.counter = some cfg.cap ∧ s'.bank.sup cfg.denom = s.bank.sup cfg.denom + (cfg.cap - c) := by
  obtain ⟨s'', h', hc', hs⟩ := beginBlocker_ok cfg blocked s
  rw [h] at h'; cases h'
  have e : nextCounter cfg.cap cfg.perBlock c = cfg.cap := by
    unfold nextCounter; rw [if_pos (Nat.le_of_lt hlt)]; omega
  constructor
  · rw [hc', hc]; simp [e]
  · rw [hs cfg.denom]; simp [ctr, hc', hc, e]

/-- Once the cap is reached nothing is minted any more: the block leaves the state unchanged. -/
theorem mint_nothing_after_cap (cfg : MintCfg) (blocked : Addr → Bool) (s : MintState) (c : Nat)
    (hc : s.counter = some c) (hge : cfg.cap ≤ c) : beginBlocker cfg blocked s = .ok s := by
  rcases beginBlocker_cases cfg blocked s with ⟨h, _⟩ | ⟨c', _, hc', hlt, _⟩
  · exact h
  · rw [hc] at hc'; cases hc'; omega

/-- No controller in the store: nothing is minted. -/
theorem mint_absent_controller (cfg : MintCfg) (blocked : Addr → Bool) (s : MintState)
    (hc : s.counter = none) : beginBlocker cfg blocked s = .ok s := by
  rcases beginBlocker_cases cfg blocked s with ⟨h, _⟩ | ⟨c', _, hc', _⟩
  · exact h
  · rw [hc] at hc'; cases hc'

/-- The counter equals the amount actually minted, per block and for every denom, also when the
    send to the ecosystem pool fails (blocked is arbitrary). -/
theorem mint_counter_is_minted (cfg : MintCfg) (blocked : Addr → Bool) (s s' : MintState)
    (h : beginBlocker cfg blocked s = .ok s') (d : Denom) :
    s'.bank.sup d = s.bank.sup d + (if d = cfg.denom then ctr s' - ctr s else 0) ∧ ctr s ≤ ctr s' := by
  obtain ⟨s'', h', hc', hs⟩ := beginBlocker_ok cfg blocked s
  rw [h] at h'; cases h'
  refine ⟨hs d, ?_⟩
  unfold ctr; rw [hc']
  cases s.counter with
  | none => simp
  | some c => simp only [Option.map, Option.getD, nextCounter]; split <;> omega

/-- …and over n consecutive blocks. -/
theorem mint_counter_is_minted_n (cfg : MintCfg) (blocked : Addr → Bool) (n : Nat) (s s' : MintState)
    (h : runBlocks cfg blocked n s = .ok s') :
    s'.bank.sup cfg.denom = s.bank.sup cfg.denom + (ctr s' - ctr s) ∧ ctr s ≤ ctr s' := by
  induction n generalizing s with
  | zero => simp only [runBlocks] at h; cases h; simp
  | succ n ih =>
    obtain ⟨s1, h1⟩ := mint_no_panic cfg blocked s
    simp only [runBlocks, h1] at h
    obtain ⟨e1, l1⟩ := mint_counter_is_minted cfg blocked s s1 h1 cfg.denom
    obtain ⟨e2, l2⟩ := ih s1 h
    rw [if_pos rfl] at e1
    constructor <;> omega

/-- The coins minted in a block are in the ecosystem pool or — when the send failed — still in the
    module account; nobody else's balance moves. -/
theorem mint_held (cfg : MintCfg) (blocked : Addr → Bool) (s s' : MintState) (hne : cfg.ecoPool ≠ cfg.module)
    (h : beginBlocker cfg blocked s = .ok s') (d : Denom) :
    s'.bank.bal cfg.ecoPool d + s'.bank.bal cfg.module d
      = s.bank.bal cfg.ecoPool d + s.bank.bal cfg.module d + (if d = cfg.denom then ctr s' - ctr s else 0)
    ∧ ∀ a, a ≠ cfg.ecoPool → a ≠ cfg.module → s'.bank.bal a d = s.bank.bal a d := by
  rcases beginBlocker_cases cfg blocked s with ⟨h', _⟩ | ⟨c, amt, hc, _, _, _, h'⟩
  · rw [h] at h'; cases h'; simp
  · rw [h] at h'; cases h'
    constructor
    · rw [mintTail_hold _ _ _ _ _ _ hne]; simp [ctr, mintTail, hc]
    · intro a h1 h2; exact mintTail_other _ _ _ _ _ _ _ h1 h2

/-- `mint_reaches_eco`: when the ecosystem pool is not a blocked address, everything a block counts
    is delivered to the ecosystem-pool address and the module account keeps none of it — the
    predicate the wired application is judged by after every block (whatever the bank's SendEnabled
    parameters: they are not an input of the model, nor of the code's module-to-account send) -/
theorem mint_reaches_eco (cfg : MintCfg) (blocked : Addr → Bool) (s s' : MintState)
    (hne : cfg.ecoPool ≠ cfg.module) (hnb : blocked cfg.ecoPool = false)
    (h : beginBlocker cfg blocked s = .ok s') :
    mintToEcoOK (ctr s) (ctr s') (s.bank.bal cfg.ecoPool cfg.denom) (s'.bank.bal cfg.ecoPool cfg.denom)
      (s.bank.bal cfg.module cfg.denom) (s'.bank.bal cfg.module cfg.denom) = true := by
  unfold mintToEcoOK
  simp only [Bool.and_eq_true, decide_eq_true_eq]
  rcases beginBlocker_cases cfg blocked s with ⟨h', _⟩ | ⟨c, amt, hc, _, _, _, h'⟩
  · rw [h] at h'; cases h'; simp
  · rw [h] at h'; cases h'
    obtain ⟨e1, e2⟩ := mintTail_to_eco cfg blocked c amt s.bank hne hnb
    have hcs : ctr s = c := by simp [ctr, hc]
    have hcs' : ctr (mintTail cfg blocked c amt s.bank) = c + amt := by simp [ctr, mintTail]
    rw [hcs, hcs', e1, e2]
    refine ⟨⟨?_, rfl⟩, ?_⟩ <;> omega

/-- The module account's balance never decreases in the BeginBlocker (C11's escrow can only grow). -/
theorem mint_module_balance_mono (cfg : MintCfg) (blocked : Addr → Bool) (s s' : MintState)
    (hne : cfg.ecoPool ≠ cfg.module) (h : beginBlocker cfg blocked s = .ok s') (d : Denom) :
    s.bank.bal cfg.module d ≤ s'.bank.bal cfg.module d :=
  beginBlocker_module_mono cfg blocked s s' hne h d

/-- Restart: the step reads nothing but the state (= the committed store: key 0x03 and the bank), so
    running m blocks, committing, and running n more from the committed state is running m+n. -/
theorem mint_restart (cfg : MintCfg) (blocked : Addr → Bool) (m n : Nat) (s : MintState) :
    runBlocks cfg blocked (m + n) s = (runBlocks cfg blocked m s >>= runBlocks cfg blocked n) := by
  induction m generalizing s with
  | zero => simp [runBlocks]; rfl
  | succ m ih =>
    rw [Nat.add_right_comm]
    simp only [runBlocks]
    obtain ⟨s1, h1⟩ := mint_no_panic cfg blocked s
    simp only [h1]
    exact ih s1

/-- The judge's predicate is what the theorems state: it holds of every model step. -/
theorem mintStepOK_model (cfg : MintCfg) (blocked : Addr → Bool) (s s' : MintState) (c : Nat)
    (hne : cfg.ecoPool ≠ cfg.module) (hc : s.counter = some c) (h : beginBlocker cfg blocked s = .ok s') :
    mintStepOK cfg.cap cfg.perBlock c (ctr s') (s.bank.sup cfg.denom) (s'.bank.sup cfg.denom)
      (s.bank.bal cfg.ecoPool cfg.denom + s.bank.bal cfg.module cfg.denom)
      (s'.bank.bal cfg.ecoPool cfg.denom + s'.bank.bal cfg.module cfg.denom) = true := by
  obtain ⟨e1, l1⟩ := mint_counter_is_minted cfg blocked s s' h cfg.denom
  obtain ⟨e2, _⟩ := mint_held cfg blocked s s' hne h cfg.denom
  have hc' := mint_step_counter cfg blocked s s' h
  have hcs : ctr s = c := by simp [ctr, hc]
  have hcs' : ctr s' = nextCounter cfg.cap cfg.perBlock c := by simp [ctr, hc', hc]
  rw [if_pos rfl] at e1 e2
  unfold mintStepOK
  simp only [Bool.and_eq_true, decide_eq_true_eq]
  rw [hcs] at e1 e2 l1
  exact ⟨⟨⟨hcs', e1⟩, e2⟩, l1⟩

/-! ### facts regenerated from the source (tie 1) -/

/-- the cap in the source is the 350,000,000 rowan of the property statement -/
theorem cap_is_350M : Sif.Generated.DispConsts.maxMintAmount = capRowan := by decide

/-- every constant and prefix of types/keys.go was readable as a literal -/
theorem dispconsts_readable : Sif.Generated.DispConsts.unreadable = [] := by decide

/-- the BeginBlocker takes the amount it mints from the compiled-in constant `MintAmountPerBlock`
    (or, in the last block, the remainder under the cap) and no consensus code of x/dispensation
    looks at the chain id: the model's BeginBlocker has no chain-id input (regenerated fact; a
    per-network amount, or any other source, changes it) -/
theorem mint_amount_from_constant :
    Sif.Generated.MintSource.beginBlockerFound = 1 ∧
    Sif.Generated.MintSource.mintAmountAssigns =
      [ ("sdk.NewIntFromString(types.MintAmountPerBlock)", []),
        ("maxMintAmount.Sub(controller.TotalCounter.Amount)", ["k.IsLastBlock(ctx)"]) ] ∧
    Sif.Generated.MintSource.chainIdRefs = [] := by decide

/-- the per-block amount of the property text: 225 rowan (18 decimals) -/
theorem perBlock_is_225 : Sif.Generated.DispConsts.mintAmountPerBlock = 225 * 10 ^ 18 := by decide

/-- the per-block amount is positive and does not exceed the cap -/
theorem perBlock_sane : 0 < Sif.Generated.DispConsts.mintAmountPerBlock ∧
    Sif.Generated.DispConsts.mintAmountPerBlock ≤ Sif.Generated.DispConsts.maxMintAmount := by decide

/-! ### the BeginBlocker inside the application (how often it runs per block)

  `module.Manager.BeginBlock` walks the list given to `SetOrderBeginBlockers`; a module listed k
  times has its BeginBlocker executed k times per block. -/

/-- number of entries of `SetOrderBeginBlockers` that name the dispensation module -/
def dispBeginEntries : Nat :=
  (Sif.Generated.DispHooks.beginBlockers.filter
    (fun p => "github.com/Sifchain/sifnode/x/dispensation".toList.isPrefixOf p.toList)).length

/-- a block of an application that lists the module k times: the counter moves by k·perBlock
    (clamped at the cap) — so "the fixed per-block amount" needs k = 1 -/
theorem app_block_counter (cfg : MintCfg) (blocked : Addr → Bool) (k : Nat) (s : MintState) (c0 : Nat)
    (hc : s.counter = some c0) (h0 : c0 ≤ cfg.cap) :
    ∃ s', runBlocks cfg blocked k s = .ok s' ∧ s'.counter = some (min (c0 + k * cfg.perBlock) cfg.cap) := by
  induction k generalizing s c0 with
  | zero => exact ⟨s, rfl, by simp [hc, Nat.min_eq_left h0]⟩
  | succ k ih =>
    obtain ⟨s1, h1, hc1, _⟩ := beginBlocker_ok cfg blocked s
    have hc1' : s1.counter = some (min (c0 + cfg.perBlock) cfg.cap) := by
      rw [hc1]; simp only [hc, Option.map, nextCounter, if_pos h0]
    obtain ⟨s', h', hc'⟩ := ih s1 _ hc1' (Nat.min_le_right _ _)
    refine ⟨s', ?_, ?_⟩
    · simp only [runBlocks, h1]; exact h'
    · rw [hc']; congr 1
      rw [Nat.add_mul]
      omega

/-- the application lists the dispensation module exactly once among its begin blockers, and there
    is exactly one `SetOrderBeginBlockers` call (regenerated fact; defect F22 of the pinned tree:
    it was listed twice — `disptypes.ModuleName` and `dispensation.ModuleName` — so 2 × 225 rowan
    were minted per block) -/
theorem dispensation_begin_blocker_once :
    dispBeginEntries = 1 ∧ Sif.Generated.DispHooks.beginBlockersCalls = 1 := by decide

/-! ### store migrations (what a software upgrade runs)

  `app/setup_handlers.go` registers an upgrade handler that calls `mm.RunMigrations` with the module
  version map stored on chain; every registered migration from a version the chain can still be
  at is executed by the x/upgrade BeginBlocker. -/

/-- A software upgrade is not an operation of the mint model: its state is exactly the stored
    counter and the bank, which no migration may touch (facts `migrations_keep_mint_state`). -/
def upgradeStep (s : MintState) : MintState := s

theorem upgrade_preserves_mint_state (s : MintState) : upgradeStep s = s := rfl

/-- the running-total predicate holds of the model: after any number of blocks (with upgrade steps
    anywhere in between — identities) from a counter c₀ ≤ cap, the counter is c₀ plus the supply
    created, and at most the cap -/
theorem mint_total_model (cfg : MintCfg) (blocked : Addr → Bool) (n : Nat) (s s' : MintState) (c0 : Nat)
    (hc : s.counter = some c0) (h0 : c0 ≤ cfg.cap) (h : runBlocks cfg blocked n s = .ok s') :
    mintTotalOK cfg.cap c0 (s'.bank.sup cfg.denom - s.bank.sup cfg.denom) (ctr s') = true := by
  obtain ⟨e, l⟩ := mint_counter_is_minted_n cfg blocked n s s' h
  obtain ⟨s'', h', hc'⟩ := app_block_counter cfg blocked n s c0 hc h0
  rw [h] at h'; cases h'
  have hcs : ctr s = c0 := by simp [ctr, hc]
  have hcs' : ctr s' = min (c0 + n * cfg.perBlock) cfg.cap := by simp [ctr, hc']
  unfold mintTotalOK
  simp only [Bool.and_eq_true, decide_eq_true_eq]
  rw [hcs] at e l
  have : ctr s' ≤ cfg.cap := by rw [hcs']; exact Nat.min_le_right _ _
  constructor <;> omega

/-- the registered migrations of x/clp and x/dispensation and the modules' consensus versions are
    the expected ones (a new migration, a changed handler or a bumped version changes the fact).
    The dispensation 1→2 migration does call `SetMintController` (observation O3): it ran on the
    released chain before the mint programme's counter mattered and cannot run again on a chain
    whose version map has dispensation at 2. -/
theorem migrations_expected :
    Sif.Generated.Migrations.consensusVersions = [("clp", 5), ("dispensation", 2)] ∧
    Sif.Generated.Migrations.migrations.map (fun m => (m.1, m.2.1, m.2.2.1, m.2.2.2.2)) =
      [ ("clp", 1, "m.MigrateToVer2", []), ("clp", 2, "m.MigrateToVer3", []), ("clp", 3, "m.MigrateToVer4", []),
        ("clp", 4, "m.MigrateToVer5", []), ("dispensation", 1, "m.MigrateToVer2", ["SetMintController"]) ] := by
  decide

/-- versions of the released chain (its stored module version map) -/
def releasedVersion (m : String) : Nat := if m = "dispensation" then 2 else if m = "clp" then 5 else 0

/-- no migration that can still run on the released chain (from-version ≥ the released version)
    reaches `InitGenesis`, `SetMintController`, `AddMintAmount`, `MintCoins`,
    `SetBlockDistributionAccu` or `DistributeDepthRewards`: an upgrade is the identity on the mint
    counter and the reward accumulator and creates nothing -/
theorem migrations_keep_mint_state :
    Sif.Generated.Migrations.migrations.all
      (fun m => decide (m.2.1 < releasedVersion m.1) || decide (m.2.2.2.2 = [])) = true := by
  decide

/-! ### bridge credits: consensus-approved, once per prophecy -/

open Sif.Bridge in
/-- a claim on a prophecy that is already final is rejected and creates nothing -/
theorem finalized_claim_creates_nothing (s : BState) (c : ClaimIn) (h : isFinal s c.pid = true) :
    claim s c = (s, false, 0) := by
  unfold claim; rw [if_pos h]

open Sif.Bridge in
/-- the judge's predicate holds of every model step -/
theorem bridgeTxOK_model (s : BState) (c : ClaimIn) :
    bridgeTxOK (isFinal s c.pid) (claim s c).2.1 (c.success && (claim s c).2.1) c.rowan c.amount (claim s c).2.2 = true := by
  unfold bridgeTxOK claim
  cases hf : isFinal s c.pid <;> cases ha : c.accepted <;> cases hs : c.success <;> cases hr : c.rowan <;> simp

open Sif.Bridge in
theorem claim_inv (s : BState) (c : ClaimIn) (hn : (s.final.map (·.1)).Nodup) (he : s.supply = credited s) :
    ((claim s c).1.final.map (·.1)).Nodup ∧ (claim s c).1.supply = credited (claim s c).1 := by
  unfold claim
  by_cases hf : isFinal s c.pid = true
  · rw [if_pos hf]; exact ⟨hn, he⟩
  · rw [if_neg hf]
    by_cases ha : (!c.accepted) = true
    · rw [if_pos ha]; exact ⟨hn, he⟩
    · rw [if_neg ha]
      by_cases hs : c.success = true
      · rw [if_pos hs]
        simp only [List.map_append, List.map_cons, List.map_nil]
        constructor
        · rw [List.nodup_append]
          refine ⟨hn, by simp, ?_⟩
          intro a ha' b hb
          simp at hb; subst hb
          intro e; subst e
          apply hf
          unfold isFinal
          rw [List.any_eq_true]
          obtain ⟨p, hp, hpe⟩ := List.mem_map.mp ha'
          exact ⟨p, hp, by simp [hpe]⟩
        · unfold credited
          simp only [List.map_append, List.map_cons, List.map_nil, List.sum_append, List.sum_cons, List.sum_nil]
          unfold credited at he
          omega
      · rw [if_neg hs]; exact ⟨hn, he⟩

open Sif.Bridge in
/-- `bridge_credit_once`: after every history of claim transactions — late claims, duplicates,
    re-sent identical claims, conflicting claims, whatever the oracle answers — the rowan created by
    the bridge is the sum of the credits of the finalised prophecies, and no prophecy is in that
    list twice -/
theorem bridge_credit_once (cs : List ClaimIn) :
    ((runClaims BState.empty cs).final.map (·.1)).Nodup ∧
    (runClaims BState.empty cs).supply = credited (runClaims BState.empty cs) := by
  have gen : ∀ (cs : List ClaimIn) (s : BState), (s.final.map (·.1)).Nodup → s.supply = credited s →
      ((runClaims s cs).final.map (·.1)).Nodup ∧ (runClaims s cs).supply = credited (runClaims s cs) := by
    intro cs
    induction cs with
    | nil => intro s hn he; exact ⟨hn, he⟩
    | cons c cs ih =>
      intro s hn he
      obtain ⟨h1, h2⟩ := claim_inv s c hn he
      exact ih _ h1 h2
  exact gen cs BState.empty (by simp [BState.empty]) (by simp [BState.empty, credited])

/- non-vacuity: A pending, B reaches consensus (1000 credited), C late, A and B re-send: 1000 once -/
example : (Sif.Bridge.runClaims Sif.Bridge.BState.empty
    [⟨7, 1000, true, true, false⟩, ⟨7, 1000, true, true, true⟩, ⟨7, 1000, true, true, true⟩,
     ⟨7, 1000, true, true, true⟩, ⟨7, 1000, true, true, true⟩]).supply = 1000 := by decide

/-! ## (c) `cap_const`: who can mint, who can write the counter (facts regenerated from the source)

  A new caller of `MintCoins`, `SetMintController`, `AddMintAmount` or `DistributeDepthRewards`, a
  new KVStore write in x/dispensation, or a new reference to `MintControllerPrefix` changes the
  generated list and fails the obligation. -/

open Sif.Generated.MintCallers in
/-- production call sites: rowan (or any coin) is minted only by the dispensation BeginBlocker,
    clp `DistributeDepthRewards` (called only from the clp EndBlocker), ethbridge
    `ProcessSuccessfulClaim` (consensus-approved bridge credits) and the IBC decimal-conversion
    helper; the counter is written only through `SetMintController`, called by `AddMintAmount`
    (called only from the BeginBlocker), `InitGenesis` and the v2 store migration. -/
theorem cap_const_callers : prodCalls =
    [ ("x/clp/abci.go", "EndBlocker", "DistributeDepthRewards"),
      ("x/clp/keeper/rewards.go", "Keeper.DistributeDepthRewards", "MintCoins"),
      ("x/dispensation/abci.go", "BeginBlocker", "AddMintAmount"),
      ("x/dispensation/abci.go", "BeginBlocker", "MintCoins"),
      ("x/dispensation/genesis.go", "InitGenesis", "SetMintController"),
      ("x/dispensation/keeper/migrations.go", "Migrator.MigrateToVer2", "SetMintController"),
      ("x/dispensation/keeper/mint_controller.go", "Keeper.AddMintAmount", "SetMintController"),
      ("x/ethbridge/keeper/keeper.go", "Keeper.ProcessSuccessfulClaim", "MintCoins"),
      ("x/ethbridge/keeper/keeper.go", "Keeper.ProcessSuccessfulClaim", "MintCoins"),
      ("x/ibctransfer/helpers/conversion_helper.go", "PrepareToSendConvertedCoins", "MintCoins") ] := by decide

open Sif.Generated.MintCallers in
/-- no message handler (a method of a `msgServer`, or a function of a handler.go / msg_server.go
    file) is among them -/
theorem cap_const_no_handler :
    prodCalls.all (fun c => !("msgServer.".toList.isPrefixOf c.2.1.toList) &&
      !("msg_server.go".toList.isSuffixOf c.1.toList) && !("handler.go".toList.isSuffixOf c.1.toList)) = true := by
  decide

open Sif.Generated.MintCallers in
/-- the only test-support callers (never linked into the node binary's message path) -/
theorem cap_const_testsupport : testSupportCalls =
    [ ("app/test_helpers.go", "AddCoinsToAccount", "MintCoins"),
      ("app/test_helpers.go", "addTestAddrs", "MintCoins"),
      ("x/clp/test/test_common.go", "GeneratePoolsFromFile", "MintCoins"),
      ("x/ethbridge/test/test_helpers.go", "CreateTestKeepers", "MintCoins") ] := by decide

open Sif.Generated.MintCallers in
/-- every KVStore write of x/dispensation: key 0x03 is written by `SetMintController` only; all
    other writes go through the key functions whose prefixes are 0x00/0x11/0x12/0x01/0x02
    (`Sif.Props.C11.prefixes_expected`) -/
theorem cap_const_store_writes : dispStoreWrites =
    [ ("x/dispensation/keeper/distribution.go", "Keeper.SetDistribution", "Set", "types.GetDistributionsKey(ar.DistributionName, ar.DistributionType, ar.Runner)"),
      ("x/dispensation/keeper/distributionRecords.go", "Keeper.DeleteDistributionRecord", "Delete", "types.GetDistributionRecordKey(status, distributionName, recipientAddress, distributionType)"),
      ("x/dispensation/keeper/distributionRecords.go", "Keeper.SetDistributionRecord", "Set", "types.GetDistributionRecordKey(dr.DistributionStatus, dr.DistributionName, dr.RecipientAddress, dr.DistributionType)"),
      ("x/dispensation/keeper/mint_controller.go", "Keeper.SetMintController", "Set", "types.MintControllerPrefix"),
      ("x/dispensation/keeper/userclaim.go", "Keeper.DeleteClaim", "Delete", "types.GetUserClaimKey(recipient, userClaimType)"),
      ("x/dispensation/keeper/userclaim.go", "Keeper.SetClaim", "Set", "types.GetUserClaimKey(ar.UserAddress, ar.UserClaimType)") ] := by decide

open Sif.Generated.MintCallers in
/-- `MintControllerPrefix` is referenced only by its definition and by Get/SetMintController -/
theorem cap_const_prefix_refs : mintControllerPrefixRefs =
    [ ("x/dispensation/keeper/mint_controller.go", "Keeper.GetMintController", "MintControllerPrefix"),
      ("x/dispensation/keeper/mint_controller.go", "Keeper.GetMintController", "MintControllerPrefix"),
      ("x/dispensation/keeper/mint_controller.go", "Keeper.SetMintController", "MintControllerPrefix"),
      ("x/dispensation/types/keys.go", "(package level)", "MintControllerPrefix") ] := by decide

/-- No dispensation message (create-distribution, run-distribution, create-claim; accepted,
    refused or panicking) changes the total supply of any denom: messages move coins, they never
    create them. -/
theorem messages_create_nothing (cfg : DispCfg) (mr : Nat) (h : Int) (s : DispState) (l : Sif.Spec.C11.Ledger)
    (hi : Inv cfg.module s l) (msg : Msg) (d : Denom) :
    (deliver cfg mr h s msg).1.bank.sup d = s.bank.sup d := by
  cases msg with
  | create m =>
    simp only [deliver]
    by_cases hv : m.validateBasic cfg = true
    · simp only [hv, Bool.not_true, Bool.false_eq_true, if_false]
      cases hc : createDistribution cfg h s m with
      | none => rfl
      | some s' =>
        obtain ⟨_, _, _, hb, _⟩ := create_spec hi.wf hc
        exact sup_sendCoins hb d
    · simp [hv]
  | run m =>
    simp only [deliver]
    by_cases hv : m.validateBasic cfg mr = true
    · simp only [hv, Bool.not_true, Bool.false_eq_true, if_false]
      obtain ⟨s', os, hr, _, _, hf⟩ := run_spec (h := h) hi m
      rw [hr]
      exact hf.supply d
    · simp [hv]
  | claim m =>
    simp only [deliver]
    by_cases hv : m.validateBasic cfg = true
    · simp only [hv, Bool.not_true, Bool.false_eq_true, if_false]
      cases hc : createClaim cfg s m with
      | none => rfl
      | some s' => obtain ⟨_, rfl⟩ := createClaim_spec hc; rfl
    · simp [hv]

/-! ### non-vacuity -/

def exCfg : MintCfg := { cap := 1000, perBlock := 300, denom := "rowan".toList, ecoPool := "eco".toList, module := "disp".toList }
def exState : MintState := { counter := some 250, bank := Bank.empty }

/- three blocks from 250: 550, 850, 1000 (remainder 150), then nothing; with the pool blocked too -/
example : (runBlocks exCfg (fun _ => false) 3 exState).toOption.map (·.counter) = some (some 1000) := by decide
example : (runBlocks exCfg (fun _ => true) 4 exState).toOption.map (fun s => (s.counter, s.bank.sup "rowan".toList, s.bank.bal "disp".toList "rowan".toList))
    = some (some 1000, 750, 750) := by decide
example : (runBlocks exCfg (fun _ => false) 4 exState).toOption.map (fun s => (s.bank.bal "eco".toList "rowan".toList, s.bank.bal "disp".toList "rowan".toList))
    = some (750, 0) := by decide

/-! ## (b) AMM depth rewards (model of the tree with fixes/F10.diff applied: `fix = true`)

  Quantifiers: every list of reward periods in the envelope (start ≤ end < 2^62, mod < 2^62,
  allocation < 2^128 — what `MsgAddRewardPeriodRequest.ValidateBasic` accepts after F5/F13), pairwise
  non-overlapping; every starting height, accumulator and number of blocks; every behaviour of
  the pool split, of the transfers and of the burn (`Env`). -/

open Sif.Rewards

/-- `block_share_le`: the per-block share computed by `CalcBlockDistribution` (integer division of
    the allocation by the uint64 length `end − start + 1`, wrap included), times that length, never
    exceeds the allocation — for every period, no envelope. -/
theorem block_share_le (p : Period) (c : Nat) (h : calcBlockDistribution p = .ok c) : c * p.len ≤ p.alloc := by
  unfold calcBlockDistribution Uint.quo at h
  split at h
  · cases h
  · cases h; exact Nat.div_mul_le_self _ _

/-- the share the judge uses (`Spec.C20.share`, the mathematical ⌊allocation / (end − start + 1)⌋) is
    the model's share for every period that `ValidateBasic` accepts (start ≤ end ≤ 2^64−1 and the
    uint64 length not wrapping to 0), however long — in particular for lengths beyond 2·10^18 -/
theorem block_share_eq_judge (p : Period) (h1 : p.start ≤ p.stop) (h2 : p.stop < 2 ^ 64)
    (h3 : p.stop - p.start + 1 < 2 ^ 64) : calcBlockDistribution p = .ok (share p) ∧ share p * (p.stop - p.start + 1) ≤ p.alloc := by
  have hl := len_nowrap h1 h2 h3
  refine ⟨?_, Nat.div_mul_le_self _ _⟩
  unfold calcBlockDistribution Uint.quo share
  rw [hl]
  have : ¬ (p.stop - p.start + 1 = 0) := by omega
  rw [if_neg this]

/-- the body of `CalcBlockDistribution` in the source is that single integer division (regenerated
    fact; any sdk.Dec arithmetic in it — Dec.Quo rounds half-even at the 18th decimal before a
    truncation, which lifts ⌊a/len⌋ by one for len > 2·10^18 — gives "unknown" and fails here) -/
theorem block_share_is_integer_division :
    Sif.Generated.BlockShare.shape = "uint.quoUint64(allocation, end-start+1)" ∧
    Sif.Generated.BlockShare.usesDec = false := by decide

/- non-vacuity: a period of 4·10^18 blocks whose allocation is one unit short of 50 per block -/
example : (calcBlockDistribution ⟨10, 10 + 4000000000000000000 - 1, 50 * 4000000000000000000 - 1, 1⟩).toOption = some 49 := by decide

/-- the running clamp of `CollectPoolRewardTuples`: never more than the block distribution -/
theorem rewards_collect_le (bd : Nat) (raws : List Nat) : collect bd raws ≤ bd := collect_le bd raws

/-- the net amount created by `DistributeDepthRewards` never exceeds the block distribution -/
theorem rewards_distribute_le (bd : Nat) (e : Env) : distribute bd e ≤ bd := distribute_le bd e

/-- every rewarded coin ends up in a provider's account or in a pool (model): the net amount created
    is what was paid plus what was credited, and the module account keeps the credited part -/
theorem rewards_accounted_model (mode : Bool) (bd : Nat) (e : Env) :
    rewardsAccountedOK (distribute bd e) (paidOf mode bd e) (pooledOf mode bd e) (pooledOf mode bd e) = true := by
  unfold rewardsAccountedOK paidOf pooledOf
  cases mode <;> simp

/-- `rewards_per_block`, one block: it creates nothing outside a period, nothing on a
    non-distribution block, at most ⌊alloc/len⌋ in the period's first block, at most
    mod·⌊alloc/len⌋ on a later distribution block (the shares carried over since the previous
    one); and the accumulator invariant passes to the next block. -/
theorem rewards_per_block (periods : List Period) (henv : inEnvelope periods = true)
    (hd : periodsDisjoint periods) (h accu accu' m : Nat) (e : Env) (hinv : accuInv periods h accu)
    (hr : endBlock true periods h accu e = .ok (accu', m)) :
    rewardsBlockOK (currentPeriod periods h) h m = true ∧ accuInv periods (h + 1) accu' :=
  endBlock_block henv hd e hinv hr

/-- `rewards_per_block` along every history -/
theorem rewards_per_block_history (periods : List Period) (henv : inEnvelope periods = true)
    (hd : periodsDisjoint periods) (es : List Env) (h accu a : Nat) (ms : List Nat)
    (hinv : accuInv periods h accu) (hr : run true periods h accu es = .ok (a, ms)) :
    blocksOK periods h ms = true := by
  induction es generalizing h accu ms with
  | nil => simp only [run] at hr; cases hr; rfl
  | cons e es ih =>
    obtain ⟨accu', m, ms', h1, h2, rfl⟩ := run_cons hr
    obtain ⟨hb, hinv'⟩ := endBlock_block henv hd e hinv h1
    simp only [blocksOK, hb, Bool.true_and]
    exact ih (h + 1) accu' ms' hinv' h2

/-- a history that starts with an empty accumulator satisfies the invariant -/
theorem accuInv_zero (periods : List Period) (h : Nat) : accuInv periods h 0 :=
  fun _ _ _ _ => Nat.zero_le _

/-- `rewards_per_period`: a period whose first block lies in the history never creates more than
    its allocation, whatever accumulator the history started with. -/
theorem rewards_per_period (periods : List Period) (henv : inEnvelope periods = true)
    (hd : periodsDisjoint periods) (p : Period) (hp : p ∈ periods) (ha : p.alloc ≠ 0)
    (es : List Env) (h accu a : Nat) (ms : List Nat) (hstart : h ≤ p.start)
    (hr : run true periods h accu es = .ok (a, ms)) :
    sumIn p h ms ≤ p.alloc := by
  have hb := run_budget henv hd hp ha es h accu a ms hr
  unfold budget at hb
  rw [if_pos hstart] at hb
  have : share p * (p.stop - p.start + 1) ≤ p.alloc := Nat.div_mul_le_self _ _
  omega

/-- `rewards_entitlement`: everything created up to any height plus the accumulator carried at
    that height never exceeds the initial accumulator plus Σ ⌊alloc/len⌋ of the blocks so far
    (holds on the pinned tree as well: `fix` is arbitrary). -/
theorem rewards_entitlement (fix : Bool) (periods : List Period) (henv : inEnvelope periods = true)
    (es : List Env) (h accu a : Nat) (ms : List Nat) (hr : run fix periods h accu es = .ok (a, ms)) :
    ms.sum + a ≤ accu + entitled periods h es.length :=
  run_cumulative fix henv es h accu a ms hr

/-- one block inside the envelope never panics (division by the period length, `sdk.Uint` addition) -/
theorem rewards_step_no_panic (fix : Bool) (periods : List Period) (henv : inEnvelope periods = true)
    (h accu : Nat) (e : Env) (hacc : accu < 2 ^ 255) : ∃ r, endBlock fix periods h accu e = .ok r := by
  cases hc : currentPeriod periods h with
  | none => exact ⟨_, endBlock_idle_none fix e hc⟩
  | some p =>
    by_cases ha : p.alloc = 0
    · exact ⟨_, endBlock_idle_zero fix e hc ha⟩
    · exact ⟨_, endBlock_compute fix e hc (curOK_of_current henv hc) ha hacc⟩

/-- Restart: the step reads only the stored accumulator (key 0x0b) and the stored periods, so
    running the blocks in two pieces, restarting from the stored accumulator in between, is running
    them in one piece. -/
theorem rewards_restart (fix : Bool) (periods : List Period) (es1 es2 : List Env) (h accu : Nat) :
    run fix periods h accu (es1 ++ es2) =
      (match run fix periods h accu es1 with
       | .error x => .error x
       | .ok (a1, ms1) =>
         match run fix periods (h + es1.length) a1 es2 with
         | .error x => .error x
         | .ok (a2, ms2) => .ok (a2, ms1 ++ ms2)) := by
  induction es1 generalizing h accu with
  | nil =>
    simp only [List.nil_append, run, List.length_nil, Nat.add_zero]
    cases run fix periods h accu es2 with
    | error x => rfl
    | ok r => rfl
  | cons e es ih =>
    simp only [List.cons_append, run]
    cases h1 : endBlock fix periods h accu e with
    | error x => rfl
    | ok r =>
      obtain ⟨accu', m⟩ := r
      simp only
      rw [ih (h + 1) accu']
      have e1 : h + 1 + es.length = h + (e :: es).length := by simp; omega
      rw [e1]
      cases run fix periods (h + 1) accu' es with
      | error x => rfl
      | ok r1 =>
        obtain ⟨a1, ms1⟩ := r1
        simp only
        cases run fix periods (h + (e :: es).length) a1 es2 with
        | error x => rfl
        | ok r2 => rfl

/-! ### histories in which the reward-period list is edited while periods run

  `Step.edit` replaces the whole stored list (an accepted `MsgAddRewardPeriodRequest`) between any
  two blocks; the accumulator is part of the state and survives the edit — it is dropped only by
  the EndBlocker in the first block of a period (F10 semantics).  Quantifiers: every initial list,
  height and accumulator, every sequence of edits and blocks, every behaviour of the pool split.
  Hypothesis `cleanSwitches`: a period takes over only at its own start block (after its
  predecessor, after a gap, by replacing / overtaking a running period). -/

/-- per block: whatever period is current, the block creates at most that period's bound
    (0 off distribution blocks, ⌊alloc/len⌋ in its first block, mod·⌊alloc/len⌋ later) — in
    particular a period never pays out entitlement accumulated by a period that was cut short -/
theorem rewards_per_block_edits_partial (ps : List Period) (steps : List Step) (h accu a : Nat) (tr : List BlockObs)
    (henv : stepsEnv ps steps = true) (hcl : cleanSwitches none ps h steps = true)
    (hr : runSteps true ps h accu steps = .ok (a, tr)) : traceBlocksOK tr = true :=
  steps_blocks_ok steps none ps h accu a tr henv hcl (fun _ hq => by cases hq) hr

/-- per period: what is created in the blocks in which `q` is the current period never exceeds
    `q`'s allocation, whatever was left in the accumulator by the periods before it -/
theorem rewards_per_period_edits_partial (q : Period) (hqa : q.alloc ≠ 0) (ps : List Period) (steps : List Step)
    (h accu a : Nat) (tr : List BlockObs)
    (henv : stepsEnv ps steps = true) (hcl : cleanSwitches none ps h steps = true)
    (hr : runSteps true ps h accu steps = .ok (a, tr)) : sumFor q tr ≤ q.alloc := by
  have hb := steps_budget q hqa steps none ps h accu a tr henv hcl hr
  have hle : share q * (q.stop - q.start + 1) ≤ q.alloc := Nat.div_mul_le_self _ _
  unfold budgetE at hb
  split at hb
  · omega
  · have : ¬ ((none : Option Period) = some q ∧ h ≤ q.stop) := fun c => by cases c.1
    rw [if_neg this] at hb
    omega

/-- the seeded-change history (a running period with mod 10 replaced between two distribution
    blocks by a small period starting later): hypotheses hold, the repaired model stays within
    every bound — non-vacuity of the two theorems above -/
def editA : Period := ⟨10, 1009, 1000000, 10⟩
def editB : Period := ⟨20, 29, 10, 1⟩
def editEnv : Env := ⟨true, [10 ^ 9], 0⟩
def editSteps : List Step :=
  List.replicate 7 (.block editEnv) ++ [.edit [editA]] ++ List.replicate 6 (.block editEnv) ++
  [.edit [editB]] ++ List.replicate 17 (.block editEnv)

theorem edit_history_ok :
    stepsEnv [] editSteps = true ∧ cleanSwitches none [] 2 editSteps = true ∧
    (runSteps true [] 2 0 editSteps).toOption.map (fun r =>
      (r.1, sumFor editA r.2, sumFor editB r.2, traceBlocksOK r.2)) = some (0, 1000, 10, true) := by
  decide

/-- WHERE the accumulator is dropped (regenerated from x/clp/abci.go `EndBlocker`): read once;
    dropped exactly when the period covering the previous height (`RewardPeriodAt(…, height-1)`) is
    not the current period — the model's `accuInR` (this subsumes "at a period START") —; stored
    as zero after a distribution and carried (`blockDistribution`) otherwise — the model's
    `finish`; the only other writer is the `AddRewardPeriod` handler (the model's `editAccu`).
    A reset moved elsewhere, or a new writer, changes the fact and fails this obligation. -/
theorem accumulator_reset_where :
    Sif.Generated.AccuReset.endBlockerFound = 1 ∧
    Sif.Generated.AccuReset.accuWrites =
      [ ("blockDistributionAccu :=", "keeper.GetBlockDistributionAccu(ctx)",
          ["currentPeriod != nil && !currentPeriod.RewardPeriodAllocation.IsZero()"]),
        ("blockDistributionAccu =", "sdk.ZeroUint()",
          ["currentPeriod != nil && !currentPeriod.RewardPeriodAllocation.IsZero()",
           "previousPeriod == nil || !kpr.SameRewardPeriod(previousPeriod, currentPeriod)"]),
        ("SetBlockDistributionAccu", "sdk.ZeroUint()",
          ["currentPeriod != nil && !currentPeriod.RewardPeriodAllocation.IsZero()", "isDistributionBlock"]),
        ("SetBlockDistributionAccu", "blockDistribution",
          ["currentPeriod != nil && !currentPeriod.RewardPeriodAllocation.IsZero()", "!(isDistributionBlock)"]) ] ∧
    Sif.Generated.AccuReset.setAccuCallers =
      ["x/clp/abci.go:EndBlocker", "x/clp/abci.go:EndBlocker", "x/clp/keeper/msg_server.go:msgServer.AddRewardPeriod"] := by
  decide

/-! ### the tree with fixes/F27.diff applied: EVERY history of edits and blocks

  F27 (defect of the tree with only F10 repaired): a period that becomes current in mid-flight —
  an overlapping period listed after the running one taking over when that one ends, or an
  accepted edit that changes the running period's own end / allocation / mod — paid out what its
  predecessor had accumulated.  The `_partial` theorems above need `cleanSwitches` for that reason;
  `overlap_residual` and `edit_midflight_residual` are `decide`d witnesses.  The repaired code
  (model `endBlockR` / `editAccu` / `runStepsR`) keeps the accumulator only for the period that
  covered the previous height, so the clauses hold with NO hypothesis on how periods switch. -/

/-- per block, every history -/
theorem rewards_per_block_all_histories (ps : List Period) (steps : List Step) (h accu a : Nat) (tr : List BlockObs)
    (henv : stepsEnv ps steps = true) (hh : h ≠ 0) (hinv : accuInvR ps h accu)
    (hr : runStepsR ps h accu steps = .ok (a, tr)) : traceBlocksOK tr = true :=
  stepsR_blocks_ok steps ps h accu a tr henv hh hinv hr

/-- per period, every history: the blocks in which `q` is the current period — however often it is
    interrupted, cut, re-added — create at most `q`'s allocation -/
theorem rewards_per_period_all_histories (q : Period) (hqa : q.alloc ≠ 0) (ps : List Period) (steps : List Step)
    (h accu a : Nat) (tr : List BlockObs)
    (henv : stepsEnv ps steps = true) (hh : h ≠ 0) (hinv : accuInvR ps h accu)
    (hr : runStepsR ps h accu steps = .ok (a, tr)) : sumFor q tr ≤ q.alloc :=
  Nat.le_trans (stepsR_budget q hqa steps ps h accu a tr henv hh hr) (budgetR_le_alloc q hqa hinv)

/-- an empty accumulator satisfies the invariant -/
theorem accuInvR_zero (ps : List Period) (h : Nat) : accuInvR ps h 0 := fun _ _ _ _ => Nat.zero_le _

/-- directed history (a): the running period A = [10..29] 20000 mod 4 is replaced in block 16,
    between two distribution blocks, by A' = [10..29] 20 mod 4 -/
def midSteps : List Step :=
  [.edit [⟨10, 29, 20000, 4⟩]] ++ List.replicate 7 (.block editEnv) ++ [.edit [⟨10, 29, 20, 4⟩]] ++
  List.replicate 16 (.block editEnv)

/-- F27 on the model with only F10 repaired: block 18 creates 1003, A' allows 4 -/
theorem edit_midflight_residual :
    (runSteps true [] 9 0 midSteps).toOption.map (fun r => (sumFor ⟨10, 29, 20, 4⟩ r.2, traceBlocksOK r.2))
      = some (1011, false) := by decide

/-- the repaired model on the same history, and on the overlapping list of `overlap_residual` -/
theorem f27_fixed_ok :
    (runStepsR [] 9 0 midSteps).toOption.map (fun r => (sumFor ⟨10, 29, 20, 4⟩ r.2, traceBlocksOK r.2))
      = some (11, true) ∧
    (runStepsR [⟨1, 10, 1000, 4⟩, ⟨5, 20, 1600, 1⟩] 1 0 (List.replicate 12 (.block editEnv))).toOption.map
      (fun r => traceBlocksOK r.2) = some true := by decide

example : stepsEnv [] midSteps = true := by decide

/-! ### F10: the pinned tree (`fix = false`) violates the per-block and per-period clauses -/

def f10Periods : List Period := [⟨1, 10, 1000, 4⟩, ⟨11, 20, 1000, 1⟩]
def f10Envs : List Env := List.replicate 20 ⟨true, [1000000], 0⟩

/-- DESIGN 4/C20 witness on the unrepaired model: block 11 creates 200 (twice its share) and
    period 2 creates 1100 > 1000 … -/
theorem f10_unfixed_violates :
    (run false f10Periods 1 0 f10Envs).toOption.map (fun r =>
      (r.2.getD 10 0, sumIn ⟨11, 20, 1000, 1⟩ 1 r.2, blocksOK f10Periods 1 r.2)) = some (200, 1100, false) := by
  decide

/-- … and the repaired model does not, on the same inputs -/
theorem f10_fixed_ok :
    (run true f10Periods 1 0 f10Envs).toOption.map (fun r =>
      (r.2.getD 10 0, sumIn ⟨11, 20, 1000, 1⟩ 1 r.2, blocksOK f10Periods 1 r.2)) = some (100, 1000, true) := by
  decide

/-- Why `periodsDisjoint` is a hypothesis: with overlapping periods the repaired code still carries
    the accumulator into the other period when the switch is not at a start block
    (A = [1..10] mod 4 listed before B = [5..20] mod 1: block 11 creates 200, B's share is 100).
    Residual observation, outside the envelope; not generated by the harness. -/
theorem overlap_residual :
    (run true [⟨1, 10, 1000, 4⟩, ⟨5, 20, 1600, 1⟩] 1 0 (List.replicate 12 ⟨true, [1000000], 0⟩)).toOption.map
      (fun r => (r.2.getD 10 0, blocksOK [⟨1, 10, 1000, 4⟩, ⟨5, 20, 1600, 1⟩] 1 r.2)) = some (200, false) := by
  decide

/- non-vacuity of the hypotheses -/
example : inEnvelope f10Periods = true := by decide
example : periodsDisjoint f10Periods := by decide
example : (⟨11, 20, 1000, 1⟩ : Period) ∈ f10Periods := by decide

end Sif.Props.C20
