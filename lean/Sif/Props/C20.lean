import Sif.Proofs.C20Mint
import Sif.Generated.DispConsts
/-
  C20 — Policy-driven issuance is bounded.  Property theorems only.

  Part (a): the dispensation BeginBlocker (ecosystem mint).  Quantifiers: every cap, per-block
  amount, starting counter ≤ cap, number of blocks, bank state, set of blocked addresses (so the
  send to the ecosystem pool may fail in any block), arbitrary bank traffic between blocks.
-/
namespace Sif.Props.C20
open Sif Sif.Disp Sif.Spec.C20

/-! ## (a) ecosystem mint -/

/-- The BeginBlocker never panics (`NewCoin` never sees a negative amount). -/
theorem mint_no_panic (cfg : MintCfg) (blocked : Addr → Bool) (s : MintState) :
    ∃ s', beginBlocker cfg blocked s = .ok s' := by
  obtain ⟨s', h, _⟩ := beginBlocker_ok cfg blocked s
  exact ⟨s', h⟩

/-- One block: the counter moves to min(c + perBlock, cap) when c ≤ cap and stays otherwise. -/
theorem mint_step_counter (cfg : MintCfg) (blocked : Addr → Bool) (s s' : MintState)
    (h : beginBlocker cfg blocked s = .ok s') :
    s'.counter = s.counter.map (nextCounter cfg.cap cfg.perBlock) := by
  obtain ⟨s'', h', hc, _⟩ := beginBlocker_ok cfg blocked s
  rw [h] at h'; cases h'; exact hc

/-- `mint_counter`: after n blocks — with arbitrary changes to the bank between blocks and
    whether or not the sends to the ecosystem pool succeed — the counter is
    min(c₀ + n·perBlock, cap). -/
theorem mint_counter (cfg : MintCfg) (blocked : Addr → Bool) (gs : List (Bank → Bank)) (s : MintState)
    (c0 : Nat) (hc : s.counter = some c0) (h0 : c0 ≤ cfg.cap) :
    ∃ s', runWith cfg blocked gs s = .ok s' ∧
      s'.counter = some (min (c0 + gs.length * cfg.perBlock) cfg.cap) := by
  induction gs generalizing s c0 with
  | nil => exact ⟨s, rfl, by simp [hc, Nat.min_eq_left h0]⟩
  | cons g gs ih =>
    obtain ⟨s1, h1, hc1, _⟩ := beginBlocker_ok cfg blocked { s with bank := g s.bank }
    have hc1' : s1.counter = some (min (c0 + cfg.perBlock) cfg.cap) := by
      rw [hc1]; simp only [hc, Option.map, nextCounter, if_pos h0]
    obtain ⟨s', h', hc'⟩ := ih s1 _ hc1' (Nat.min_le_right _ _)
    refine ⟨s', ?_, ?_⟩
    · simp only [runWith, h1]; exact h'
    · rw [hc']; congr 1
      simp only [List.length_cons, Nat.add_mul]
      omega

/-- The cumulative total never exceeds the cap. -/
theorem mint_le_cap (cfg : MintCfg) (blocked : Addr → Bool) (gs : List (Bank → Bank)) (s s' : MintState)
    (c0 : Nat) (hc : s.counter = some c0) (h0 : c0 ≤ cfg.cap) (h : runWith cfg blocked gs s = .ok s') :
    ∃ c, s'.counter = some c ∧ c ≤ cfg.cap := by
  obtain ⟨s'', h', hc'⟩ := mint_counter cfg blocked gs s c0 hc h0
  rw [h] at h'; cases h'
  exact ⟨_, hc', Nat.min_le_right _ _⟩

/-- In the last block exactly the remainder is minted and the counter reaches the cap. -/
theorem mint_last_block_remainder (cfg : MintCfg) (blocked : Addr → Bool) (s s' : MintState) (c : Nat)
    (hc : s.counter = some c) (hlt : c < cfg.cap) (hlast : cfg.cap - c ≤ cfg.perBlock)
    (h : beginBlocker cfg blocked s = .ok s') :
    s'.counter = some cfg.cap ∧ s'.bank.sup cfg.denom = s.bank.sup cfg.denom + (cfg.cap - c) := by
  obtain ⟨s'', h', hc', hs⟩ := beginBlocker_ok cfg blocked s
  rw [h] at h'; cases h'
  have e : nextCounter cfg.cap cfg.perBlock c = cfg.cap := by
    unfold nextCounter; rw [if_pos (Nat.le_of_lt hlt)]; omega
  constructor
  · rw [hc', hc]; simp [e]
  · rw [hs cfg.denom]; simp [ctr, hc', hc, e]

/-- Once the cap is reached nothing is minted any more: the block leaves the state unchanged. -/
theorem mint_nothing_after_cap (cfg : MintCfg) (blocked : Addr → Bool) (s : MintState) (c : Nat)
    (hc : s.counter = some c) (hge : cfg.cap ≤ c) : beginBlocker cfg blocked s = .ok s := by
  rcases beginBlocker_cases cfg blocked s with ⟨h, _⟩ | ⟨c', _, hc', hlt, _⟩
  · exact h
  · rw [hc] at hc'; cases hc'; omega

/-- No controller in the store: nothing is minted. -/
theorem mint_absent_controller (cfg : MintCfg) (blocked : Addr → Bool) (s : MintState)
    (hc : s.counter = none) : beginBlocker cfg blocked s = .ok s := by
  rcases beginBlocker_cases cfg blocked s with ⟨h, _⟩ | ⟨c', _, hc', _⟩
  · exact h
  · rw [hc] at hc'; cases hc'

/-- The counter equals the amount actually minted, per block and for every denom, also when the
    send to the ecosystem pool fails (blocked is arbitrary). -/
theorem mint_counter_is_minted (cfg : MintCfg) (blocked : Addr → Bool) (s s' : MintState)
    (h : beginBlocker cfg blocked s = .ok s') (d : Denom) :
    s'.bank.sup d = s.bank.sup d + (if d = cfg.denom then ctr s' - ctr s else 0) ∧ ctr s ≤ ctr s' := by
  obtain ⟨s'', h', hc', hs⟩ := beginBlocker_ok cfg blocked s
  rw [h] at h'; cases h'
  refine ⟨hs d, ?_⟩
  unfold ctr; rw [hc']
  cases s.counter with
  | none => simp
  | some c => simp only [Option.map, Option.getD, nextCounter]; split <;> omega

/-- …and over n consecutive blocks. -/
theorem mint_counter_is_minted_n (cfg : MintCfg) (blocked : Addr → Bool) (n : Nat) (s s' : MintState)
    (h : runBlocks cfg blocked n s = .ok s') :
    s'.bank.sup cfg.denom = s.bank.sup cfg.denom + (ctr s' - ctr s) ∧ ctr s ≤ ctr s' := by
  induction n generalizing s with
  | zero => simp only [runBlocks] at h; cases h; simp
  | succ n ih =>
    obtain ⟨s1, h1⟩ := mint_no_panic cfg blocked s
    simp only [runBlocks, h1] at h
    obtain ⟨e1, l1⟩ := mint_counter_is_minted cfg blocked s s1 h1 cfg.denom
    obtain ⟨e2, l2⟩ := ih s1 h
    rw [if_pos rfl] at e1
    constructor <;> omega

/-- The coins minted in a block are in the ecosystem pool or — when the send failed — still in the
    module account; nobody else's balance moves. -/
theorem mint_held (cfg : MintCfg) (blocked : Addr → Bool) (s s' : MintState) (hne : cfg.ecoPool ≠ cfg.module)
    (h : beginBlocker cfg blocked s = .ok s') (d : Denom) :
    s'.bank.bal cfg.ecoPool d + s'.bank.bal cfg.module d
      = s.bank.bal cfg.ecoPool d + s.bank.bal cfg.module d + (if d = cfg.denom then ctr s' - ctr s else 0)
    ∧ ∀ a, a ≠ cfg.ecoPool → a ≠ cfg.module → s'.bank.bal a d = s.bank.bal a d := by
  rcases beginBlocker_cases cfg blocked s with ⟨h', _⟩ | ⟨c, amt, hc, _, _, _, h'⟩
  · rw [h] at h'; cases h'; simp
  · rw [h] at h'; cases h'
    constructor
    · rw [mintTail_hold _ _ _ _ _ _ hne]; simp [ctr, mintTail, hc]
    · intro a h1 h2; exact mintTail_other _ _ _ _ _ _ _ h1 h2

/-- The module account's balance never decreases in the BeginBlocker (C11's escrow can only grow). -/
theorem mint_module_balance_mono (cfg : MintCfg) (blocked : Addr → Bool) (s s' : MintState)
    (hne : cfg.ecoPool ≠ cfg.module) (h : beginBlocker cfg blocked s = .ok s') (d : Denom) :
    s.bank.bal cfg.module d ≤ s'.bank.bal cfg.module d :=
  beginBlocker_module_mono cfg blocked s s' hne h d

/-- Restart: the step reads nothing but the state (= the committed store: key 0x03 and the bank), so
    running m blocks, committing, and running n more from the committed state is running m+n. -/
theorem mint_restart (cfg : MintCfg) (blocked : Addr → Bool) (m n : Nat) (s : MintState) :
    runBlocks cfg blocked (m + n) s = (runBlocks cfg blocked m s >>= runBlocks cfg blocked n) := by
  induction m generalizing s with
  | zero => simp [runBlocks]; rfl
  | succ m ih =>
    rw [Nat.add_right_comm]
    simp only [runBlocks]
    obtain ⟨s1, h1⟩ := mint_no_panic cfg blocked s
    simp only [h1]
    exact ih s1

/-- The judge's predicate is what the theorems state: it holds of every model step. -/
theorem mintStepOK_model (cfg : MintCfg) (blocked : Addr → Bool) (s s' : MintState) (c : Nat)
    (hne : cfg.ecoPool ≠ cfg.module) (hc : s.counter = some c) (h : beginBlocker cfg blocked s = .ok s') :
    mintStepOK cfg.cap cfg.perBlock c (ctr s') (s.bank.sup cfg.denom) (s'.bank.sup cfg.denom)
      (s.bank.bal cfg.ecoPool cfg.denom + s.bank.bal cfg.module cfg.denom)
      (s'.bank.bal cfg.ecoPool cfg.denom + s'.bank.bal cfg.module cfg.denom) = true := by
  obtain ⟨e1, l1⟩ := mint_counter_is_minted cfg blocked s s' h cfg.denom
  obtain ⟨e2, _⟩ := mint_held cfg blocked s s' hne h cfg.denom
  have hc' := mint_step_counter cfg blocked s s' h
  have hcs : ctr s = c := by simp [ctr, hc]
  have hcs' : ctr s' = nextCounter cfg.cap cfg.perBlock c := by simp [ctr, hc', hc]
  rw [if_pos rfl] at e1 e2
  unfold mintStepOK
  simp only [Bool.and_eq_true, decide_eq_true_eq]
  rw [hcs] at e1 e2 l1
  exact ⟨⟨⟨hcs', e1⟩, e2⟩, l1⟩

/-! ### facts regenerated from the source (tie 1) -/

/-- the cap in the source is the 350,000,000 rowan of the property statement -/
theorem cap_is_350M : Sif.Generated.DispConsts.maxMintAmount = capRowan := by decide

/-- every constant and prefix of types/keys.go was readable as a literal -/
theorem dispconsts_readable : Sif.Generated.DispConsts.unreadable = [] := by decide

/-- the per-block amount is positive and does not exceed the cap -/
theorem perBlock_sane : 0 < Sif.Generated.DispConsts.mintAmountPerBlock ∧
    Sif.Generated.DispConsts.mintAmountPerBlock ≤ Sif.Generated.DispConsts.maxMintAmount := by decide

/-! ### non-vacuity -/

def exCfg : MintCfg := { cap := 1000, perBlock := 300, denom := "rowan".toList, ecoPool := "eco".toList, module := "disp".toList }
def exState : MintState := { counter := some 250, bank := Bank.empty }

/- three blocks from 250: 550, 850, 1000 (remainder 150), then nothing; with the pool blocked too -/
example : (runBlocks exCfg (fun _ => false) 3 exState).toOption.map (·.counter) = some (some 1000) := by decide
example : (runBlocks exCfg (fun _ => true) 4 exState).toOption.map (fun s => (s.counter, s.bank.sup "rowan".toList, s.bank.bal "disp".toList "rowan".toList))
    = some (some 1000, 750, 750) := by decide
example : (runBlocks exCfg (fun _ => false) 4 exState).toOption.map (fun s => (s.bank.bal "eco".toList "rowan".toList, s.bank.bal "disp".toList "rowan".toList))
    = some (750, 0) := by decide

end Sif.Props.C20
