import Sif.Proofs.C17
import Sif.Generated.RelayerLoop
/-
  C17 — the relayer scans contiguously after 50 confirmations and resumes without gaps.
  Property theorems only (helper lemmas in Sif/Proofs/C17.lean).

  Quantifiers: every trailing-block constant `t`, every initial LevelDB cursor `p`, and every finite input
  schedule `ins : List In` — arbitrary header numbers (gaps, repeats, lower heads, bursts), log-query
  failures, and a crash (process death + restart on the same LevelDB) at any of the six points of any
  iteration or between iterations.  No bound on the length of the schedule or on block numbers.
  Event placement is abstracted: "block b was handed to the submitter" (`covered`) means every bridge
  event of block b was; the composition with the log filter and with `handleEthereumEvent` is C16's side.
-/
namespace Sif.Props.C17
open Sif.Relayer.Loop Sif.Spec.C17 Sif.Proofs.C17
open Sif.Generated

/-! ### Tie 1: the loop model is a transcription of what `EthereumSub.Start` says now -/

/-- the confirmation depth in the source is 50 -/
theorem trailing_is_50 : RelayerLoop.trailingBlocks = 50 ∧ RelayerLoop.trailingBlocksIsLiteral = true := by decide

/-- statement order of the `newHead` case: ending block computed from the header, negative guard,
    zero-cursor initialisation, log query, `continue` on a query error, events collected, events handled,
    `+ 1`, cursor written to LevelDB, in-memory cursor assigned — and nothing unclassified. -/
theorem loop_statement_order :
    RelayerLoop.steps =
      [.bindHead, .computeEnding, .guardNegative, .initCursor, .filterLogs, .continueOnQueryError,
       .collectEvents, .handleEvents, .incrementEnding, .dbPut, .fatalOnPutError, .assignCursor] ∧
    RelayerLoop.unknownStatements = [] := by decide

/-- `cursor_after_handling`: `DB.Put` comes after `handleEthereumEvent`, which comes after `FilterLogs`,
    and the in-memory cursor is assigned last (positions in the statement list). -/
theorem cursor_after_handling :
    RelayerLoop.steps.idxOf .filterLogs < RelayerLoop.steps.idxOf .handleEvents ∧
    RelayerLoop.steps.idxOf .handleEvents < RelayerLoop.steps.idxOf .dbPut ∧
    RelayerLoop.steps.idxOf .dbPut < RelayerLoop.steps.idxOf .assignCursor ∧
    RelayerLoop.steps.idxOf .assignCursor < RelayerLoop.steps.length := by decide

/-- exactly ONE site in the whole of `Start` writes the LevelDB cursor (a direct `DB.Put` or a call of a
    package function containing one — followed one level), and it is the `dbPut` step after the submission:
    no checkpoint writes between, before or inside the submission. -/
theorem single_cursor_write :
    RelayerLoop.cursorWriteSteps = [.dbPut] ∧ RelayerLoop.cursorWriteSitesInStart = 1 := by decide

/-- the log query of an iteration is the DIRECT `ethclient` call on `context.Background()` (no deadline: a late
    answer is an answer; no wrapper that could turn "no answer" into "no logs"), its error is the one the
    `continue` branch tests, and its logs are what the event loop ranges over: the cursor write is reachable
    only through a provider answer to the query of that very iteration. -/
theorem loop_query_direct :
    RelayerLoop.queryCallee = "ethClient.FilterLogs" ∧ RelayerLoop.queryContext = "context.Background()" ∧
    RelayerLoop.queryLhs = "ethLogs, err" ∧ RelayerLoop.collectOver = "ethLogs" ∧
    RelayerLoop.ethClientBinding = "ethClient, err := SetupWebsocketEthClient(sub.EthProvider)" := by decide

/-- the submission is synchronous: `RelayToCosmos` calls `tx.BroadcastTx` itself and there is no `go` statement,
    `select` or channel around it (also in the package functions it calls) — it returns only after the broadcast
    has returned, so the cursor write that follows it in `Start` follows the node's answer. -/
theorem relay_synchronous :
    RelayerLoop.relayGoStmts = 0 ∧ RelayerLoop.relaySelects = 0 ∧ RelayerLoop.relayChanTypes = 0 ∧
    RelayerLoop.relayBroadcastDirect = true := by decide

/-- the arithmetic and the operands: `endingBlock = newHead.Number − trailingBlocks`, skipped when negative;
    a zero cursor is set to `endingBlock`; the query is `[lastProcessedBlock, endingBlock]`; the value written
    and assigned is `endingBlock + 1`. -/
theorem loop_arithmetic :
    RelayerLoop.endingIsHeadMinusTrailing = true ∧
    RelayerLoop.guardCond = "endingBlock.Cmp(big.NewInt(0)) == -1" ∧
    RelayerLoop.initCond = "lastProcessedBlock.Cmp(big.NewInt(0)) == 0" ∧
    RelayerLoop.initAssign = "lastProcessedBlock = endingBlock" ∧
    RelayerLoop.queryFrom = "lastProcessedBlock" ∧ RelayerLoop.queryTo = "endingBlock" ∧
    RelayerLoop.incrementExpr = "endingBlock.Add(endingBlock, big.NewInt(1))" ∧
    RelayerLoop.putKey = "[]byte(ethLevelDBKey)" ∧ RelayerLoop.putValue = "endingBlock.Bytes()" ∧
    RelayerLoop.assignRhs = "endingBlock" := by decide

/-- control flow: a failed log query leaves the iteration without touching either cursor; collecting and
    submitting events neither leave the iteration nor touch a cursor (a submission *error* is only logged). -/
theorem loop_control_flow :
    RelayerLoop.continueTouchesCursor = false ∧
    RelayerLoop.collectTouchesCursorOrExits = false ∧
    RelayerLoop.handleAbortsOrTouchesCursor = false ∧
    RelayerLoop.handleGuard = "len(events) > 0" := by decide

/-- start-up: the cursor is read from LevelDB under the key, and is 0 when the key is absent -/
theorem loop_startup :
    RelayerLoop.startupReadsCursor = true ∧ RelayerLoop.startupDefaultZero = true ∧
    RelayerLoop.startupSetBytes = true ∧ RelayerLoop.levelDBKey = "ethereumLastProcessedBlock" := by decide

/-! ### The property, for every schedule -/

/-- `submitted_confirmed`: whatever the schedule, every range handed to the submitter ends at least `t`
    blocks below the newest header seen. -/
theorem submitted_confirmed (t p : Nat) (ins : List In) (lo hi : Nat)
    (h : Ev.submit lo hi ∈ (run t (init p) ins).2) :
    hi + t ≤ (run t (init p) ins).1.maxHead :=
  run_confirmed t ins (init p) lo hi h

/-- the same with the constant of the source -/
theorem submitted_confirmed_50 (p : Nat) (ins : List In) (lo hi : Nat)
    (h : Ev.submit lo hi ∈ (run RelayerLoop.trailingBlocks (init p) ins).2) :
    hi + 50 ≤ (run RelayerLoop.trailingBlocks (init p) ins).1.maxHead :=
  submitted_confirmed 50 p ins lo hi h

/-- `ranges_contiguous` (+ confirmation at the time of each query, submission of exactly the queried range,
    cursor written only after the submission and equal to `end + 1`, restart resuming from the persisted
    cursor): the trace of every schedule is accepted by the observer `traceOK`.  In particular every
    query starts exactly where the previous completed range ended (or at the persisted cursor after a
    restart). -/
theorem ranges_contiguous (t p : Nat) (ins : List In) : traceOK t p (run t (init p) ins).2 = true := by
  have hA : Agree (init p) { c := p, mh := 0, db := p, pending := none, handled := false } :=
    ⟨rfl, rfl, rfl, rfl, rfl⟩
  obtain ⟨o', h, _⟩ := run_observe t ins (init p) _ hA
  simp [traceOK, h]

/-- `no_gap_across_crashes`: for every interleaving of headers, query failures and crashes, every block
    from the first block the scan started at up to (excluding) the persisted cursor has been handed to the
    submitter at least once. -/
theorem no_gap_across_crashes (t p : Nat) (ins : List In) (b : Nat)
    (hp : (run t (init p) ins).1.persisted ≠ 0)
    (h1 : (curOf p (run t (init p) ins).2).first ≤ b)
    (h2 : b < (run t (init p) ins).1.persisted) :
    covered (run t (init p) ins).2 b = true := by
  have h := run_gap t ins (init p) _ [] (init_gap p)
  simp only [List.nil_append] at h
  exact h.cov hp b h1 h2

/-- the Boolean the judge evaluates on an observed trace is that statement -/
theorem gapFree_holds (t p : Nat) (ins : List In) : gapFree p (run t (init p) ins).2 = true := by
  have h := run_gap t ins (init p) _ [] (init_gap p)
  simp only [List.nil_append] at h
  unfold gapFree
  simp only [Bool.or_eq_true, decide_eq_true_eq, List.all_eq_true, List.mem_range]
  by_cases hz : (curOf p (run t (init p) ins).2).db = 0
  · left; exact hz
  · right
    intro i hi
    have hdb := h.db
    unfold curOf at hz hi ⊢
    rw [hdb] at hz hi
    exact h.cov hz _ (by omega) (by omega)

/-- resumption: after a restart the process's cursor is the persisted one (so the next successful query
    starts there), and once something has been persisted the two cursors agree between iterations. -/
theorem resume_from_persisted (t p : Nat) (ins : List In)
    (hp : (run t (init p) ins).1.persisted ≠ 0) :
    (run t (init p) ins).1.mem = (run t (init p) ins).1.persisted := by
  have h := run_gap t ins (init p) _ [] (init_gap p)
  exact h.agree hp

/-! ### the same, per bridge event, in the alphabet the real loop is observed in

  An observed trace may contain SEVERAL broadcasts and SEVERAL cursor writes per iteration (`Raw`); the
  admissibility predicate `rawTraceOK` allows any such grouping as long as every claim is an event of the
  range just queried and every cursor write — final or checkpoint — stays within the range and has every
  event of the blocks below it broadcast first.  The loop that exists does one broadcast and one write per
  iteration; for every placement of events its traces are admissible and gap-free per event. -/

/-- for every placement of bridge events in blocks and every schedule (crash points between any two
    effects of an iteration included), the event-level rendering of the trace is admissible: claims only of
    confirmed, just-queried blocks; contiguous queries; no cursor write beyond an unsubmitted event; restarts
    resume from the persisted cursor. -/
theorem raw_trace_admissible (t p : Nat) (place : List (Nat × Nat)) (ins : List In) :
    rawTraceOK t p place (lower place (run t (init p) ins).2) = true := by
  have hA : Agree (init p) { c := p, mh := 0, db := p, pending := none, handled := false } :=
    ⟨rfl, rfl, rfl, rfl, rfl⟩
  obtain ⟨o', h, _⟩ := run_observe t ins (init p) _ hA
  have hR : Rel place { c := p, mh := 0, db := p, pending := none, handled := false }
      { c := p, mh := 0, db := p, pending := none, sent := [] } := ⟨rfl, rfl, rfl, Or.inl rfl⟩
  obtain ⟨r', hr, _⟩ := observeAll_sim t place _ _ o' _ h hR
  simp [rawTraceOK, hr]

/-- `no_gap_across_crashes`, per event: every bridge event placed in a block from the first scanned block up
    to (excluding) the persisted cursor has been broadcast at least once — for every placement, schedule,
    failure pattern and crash point. -/
theorem raw_gap_free (t p : Nat) (place : List (Nat × Nat)) (ins : List In) :
    rawGapFree p place (lower place (run t (init p) ins).2) = true := by
  have h := run_gap t ins (init p) _ [] (init_gap p)
  simp only [List.nil_append] at h
  unfold rawGapFree rawCurOf
  rw [rawCurOf_lower]
  simp only [Bool.or_eq_true, decide_eq_true_eq, List.all_eq_true]
  by_cases hz : (List.foldl curStep { db := p, c := p, first := p } (run t (init p) ins).2).db = 0
  · left; exact hz
  · right
    intro nb hnb
    by_cases hin : (List.foldl curStep { db := p, c := p, first := p } (run t (init p) ins).2).first ≤ nb.2 ∧
        nb.2 < (List.foldl curStep { db := p, c := p, first := p } (run t (init p) ins).2).db
    · have hdb := h.db
      have hcov := h.cov (by rw [← hdb]; exact hz) nb.2 hin.1 (by rw [← hdb]; exact hin.2)
      have := covered_claims place _ nb hnb hcov
      simp [hin.1, hin.2, this]
    · have : (decide ((List.foldl curStep { db := p, c := p, first := p } (run t (init p) ins).2).first ≤ nb.2) &&
          decide (nb.2 < (List.foldl curStep { db := p, c := p, first := p } (run t (init p) ins).2).db)) = false := by
        simp only [Bool.and_eq_false_iff, decide_eq_false_iff_not]
        by_cases h1 : (List.foldl curStep { db := p, c := p, first := p } (run t (init p) ins).2).first ≤ nb.2
        · right; intro h2; exact hin ⟨h1, h2⟩
        · left; exact h1
      simp [this]

/-- the event-level judge is not tied to one-broadcast-one-write: a loop that relays a range in two
    transactions and checkpoints on a BLOCK boundary in between is admissible, also when killed after the
    checkpoint; the same loop checkpointing INSIDE a block (events 3 and 4 share block 12; the cursor is
    written as 13 when only 1–3 have gone out) is rejected, and after a kill its trace has a gap. -/
example :
    let place := [(1, 10), (2, 11), (3, 12), (4, 12), (5, 14)]
    rawTraceOK 50 10 place [.head 70, .query 10 20 true, .claims [1, 2], .put 12, .claims [3, 4, 5], .put 21] = true ∧
    rawTraceOK 50 10 place [.head 70, .query 10 20 true, .claims [1, 2], .put 12, .restart 12,
                            .head 71, .query 12 21 true, .claims [3, 4, 5], .put 22] = true ∧
    rawGapFree 10 place [.head 70, .query 10 20 true, .claims [1, 2], .put 12, .restart 12,
                         .head 71, .query 12 21 true, .claims [3, 4, 5], .put 22] = true ∧
    rawTraceOK 50 10 place [.head 70, .query 10 20 true, .claims [1, 2, 3], .put 13, .claims [4, 5], .put 21] = false ∧
    rawGapFree 10 place [.head 70, .query 10 20 true, .claims [1, 2, 3], .put 13, .restart 13,
                         .head 71, .query 13 21 true, .claims [5], .put 22] = false := by decide

/-! ### non-vacuity: concrete schedules with events, failures and crashes at several points -/

/-- a fresh relayer: header 120 starts the scan at block 70; a failed query; a crash after submission but
    before the cursor write (range re-submitted after the restart); a crash right after the write; a lower
    header.  The persisted cursor ends at 101 and every block 70..100 was submitted. -/
example :
    let r := run 50 (init 0)
      [.head 120 .done, .head 130 .queryFail, .head 135 (.crash .afterSubmit), .head 140 .done,
       .head 150 (.crash .afterPut), .head 149 .done, .head 10 .done, .crashIdle, .head 160 .done]
    r.1.persisted = 111 ∧ (curOf 0 r.2).first = 70 ∧ covered r.2 70 = true ∧ covered r.2 110 = true ∧
    covered r.2 69 = false ∧ traceOK 50 0 r.2 = true ∧ gapFree 0 r.2 = true := by decide

/-- the observer is not trivially true: a trace that skips a block, one that writes the cursor before the
    submission, and one that submits an unconfirmed block are all rejected -/
example : traceOK 50 70 [.head 130, .query 71 80 true, .submit 71 80, .put 81] = false := by decide
example : traceOK 50 70 [.head 130, .query 70 80 true, .put 81, .submit 70 80] = false := by decide
example : traceOK 50 70 [.head 130, .query 70 81 true, .submit 70 81, .put 82] = false := by decide
example : gapFree 70 [.head 130, .query 70 80 true, .submit 70 79, .put 81] = false := by decide

end Sif.Props.C17
