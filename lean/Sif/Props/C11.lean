import Sif.Proofs.C11Chain
import Sif.Generated.DispConsts
/-
  C11 — Dispensation pays each record exactly once from escrowed funds.  Property theorems only.

  Quantifiers: every history of create / run / claim messages, blocks (with the ecosystem mint),
  funding and bank transfers; every amount, denom, recipient, set of blocked addresses.  The
  semantics of a second `CreateDistribution` in the same block (same distributor, same type,
  another runner) is the code's: it merges into the existing pending records and overwrites their
  `AuthorizedRunner` — stated in `create_refines` / `create_runner_merge`.
-/
namespace Sif.Props.C11
open Sif Sif.Disp Sif.Spec.C11

/-! ## keys -/

/-- `GetDistributionRecordKey` is injective on (name, type, recipient) for recipients without `_`
    (bech32 addresses): two different records never share a store key. -/
theorem recordKey_injective {n n' : List Char} {t t' : DType} {a a' : Addr}
    (ha : '_' ∉ a) (ha' : '_' ∉ a') (h : recordKey n t a = recordKey n' t' a') : n = n' ∧ t = t' ∧ a = a' :=
  tripleKey_injective ha ha' h

/-- `GetDistributionsKey` is injective on (name, type, runner). -/
theorem distributionKey_injective {n n' : List Char} {t t' : DType} {a a' : Addr}
    (ha : '_' ∉ a) (ha' : '_' ∉ a') (h : distKey n t a = distKey n' t' a') : n = n' ∧ t = t' ∧ a = a' :=
  tripleKey_injective ha ha' h

/-- `GetUserClaimKey` is injective on (user, type): one store entry per user and claim type. -/
theorem claimKey_injective {u u' : Addr} {t t' : DType} (h : claimKey u t = claimKey u' t') : u = u' ∧ t = t' :=
  claimKey_inj h

/-- the store prefixes read from types/keys.go are the expected six single bytes … -/
theorem prefixes_expected : Sif.Generated.DispConsts.prefixes =
    [("DistributionRecordPrefixPending", [0x00]), ("DistributionRecordPrefixCompleted", [0x11]),
     ("DistributionRecordPrefixFailed", [0x12]), ("DistributionsPrefix", [0x01]),
     ("UserClaimPrefix", [0x02]), ("MintControllerPrefix", [0x03])] := by decide

/-- … and none is a prefix of another, so the sub-stores of the model cannot shadow each other. -/
theorem prefixes_disjoint :
    (Sif.Generated.DispConsts.prefixes.map (·.2)).Pairwise (fun a b => ¬ a.isPrefixOf b ∧ ¬ b.isPrefixOf a) := by
  decide

theorem dispconsts_readable : Sif.Generated.DispConsts.unreadable = [] := by decide

/-! ## create -/

/-- `create_refines`: an accepted `CreateDistribution`
    * was for a new (name, type, runner), which it records;
    * moves exactly Σ outputs from the distributor to the module account, nothing else in the bank;
    * adds exactly the outputs to `pending`, merging duplicates of one recipient by addition;
    * every record it touches ends up with the message's runner (the *latest* creation), name, type;
    * leaves records it does not touch, and the completed / failed / claim stores, unchanged. -/
theorem create_refines (cfg : DispCfg) (h : Int) (s s' : DispState) (m : MsgCreate) (hw : WF s)
    (hc : createDistribution cfg h s m = some s') :
    let name := distName h m.distributor
    sGet s.dists (distKey name m.typ m.runner) = none ∧
    s'.dists = sSet s.dists (distKey name m.typ m.runner) () ∧
    (∀ a d, s'.bank.bal a d = s.bank.bal a d - (if a = m.distributor then outsTotal m.outputs d else 0)
                                + (if a = cfg.module then outsTotal m.outputs d else 0)) ∧
    (∀ d, s'.bank.sup d = s.bank.sup d) ∧
    (∀ k d, amt s'.pending k d = amt s.pending k d + outsFor name m.typ m.outputs k d) ∧
    (∀ k, (∀ o ∈ m.outputs, recordKey name m.typ o.addr ≠ k) → sGet s'.pending k = sGet s.pending k) ∧
    (∀ k, (∃ o ∈ m.outputs, recordKey name m.typ o.addr = k) →
        ∃ r, sGet s'.pending k = some r ∧ r.runner = m.runner ∧ r.name = name ∧ r.typ = m.typ) ∧
    s'.completed = s.completed ∧ s'.failed = s.failed ∧ s'.claims = s.claims ∧ WF s' := by
  intro name
  obtain ⟨hw', hnew, hd, hb, hamt, _, hsame, hrun, e1, e2, e3⟩ := create_spec hw hc
  refine ⟨hnew, hd, ?_, ?_, hamt, hsame, hrun, e1, e2, e3, hw'⟩
  · intro a d; rw [bal_sendCoins hb, coinsGet_totalOutput]
  · intro d; exact sup_sendCoins hb d

/-- the judge's escrow clause for a create message follows from `create_refines`: Σ of the
    message's own outputs is what the module account gains (distributor ≠ module account) -/
theorem create_moves_exactly_outputs (cfg : DispCfg) (h : Int) (s s' : DispState) (m : MsgCreate) (hw : WF s)
    (hne : m.distributor ≠ cfg.module) (hc : createDistribution cfg h s m = some s') (d : Denom) :
    s'.bank.bal cfg.module d = s.bank.bal cfg.module d + outsTotal m.outputs d ∧
    s'.bank.bal m.distributor d = s.bank.bal m.distributor d - outsTotal m.outputs d := by
  obtain ⟨_, _, hb, _⟩ := create_refines cfg h s s' m hw hc
  have hne' : ¬ cfg.module = m.distributor := fun e => hne e.symm
  constructor
  · rw [hb]; simp [hne']
  · rw [hb]; simp [hne]

/-- the distributor could pay: every output total was covered by its balance -/
theorem create_needs_funds (cfg : DispCfg) (h : Int) (s s' : DispState) (m : MsgCreate)
    (hc : createDistribution cfg h s m = some s') :
    hasCoins s.bank m.distributor (totalOutput m.outputs) = true := by
  unfold createDistribution at hc
  simp only at hc
  split at hc
  · cases hc
  · split at hc
    · cases hc
    · split at hc
      · cases hc
      · cases hb : sendCoins s.bank m.distributor cfg.module (totalOutput m.outputs) with
        | none => rw [hb] at hc; cases hc
        | some b =>
          unfold sendCoins at hb
          split at hb
          · assumption
          · cases hb

/-- an existing (name, type, runner) distribution is refused -/
theorem create_rejects_existing (cfg : DispCfg) (h : Int) (s : DispState) (m : MsgCreate)
    (he : sHas s.dists (distKey (distName h m.distributor) m.typ m.runner) = true) :
    createDistribution cfg h s m = none := by
  unfold createDistribution; simp [he]

/-- a distributor that cannot pay is refused -/
theorem create_rejects_insufficient (cfg : DispCfg) (h : Int) (s : DispState) (m : MsgCreate)
    (hf : hasCoins s.bank m.distributor (totalOutput m.outputs) = false) :
    createDistribution cfg h s m = none := by
  unfold createDistribution
  simp only
  split
  · rfl
  · split
    · rfl
    · split
      · rfl
      · simp [sendCoins, hf]

/-- a refused or panicking transaction changes nothing (all-or-nothing DeliverTx) -/
theorem refused_changes_nothing (cfg : DispCfg) (mr : Nat) (h : Int) (s : DispState) (msg : Msg)
    (hr : (deliver cfg mr h s msg).2.1 ≠ .ok) : (deliver cfg mr h s msg).1 = s := by
  cases msg with
  | create m =>
    simp only [deliver] at hr ⊢
    by_cases hv : m.validateBasic cfg = true
    · simp only [hv, Bool.not_true, Bool.false_eq_true, if_false] at hr ⊢
      cases hc : createDistribution cfg h s m with
      | none => rfl
      | some s' => simp [hc] at hr
    · simp [hv]
  | run m =>
    simp only [deliver] at hr ⊢
    by_cases hv : m.validateBasic cfg mr = true
    · simp only [hv, Bool.not_true, Bool.false_eq_true, if_false] at hr ⊢
      cases hc : runDistribution cfg h s m with
      | error e => rfl
      | ok p => simp [hc] at hr
    · simp [hv]
  | claim m =>
    simp only [deliver] at hr ⊢
    by_cases hv : m.validateBasic cfg = true
    · simp only [hv, Bool.not_true, Bool.false_eq_true, if_false] at hr ⊢
      cases hc : createClaim cfg s m with
      | none => rfl
      | some s' => simp [hc] at hr
    · simp [hv]

/-! ## run -/

/-- `RunDistribution` never panics on a well-formed state. -/
theorem run_no_panic (cfg : DispCfg) (h : Int) (s : DispState) (l : Ledger) (hi : Inv cfg.module s l) (m : MsgRun) :
    ∃ s' os, runDistribution cfg h s m = .ok (s', os) := by
  obtain ⟨s', os, hr, _⟩ := run_spec (h := h) hi m
  exact ⟨s', os, hr⟩

/-- `run_refines`: the records processed by a run are exactly the first `count` pending records, in
    key order, whose name, type and authorised runner are the message's (the runner is the signer);
    each is paid in full and moved to `completed`, or moved to `failed` when the bank refuses the
    recipient; paid claim-type records lose their claim; nothing else changes:
    * `sel`: the processed records = the selection, which is `take count (filter matches pending)`;
    * pending afterwards = pending before minus the paid and failed keys; nothing enters pending;
    * every account other than the module account gains exactly what the trace paid to it;
    * paid records are in `completed`, failed ones in `failed`, with their coins and the height;
    * skipped only for an unparsable recipient address. -/
theorem run_refines (cfg : DispCfg) (h : Int) (s s' : DispState) (l : Ledger) (m : MsgRun)
    (os : List (Key × Rec × Outcome)) (hi : Inv cfg.module s l)
    (hr : runDistribution cfg h s m = .ok (s', os)) :
    os.map (fun x => (x.1, x.2.1)) = selectRecs m.name m.runner m.typ m.count s.pending ∧
    (∀ n : Nat, m.count = n → selectRecs m.name m.runner m.typ m.count s.pending
        = (s.pending.filter (fun p => p.2.matches m.name m.runner m.typ)).take n) ∧
    (∀ x ∈ os, sGet s.pending x.1 = some x.2.1 ∧ x.2.1.runner = m.runner ∧ x.2.1.name = m.name ∧ x.2.1.typ = m.typ) ∧
    (∀ x ∈ os, x.2.2 ≠ .skipped → sGet s'.pending x.1 = none) ∧
    (∀ k, (∀ x ∈ os, x.1 ≠ k) → sGet s'.pending k = sGet s.pending k) ∧
    (∀ k r, sGet s'.pending k = some r → sGet s.pending k = some r) ∧
    (∀ a d, a ≠ cfg.module → s'.bank.bal a d = s.bank.bal a d + paidTo cfg.canon os a d) ∧
    (∀ x ∈ os, x.2.2 = .paid → sGet s'.completed x.1 = some { x.2.1 with done := h }) ∧
    (∀ x ∈ os, x.2.2 = .failed → sGet s'.failed x.1 = some { x.2.1 with done := h }) ∧
    (∀ x ∈ os, x.2.2 = .skipped → cfg.validAddr x.2.1.rcpt = false) ∧
    s'.dists = s.dists ∧ WF s' := by
  obtain ⟨s'', os', hr', hi', hmap, hf⟩ := run_spec (h := h) hi m
  rw [hr] at hr'; cases hr'
  refine ⟨hmap, ?_, ?_, hf.gone, hf.keep, hf.shrink, hf.bank, hf.donePaid, hf.doneFailed,
    hf.skippedOnlyInvalid, hf.dists, hi'.wf⟩
  · intro n hn; rw [hn]; exact selectRecs_eq_take _ _ _ _ _
  · intro x hx
    have hmem : (x.1, x.2.1) ∈ selectRecs m.name m.runner m.typ m.count s.pending := by
      rw [← hmap]; exact List.mem_map.mpr ⟨x, hx, rfl⟩
    have hsel := selectRecs_selOK hi.wf m.name m.runner m.typ m.count
    obtain ⟨e1, e2⟩ := hsel.mem _ hmem
    have hm := selectRecs_matches _ _ _ _ _ _ hmem
    simp only [Rec.matches, Bool.and_eq_true, beq_iff_eq] at hm
    simp only at e1 e2
    exact ⟨by rw [e1]; exact e2, hm.1.2, hm.1.1, hm.2⟩

/-- No record is silently dropped: a record that was pending before a run and is not pending after
    it was processed by the run and is now in `completed` (paid in full: `run_refines`, bank clause)
    or in `failed`, with its coins.  With `paid_at_most_once` (per key, over the multiset of all
    outputs ever created for it: `created` sums them with multiplicity) every created unit is
    pending, paid or failed. -/
theorem run_leaver_paid_or_failed (cfg : DispCfg) (h : Int) (s s' : DispState) (l : Ledger) (m : MsgRun)
    (os : List (Key × Rec × Outcome)) (hi : Inv cfg.module s l)
    (hr : runDistribution cfg h s m = .ok (s', os)) (k : Key) (r : Rec)
    (hpre : sGet s.pending k = some r) (hpost : sGet s'.pending k = none) :
    ∃ x ∈ os, x.1 = k ∧ x.2.1 = r ∧
      ((x.2.2 = .paid ∧ sGet s'.completed k = some { r with done := h }) ∨
       (x.2.2 = .failed ∧ sGet s'.failed k = some { r with done := h })) := by
  obtain ⟨s'', os', hr', _, hmap, hf⟩ := run_spec (h := h) hi m
  rw [hr] at hr'; cases hr'
  have hex : ∃ x ∈ os, x.1 = k := by
    apply Classical.byContradiction
    intro hno
    have := hf.keep k (fun x hx e => hno ⟨x, hx, e⟩)
    rw [hpre, hpost] at this; cases this
  obtain ⟨x, hx, rfl⟩ := hex
  have hmem : (x.1, x.2.1) ∈ selectRecs m.name m.runner m.typ m.count s.pending := by
    rw [← hmap]; exact List.mem_map.mpr ⟨x, hx, rfl⟩
  have hsel := selectRecs_selOK hi.wf m.name m.runner m.typ m.count
  obtain ⟨e1, e2⟩ := hsel.mem _ hmem
  simp only at e1 e2
  rw [← e1, hpre] at e2
  have hxr : x.2.1 = r := by cases e2; rfl
  refine ⟨x, hx, rfl, hxr, ?_⟩
  cases ho : x.2.2 with
  | paid => left; exact ⟨rfl, by rw [← hxr]; exact hf.donePaid x hx ho⟩
  | failed => right; exact ⟨rfl, by rw [← hxr]; exact hf.doneFailed x hx ho⟩
  | skipped =>
    have := hf.skippedStays x hx ho
    rw [hpre, hpost] at this; cases this

/-- at most the requested number of records per run -/
theorem run_at_most_count (cfg : DispCfg) (h : Int) (s s' : DispState) (l : Ledger) (m : MsgRun)
    (os : List (Key × Rec × Outcome)) (hi : Inv cfg.module s l) (n : Nat) (hn : m.count = n)
    (hr : runDistribution cfg h s m = .ok (s', os)) : os.length ≤ n := by
  obtain ⟨hmap, _⟩ := run_refines cfg h s s' l m os hi hr
  have : os.length = (selectRecs m.name m.runner m.typ m.count s.pending).length := by
    rw [← hmap]; simp
  rw [this, hn]
  exact selectRecs_length _ _ _ _ _

/-- a run whose runner is not the authorised runner of any pending record of that name and type
    pays nothing and changes nothing -/
theorem run_wrong_runner_pays_nothing (cfg : DispCfg) (h : Int) (s : DispState) (m : MsgRun)
    (hno : ∀ p ∈ s.pending, p.2.matches m.name m.runner m.typ = false) :
    runDistribution cfg h s m = .ok (s, []) := by
  unfold runDistribution
  have key : ∀ (st : Store Rec) (n : Int), (∀ p ∈ st, p.2.matches m.name m.runner m.typ = false) →
      selectRecs m.name m.runner m.typ n st = [] := by
    intro st
    induction st with
    | nil => intro n _; simp [selectRecs]
    | cons p rest ih =>
      intro n hst
      obtain ⟨k, r⟩ := p
      have h0 : r.matches m.name m.runner m.typ = false := hst (k, r) (by simp)
      simp only [selectRecs, h0, Bool.false_eq_true, if_false]
      split
      · rfl
      · exact ih n (fun p hp => hst p (by simp [hp]))
  rw [key s.pending m.count hno]; rfl

/-- a run pays out of the module account exactly what it pays to the recipients (the module account
    is a blocked address of x/bank, as every module account is) -/
theorem run_pays_from_escrow (cfg : DispCfg) (h : Int) (s s' : DispState) (l : Ledger) (m : MsgRun)
    (os : List (Key × Rec × Outcome)) (hi : Inv cfg.module s l) (hblk : cfg.blocked cfg.module = true)
    (hr : runDistribution cfg h s m = .ok (s', os)) (d : Denom) :
    s'.bank.bal cfg.module d + paidAll os d = s.bank.bal cfg.module d := by
  obtain ⟨s'', os', hr', _, _, hf⟩ := run_spec (h := h) hi m
  rw [hr] at hr'; cases hr'
  exact hf.bankModule hblk d

/-- paying a claim-type record deletes that claim -/
theorem claim_deleted_on_pay (cfg : DispCfg) (h : Int) (s s' : DispState) (l : Ledger) (m : MsgRun)
    (os : List (Key × Rec × Outcome)) (hi : Inv cfg.module s l)
    (hr : runDistribution cfg h s m = .ok (s', os)) :
    ∀ x ∈ os, x.2.2 = .paid → x.2.1.typ.claimable = true →
      sGet s'.claims (claimKey (cfg.canon x.2.1.rcpt) x.2.1.typ) = none := by
  obtain ⟨s'', os', hr', _, _, hf⟩ := run_spec (h := h) hi m
  rw [hr] at hr'; cases hr'
  exact hf.claimsDel

/-! ## claims -/

/-- a user can hold at most one claim per claim type — per ACCOUNT (the claim key is built from the
    decoded address, fix F28: both spellings of an address name one claim): a second claim for the
    same (account, type) is refused, an accepted one was new and touches only its own key -/
theorem one_claim_per_type (cfg : DispCfg) (s : DispState) (m : MsgClaim) :
    (sHas s.claims (claimKey (cfg.canon m.user) m.typ) = true → createClaim cfg s m = none) ∧
    (∀ s', createClaim cfg s m = some s' →
        sGet s.claims (claimKey (cfg.canon m.user) m.typ) = none ∧
        sGet s'.claims (claimKey (cfg.canon m.user) m.typ) = some () ∧
        (∀ k, k ≠ claimKey (cfg.canon m.user) m.typ → sGet s'.claims k = sGet s.claims k) ∧
        s'.pending = s.pending ∧ s'.completed = s.completed ∧ s'.failed = s.failed ∧ s'.bank = s.bank) := by
  constructor
  · intro hh; unfold createClaim; simp [hh]
  · intro s' hc
    obtain ⟨hn, rfl⟩ := createClaim_spec hc
    exact ⟨hn, sGet_sSet_same _ _ _, fun k hk => sGet_sSet_other _ _ _ _ hk, rfl, rfl, rfl, rfl⟩

/-! ## histories -/

def genesis : Chain := { height := 1, st := DispState.empty, counter := some 0 }

theorem inv_genesis (module : Addr) : Inv module genesis.st Ledger.zero := by
  refine ⟨wf_empty, ?_, ?_⟩
  · intro d; simp [escrowCovers, genesis, DispState.empty, sumStore]
  · intro k d; simp [ledgerEq, genesis, DispState.empty, amt, sGet, Ledger.zero]

theorem runOpsL_fst (cfg : ChainCfg) (c : Chain) (l : Ledger) (ops : List Op) :
    (runOpsL cfg (c, l) ops).1 = runOps cfg c ops := by
  induction ops generalizing c l with
  | nil => rfl
  | cons op ops ih => simp only [runOpsL, runOps]; exact ih _ _

theorem inv_history (cfg : ChainCfg) (hcfg : cfgOK cfg = true) (c : Chain) (l : Ledger) (ops : List Op)
    (hops : ∀ op ∈ ops, opOK cfg op = true) (hi : Inv cfg.disp.module c.st l) :
    Inv cfg.disp.module (runOpsL cfg (c, l) ops).1.st (runOpsL cfg (c, l) ops).2 := by
  induction ops generalizing c l with
  | nil => exact hi
  | cons op ops ih =>
    simp only [runOpsL]
    exact ih _ _ (fun o ho => hops o (by simp [ho])) (step_inv hcfg op (hops op (by simp)) hi)

/-- `escrow_covers`: after every history the module account holds at least Σ pending + Σ failed,
    for every denom. -/
theorem escrow_covers (cfg : ChainCfg) (hcfg : cfgOK cfg = true) (ops : List Op)
    (hops : ∀ op ∈ ops, opOK cfg op = true) (d : Denom) :
    escrowCovers cfg.disp.module (runOps cfg genesis ops).st d := by
  rw [← runOpsL_fst cfg genesis Ledger.zero ops]
  exact (inv_history cfg hcfg genesis Ledger.zero ops hops (inv_genesis _)).escrow d

/-- `paid_at_most_once`: after every history, for every record key and denom,
    paid out + still pending + moved to failed = created.  Every unit created for a key is in
    exactly one of the three places; a unit is paid out only by leaving `pending`. -/
theorem paid_at_most_once (cfg : ChainCfg) (hcfg : cfgOK cfg = true) (ops : List Op)
    (hops : ∀ op ∈ ops, opOK cfg op = true) (k : Key) (d : Denom) :
    ledgerEq (runOpsL cfg (genesis, Ledger.zero) ops).2 (runOps cfg genesis ops).st k d := by
  rw [← runOpsL_fst cfg genesis Ledger.zero ops]
  exact (inv_history cfg hcfg genesis Ledger.zero ops hops (inv_genesis _)).ledger k d

/-- never more paid out for a key than was created for it -/
theorem paid_le_created (cfg : ChainCfg) (hcfg : cfgOK cfg = true) (ops : List Op)
    (hops : ∀ op ∈ ops, opOK cfg op = true) (k : Key) (d : Denom) :
    (runOpsL cfg (genesis, Ledger.zero) ops).2.paid k d ≤ (runOpsL cfg (genesis, Ledger.zero) ops).2.created k d := by
  have := paid_at_most_once cfg hcfg ops hops k d
  unfold ledgerEq at this
  omega

/-- the store stays well formed along every history (sorted sub-stores — hence one entry per key,
    in particular one claim per (user, type) — and valid pending records under their own keys) -/
theorem wf_history (cfg : ChainCfg) (hcfg : cfgOK cfg = true) (ops : List Op)
    (hops : ∀ op ∈ ops, opOK cfg op = true) : WF (runOps cfg genesis ops).st := by
  rw [← runOpsL_fst cfg genesis Ledger.zero ops]
  exact (inv_history cfg hcfg genesis Ledger.zero ops hops (inv_genesis _)).wf

/-- no two entries of the claim store share a key, after every history -/
theorem claims_keys_distinct (cfg : ChainCfg) (hcfg : cfgOK cfg = true) (ops : List Op)
    (hops : ∀ op ∈ ops, opOK cfg op = true) :
    (runOps cfg genesis ops).st.claims.Pairwise (fun a b => a.1 ≠ b.1) :=
  sorted_pairwise (wf_history cfg hcfg ops hops).sl

/-- the judge's Boolean is the theorem's statement -/
theorem escrowCoversOn_iff (ds : List Denom) (module : Addr) (s : DispState) :
    escrowCoversOn ds module s = true ↔ ∀ d ∈ ds, escrowCovers module s d := by
  unfold escrowCoversOn; simp [List.all_eq_true]

/-! ## non-vacuity and the runner-merge semantics, on a concrete history -/

section Example
def xcfg : ChainCfg :=
  { disp := { module := "mod".toList, blocked := fun a => a == "mod".toList || a == "blk".toList,
              validAddr := fun a => !a.isEmpty, canon := id },
    mint := { cap := 1000, perBlock := 10, denom := "rowan".toList, ecoPool := "eco".toList, module := "mod".toList },
    maxRecords := 20 }
def rowan (n : Nat) : Coins := [("rowan".toList, n)]
def D : Addr := "dist".toList
def R1 : Addr := "run1".toList
def R2 : Addr := "run2".toList
def U : Addr := "user".toList
def nm : List Char := distName 1 D
/-- same block, same distributor and type: first runner R1, then runner R2; one blocked recipient -/
def xops : List Op :=
  [ .fund D (rowan 100),
    .tx (.create { distributor := D, runner := R1, typ := .airdrop, outputs := [⟨U, rowan 5⟩, ⟨U, rowan 2⟩] }),
    .tx (.create { distributor := D, runner := R2, typ := .airdrop, outputs := [⟨U, rowan 3⟩, ⟨"blk".toList, rowan 4⟩] }),
    .tx (.run { runner := R1, name := nm, typ := .airdrop, count := 5 }),   -- R1 is no longer authorised: pays nothing
    .beginBlock,
    .tx (.run { runner := R2, name := nm, typ := .airdrop, count := 5 }) ]  -- pays 10 to U, 4 goes to failed

example : cfgOK xcfg = true := by decide
example : ∀ op ∈ xops, opOK xcfg op = true := by decide
/- after the two creates the merged record is authorised to R2 only, with 5+2+3 rowan -/
example : (sGet (runOps xcfg genesis (xops.take 3)).st.pending (recordKey nm .airdrop U)).map (fun r => (r.runner, r.coins))
    = some (R2, rowan 10) := by decide
/- R1's run pays nothing -/
example : (runOps xcfg genesis (xops.take 4)).st.bank.bal U "rowan".toList = 0 := by decide
/- R2's run pays the merged record in full, the blocked recipient's record goes to failed, escrow keeps 4 + the failed mint send -/
example : let c := runOps xcfg genesis xops
    (c.st.bank.bal U "rowan".toList, c.st.pending.length, c.st.completed.length, c.st.failed.length,
     c.st.bank.bal "mod".toList "rowan".toList, c.st.bank.bal D "rowan".toList) = (10, 0, 1, 1, 4, 86) := by decide
end Example

end Sif.Props.C11
