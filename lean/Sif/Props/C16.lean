import Sif.Spec.C16
/-
  C16 — the relayer translates bridge events faithfully in both directions.  Property theorems only.
-/
namespace Sif.Props.C16
open Sif Sif.Relayer Sif.Spec.C16

/-- the burn symbol is the attribute value minus exactly the leading pegged prefix -/
theorem stripPrefixC_iff (v s : Str) : stripPrefixC v = some s ↔ v = 'c' :: s := by
  unfold stripPrefixC
  split
  · constructor
    · intro h; cases h; rfl
    · intro h; cases h; rfl
  · rename_i hne
    constructor
    · intro h; cases h
    · intro h; exact absurd h (by intro h; exact hne _ h)

end Sif.Props.C16
