import Sif.Proofs.C16
/-
  C16 — the relayer translates bridge events faithfully in both directions.
  Property theorems only (helper lemmas in Sif/Proofs/C16.lean).

  Quantifiers: every event field value — arbitrary recipient bytes, symbols (byte strings), chain ids,
  nonces and amounts (any integer), any 20-byte addresses, any claim type; every attribute list (any keys,
  any values, any order, any multiplicity); every symbol table; every behaviour of the code that is not
  modelled (`Env`: bech32 decoding, the Unicode path of `strings.ToLower`).  No bounds.
-/
namespace Sif.Props.C16
open Sif Sif.Relayer Sif.Spec.C16 Sif.Proofs.C16

/-! ### Ethereum → Sifchain -/

/-- Field fidelity: a claim produced from an event carries the event's chain id and nonce (whenever they
    fit int64), sender, recipient (as decoded), token and bridge contract, amount, claim type, the
    validator, and the symbol lower-cased (lock) / mapped through the symbol table (burn). -/
theorem eth_claim_faithful (env : Env) (val : Str) (ev : EthEvent) (c : Claim)
    (h : ethToClaim env val ev = .ok c) : claimFaithful env val ev c = true :=
  ethToClaim_faithful env val ev c h

/-- Malformed events are rejected, well-formed ones translated: the function returns a claim exactly for
    events whose recipient decodes to a non-empty address, whose amount fits 256 bits and which do not
    lock "eth" with a non-null token; everything else is an error (or, for a > 256-bit amount, a panic). -/
theorem eth_claim_verdict (env : Env) (val : Str) (ev : EthEvent) :
    (ethWellFormed env ev = true → ∃ c, ethToClaim env val ev = .ok c) ∧
    (ethWellFormed env ev = false → ∃ e, ethToClaim env val ev = .error e) :=
  ethToClaim_verdict env val ev

/-- Narrowing: `big.Int.Int64()` does not wrap on anything representable — in particular chain ids and
    nonces in `[0, 2^63)`. -/
theorem narrowing_no_wrap (i : Int) (h0 : 0 ≤ i) (h1 : i < 2 ^ 63) : int64OfBig i = i :=
  int64OfBig_id i (by omega) h1

/-- … and what it does otherwise still lands in int64 (the wrap is the Go conversion's, stated) -/
theorem narrowing_range (i : Int) : -(2 ^ 63 : Int) ≤ int64OfBig i ∧ int64OfBig i < 2 ^ 63 :=
  int64OfBig_range i

/-- ASCII symbols of a lock are lower-cased byte by byte (the non-ASCII path is `Env.lower`). -/
theorem lock_symbol_ascii (env : Env) (ev : EthEvent) (h : ev.claimType = ctLock)
    (hascii : ev.symbol.all isAsciiC = true) : claimSymbol env ev = ev.symbol.map lowerC := by
  rw [claimSymbol_lock env ev h]; simp [toLower, hascii]

/-- Claim identity: two claims of the same chain whose senders have the width of an address text have the
    same prophecy id only if they have the same nonce and the same sender. -/
theorem claimId_injective (c₁ c₂ : Claim) (hc : c₁.chainId = c₂.chainId)
    (h1 : c₁.sender.length = 42) (h2 : c₂.sender.length = 42) (hid : claimId c₁ = claimId c₂) :
    c₁.nonce = c₂.nonce ∧ c₁.sender = c₂.sender :=
  Sif.Proofs.C16.claimId_injective c₁ c₂ hc h1 h2 hid

/-- the judge's Boolean for the identity clause holds for the model's ids -/
theorem claimId_judge (c₁ c₂ : Claim) : idInjective c₁ c₂ (claimId c₁) (claimId c₂) = true :=
  idInjective_holds c₁ c₂

/-- two different events of one bridge (same chain id, nonces in the envelope, 20-byte senders) never
    yield the same claim identity -/
theorem distinct_events_distinct_ids (env : Env) (val : Str) (e₁ e₂ : EthEvent) (c₁ c₂ : Claim)
    (h₁ : ethToClaim env val e₁ = .ok c₁) (h₂ : ethToClaim env val e₂ = .ok c₂)
    (hchain : e₁.chainId = e₂.chainId)
    (hn₁ : 0 ≤ e₁.nonce ∧ e₁.nonce < 2 ^ 63) (hn₂ : 0 ≤ e₂.nonce ∧ e₂.nonce < 2 ^ 63)
    (hs₁ : e₁.sender.length = 40) (hs₂ : e₂.sender.length = 40)
    (hid : claimId c₁ = claimId c₂) : e₁.nonce = e₂.nonce ∧ e₁.sender = e₂.sender := by
  obtain ⟨_, _, _, _, _, rfl⟩ := ethToClaim_ok env val e₁ c₁ h₁
  obtain ⟨_, _, _, _, _, rfl⟩ := ethToClaim_ok env val e₂ c₂ h₂
  have := Sif.Proofs.C16.claimId_injective _ _ (by simp [hchain]) (by simp [addrString, hs₁]) (by simp [addrString, hs₂]) hid
  simp only [addrString] at this
  rw [int64OfBig_id _ (by omega) hn₁.2, int64OfBig_id _ (by omega) hn₂.2] at this
  exact ⟨this.1, by simpa using this.2⟩

/-! ### the content the chain derives from the relayed claim -/

/-- The content packed from a relayed claim carries the original event's recipient, amount, token, claim type
    and symbol — the symbol exactly as the relayer produced it (lower-cased for locks, table-mapped for burns),
    nothing trimmed, folded or otherwise normalised on the way. -/
theorem content_faithful (env : Env) (val : Str) (ev : EthEvent) (c : Claim)
    (h : ethToClaim env val ev = .ok c) : contentFaithful env ev (oracleContent c) = true := by
  obtain ⟨r, hr, _, _, _, rfl⟩ := ethToClaim_ok env val ev c h
  simp [contentFaithful, oracleContent, hr]

/-- … and it is the expected content, so two events with the same content agree on all of these -/
theorem content_expected (env : Env) (val : Str) (ev : EthEvent) (c : Claim)
    (h : ethToClaim env val ev = .ok c) : expectedContent env ev = some (oracleContent c) := by
  obtain ⟨r, hr, _, _, _, rfl⟩ := ethToClaim_ok env val ev c h
  simp [expectedContent, oracleContent, hr]

theorem content_distinct (env : Env) (val : Str) (e₁ e₂ : EthEvent) (c₁ c₂ : Claim)
    (h₁ : ethToClaim env val e₁ = .ok c₁) (h₂ : ethToClaim env val e₂ = .ok c₂)
    (hk : oracleContent c₁ = oracleContent c₂) :
    claimSymbol env e₁ = claimSymbol env e₂ ∧ e₁.value = e₂.value ∧ e₁.token = e₂.token ∧ e₁.claimType = e₂.claimType := by
  have a := content_expected env val e₁ c₁ h₁
  have b := content_expected env val e₂ c₂ h₂
  obtain ⟨_, _, _, _, _, rfl⟩ := ethToClaim_ok env val e₁ c₁ h₁
  obtain ⟨_, _, _, _, _, rfl⟩ := ethToClaim_ok env val e₂ c₂ h₂
  simp only [oracleContent, Content.mk.injEq, addrString, List.cons.injEq, true_and] at hk
  exact ⟨hk.2.2.1, hk.2.1, hk.2.2.2.1, hk.2.2.2.2⟩

/-- padded symbols stay padded: "ETH " locks as "eth " (not "eth"), and "USDT" / "USDT " are different contents -/
example :
    let env : Env := { bech32 := fun _ => some (str "addr"), bech32Val := fun _ => none, lower := id, table := [] }
    let mk (sym : Str) : EthEvent :=
      { to := str "x", symbol := sym, chainId := 1, value := 5, nonce := 1, claimType := ctLock,
        bridge := List.replicate 40 'a', sender := List.replicate 40 'b', token := List.replicate 40 '1' }
    (expectedContent env (mk (str "ETH "))).map (·.symbol) = some (str "eth ") ∧
    expectedContent env (mk (str "USDT")) ≠ expectedContent env (mk (str "USDT ")) := by decide

/-! ### the batch the relayer actually submits (`handleEthereumEvent` → `RelayToCosmos`) -/

/-- For every batch of events (any length, any mix of lock / burn / malformed events at any position): the
    transaction carries exactly one claim per submittable event, in order, and the k-th claim is the faithful
    translation of ITS OWN (k-th submittable) source event — not of a neighbour. -/
theorem batch_claims_faithful (env : Env) (val : Str) (events : List EthEvent) :
    batchCountOK env val events (relayBatch env val events) = true ∧
    batchFieldsOK env val events (relayBatch env val events) = true :=
  relayBatch_positional env val events

/-- a malformed event anywhere in the batch neither removes nor alters the others: the batch result is the
    per-event result, concatenated -/
theorem batch_is_per_event (env : Env) (val : Str) (xs ys : List EthEvent) :
    relayBatch env val (xs ++ ys) = relayBatch env val xs ++ relayBatch env val ys := by
  simp [relayBatch, List.filterMap_append, List.filter_append]

/-- distinct events of one batch (same chain, nonces in the envelope, 20-byte senders) never share a claim
    identity -/
theorem batch_ids_distinct (env : Env) (val : Str) (events : List EthEvent) (ch : Int)
    (hall : ∀ ev ∈ events, ev.chainId = ch ∧ 0 ≤ ev.nonce ∧ ev.nonce < 2 ^ 63 ∧ ev.sender.length = 40)
    (c₁ c₂ : Claim) (h₁ : c₁ ∈ relayBatch env val events) (h₂ : c₂ ∈ relayBatch env val events)
    (hid : claimId c₁ = claimId c₂) :
    ∃ e₁ e₂, e₁ ∈ events ∧ e₂ ∈ events ∧ ethToClaim env val e₁ = .ok c₁ ∧ ethToClaim env val e₂ = .ok c₂ ∧
      e₁.nonce = e₂.nonce ∧ e₁.sender = e₂.sender := by
  obtain ⟨e₁, m₁, t₁⟩ := relayBatch_mem env val events c₁ h₁
  obtain ⟨e₂, m₂, t₂⟩ := relayBatch_mem env val events c₂ h₂
  obtain ⟨a1, a2, a3, a4⟩ := hall e₁ m₁
  obtain ⟨b1, b2, b3, b4⟩ := hall e₂ m₂
  have := distinct_events_distinct_ids env val e₁ e₂ c₁ c₂ t₁ t₂ (by rw [a1, b1]) ⟨a2, a3⟩ ⟨b2, b3⟩ a4 b4 hid
  exact ⟨e₁, e₂, m₁, m₂, t₁, t₂, this.1, this.2⟩

/-- non-vacuity: three events, the middle one malformed (recipient does not decode): two claims are
    submitted, each carrying its own event's nonce, symbol and amount -/
example :
    let env : Env := { bech32 := fun s => if s = str "bad" then none else some (str "addr"), bech32Val := fun _ => none,
                       lower := id, table := [] }
    let mk (to : Str) (sym : Str) (n v : Int) (ty : Nat) : EthEvent :=
      { to := to, symbol := sym, chainId := 3, value := v, nonce := n, claimType := ty,
        bridge := List.replicate 40 'a', sender := List.replicate 40 'b', token := List.replicate 40 '0' }
    let evs := [mk (str "good") (str "ETH") 7 100 ctLock, mk (str "bad") (str "X") 8 200 ctLock, mk (str "good") (str "cusdc") 9 300 ctBurn]
    (relayBatch env (str "val") evs).map (fun c => (c.nonce, c.symbol, c.amount)) =
      [(7, str "eth", 100), (9, str "cusdc", 300)] ∧
    batchFieldsOK env (str "val") evs (relayBatch env (str "val") evs) = true ∧
    -- a batch whose claims all repeat the last event is rejected by the judge
    batchFieldsOK env (str "val") evs ((relayBatch env (str "val") evs).drop 1 ++ (relayBatch env (str "val") evs).drop 1) = false := by
  decide

/-! ### Sifchain → Ethereum -/

/-- Field fidelity: an accepted lock/burn message carries the (last) sender attribute, the parsed (last)
    sequence, receiver and amount attributes, and for locks the symbol mapped through the table.
    Duplicated attributes: the last one wins — that is what the code does, stated. -/
theorem cosmos_msg_faithful (kind : Nat) (env : Env) (attrs : List Attr) (m : CosmosMsg)
    (h : cosmosToMsg kind env attrs = .ok m) : msgFaithful kind env attrs m = true :=
  cosmosToMsg_faithful kind env attrs m h

/-- Malformed (incomplete) attribute lists are rejected, whatever else they contain: an accepted list has
    all five attributes.  (Fix F6b; the pinned code counted repeated attributes.) -/
theorem incomplete_rejected (kind : Nat) (env : Env) (attrs : List Attr) (m : CosmosMsg)
    (h : cosmosToMsg kind env attrs = .ok m) : completeOK attrs true = true := by
  simpa [completeOK] using cosmosToMsg_complete kind env attrs m h

/-- the same, contrapositive form: a list missing one of the five attributes is an error -/
theorem incomplete_is_error (kind : Nat) (env : Env) (attrs : List Attr) (hinc : complete attrs = false) :
    ∃ e, cosmosToMsg kind env attrs = .error e := by
  cases h : cosmosToMsg kind env attrs with
  | error e => exact ⟨e, rfl⟩
  | ok m => have := cosmosToMsg_complete kind env attrs m h; rw [hinc] at this; cases this

/-- Burn symbol, general form: whatever the attribute list, an accepted burn's symbol is the last symbol
    attribute with exactly the leading "c" removed. -/
theorem burn_symbol_prefix_removed (env : Env) (attrs : List Attr) (m : CosmosMsg)
    (h : cosmosToMsg kBurn env attrs = .ok m) : burnSymbolOK attrs true m.symbol = true :=
  cosmosToMsg_burnSymbol env attrs m h

/-- `burn_symbol_strips_prefix` (fix F6), in full: after any attributes that supply sender, sequence,
    receiver and amount, a burn event with symbol attribute `sym` is translated with symbol `s` if and only
    if `sym = "c" ++ s`.  In particular symbols that do not *start* with the prefix are refused ("xcy",
    "usdc"), and nothing but the first byte is removed ("cc" ↦ "c"). -/
theorem burn_symbol_strips_prefix (env : Env) (pre : List Attr) (acc : Acc) (sym s : Str)
    (hpre : scanAttrs kBurn env pre {} = .ok acc)
    (h1 : acc.sSender = true) (h2 : acc.sSeq = true) (h3 : acc.sRecv = true) (h4 : acc.sAmt = true) :
    (∃ m, cosmosToMsg kBurn env (pre ++ [⟨kSymbol, sym⟩]) = .ok m ∧ m.symbol = s) ↔ sym = 'c' :: s :=
  burn_symbol_iff env pre acc sym s hpre h1 h2 h3 h4

/-- the pinned code's symbol function was not that: it accepted and mangled unprefixed symbols -/
example : afterFirstC (str "xcy") = some (str "y") ∧ afterFirstC (str "usdc") = some [] ∧
    stripPrefixC (str "xcy") = none ∧ stripPrefixC (str "usdc") = none := by decide

/-- Decimal texts round-trip through the two integer parsers the function uses (`SetString(·, 10)` for the
    sequence, `sdk.NewIntFromString` = `SetString(·, 0)` + 256-bit check for the amount). -/
theorem decimal_roundtrip (i : Int) :
    parseBig false (decInt i) = some i ∧ (bitLen i.natAbs ≤ 256 → parseSdkInt (decInt i) = some i) :=
  ⟨parseBig_decInt false i, parseSdkInt_decInt i⟩

/-! ### composition with the chain's own emitters -/

/-- A lock event emitted by the chain for message `b` (sender sequence `seq`) is translated, and the
    translation is `b`'s sender, that sequence, receiver, amount, and the symbol through the table. -/
theorem compose_lock (env : Env) (b : BridgeMsg) (seq : Nat) (r : Str)
    (hr : parseHexAddr b.receiver = some r) (hbits : bitLen b.amount.natAbs ≤ 256) :
    ∃ m, cosmosToMsg kLock env (emitAttrs b seq) = .ok m ∧ composeOK kLock env b seq m = true := by
  refine ⟨_, compose_scan kLock env b seq r hr hbits (sifToEth env.table b.symbol) (by simp [symbolStep]), ?_⟩
  have : ¬ (kLock = kBurn) := by decide
  simp [composeOK, hr, this]

/-- A burn event emitted by the chain for a prefixed token `"c" ++ s` is translated to symbol `s` with the
    same sender, sequence, receiver and amount. -/
theorem compose_burn (env : Env) (b : BridgeMsg) (seq : Nat) (r s : Str)
    (hr : parseHexAddr b.receiver = some r) (hbits : bitLen b.amount.natAbs ≤ 256)
    (hsym : b.symbol = 'c' :: s) :
    ∃ m, cosmosToMsg kBurn env (emitAttrs b seq) = .ok m ∧ composeOK kBurn env b seq m = true := by
  have hnl : ¬ (kBurn = kLock) := by decide
  refine ⟨_, compose_scan kBurn env b seq r hr hbits s (by simp [symbolStep, hnl, hsym, stripPrefixC]), ?_⟩
  simp [composeOK, hr, hnl, hsym]

/-- the judge's acceptance clause: every emitted lock, and every emitted burn of a prefixed token, is accepted -/
theorem compose_accepts (env : Env) (kind : Nat) (b : BridgeMsg) (seq : Nat) (r : Str)
    (hk : kind = kLock ∨ kind = kBurn)
    (hr : parseHexAddr b.receiver = some r) (hbits : bitLen b.amount.natAbs ≤ 256) :
    composeAcceptOK kind b.symbol (match cosmosToMsg kind env (emitAttrs b seq) with | .ok _ => true | .error _ => false) = true := by
  rcases hk with rfl | rfl
  · obtain ⟨m, hm, _⟩ := compose_lock env b seq r hr hbits
    simp [composeAcceptOK, hm]
  · cases hs : b.symbol with
    | nil => simp [composeAcceptOK, startsWithC]
    | cons c s =>
      by_cases hc : c = 'c'
      · subst hc
        obtain ⟨m, hm, _⟩ := compose_burn env b seq r s hr hbits hs
        simp [composeAcceptOK, hm]
      · have : startsWithC (c :: s) = false := by
          unfold startsWithC
          split
          · rename_i heq; cases heq; exact absurd rfl hc
          · rfl
        simp [composeAcceptOK, this]

/-! ### non-vacuity -/

/-- a concrete lock event: recipient decodes, symbol "CETH" is lower-cased, nonce and chain id copied -/
example :
    let env : Env := { bech32 := fun _ => some (str "addr"), bech32Val := fun _ => none, lower := id, table := [] }
    let ev : EthEvent := { to := str "cosmos1…", symbol := str "CETH", chainId := 3, value := 5, nonce := 19, claimType := ctLock,
                           bridge := List.replicate 40 'a', sender := List.replicate 40 'b', token := List.replicate 40 '0' }
    ethWellFormed env ev = true ∧
    (match ethToClaim env (str "val") ev with
     | .ok c => decide (c.symbol = str "ceth" ∧ c.nonce = 19 ∧ c.chainId = 3 ∧ c.amount = 5) && claimFaithful env (str "val") ev c
     | .error _ => false) = true := by decide

/-- concrete attribute lists: a well-formed burn of "ceth" gives "eth"; "xcy" is refused; five symbol
    attributes and nothing else are refused; a duplicated amount takes the last value (base-0 parse: 0x10 = 16) -/
example :
    let env : Env := { bech32 := fun _ => none, bech32Val := fun _ => none, lower := id, table := [] }
    let base : List Attr := [⟨kCosmosSender, str "sif1abc"⟩, ⟨kCosmosSenderSequence, str "7"⟩,
      ⟨kEthereumReceiver, '0' :: 'x' :: List.replicate 40 'A'⟩, ⟨kAmount, str "5"⟩]
    (match cosmosToMsg kBurn env (base ++ [⟨kSymbol, str "ceth"⟩]) with
     | .ok m => decide (m.symbol = str "eth" ∧ m.seq = some 7 ∧ m.amount = some 5 ∧ m.receiver = List.replicate 40 'a')
     | .error _ => false) = true ∧
    (match cosmosToMsg kBurn env (base ++ [⟨kSymbol, str "xcy"⟩]) with
     | .error e => decide (e = .err .notPrefixed) | .ok _ => false) = true ∧
    (match cosmosToMsg kLock env (List.replicate 5 ⟨kSymbol, str "a"⟩) with
     | .error e => decide (e = .err .incomplete) | .ok _ => false) = true ∧
    (match cosmosToMsg kLock env (base ++ [⟨kSymbol, str "rowan"⟩, ⟨kAmount, str "0x10"⟩]) with
     | .ok m => decide (m.amount = some 16)
     | .error _ => false) = true := by decide

/-- observation O1 (recorded, outside the property): chain id and nonce are concatenated without a
    separator, so across *different* chain ids identities can coincide -/
example :
    let mk (chain nonce : Int) : Claim :=
      { chainId := chain, bridge := [], nonce := nonce, symbol := [], token := [], sender := List.replicate 42 'x',
        validator := [], receiver := [], amount := 0, claimType := 0 }
    claimId (mk 1 23) = claimId (mk 12 3) := by decide

end Sif.Props.C16
