import Sif.Spec.C05
/-
  C05 — bridge prophecies need the whitelisted-power threshold and are final.  Property theorems only.
-/
namespace Sif.Props.C05
open Sif.Oracle Sif.Spec.C05

/-- A claim by a validator that is not in the whitelist is rejected (`ErrValidatorNotInWhiteList`); an
    error return carries no state, so nothing changes. -/
theorem claim_rejected_not_whitelisted (ord : List Group → List Group) (vals : List Validator) (st : OState) (c : Claim)
    (h : inWhiteList st.whitelist c.validator = false) :
    processClaim ord vals st c = .error .notWhitelisted := by
  unfold processClaim
  simp [h]

example : inWhiteList (OState.mk [1, 2] [] none).whitelist 3 = false := by decide

end Sif.Props.C05
