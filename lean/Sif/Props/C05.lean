import Sif.Proofs.C05
import Sif.Proofs.C06
import Sif.Proofs.C05Float
/-
  C05 — bridge prophecies need the whitelisted-power threshold and are final.
  Property theorems only (helper lemmas: Sif/Proofs/C05.lean).  Quantifiers: every validator set, every
  power, every whitelist (duplicates included), every store of prophecies with well-formed tallies
  (`OStateWF`, an invariant: `wf_init`, `wf_preserved`), every claim, every iteration order `ord` of the Go
  map `ClaimValidators` (any function that returns a permutation of its argument).
-/
namespace Sif.Props.C05
open Sif.Oracle Sif.EthBridge Sif.Spec.C05 Sif.Generated

/-! ### facts regenerated from the source on every run -/

/-- the threshold the model uses is the one in the source: `DefaultConsensusNeeded = 0.7`, passed by app.go,
    compared with `>=` (success) and `<` (failed); the tally keeps the first strictly larger claim; a claimant's
    power is counted only if it is in the current bonded set and in the whitelist -/
theorem facts_threshold :
    BridgeConsts.consensusNum = 7 ∧ BridgeConsts.consensusDen = 10 ∧
    BridgeConsts.appConsensusArg = "oracletypes.DefaultConsensusNeeded" ∧
    BridgeConsts.successCmp = ">=" ∧ BridgeConsts.failedCmp = "<" ∧ BridgeConsts.tallyCmp = ">" ∧
    BridgeConsts.claimPowerNeedsWhitelist = true ∧ BridgeConsts.unreadable = [] := by decide

/-- the whitelist and duplicate guards compare the address *string* of the message (with the canonical spelling of a
    whitelist entry / with the canonical keys `AddClaim` stores), as `ensureInWhiteList` / `hasClaimKey` model it -/
theorem facts_address_strings :
    BridgeConsts.whitelistTest = "address.String() == validatorAddress" ∧
    BridgeConsts.duplicateTest = "prophecy.ValidatorClaims[claim.ValidatorAddress] != \"\"" := by decide

/-- the BeginBlock / EndBlock hooks of the oracle and ethbridge modules are empty and neither keeper reads the block
    height or time: a block step (`Step.blocks`) is the identity on the bridge state, however far it jumps -/
theorem facts_block_hooks :
    BridgeConsts.blockHooks = ["oracle.BeginBlock { }", "oracle.EndBlock { return nil }",
      "ethbridge.BeginBlock { }", "ethbridge.EndBlock { return nil }"] ∧ BridgeConsts.heightUses = [] := by decide

/-- `ProcessClaim` returns its guards' errors in the modelled order, before `AddClaim` -/
theorem facts_processClaim :
    BridgeConsts.processClaimErrors = ["ErrInvalidValidator", "ErrInvalidIdentifier", "ErrInvalidClaim", "ErrProphecyFinalized", "ErrDuplicateMessage"] ∧
    BridgeConsts.processClaimCalls = ["EnsureAddressIsInWhitelist", "checkActiveValidator", "GetProphecy", "AddClaim", "processCompletion", "SetProphecy"] := by
  decide

/-! ### rejected claims -/

/-- A claim by a validator that is not in the whitelist is rejected (`ErrValidatorNotInWhiteList`); an error
    return carries no state, so nothing changes. -/
theorem claim_rejected_not_whitelisted (ord : List Group → List Group) (vals : List Validator) (st : OState) (c : Claim)
    (h : inWhiteList st.whitelist c.validator = false) :
    processClaim ord vals st c = .error .notWhitelisted := by
  unfold processClaim ensureInWhiteList
  simp [h]

example : inWhiteList (OState.mk [1, 2] [] none).whitelist 3 = false := by decide

/-- The whitelist is matched against the address *string* of the message: any spelling of a validator's operator
    address other than the canonical bech32 text (all upper case, say) is rejected as not whitelisted, so one
    validator cannot appear under two spellings. -/
theorem claim_rejected_other_spelling (ord : List Group → List Group) (vals : List Validator) (st : OState) (c : Claim)
    (h : c.spelling ≠ 0) : processClaim ord vals st c = .error .notWhitelisted := by
  unfold processClaim ensureInWhiteList
  simp [h]

example : (⟨"a", 1, .empty, 1⟩ : Claim).spelling ≠ 0 := by decide

/-- A claim by a whitelisted validator that staking does not know, or that is not bonded, is rejected
    (`ErrInvalidValidator`). -/
theorem claim_rejected_not_bonded (ord : List Group → List Group) (vals : List Validator) (st : OState) (c : Claim)
    (hw : ensureInWhiteList st.whitelist c = true) (h : checkActive vals c.validator = false) :
    processClaim ord vals st c = .error .invalidValidator := by
  unfold processClaim
  simp [hw, h]

example : checkActive [⟨1, 10, false, false⟩] 1 = false ∧ checkActive [⟨1, 10, true, true⟩] 2 = false := by decide

/-- A validator counts at most once per prophecy (1): a second claim by the same validator on a pending
    prophecy — same or different content — is rejected (`ErrDuplicateMessage`). -/
theorem claim_once_per_validator (ord : List Group → List Group) (vals : List Validator) (st : OState) (c : Claim)
    (hw : ensureInWhiteList st.whitelist c = true) (ha : checkActive vals c.validator = true)
    (hid : c.id ≠ "") (hc : c.content ≠ .empty) (hp : (target st c).status = .pending)
    (hdup : hasClaim (target st c) c.validator = true) :
    processClaim ord vals st c = .error .duplicate := by
  have hsp := (ensureInWhiteList_spec hw).1
  unfold processClaim hasClaimKey
  unfold target at hp hdup
  simp [hw, ha, hid, hc, hp, hdup, hsp]

example : hasClaim (target ⟨[1], [⟨"a", .pending, .empty, [(.eth 1 2 "x" 0 2, [1])], [(1, .eth 1 2 "x" 0 2)]⟩], none⟩
    ⟨"a", 1, .eth 1 3 "x" 0 2, 0⟩) 1 = true := by decide

/-- A validator counts at most once per prophecy (2): well-formedness of every tally (no validator in two claim
    groups or twice in one; the two maps agree) holds initially and is preserved by every accepted claim. -/
theorem wf_init : OStateWF OState.init := by
  intro p hp
  simp [OState.init] at hp

theorem wf_preserved (ord : List Group → List Group) (vals : List Validator) (st st' : OState) (c : Claim)
    (s : StatusText) (f : Content) (hwf : OStateWF st) (h : processClaim ord vals st c = .ok (st', s, f)) :
    OStateWF st' := processClaim_wf hwf h

example : ∃ st' s f, processClaim id [⟨1, 10, true, true⟩] ⟨[1], [], none⟩ ⟨"a", 1, .eth 1 2 "x" 0 2, 0⟩ = .ok (st', s, f) :=
  ⟨_, _, _, rfl⟩

/-! ### the threshold -/

/-- If a claim turns a prophecy SUCCESS with final content `fin`, then the validators that are bonded now and
    whitelisted now and whose recorded claim is `fin` hold at least 7/10 of all bonded whitelisted power, and
    that total is positive: `10 · support ≥ 7 · total`, `total > 0`.  (The model tests `float64(p)/float64(t) ≥ 0.7`
    as `7·t ≤ 10·p`; see `Props/C05Float` for the float side.) -/
theorem success_needs_threshold (ord : List Group → List Group) (hord : ∀ l, (ord l).Perm l)
    (vals : List Validator) (st st' : OState) (c : Claim) (fin : Content)
    (hv : ValsWF vals) (hwf : OStateWF st)
    (h : processClaim ord vals st c = .ok (st', .success, fin)) :
    ∃ p', getProphecy st'.prophecies c.id = some p' ∧ p'.status = .success ∧ p'.final = fin ∧
      thresholdMet vals st'.whitelist p' = true ∧
      7 * total vals st'.whitelist ≤ 10 * support vals st'.whitelist p'.vclaims fin ∧ 0 < total vals st'.whitelist := by
  obtain ⟨_, _, h3, h4, h5, e1, e2, e3⟩ := processClaim_ok h
  have hq : ProphecyWF (addClaim (target st c) c.validator c.content) := addClaim_wf _ _ _ (getD_wf st c.id hwf) h5 h3
  have hid : (claimed ord vals st c).id = c.id := by
    unfold claimed processCompletion
    rw [(processCompletionOn_groups _ _ _ _).2.2]
    exact getD_id _ _
  -- the success branch of processCompletion was taken
  have hbranch : ratioGE (findHighest vals st.whitelist (ord (addClaim (target st c) c.validator c.content).groups)).bestPower
        (totalPower vals st.whitelist : Nat) = true ∧
      fin = (findHighest vals st.whitelist (ord (addClaim (target st c) c.validator c.content).groups)).best := by
    unfold claimed processCompletion processCompletionOn at e2 e3
    simp only at e2 e3
    split at e2
    · rename_i hge
      simp only [hge, if_true] at e3
      exact ⟨hge, e3⟩
    · rename_i hge
      simp only [hge] at e3
      split at e2
      · cases e2
      · have : (addClaim (target st c) c.validator c.content).status = .pending := h4
        rw [this] at e2
        cases e2
  obtain ⟨hge, hfin⟩ := hbranch
  obtain ⟨_, _, a3⟩ := foldl_tally_best vals st.whitelist (ord (addClaim (target st c) c.validator c.content).groups) Tally.init
  have hfold : List.foldl (tallyStep vals st.whitelist) Tally.init (ord (addClaim (target st c) c.validator c.content).groups)
      = findHighest vals st.whitelist (ord (addClaim (target st c) c.validator c.content).groups) := rfl
  rw [hfold] at a3
  rcases a3 with ⟨e, _⟩ | ⟨g, hg, cg, eg⟩
  · exfalso
    have : (findHighest vals st.whitelist (ord (addClaim (target st c) c.validator c.content).groups)).bestPower = -1 := by
      rw [e]; rfl
    rw [this] at hge
    exact ratioGE_neg (by omega) hge
  · have hg' : g ∈ (addClaim (target st c) c.validator c.content).groups := (hord _).mem_iff.mp hg
    have hnod : g.2.Nodup := by
      have := hq.2.1
      rw [List.nodup_flatMap] at this
      exact this.1 g hg'
    have hcp : claimPower vals st.whitelist g.2 = support vals st.whitelist (addClaim (target st c) c.validator c.content).vclaims g.1 := by
      rw [claimPower_eq vals st.whitelist g.2 hv hnod, support_eq_cpOf vals st.whitelist _ hq g hg']
    have hle : claimPower vals st.whitelist g.2 ≤ total vals st.whitelist := by
      rw [claimPower_eq vals st.whitelist g.2 hv hnod]; exact cpOf_le_total _ _ _
    have hspec := ratioGE_spec (p := (claimPower vals st.whitelist g.2 : Nat)) (t := (totalPower vals st.whitelist : Nat))
      (by rw [← show (findHighest vals st.whitelist (ord (addClaim (target st c) c.validator c.content).groups)).bestPower
                = (claimPower vals st.whitelist g.2 : Nat) from eg]; exact hge) (by omega)
      (by rw [totalPower_eq_total]; exact_mod_cast hle)
    simp only [BridgeConsts.consensusNum, BridgeConsts.consensusDen] at hspec
    rw [totalPower_eq_total] at hspec
    have hvc : (claimed ord vals st c).vclaims = (addClaim (target st c) c.validator c.content).vclaims := by
      unfold claimed processCompletion
      exact (processCompletionOn_groups _ _ _ _).2.1
    have hfg : fin = g.1 := by rw [hfin, cg]
    have hwl : st'.whitelist = st.whitelist := by rw [e1]
    have hineq : 7 * total vals st.whitelist ≤ 10 * support vals st.whitelist (claimed ord vals st c).vclaims fin ∧
        0 < total vals st.whitelist := by
      rw [hvc, hfg, ← hcp]
      constructor
      · exact_mod_cast hspec.1
      · exact_mod_cast hspec.2
    refine ⟨claimed ord vals st c, ?_, e2.symm, e3.symm, ?_, ?_, ?_⟩
    · rw [e1, ← hid]
      exact getProphecy_setProphecy_same _ _
    · unfold thresholdMet
      rw [hwl, ← e3]
      simp [hineq.1, hineq.2]
    · rw [hwl]; exact hineq.1
    · rw [hwl]; exact hineq.2

/-- non-vacuity: validators of power 40, 30, 30, all whitelisted; 0 claimed before, 1 claims the same: SUCCESS -/
example : ((processClaim id [⟨0, 40, true, true⟩, ⟨1, 30, true, true⟩, ⟨2, 30, true, true⟩]
    ⟨[0, 1, 2], [⟨"a", .pending, .empty, [(.eth 1 2 "x" 0 2, [0])], [(0, .eth 1 2 "x" 0 2)]⟩], none⟩
    ⟨"a", 1, .eth 1 2 "x" 0 2, 0⟩).toOption.map (·.2)) = some (.success, .eth 1 2 "x" 0 2) := by decide

/-- Full statement about the float test (not proved, and false far outside the envelope: for totals of about
    10^15 and more the double quotient of a ratio just below 7/10 can round up to `float64(0.7)`): the float64
    comparison of `processCompletion` equals the integer test of the model for every power and total. -/
def float_test_matches_integer_Statement : Prop :=
  ∀ p t : Nat, 0 < t → Sif.F64.divGE07 p t = ratioGE p t

/-- Proved restriction (envelope: total whitelisted bonded power below 2^48 whole rowan, DESIGN section 5):
    `float64(p)/float64(t) >= 0.7` — the correctly rounded double quotient (53-bit significand, round-half-even)
    compared with `float64(0.7) = 0x3FE6666666666666` — holds iff `7·t ≤ 10·p`; hence `ratioGE`/`ratioLT`
    of the model are the float tests.  Trusted here: that `F64.sigDiv` is IEEE-754 division (exact for quotients in
    [1/2, 1); other binades follow from monotonicity of rounding, not formalised) and that Go converts integers below
    2^53 exactly.  The correspondence checks the real Go decision on boundary vectors `10p − 7t ∈ {−1, 0, 1}`. -/
theorem float_test_matches_integer_partial (p t : Nat) (ht0 : 0 < t) (ht : t < 2 ^ 48) :
    Sif.F64.divGE07 p t = ratioGE p t ∧ (!Sif.F64.divGE07 p t) = ratioLT p t := by
  have h := Sif.F64.divGE07_iff p t ht0 ht
  rw [ratioGE_nat p t ht0, ratioLT_nat p t ht0]
  by_cases h7 : 7 * t ≤ 10 * p
  · have h1 := h.mpr h7
    have h2 : ¬ (10 * p < 7 * t) := by omega
    simp [h1, h7, h2]
  · have h1 : Sif.F64.divGE07 p t = false := by
      cases hh : Sif.F64.divGE07 p t with
      | false => rfl
      | true => exact (h7 (h.mp hh)).elim
    have h2 : 10 * p < 7 * t := by omega
    simp [h1, h7, h2]

example : Sif.F64.divGE07 7 10 = true ∧ Sif.F64.divGE07 69 100 = false ∧
    Sif.F64.divGE07 197032483697458 281474976710655 = false ∧
    Sif.F64.divGE07 197032483697459 281474976710655 = true := by decide

/-! ### finality -/

/-- Once a prophecy is not pending, every later claim on it is refused; a claim that passes the validator
    guards is refused with `ErrProphecyFinalized`.  An error return carries no state: the prophecy is unchanged. -/
theorem final_is_final (ord : List Group → List Group) (vals : List Validator) (st : OState) (c : Claim) (p : Prophecy)
    (hp : getProphecy st.prophecies c.id = some p) (hs : p.status ≠ .pending) :
    (∃ e, processClaim ord vals st c = .error e) ∧
    (ensureInWhiteList st.whitelist c = true → checkActive vals c.validator = true → c.id ≠ "" → c.content ≠ .empty →
      processClaim ord vals st c = .error .finalized) := by
  have hfin : ∀ (hw : ensureInWhiteList st.whitelist c = true) (ha : checkActive vals c.validator = true)
      (hid : c.id ≠ "") (hc : c.content ≠ .empty), processClaim ord vals st c = .error .finalized := by
    intro hw ha hid hc
    unfold processClaim
    simp [hw, ha, hid, hc, hp, hs]
  refine ⟨?_, hfin⟩
  by_cases hw : ensureInWhiteList st.whitelist c = true
  · by_cases ha : checkActive vals c.validator = true
    · by_cases hid : c.id = ""
      · exact ⟨.invalidId, by unfold processClaim; simp [hw, ha, hid]⟩
      · by_cases hc : c.content = .empty
        · exact ⟨.invalidClaim, by unfold processClaim; simp [hw, ha, hid, hc]⟩
        · exact ⟨_, hfin hw ha hid hc⟩
    · exact ⟨_, claim_rejected_not_bonded ord vals st c hw (by simpa using ha)⟩
  · exact ⟨.notWhitelisted, by unfold processClaim; simp [hw]⟩

example : getProphecy (OState.mk [1] [⟨"a", .success, .eth 1 2 "x" 0 2, [], []⟩] none).prophecies "a"
    = some ⟨"a", .success, .eth 1 2 "x" 0 2, [], []⟩ := by decide

/-- Claims about other prophecies do not touch a finalized (or any) prophecy: an accepted claim with another id
    leaves the stored prophecy as it is. -/
theorem other_claims_do_not_touch (ord : List Group → List Group) (vals : List Validator) (st st' : OState) (c : Claim)
    (s : StatusText) (f : Content) (id : String) (hne : c.id ≠ id)
    (h : processClaim ord vals st c = .ok (st', s, f)) :
    getProphecy st'.prophecies id = getProphecy st.prophecies id := by
  obtain ⟨_, _, _, _, _, e1, _, _⟩ := processClaim_ok h
  rw [e1]
  apply getProphecy_setProphecy_other
  have : (claimed ord vals st c).id = c.id := by
    unfold claimed processCompletion
    rw [(processCompletionOn_groups _ _ _ _).2.2]
    exact getD_id _ _
  rw [this]; exact hne

/-- Finality at the level of the bridge: a claim message about a prophecy that is not pending fails, and the whole
    state — the prophecy, every other prophecy, every balance, the supply — is exactly as before. -/
theorem final_claim_changes_nothing (ord : List Group → List Group) (vals : List Validator) (s : BState) (m : ClaimMsg)
    (hs : statusOf s.oracle (claimOf m).id ≠ .pending) :
    ∃ f, deliver ord vals s (.claim m) = (s, .failed f) := by
  rcases deliver_claim_cases ord vals s m with ⟨f, hd⟩ | ⟨s', status, hc, hd⟩
  · exact ⟨f, hd⟩
  · obtain ⟨o, fin, hp, _⟩ := createClaim_ok hc
    exact (hs (processClaim_status hp).1).elim

/-- Finality over histories: once a prophecy is successful or failed, no history of messages (claims, locks,
    burns, whitelist edits, …) and validator-set changes alters its status, its final claim or its tally. -/
theorem final_is_final_history (ord : List Group → List Group) (steps : List Step) (w : World) (id : String)
    (hs : statusOf w.s.oracle id ≠ .pending) :
    getProphecy (run ord w steps).s.oracle.prophecies id = getProphecy w.s.oracle.prophecies id :=
  (run_nonpending_stable ord steps w id hs).1

/-- …in the form the driver evaluates on the implementation (`finalKept`): the prophecy as first seen finalised is what
    the store still returns after any history of messages, validator-set changes, restarts and block jumps. -/
theorem final_kept_history (ord : List Group → List Group) (steps : List Step) (w : World) (id : String) (p : Prophecy)
    (hp : getProphecy w.s.oracle.prophecies id = some p) (hs : p.status ≠ .pending) :
    finalKept p (getProphecy (run ord w steps).s.oracle.prophecies id) = true := by
  have hst : statusOf w.s.oracle id ≠ .pending := by unfold statusOf; rw [hp]; exact hs
  rw [final_is_final_history ord steps w id hst, hp]
  simp [finalKept, hs]

/-- The status a claim reports is the status stored (`reportedIsStored`), and once it is SUCCESS or FAILED every later
    claim about the prophecy is refused with the whole state — that status, every balance, the supply — unchanged
    (`finalByLedger`, which the driver evaluates with the statuses the implementation's messages reported). -/
theorem final_by_ledger (ord : List Group → List Group) (vals : List Validator) (s : BState) (m m2 : ClaimMsg)
    (status : StatusText) (h : (deliver ord vals s (.claim m)).2 = .claimed status) (hid : (claimOf m2).id = (claimOf m).id) :
    reportedIsStored status (some (statusOf (deliver ord vals s (.claim m)).1.oracle (claimOf m).id)) = true ∧
    finalByLedger status (deliver ord vals (deliver ord vals s (.claim m)).1 (.claim m2)).2.isOk
      (some (statusOf (deliver ord vals (deliver ord vals s (.claim m)).1 (.claim m2)).1.oracle (claimOf m).id))
      true = true ∧
    (status ≠ .pending → (deliver ord vals (deliver ord vals s (.claim m)).1 (.claim m2)).1 = (deliver ord vals s (.claim m)).1) := by
  rcases deliver_claim_cases ord vals s m with ⟨f, hd⟩ | ⟨s', st, hc, hd⟩
  · rw [hd] at h; cases h
  · rw [hd] at h ⊢
    cases h
    obtain ⟨o, fin, hp, eo, _⟩ := createClaim_ok hc
    obtain ⟨_, sa, _⟩ := processClaim_status hp
    have hst : statusOf s'.oracle (claimOf m).id = status := by rw [eo]; exact sa
    simp only
    by_cases hpend : status = .pending
    · subst hpend
      exact ⟨by simp [reportedIsStored, hst], by simp [finalByLedger], fun hne => (hne rfl).elim⟩
    · have hnp : statusOf s'.oracle (claimOf m2).id ≠ .pending := by rw [hid, hst]; exact hpend
      obtain ⟨f, hf⟩ := final_claim_changes_nothing ord vals s' m2 hnp
      rw [hf]
      refine ⟨by simp [reportedIsStored, hst], ?_, fun _ => rfl⟩
      simp [finalByLedger, Out.isOk, hst]

/-! ### independence of the map iteration order -/

/-- `processCompletion` (status and final claim) does not depend on the order in which the range over the Go
    map `ClaimValidators` yields the claim groups. -/
theorem tally_perm_invariant (ord₁ ord₂ : List Group → List Group) (h₁ : ∀ l, (ord₁ l).Perm l) (h₂ : ∀ l, (ord₂ l).Perm l)
    (vals : List Validator) (wl : List Nat) (p : Prophecy) (hv : ValsWF vals) (hwf : ProphecyWF p) :
    processCompletion ord₁ vals wl p = processCompletion ord₂ vals wl p := by
  unfold processCompletion
  exact processCompletionOn_perm vals wl p _ _ (h₁ _) (h₂ _) hv hwf.1 hwf.2.1

/-- …and therefore neither does `ProcessClaim`: result, status, final claim and stored state coincide for any
    two iteration orders. -/
theorem processClaim_perm_invariant (ord₁ ord₂ : List Group → List Group) (h₁ : ∀ l, (ord₁ l).Perm l) (h₂ : ∀ l, (ord₂ l).Perm l)
    (vals : List Validator) (st : OState) (c : Claim) (hv : ValsWF vals) (hwf : OStateWF st) :
    processClaim ord₁ vals st c = processClaim ord₂ vals st c := by
  unfold processClaim
  by_cases hw : ensureInWhiteList st.whitelist c = true
  · by_cases ha : checkActive vals c.validator = true
    · by_cases hid : (c.id == "") = true
      · simp [hw, ha, hid]
      · by_cases hc : (c.content == Content.empty) = true
        · simp [hw, ha, hid, hc]
        · by_cases hp : (((getProphecy st.prophecies c.id).getD (newProphecy c.id)).status != StatusText.pending) = true
          · simp [hw, ha, hid, hc, hp]
          · by_cases hd : hasClaimKey ((getProphecy st.prophecies c.id).getD (newProphecy c.id)) c = true
            · simp [hw, ha, hid, hc, hp, hd]
            · have hsp := (ensureInWhiteList_spec hw).1
              have hd' : hasClaim ((getProphecy st.prophecies c.id).getD (newProphecy c.id)) c.validator = false := by
                unfold hasClaimKey at hd
                simpa [hsp] using hd
              have hq : ProphecyWF (addClaim ((getProphecy st.prophecies c.id).getD (newProphecy c.id)) c.validator c.content) :=
                addClaim_wf _ _ _ (getD_wf st c.id hwf) hd' (by simpa using hc)
              simp only [hw, ha, hid, hc, hp, hd, Bool.not_true, Bool.false_eq_true, if_false]
              rw [tally_perm_invariant ord₁ ord₂ h₁ h₂ vals st.whitelist _ hv hq]
    · simp [hw, ha]
  · simp [hw]

/-- …and neither does any delivered bridge message: the state after it and what it reports (status, event,
    error class) are the same for any two iteration orders. -/
theorem deliver_perm_invariant (ord₁ ord₂ : List Group → List Group) (h₁ : ∀ l, (ord₁ l).Perm l) (h₂ : ∀ l, (ord₂ l).Perm l)
    (vals : List Validator) (s : BState) (m : Msg) (hv : ValsWF vals) (hwf : OStateWF s.oracle) :
    deliver ord₁ vals s m = deliver ord₂ vals s m := by
  cases m with
  | claim cm =>
    have hc : createClaim ord₁ vals s cm = createClaim ord₂ vals s cm := by
      unfold createClaim
      rw [processClaim_perm_invariant ord₁ ord₂ h₁ h₂ vals s.oracle (claimOf cm) hv hwf]
    unfold deliver
    simp only [handle, hc]
  | lock pm => rfl
  | burn pm => rfl
  | pause a p => rfl
  | blacklist a l => rfl
  | cethReceiver a r => rfl
  | rescue a r n => rfl
  | whitelist a op v => rfl

/-- every delivered message keeps every tally well-formed -/
theorem deliver_wf (ord : List Group → List Group) (vals : List Validator) (s : BState) (m : Msg)
    (hwf : OStateWF s.oracle) : OStateWF (deliver ord vals s m).1.oracle := by
  by_cases hm : m.isClaim = true
  · cases m with
    | claim cm =>
      rcases deliver_claim_cases ord vals s cm with ⟨f, hd⟩ | ⟨s', status, hc, hd⟩
      · rw [hd]; exact hwf
      · rw [hd]
        obtain ⟨o, fin, hp, eo, _⟩ := createClaim_ok hc
        simp only
        rw [eo]
        exact processClaim_wf hwf hp
    | lock pm => simp [Msg.isClaim] at hm
    | burn pm => simp [Msg.isClaim] at hm
    | pause a p => simp [Msg.isClaim] at hm
    | blacklist a l => simp [Msg.isClaim] at hm
    | cethReceiver a r => simp [Msg.isClaim] at hm
    | rescue a r n => simp [Msg.isClaim] at hm
    | whitelist a op v => simp [Msg.isClaim] at hm
  · have hp := deliver_nonclaim_prophecies ord vals s m (by simpa using hm)
    intro p hpm
    rw [hp] at hpm
    exact hwf p hpm

/-- the validator sets a history installs have distinct operator addresses -/
def StepsWF : List Step → Prop
  | [] => True
  | .setVals v :: rest => ValsWF v ∧ StepsWF rest
  | .restart :: rest => StepsWF rest
  | .blocks _ :: rest => StepsWF rest
  | .msg _ :: rest => StepsWF rest

/-- Well-formedness is an invariant of every history, and the whole history — every intermediate state and result —
    is independent of the iteration orders: "the outcome never depends on map iteration order". -/
theorem run_perm_invariant (ord₁ ord₂ : List Group → List Group) (h₁ : ∀ l, (ord₁ l).Perm l) (h₂ : ∀ l, (ord₂ l).Perm l)
    (steps : List Step) (w : World) (hv : ValsWF w.vals) (hwf : OStateWF w.s.oracle) (hs : StepsWF steps) :
    run ord₁ w steps = run ord₂ w steps ∧ OStateWF (run ord₁ w steps).s.oracle := by
  induction steps generalizing w with
  | nil => exact ⟨rfl, hwf⟩
  | cons st rest ih =>
    cases st with
    | setVals v =>
      exact ih ⟨v, w.s⟩ hs.1 hwf hs.2
    | restart =>
      exact ih w hv hwf hs
    | blocks n =>
      exact ih w hv hwf hs
    | msg m =>
      have e : stepWorld ord₁ w (.msg m) = stepWorld ord₂ w (.msg m) := by
        simp only [stepWorld]
        rw [deliver_perm_invariant ord₁ ord₂ h₁ h₂ w.vals w.s m hv hwf]
      have hw' : OStateWF (stepWorld ord₁ w (.msg m)).s.oracle := deliver_wf ord₁ w.vals w.s m hwf
      obtain ⟨i1, i2⟩ := ih (stepWorld ord₁ w (.msg m)) hv hw' hs
      refine ⟨?_, i2⟩
      show run ord₁ (stepWorld ord₁ w (.msg m)) rest = run ord₂ (stepWorld ord₂ w (.msg m)) rest
      rw [← e]; exact i1

/-! ### the whitelist follows the administrative operations -/

/-- An accepted remove takes the validator out of the whitelist however often the list named it (duplicates come from
    repeated adds or from genesis), an accepted add puts it in, nobody else's membership changes — the stored list names
    exactly the validators of the operations ledger (`wlLedger`, which the driver evaluates against the implementation's
    stored list). -/
theorem whitelist_follows_ops (st st' : OState) (signer v : Nat) (op : String)
    (h : Oracle.updateWhiteList st signer v op = .ok st') :
    (op = "add" ∧ st'.whitelist = wlLedger [.set st.whitelist, .add v] ∧ inWhiteList st'.whitelist v = true) ∨
    (op = "remove" ∧ st'.whitelist = wlLedger [.set st.whitelist, .remove v] ∧ inWhiteList st'.whitelist v = false) := by
  unfold Oracle.updateWhiteList at h
  split at h
  · cases h
  · split at h
    · rename_i ha
      cases h
      left
      refine ⟨by simpa using ha, rfl, ?_⟩
      simp [inWhiteList]
    · split at h
      · rename_i hr
        cases h
        right
        refine ⟨by simpa using hr, rfl, ?_⟩
        simp [inWhiteList]
      · cases h

/-- …so after an accepted remove the validator's claims are rejected (`ErrValidatorNotInWhiteList`), whatever the list
    looked like before. -/
theorem removed_validator_rejected (ord : List Group → List Group) (vals : List Validator) (st st' : OState) (signer : Nat)
    (c : Claim) (h : Oracle.updateWhiteList st signer c.validator "remove" = .ok st') :
    processClaim ord vals st' c = .error .notWhitelisted := by
  rcases whitelist_follows_ops st st' signer c.validator "remove" h with ⟨e, _⟩ | ⟨_, _, hout⟩
  · exact absurd e (by decide)
  · exact claim_rejected_not_whitelisted ord vals st' c hout

example : (Oracle.updateWhiteList ⟨[0, 1, 2, 0], [], some 3⟩ 3 0 "remove").toOption.map (·.whitelist) = some [1, 2] := by decide

/-! ### transactions with several messages -/

/-- An accepted claim comes from a validator that is in the stored whitelist (canonical spelling) and bonded — whatever
    earlier, discarded transactions tried to do to the whitelist. -/
theorem accepted_claimant_ok (ord : List Group → List Group) (vals : List Validator) (st st' : OState) (c : Claim)
    (s : StatusText) (f : Content) (h : processClaim ord vals st c = .ok (st', s, f)) :
    acceptedClaimantOK vals st.whitelist c.validator = true := by
  obtain ⟨h1, h2, _⟩ := processClaim_ok h
  unfold acceptedClaimantOK
  rw [(ensureInWhiteList_spec h1).2, h2]; rfl

theorem handleAll_ok_run (ord : List Group → List Group) (vals : List Validator) (ms : List Msg) (s s2 : BState) (os : List Out)
    (hv : ms.all validateBasic = true) (h : handleAll ord vals s ms = .ok (s2, os)) :
    (run ord ⟨vals, s⟩ (ms.map Step.msg)).s = s2 := by
  induction ms generalizing s os with
  | nil => simp [handleAll] at h; exact h.1
  | cons m ms ih =>
    simp only [List.all_cons, Bool.and_eq_true] at hv
    simp only [handleAll] at h
    cases hh : handle ord vals s m with
    | error f => rw [hh] at h; cases h
    | ok r =>
      rw [hh] at h
      cases hr : handleAll ord vals r.1 ms with
      | error f => simp only [hr] at h; cases h
      | ok r2 =>
        simp only [hr] at h
        cases h
        have hd : (deliver ord vals s m).1 = r.1 := by
          unfold deliver
          simp [hv.1, hh]
        have := ih r.1 r2.2 hv.2 (by rw [hr])
        simp only [List.map_cons, run, List.foldl_cons, stepWorld]
        rw [hd]
        exact this

/-- **A transaction is all or nothing**: a transaction of several messages either leaves the whole state as it was
    (some message was invalid, returned an error or panicked — the whitelist edits, credits, … of its earlier messages
    are discarded with it), or has exactly the effect of delivering its messages one after the other.  So every
    theorem about histories of single messages covers histories of transactions. -/
theorem tx_all_or_nothing (ord : List Group → List Group) (vals : List Validator) (s : BState) (ms : List Msg) :
    ((deliverTx ord vals s ms).1 = s ∧ ∃ f, (deliverTx ord vals s ms).2 = [.failed f]) ∨
    (deliverTx ord vals s ms).1 = (run ord ⟨vals, s⟩ (ms.map Step.msg)).s := by
  unfold deliverTx
  by_cases hv : ms.all validateBasic = true
  · simp only [hv, Bool.not_true, Bool.false_eq_true, if_false]
    cases hh : handleAll ord vals s ms with
    | error f => left; exact ⟨rfl, f, rfl⟩
    | ok r => right; exact (handleAll_ok_run ord vals ms s r.1 r.2 hv hh).symm
  · left
    have : ms.all validateBasic = false := by simpa using hv
    simp only [this, Bool.not_false, if_true]
    exact ⟨trivial, .err .validate, rfl⟩

/-- non-vacuity: [whitelist add 2, whitelist "delete" 0] by the admin: the second message fails, validator 2 is not whitelisted -/
example : (deliverTx id [] { BState.init with oracle := ⟨[0, 1], [], some 3⟩, bank := { Sif.Bank.Bank.init with acc := fun _ => true } }
    [.whitelist 3 "add" 2, .whitelist 3 "delete" 0]).1.oracle.whitelist = [0, 1] := by decide

/-- non-vacuity of the order hypotheses: the identity and list reversal are permutation-valued -/
example : (∀ l : List Group, (id l).Perm l) ∧ (∀ l : List Group, (l.reverse).Perm l) :=
  ⟨fun _ => List.Perm.refl _, fun l => List.reverse_perm l⟩

end Sif.Props.C05
