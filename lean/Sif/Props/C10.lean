import Sif.Proofs.C10Chain
import Sif.Proofs.C10Seq
import Sif.Proofs.C10EndMsgs
import Sif.Proofs.C10Tie
import Sif.Generated.Validate
set_option exponentiation.threshold 400
/-
  C10 — Block processing never panics for user histories or accepted policy settings.
  Property theorems only (helper lemmas live in Sif/Proofs/C10*.lean).
-/
namespace Sif.Props.C10
open Sif Sif.Hooks Sif.Validate Sif.Spec.C10 Sif.Proofs.C10

/-- Liquidity protection (abci.go:69–93): under the invariant "active ⇒ epoch length ≠ 0,
    current ≤ max" the threshold update returns normally and keeps the invariant — for every
    threshold, every epoch length, every block. -/
theorem lp_hook_total (lp : LiqProt) (h : LpInv lp = true) :
    ∃ lp', lpUpdate lp = .ok lp' ∧ LpInv lp' = true :=
  let ⟨lp', h1, h2, _⟩ := lpUpdate_ok lp h
  ⟨lp', h1, h2⟩

/-- `UpdateLiquidityProtectionParams`: whatever validation accepts establishes the invariant
    (any maximum that fits an sdk.Uint, any accepted epoch length, active or not). -/
theorem accepted_UpdateLPParams_safe (m : MsgUpdateLPParams) (c : Ctx) (s : StVals) (lp : LiqProt)
    (hacc : acceptsUpdateLPParams m c s = true) (hwt : m.max < two256) :
    LpInv (applyUpdateLPParams m lp) = true := by
  unfold acceptsUpdateLPParams Req.updateLPParams at hacc
  rw [acceptsAll_cons, cl_rejects] at hacc
  have h1 := hacc.1
  simp [evalCond, evalTerm, envUpdateLPParams] at h1
  rw [LpInv_iff]
  refine ⟨fun _ => ?_, le_refl _, hwt⟩
  simp only [applyUpdateLPParams]; omega

/-- `ModifyLiquidityProtectionRates` (after repair F4): an accepted current threshold is at most
    the stored maximum, so the invariant survives. -/
theorem accepted_ModifyLPRates_safe (m : MsgModifyLPRates) (c : Ctx) (s : StVals) (lp : LiqProt)
    (hacc : acceptsModifyLPRates m c s = true) (hst : s.lpMax = lp.max) (hinv : LpInv lp = true) :
    LpInv (applyModifyLPRates m lp) = true := by
  unfold acceptsModifyLPRates Req.modifyLPRates at hacc
  rw [acceptsAll_cons, cl_rejects] at hacc
  have h1 := hacc.1
  simp [evalCond, evalTerm, envModifyLPRates, stOf] at h1
  obtain ⟨a, _, b⟩ := (LpInv_iff lp).1 hinv
  rw [LpInv_iff]
  exact ⟨a, by simp only [applyModifyLPRates]; omega, b⟩

/-- Family 1, liquidity protection: the only permissionless write to the state this hook reads is
    `MustUpdateLiquidityProtectionThreshold` (inside a swap).  Whatever the amount and direction, a swap
    that completes keeps the invariant (a panicking one is discarded with its transaction), and buying
    the native asset never panics. -/
theorem lp_user_swap_preserves (lp lp' : LiqProt) (sell : Bool) (v : Nat) (h : LpInv lp = true)
    (hr : lpUserUpdate lp sell v = .ok lp') : LpInv lp' = true :=
  lpUserUpdate_inv lp lp' sell v h hr

theorem lp_user_buy_total (lp : LiqProt) (v : Nat) (h : LpInv lp = true) : ∃ lp', lpUserUpdate lp false v = .ok lp' :=
  lpUserUpdate_buy_ok lp v h

/-! ### the ratio-shifting policy (PMTP) and the whole clp BeginBlocker -/

/-- `hooks_total` for the clp BeginBlocker: under the invariants (`LpInv`, `PmtpInvP`), at a height
    inside the envelope, with pool depths that fit an sdk.Uint and — on the block that starts a
    policy — a `math.Pow` result within the stated accuracy, the hook returns normally and both
    invariants hold for the next height.  Every pool state, every rate, every period length. -/
theorem beginBlock_total (s : BState) (env : BEnv) (hlp : LpInv s.lp = true) (hpm : PmtpInvP s.pm env.h)
    (henv : EnvOKP s.pm env) (hpools : PoolsOKP env.pools) :
    ∃ o, beginBlock s env = .ok o ∧ LpInv o.st.lp = true ∧ PmtpInvP o.st.pm (env.h + 1) :=
  let ⟨o, h1, h2, h3, _⟩ := beginBlock_ok s env hlp hpm henv hpools
  ⟨o, h1, h2, h3⟩

/-- … hence any history of blocks (consecutive heights inside the envelope, arbitrary permissionless
    traffic in between) runs without a panic: in particular one full policy period and beyond. -/
theorem policy_period_total (s : BState) (h : Int) (blocks : List (BEnv × Nat))
    (hlp : LpInv s.lp = true) (hpm : PmtpInvP s.pm h) (hb : BlocksOKP s.pm h blocks) :
    ∃ s', runBlocks s blocks = .ok s' :=
  runBlocks_ok blocks s h hlp hpm hb

/-- `accepted_admin_safe` for `UpdatePmtpParams` (after repair F12): a message that passes the
    validation clauses, submitted in block `c.height` (whose BeginBlocker already ran), leaves a state
    satisfying the invariant for the next block — so by `policy_period_total` the whole policy runs
    without a panic.  Hypotheses besides acceptance: the fields are int64s, the context agrees with
    the state (`hst`, `hwin`), and the envelope fact the message does not control: the
    inter-policy rate is below 2^250·10^-18. -/
theorem accepted_UpdatePmtpParams_safe (m : MsgUpdatePmtpParams) (c : Ctx) (s : StVals) (pm : Pmtp)
    (hacc : acceptsUpdatePmtpParams m c s = true)
    (hwt1 : -two63 ≤ m.start) (hwt2 : m.end_ < two63) (hh0 : 0 ≤ c.height)
    (hst : s.gov = pm.gov) (hwin : c.insideWindow = insideOf pm c.height)
    (hinv : PmtpInvP pm (c.height + 1)) (henv : pm.inter.i ≤ B1) :
    PmtpInvP (applyUpdatePmtpParams m pm) (c.height + 1) :=
  UpdatePmtpParams_inv m c s pm hacc hwt1 hwt2 hh0 hst hwin hinv henv

/-- `accepted_admin_safe` for `ModifyPmtpRates` (after repair F3): new rates only take effect outside
    a policy window and an accepted running rate is in (−1, 10^6]; `EndPolicy` closes the window at
    the current block.  The invariant survives in every case. -/
theorem accepted_ModifyPmtpRates_safe (m : MsgModifyPmtpRates) (c : Ctx) (s : StVals) (pm : Pmtp)
    (hacc : acceptsModifyPmtpRates m c s = true) (hwin : c.insideWindow = insideOf pm c.height)
    (hinv : PmtpInvP pm (c.height + 1)) :
    PmtpInvP (applyModifyPmtpRates m c pm) (c.height + 1) :=
  ModifyPmtpRates_inv m c s pm hacc hwin hinv

/-! ### the clp EndBlocker: provider distribution (LPPD) and depth rewards -/

/-- `hooks_total` for the clp EndBlocker: inside the envelope `EInvP` (validated periods, accumulated
    distribution < 2^254, pools inside the section-5 envelope, provider units ≤ pool units, providers ⇒
    pool units > 0) the hook returns normally — at every height, for every list of pools, providers and
    periods, in both reward modes. -/
theorem endBlock_total (s : EState) (h : Int) (hinv : EInvP s) : ∃ s', endBlock s h = .ok s' :=
  endBlock_ok s h hinv

/-- `accepted_admin_safe` for `AddRewardPeriod` (after repairs F5, F13, F18): every period of an accepted
    message satisfies what the EndBlocker needs (non-wrapping length, allocation present and < 2^128,
    multipliers present and in [0,10]), so the envelope holds for the state with the new periods. -/
theorem accepted_AddRewardPeriod_safe (m : MsgAddRewardPeriod) (c : Ctx) (sv : StVals) (s : EState)
    (hacc : acceptsAddRewardPeriod m c sv = true) (hwt : ∀ q ∈ m.periods, RewWT q.p) (henv : EInvP s) :
    EInvP (applyAddRewardPeriod m c s) := by
  obtain ⟨a, b, _, d, e⟩ := henv
  refine ⟨?_, b, ?_, d, e⟩
  · show (if _ then s.accu else 0) < 2 ^ 254
    split_ifs
    · exact a
    · norm_num
  intro p hp
  obtain ⟨q, hq, rfl⟩ := List.mem_map.1 hp
  exact AddRewardPeriod_periods_ok m c sv hacc hwt q hq

/-- `accepted_admin_safe` for `AddProviderDistributionPeriod`: accepted periods have a non-zero modulus
    and a block rate in [0,1]. -/
theorem accepted_AddLppd_safe (m : MsgAddLppd) (c : Ctx) (sv : StVals) (s : EState)
    (hacc : acceptsAddLppd m c sv = true) (hwt : ∀ q ∈ m.periods, LppdWT q) (henv : EInvP s) :
    EInvP (applyAddLppd m s) := by
  obtain ⟨a, _, b, d, e⟩ := henv
  exact ⟨a, AddLppd_periods_ok m c sv hacc hwt, b, d, e⟩

/-! ### family 1 (user histories) — what is proved and what is not -/

/-- everything the two clp hooks need of a state -/
def HooksInv (b : BState) (e : EState) (h : Int) : Prop := LpInv b.lp = true ∧ PmtpInvP b.pm h ∧ EInvP e

/-- FULL statement of family 1 for the clp hooks (NOT proved here): the invariants/envelope are preserved
    by every permissionless message.  `userStep` stands for the message handlers (modelled in
    Sif/Model/Clp by the lead, not in this property's model).  Known finding F17 (an add to a pool with an
    empty side resets the pool units) breaks the `provider units ≤ pool units` conjunct of `EInvP`. -/
def hooks_total_userStatement (userStep : BState × EState → BState × EState → Prop) : Prop :=
  ∀ (s s' : BState × EState) (h : Int), HooksInv s.1 s.2 h → userStep s s' → HooksInv s'.1 s'.2 h

/-- the proved part: in ANY state satisfying the invariants — however the users got there — both clp
    hooks of the next block return normally (so a panic needs a state outside `HooksInv`). -/
theorem hooks_total_user_partial (b : BState) (e : EState) (env : BEnv)
    (hinv : HooksInv b e env.h) (henv : EnvOKP b.pm env) (hpools : PoolsOKP env.pools) :
    (∃ o, beginBlock b env = .ok o ∧ LpInv o.st.lp = true ∧ PmtpInvP o.st.pm (env.h + 1)) ∧
    (∃ e', endBlock e env.h = .ok e') :=
  ⟨beginBlock_total b env hinv.1 hinv.2.1 henv hpools, endBlock_total e env.h hinv.2.2⟩

/-! ### tie 1: the validation the CODE has (regenerated from the source on every run) contains every
    clause the theorems above rely on — so "the code accepts" implies the `accepts…` hypotheses -/

theorem tie_modifyPmtpRates : covers Generated.Validate.modifyPmtpRates Req.modifyPmtpRates = true := by decide
theorem tie_updatePmtpParams : covers Generated.Validate.updatePmtpParams Req.updatePmtpParams = true := by decide
theorem tie_modifyLPRates : covers Generated.Validate.modifyLPRates Req.modifyLPRates = true := by decide
theorem tie_updateLPParams : covers Generated.Validate.updateLPParams Req.updateLPParams = true := by decide
theorem tie_addRewardPeriod : covers Generated.Validate.addRewardPeriod Req.addRewardPeriod = true := by decide
theorem tie_addLppd : covers Generated.Validate.addLppd Req.addLppd = true := by decide
theorem tie_updateSwapFee : covers Generated.Validate.updateSwapFee Req.updateSwapFee = true := by decide

/-- code accepts ⇒ model accepts, for every message, context and state (one direction only: the code
    may check more) -/
theorem code_accepts_imp_accepts (e : Env) :
    (acceptsAll e Generated.Validate.modifyPmtpRates = true → acceptsAll e Req.modifyPmtpRates = true) ∧
    (acceptsAll e Generated.Validate.updatePmtpParams = true → acceptsAll e Req.updatePmtpParams = true) ∧
    (acceptsAll e Generated.Validate.modifyLPRates = true → acceptsAll e Req.modifyLPRates = true) ∧
    (acceptsAll e Generated.Validate.updateLPParams = true → acceptsAll e Req.updateLPParams = true) ∧
    (acceptsAll e Generated.Validate.addRewardPeriod = true → acceptsAll e Req.addRewardPeriod = true) ∧
    (acceptsAll e Generated.Validate.addLppd = true → acceptsAll e Req.addLppd = true) ∧
    (acceptsAll e Generated.Validate.updateSwapFee = true → acceptsAll e Req.updateSwapFee = true) :=
  ⟨covers_sound e _ _ tie_modifyPmtpRates, covers_sound e _ _ tie_updatePmtpParams, covers_sound e _ _ tie_modifyLPRates,
   covers_sound e _ _ tie_updateLPParams, covers_sound e _ _ tie_addRewardPeriod, covers_sound e _ _ tie_addLppd,
   covers_sound e _ _ tie_updateSwapFee⟩

/-! ### sequences of accepted messages -/

/-- `accepted_admin_safe` for HISTORIES: any interleaving of blocks (inside the envelope) with accepted
    `UpdatePmtpParams`, `ModifyPmtpRates` (new rates, `end_policy`), `UpdateLiquidityProtectionParams` and
    `ModifyLiquidityProtectionRates` messages — each judged in the state the earlier ones left — runs
    without a panic.  The invariant carries what one message must leave for the next: in particular the
    epoch/block counters are zero outside a policy window (`end_policy` has to re-establish this), so the
    next policy is started by `PolicyStart` with its own validated block rate, whatever block rate was
    stored between the policies. -/
theorem accepted_sequence_safe (steps : List Step) (s : BState) (h : Int)
    (hlp : LpInv s.lp = true) (hpm : PmtpInvP s.pm h) (hhist : HistOKP s h steps) :
    ∃ s', runSteps s steps = .ok s' :=
  runSteps_ok steps s h hlp hpm hhist

/-- what `end_policy` must leave behind, stated on its own: after an accepted `ModifyPmtpRates` with
    `end_policy` inside a running policy the counters are zero and the window is closed -/
theorem end_policy_resets_counters (m : MsgModifyPmtpRates) (c : Ctx) (pm : Pmtp)
    (he : m.endPolicy = true) (hin : c.insideWindow = true) :
    ctrZero (applyModifyPmtpRates m c pm) ∧ (applyModifyPmtpRates m c pm).end_ = c.height := by
  unfold applyModifyPmtpRates endPolicyNow
  simp [he, hin, ctrZero]

/-- the Boolean the driver evaluates is the theorem's hypothesis -/
theorem PmtpInv_iff (pm : Pmtp) (h : Int) : PmtpInv pm h = true ↔ PmtpInvP pm h := by
  unfold PmtpInv; exact decide_eq_true_iff

/- non-vacuity -/
def pm0 : Pmtp := ⟨0, 0, 1, Dec.zero, 0, 0, Dec.zero, Dec.zero, Dec.zero⟩          -- genesis
def pm1 : Pmtp := ⟨5, 8, 2, ⟨10 ^ 17⟩, 0, 0, Dec.zero, ⟨5 * 10 ^ 17⟩, ⟨5 * 10 ^ 17⟩⟩   -- policy scheduled: blocks 5..8, rGov 0.1
def msg1 : MsgUpdatePmtpParams := ⟨.val ⟨10 ^ 17⟩, 2, 5, 8⟩
example : PmtpInv pm0 1 = true := by decide +kernel
example : acceptsUpdatePmtpParams msg1 ⟨3, false, false, false⟩ {} = true := by decide +kernel
example : PmtpInv (applyUpdatePmtpParams msg1 pm0) 4 = true := by decide +kernel
example : PmtpInv pm1 4 = true := by decide +kernel
-- the block rate math.Pow gives for (1.1)^(2/4) - 1 satisfies the accuracy assumption
example : PowAccurate pm1 ⟨48808848170151541⟩ = true := by decide +kernel
example : EnvOK pm1 ⟨5, some ⟨48808848170151541⟩, [⟨10 ^ 24, 10 ^ 12, 0, 0, true, 6⟩]⟩ = true := by decide +kernel
example : acceptsModifyPmtpRates ⟨.empty, .val ⟨-5 * 10 ^ 17⟩, false⟩ ⟨3, false, false, false⟩ {} = true := by decide +kernel
/- a history of several accepted messages (the shape of seeded change C10-2): policy [11,20] at 0.50 per
   one-block epoch, end_policy at height 12, then policy [21,1020] at 0.01 per 100-block epoch -/
def envAt (h : Int) (pw : Option Dec) : BEnv := ⟨h, pw, []⟩
def seqDemo : List Step :=
  [.updatePmtp ⟨.val ⟨5 * 10 ^ 17⟩, 1, 11, 20⟩ ⟨4, false, false, false⟩] ++
  (List.range 8).map (fun i => Step.block (envAt (5 + i) (if i = 6 then some ⟨5 * 10 ^ 17⟩ else none)) 0) ++
  [.modifyRates ⟨.empty, .empty, true⟩ ⟨12, true, false, false⟩,
   .block (envAt 13 none) 0, .block (envAt 14 none) 0,
   .updatePmtp ⟨.val ⟨10 ^ 16⟩, 100, 21, 1020⟩ ⟨14, false, false, false⟩] ++
  (List.range 40).map (fun i => Step.block (envAt (15 + i) (if i = 6 then some ⟨99508259150172⟩ else none)) 0)
example : HistOKP ⟨⟨false, 0, 0, 1⟩, pm0⟩ 5 seqDemo := histOK_sound _ _ _ (by decide +kernel)
example : (runSteps ⟨⟨false, 0, 0, 1⟩, pm0⟩ seqDemo).toBool = true := by decide +kernel
-- with the counters left at (8,1) by a non-resetting end_policy the invariant fails for the next height
example : PmtpInv { pm1 with start := 11, end_ := 12, epochCtr := 8, blockCtr := 1 } 13 = false := by decide +kernel
/- negative witnesses (the defects on the unrepaired tree) -/
-- F3: running rate −1 ⇒ big.Rat division by zero in PolicyRun
example : (beginBlock ⟨⟨false, 0, 0, 1⟩, { pm0 with running := ⟨-(10 ^ 18)⟩ }⟩ ⟨2, none, [⟨10 ^ 24, 10 ^ 12, 0, 0, true, 6⟩]⟩).toBool = false := by
  decide +kernel
-- F12: governance rate −1 ⇒ block rate −1 ⇒ running rate −1 on the first block of the policy
example : (beginBlock ⟨⟨false, 0, 0, 1⟩, { pm1 with gov := ⟨-(10 ^ 18)⟩, inter := Dec.zero }⟩ ⟨5, some ⟨-(10 ^ 18)⟩, [⟨10 ^ 24, 10 ^ 12, 0, 0, true, 6⟩]⟩).toBool = false := by
  decide +kernel
-- F12: NaN ⇒ NewDecFromStr fails ⇒ panic(err)
example : (beginBlock ⟨⟨false, 0, 0, 1⟩, { pm1 with gov := ⟨-2 * 10 ^ 18⟩ }⟩ ⟨5, none, []⟩).toBool = false := by decide +kernel
example : LpInv ⟨true, 1000, 7, 3⟩ = true := by decide
/- EndBlocker: non-vacuity and the defects as negative witnesses -/
def rp1 : RewardPeriod := ⟨1, 10, some 1000000, 2, true, some ⟨10 ^ 18⟩, [⟨"ceth", some ⟨2 * 10 ^ 18⟩⟩]⟩
def es1 : EState := ⟨5, [⟨⟨10 ^ 15⟩, 1, 20, 3⟩], [rp1], [⟨"ceth", 10 ^ 24, 10 ^ 20, 0, [4 * 10 ^ 19, 6 * 10 ^ 19]⟩, ⟨"cusdc", 10 ^ 22, 7, 3, []⟩]⟩
example : EInv es1 = true := by decide +kernel
example : (endBlock es1 3).toBool = true := by decide +kernel
example : acceptsAddRewardPeriod ⟨[⟨false, rp1⟩]⟩ default {} = true := by decide +kernel
example : acceptsAddLppd ⟨[⟨some ⟨10 ^ 15⟩, 1, 20, 3⟩]⟩ default {} = true := by decide +kernel
-- F5: start 0, end 2^64−1 ⇒ the uint64 length wraps to 0 ⇒ QuoUint64(0)
example : (endBlock { es1 with rew := [{ rp1 with start := 0, end_ := 2 ^ 64 - 1 }] } 3).toBool = false := by decide +kernel
-- F13: allocation 2^256−1 ⇒ Dec.Mul overflow in calcPoolDistribution
example : (endBlock { es1 with rew := [{ rp1 with alloc := some (2 ^ 256 - 1), start := 3, end_ := 3 }] } 3).toBool = false := by decide +kernel
-- F18: allocation missing ⇒ nil dereference
example : (endBlock { es1 with rew := [{ rp1 with alloc := none }] } 3).toBool = false := by decide +kernel
-- … and the repaired validation rejects all three
example : acceptsAddRewardPeriod ⟨[⟨false, { rp1 with start := 0, end_ := 2 ^ 64 - 1 }⟩]⟩ default {} = false := by decide +kernel
example : acceptsAddRewardPeriod ⟨[⟨false, { rp1 with alloc := some (2 ^ 256 - 1) }⟩]⟩ default {} = false := by decide +kernel
example : acceptsAddRewardPeriod ⟨[⟨false, { rp1 with alloc := none }⟩]⟩ default {} = false := by decide +kernel
example : lpUpdate ⟨true, 1000, 7, 3⟩ = .ok ⟨true, 1000, 340, 3⟩ := by decide
example : lpUserUpdate ⟨true, 1000, 7, 3⟩ true 5 = .ok ⟨true, 1000, 2, 3⟩ := by decide
example : lpUserUpdate ⟨true, 1000, 7, 3⟩ false 5000 = .ok ⟨true, 1000, 1000, 3⟩ := by decide
example : acceptsUpdateLPParams ⟨1000, 3, true⟩ default {} = true := by decide
example : acceptsModifyLPRates ⟨7⟩ default { lpMax := 1000 } = true := by decide
/- negative witness (defect F4 on the unrepaired tree): current > max makes the hook panic -/
example : lpUpdate ⟨true, 100, 101, 10⟩ = .error .underflow := by decide

end Sif.Props.C10
