import Sif.Proofs.C10Lp
/-
  C10 — Block processing never panics for user histories or accepted policy settings.
  Property theorems only (helper lemmas live in Sif/Proofs/C10*.lean).
-/
namespace Sif.Props.C10
open Sif Sif.Hooks Sif.Validate Sif.Spec.C10 Sif.Proofs.C10

/-- Liquidity protection (abci.go:69–93): under the invariant "active ⇒ epoch length ≠ 0,
    current ≤ max" the threshold update returns normally and keeps the invariant — for every
    threshold, every epoch length, every block. -/
theorem lp_hook_total (lp : LiqProt) (h : LpInv lp = true) :
    ∃ lp', lpUpdate lp = .ok lp' ∧ LpInv lp' = true :=
  let ⟨lp', h1, h2, _⟩ := lpUpdate_ok lp h
  ⟨lp', h1, h2⟩

/-- `UpdateLiquidityProtectionParams`: whatever validation accepts establishes the invariant
    (any maximum that fits an sdk.Uint, any accepted epoch length, active or not). -/
theorem accepted_UpdateLPParams_safe (m : MsgUpdateLPParams) (c : Ctx) (s : StVals) (lp : LiqProt)
    (hacc : acceptsUpdateLPParams m c s = true) (hwt : m.max < two256) :
    LpInv (applyUpdateLPParams m lp) = true := by
  unfold acceptsUpdateLPParams Req.updateLPParams at hacc
  rw [acceptsAll_cons, cl_rejects] at hacc
  have h1 := hacc.1
  simp [evalCond, evalTerm, envUpdateLPParams] at h1
  rw [LpInv_iff]
  refine ⟨fun _ => ?_, le_refl _, hwt⟩
  simp only [applyUpdateLPParams]; omega

/-- `ModifyLiquidityProtectionRates` (after repair F4): an accepted current threshold is at most
    the stored maximum, so the invariant survives. -/
theorem accepted_ModifyLPRates_safe (m : MsgModifyLPRates) (c : Ctx) (s : StVals) (lp : LiqProt)
    (hacc : acceptsModifyLPRates m c s = true) (hst : s.lpMax = lp.max) (hinv : LpInv lp = true) :
    LpInv (applyModifyLPRates m lp) = true := by
  unfold acceptsModifyLPRates Req.modifyLPRates at hacc
  rw [acceptsAll_cons, cl_rejects] at hacc
  have h1 := hacc.1
  simp [evalCond, evalTerm, envModifyLPRates, stOf] at h1
  obtain ⟨a, _, b⟩ := (LpInv_iff lp).1 hinv
  rw [LpInv_iff]
  exact ⟨a, by simp only [applyModifyLPRates]; omega, b⟩

/- non-vacuity -/
example : LpInv ⟨true, 1000, 7, 3⟩ = true := by decide
example : lpUpdate ⟨true, 1000, 7, 3⟩ = .ok ⟨true, 1000, 340, 3⟩ := by decide
example : acceptsUpdateLPParams ⟨1000, 3, true⟩ default {} = true := by decide
example : acceptsModifyLPRates ⟨7⟩ default { lpMax := 1000 } = true := by decide
/- negative witness (defect F4 on the unrepaired tree): current > max makes the hook panic -/
example : lpUpdate ⟨true, 100, 101, 10⟩ = .error .underflow := by decide

end Sif.Props.C10
