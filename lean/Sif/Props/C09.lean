import Sif.Spec.C09
import Sif.Generated.MapRanges
import Sif.Generated.PkgVars
import Sif.Proofs.C09
/-
  C09 — determinism.  Property theorems only.

  What is PROVED here: (1) tie-1 obligations — every map-range site and every float/math/time/rand/
  goroutine use that the fact translator finds in the current source is in the reviewed coverage
  table of `Sif/Spec/C09.lean`; (2) order-independence theorems on models of each map-ranging
  computation (iteration order = an arbitrary permutation).
  What is NOT proved (and cannot be by this technique): that the Go runtime's actual map order and
  float code generation do not leak into the state — that is exercised by the N-fold re-execution
  of the real application (family `replay`), a test.
-/
namespace Sif.Props.C09
open Sif.Det Sif.Spec.C09 Sif.Generated.MapRanges

/-- the scanned packages type-checked (otherwise the site list is not trustworthy) -/
theorem facts_typechecked : loadErrors = [] := by decide

/-- every `range` over a map in consensus code is a reviewed site with an unchanged loop body -/
theorem mapRanges_covered : uncoveredRanges mapRanges = [] := by decide +kernel

/-- every float / math / time / rand / goroutine use is a reviewed one -/
theorem nondetUses_allowed : unallowedUses nondetUses = [] := by decide +kernel

/-- every package-level variable written outside `init` (process-level state that outlives blocks,
    rolled-back transactions, simulations and application instances) is an audited one -/
theorem pkgVars_audited : unauditedPkgVars Sif.Generated.PkgVars.pkgVars = [] := by decide +kernel

theorem pkgVars_typechecked : Sif.Generated.PkgVars.loadErrors = [] := by decide

/-! ## Order-independence of every map-ranging computation (iteration order = any permutation) -/

/-- `poolRowanMapSum` (DistributeDepthRewards, first loop): the checked sum of the map values, including
    whether it overflows 256 bits (a halt), does not depend on the order. -/
theorem poolRowanMap_sum_perm {l₁ l₂ : List Nat} (p : l₁.Perm l₂) : sumValues l₁ = sumValues l₂ := by
  unfold sumValues
  exact foldH_perm uintAdd (fun _ => True) (fun _ _ => True) (fun _ _ _ => trivial) (fun _ _ _ _ _ => trivial)
    (fun a b _ s _ => uintAdd_comm s a b) p (pairwise_of_mem _ _ (fun _ _ _ _ => trivial)) 0 trivial

example : sumValues [3, two256 - 5, 1] = sumValues [1, 3, two256 - 5] ∧ sumValues [3, two256 - 5, 1] = some (two256 - 1) := by
  decide +kernel
example : sumValues [3, two256 - 3] = none ∧ sumValues [two256 - 3, 3] = none := by decide +kernel

/-- pool objects of pairwise distinct symbols -/
def DistinctPools (l : List (PoolObj × Nat)) : Prop := l.Pairwise (fun a b => a.1.sym ≠ b.1.sym)

instance (l : List (PoolObj × Nat)) : Decidable (DistinctPools l) := by unfold DistinctPools; infer_instance

/-- `TransferProviderDistribution`, the loop `for pool, sub := range poolRowanMap { RemoveRowanFromPool }`:
    for pool objects of pairwise distinct symbols the resulting pool store does not depend on the order. -/
theorem lppd_poolUpdate_perm {l₁ l₂ : List (PoolObj × Nat)} (p : l₁.Perm l₂) (hd : DistinctPools l₁) (st : PoolStore) :
    lppdPoolUpdate l₁ st = lppdPoolUpdate l₂ st := by
  unfold lppdPoolUpdate
  exact foldH_perm removeRowanStep (fun _ => True) (fun a b => a.1.sym ≠ b.1.sym) (fun _ _ h e => h e.symm)
    (fun _ _ _ _ _ => trivial) (fun a b h s _ => removeRowanStep_comm a b h s) p hd st trivial

/-- `DistributeDepthRewards`, the loop that adds the distributed rewards to each pool record. -/
theorem rewards_poolUpdate_perm {l₁ l₂ : List (PoolObj × Nat)} (p : l₁.Perm l₂) (hd : DistinctPools l₁) (st : PoolStore) :
    rewardsPoolUpdate l₁ st = rewardsPoolUpdate l₂ st := by
  unfold rewardsPoolUpdate
  exact foldH_perm rewardsPoolStep (fun _ => True) (fun a b => a.1.sym ≠ b.1.sym) (fun _ _ h e => h e.symm)
    (fun _ _ _ _ _ => trivial) (fun a b h s _ => rewardsPoolStep_comm a b h s) p hd st trivial

def exPools : List (PoolObj × Nat) :=
  [(⟨"ceth", 100, 7⟩, 30), (⟨"cusdc", 5, 0⟩, 9), (⟨"cdai", 50, 1⟩, 0)]
example : DistinctPools exPools := by decide
example : exPools.Perm exPools.reverse := by decide
/-- the distinctness hypothesis is needed: two objects for the same pool, last writer wins -/
example : (lppdPoolUpdate [(⟨"ceth", 100, 0⟩, 30), (⟨"ceth", 100, 0⟩, 50)] (fun _ => none)).map (· "ceth") ≠
          (lppdPoolUpdate [(⟨"ceth", 100, 0⟩, 50), (⟨"ceth", 100, 0⟩, 30)] (fun _ => none)).map (· "ceth") := by decide

/-- every recipient of the payout list already has an auth account -/
def RecipientsHaveAccounts (l : List LpEntry) (s : PayState) : Prop := ∀ e ∈ l, s.bank.hasAcct e.addr = true

/-- the module account covers all payouts (what C01 solvency and rate ≤ 1 give) -/
def Covered (l : List LpEntry) (s : PayState) : Prop := (l.map (·.total)).sum ≤ s.bank.modBal

/-- `TransferProviderDistributionGeneric` ranged over `lpRowanMap` (LPPD and depth-reward wallet payouts,
    before repair F20): bank, account table and `poolRowanMap` after the loop do not depend on the order,
    PROVIDED the module covers all payouts and every recipient already has an account.  Which sends fail
    then depends only on the recipient being blocked. -/
theorem transfer_perm (blocked : String → Bool) {l₁ l₂ : List LpEntry} (p : l₁.Perm l₂) (s : PayState)
    (hcov : Covered l₁ s) (hacct : RecipientsHaveAccounts l₁ s) :
    transfer blocked l₁ s = transfer blocked l₂ s := by
  unfold transfer
  have hsum : (l₂.map (·.total)).sum = (l₁.map (·.total)).sum := ((p.map (·.total)).sum_nat).symm
  rw [transfer_eq_of_solvent blocked l₁ s hcov, transfer_eq_of_solvent blocked l₂ s (by unfold Covered at hcov; omega)]
  exact foldH_perm (payStep' blocked) (fun s => ∀ e ∈ l₁, s.bank.hasAcct e.addr = true)
    (fun a b => a ∈ l₁ ∧ b ∈ l₁) (fun _ _ h => ⟨h.2, h.1⟩)
    (fun s a s' hs h e he => payStep'_hasAcct_mono blocked s s' a e.addr h (hs e he))
    (fun a b h s hs => payStep'_comm blocked a b s (hs a h.1) (hs b h.2))
    p (pairwise_of_mem _ _ (fun a ha b hb => ⟨ha, hb⟩)) s hacct

/-- `lppd_transfer_perm` / `rewards_transfer_perm` of the design: the same function serves both payouts -/
theorem lppd_transfer_perm (blocked : String → Bool) {l₁ l₂ : List LpEntry} (p : l₁.Perm l₂) (s : PayState)
    (hcov : Covered l₁ s) (hacct : RecipientsHaveAccounts l₁ s) :
    transfer blocked l₁ s = transfer blocked l₂ s := transfer_perm blocked p s hcov hacct

theorem rewards_transfer_perm (blocked : String → Bool) {l₁ l₂ : List LpEntry} (p : l₁.Perm l₂) (s : PayState)
    (hcov : Covered l₁ s) (hacct : RecipientsHaveAccounts l₁ s) :
    transfer blocked l₁ s = transfer blocked l₂ s := transfer_perm blocked p s hcov hacct

/- non-vacuity: three providers, one blocked (its send fails half-way through the loop) -/
def exBank (accts : List String) : Bank :=
  { modBal := 100, bal := fun _ => 0, hasAcct := fun a => accts.contains a, acctNum := fun _ => 0, nextNum := 7 }
def exEntries : List LpEntry :=
  [⟨"alice", 30, [("ceth", 10), ("cusdc", 20)]⟩, ⟨"blocked", 25, [("ceth", 25)]⟩, ⟨"carol", 40, [("cusdc", 40)]⟩]
def exState (accts : List String) : PayState := ⟨exBank accts, fun p => if p = "ceth" then 35 else 60⟩
def exBlocked : String → Bool := fun a => a = "blocked"
example : Covered exEntries (exState ["alice", "blocked", "carol"]) := by unfold Covered; decide
example : RecipientsHaveAccounts exEntries (exState ["alice", "blocked", "carol"]) := by
  intro e he; revert e; decide
example : (transfer exBlocked exEntries (exState ["alice", "blocked", "carol"])).map (·.view ["alice", "blocked", "carol"] ["ceth", "cusdc"])
    = some (30, [(30, true, 0), (0, true, 0), (40, true, 0)], 7, [10, 60]) := by decide

/-- F20, in the model: WITHOUT "recipients have accounts" the order is observable — the account numbers
    are assigned in iteration order. -/
theorem transfer_order_matters_without_accounts :
    (transfer exBlocked exEntries (exState [])).map (·.view ["alice", "carol"] []) ≠
    (transfer exBlocked exEntries.reverse (exState [])).map (·.view ["alice", "carol"] []) := by decide

/-- …and WITHOUT solvency too: who is paid depends on who comes first. -/
theorem transfer_order_matters_when_insolvent :
    let s : PayState := ⟨{ exBank ["a", "b"] with modBal := 10 }, fun _ => 100⟩
    (transfer (fun _ => false) [⟨"a", 6, []⟩, ⟨"b", 7, []⟩] s).map (·.view ["a", "b"] []) ≠
    (transfer (fun _ => false) [⟨"b", 7, []⟩, ⟨"a", 6, []⟩] s).map (·.view ["a", "b"] []) := by decide

/-- Iterations that each update only their own key's component (the epoch payout loop keyed by asset,
    before repair F20): the result does not depend on the order, PROVIDED every address an iteration can
    pay already has an account (the only state the iterations share is the account counter). -/
theorem epoch_assets_perm {κ ν : Type} [DecidableEq κ] (g : κ → ν → Option ν) (paid : κ → ν → List String)
    {l₁ l₂ : List κ} (p : l₁.Perm l₂) (hnd : l₁.Nodup) (s : KeyedState κ ν)
    (hacct : ∀ k v x, x ∈ paid k v → s.auth.hasAcct x = true) :
    keyedRun g paid l₁ s = keyedRun g paid l₂ s := by
  unfold keyedRun
  refine foldH_perm (keyedStep g paid) (fun s => ∀ k v x, x ∈ paid k v → s.auth.hasAcct x = true)
    (fun a b => a ≠ b) (fun _ _ h e => h e.symm) ?_ (fun a b h s hs => keyedStep_comm g paid a b h s hs) p hnd s hacct
  intro s a s' hs h k v x hx
  rw [keyedStep_of_has g paid s a hs] at h
  cases hg : g a (s.comp a) with
  | none => rw [hg] at h; cases h
  | some w =>
    rw [hg] at h
    simp only [Option.map_some, Option.some.injEq] at h
    subst h
    exact hs k v x hx

/- non-vacuity + the counterexample of F20 for this loop: per-asset bucket payout, one provider per asset -/
def exG : String → Nat → Option Nat := fun _ bucket => some (bucket / 2)
def exPaid : String → Nat → List String := fun asset _ => ["lp-" ++ asset]
def exAuth (accts : List String) : Auth := { hasAcct := fun a => accts.contains a, acctNum := fun _ => 0, nextNum := 3 }
def keyedView (s : KeyedState String Nat) : List Nat × List (Bool × Nat) × Nat :=
  (["ceth", "cusdc"].map s.comp, ["lp-ceth", "lp-cusdc"].map (fun a => (s.auth.hasAcct a, s.auth.acctNum a)), s.auth.nextNum)
example : (keyedRun exG exPaid ["ceth", "cusdc"] ⟨fun _ => 10, exAuth ["lp-ceth", "lp-cusdc"]⟩).map keyedView
    = some ([5, 5], [(true, 0), (true, 0)], 3) := by decide
theorem epoch_order_matters_without_accounts :
    (keyedRun exG exPaid ["ceth", "cusdc"] ⟨fun _ => 10, exAuth []⟩).map keyedView ≠
    (keyedRun exG exPaid ["cusdc", "ceth"] ⟨fun _ => 10, exAuth []⟩).map keyedView := by decide

/-- counted powers sum to at most the total whitelisted bonded power (each counted validator claims
    once, is bonded and whitelisted — what the F2 repair guarantees) -/
def PowersBounded (l : List ClaimGroup) (total : Nat) : Prop := (l.map (·.power)).sum ≤ total

/-- the threshold predicate implies a strict majority (0.7 ≥ 1/2) -/
def Majority (reach : Int → Nat → Bool) : Prop := ∀ hp total, reach hp total = true → (total : Int) < 2 * hp

/-- The oracle decision (`FindHighestClaim` ranging over the claim map, then `processCompletion`): the
    outcome — SUCCESS with its final claim, FAILED or still PENDING — does not depend on the order in
    which the claim groups are visited, PROVIDED the counted powers sum to at most the total power and
    the threshold is a strict majority.  (The raw `highestClaim` DOES depend on the order on a tie; it
    is only used when the threshold is reached, where the tie is impossible.) -/
theorem tally_perm_invariant (reach fails : Int → Nat → Bool) (total : Nat) {l₁ l₂ : List ClaimGroup}
    (p : l₁.Perm l₂) (hb : PowersBounded l₁ total) (hm : Majority reach) :
    complete reach fails total (tally l₁) = complete reach fails total (tally l₂) := by
  have htot : (tally l₁).tot = (tally l₂).tot := by
    unfold tally
    rw [tally_fold_tot, tally_fold_tot, (p.map (·.power)).sum_nat]
  obtain ⟨a1, a2, a3⟩ := tally_fold_spec l₁ { claim := "", hp := -1, tot := 0 }
  obtain ⟨b1, b2, b3⟩ := tally_fold_spec l₂ { claim := "", hp := -1, tot := 0 }
  have hhp : (tally l₁).hp = (tally l₂).hp := by
    unfold tally
    -- each side is an upper bound of every group and is attained (or is the start value −1)
    rcases a3 with ⟨e1, _⟩ | ⟨g, hg, e1, _⟩ <;> rcases b3 with ⟨f1, _⟩ | ⟨g', hg', f1, _⟩
    · (try simp only at e1 f1); omega
    · have := a2 g' (p.mem_iff.mpr hg'); (try simp only at e1 f1 a1 b1 this); omega
    · have := b2 g (p.mem_iff.mp hg); (try simp only at e1 f1 a1 b1 this); omega
    · have h1 := a2 g' (p.mem_iff.mpr hg')
      have h2 := b2 g (p.mem_iff.mp hg)
      (try simp only at e1 f1 h1 h2); omega
  unfold complete
  rw [← hhp, ← htot]
  by_cases hr : reach (tally l₁).hp total = true
  · simp only [hr, if_true]
    congr 1
    have hmaj := hm _ _ hr
    rcases a3 with ⟨e1, _⟩ | ⟨g, hg, e1, e2⟩
    · exfalso; (try simp only at e1); unfold tally at hmaj; omega
    · rcases b3 with ⟨f1, _⟩ | ⟨g', hg', f1, f2⟩
      · exfalso; (try simp only at f1); unfold tally at hmaj hhp; omega
      · by_cases hgg : g = g'
        · subst hgg; unfold tally; rw [← e2, ← f2]
        · exfalso
          have := two_le_sum l₁ g g' hg (p.mem_iff.mpr hg') hgg
          unfold PowersBounded at hb
          unfold tally at hmaj hhp
          omega
  · simp [hr]

/- non-vacuity: 0.7 threshold on integers (7·total ≤ 10·hp); a tie below the threshold stays pending in either order -/
def exReach : Int → Nat → Bool := fun hp total => decide (0 < hp ∧ 7 * (total : Int) ≤ 10 * hp)
def exFails : Int → Nat → Bool := fun hp total => decide (10 * hp < 7 * (total : Int))
example : Majority exReach := by intro hp total h; simp [exReach] at h; omega
example : PowersBounded [⟨"X", 10⟩, ⟨"Y", 10⟩, ⟨"Z", 10⟩] 40 := by unfold PowersBounded; decide
example : complete exReach exFails 40 (tally [⟨"X", 10⟩, ⟨"Y", 10⟩]) = .pending ∧
          (tally [⟨"X", 10⟩, ⟨"Y", 10⟩]).claim ≠ (tally [⟨"Y", 10⟩, ⟨"X", 10⟩]).claim := by decide
example : complete exReach exFails 40 (tally [⟨"Y", 10⟩, ⟨"X", 30⟩]) = .success "X" := by decide

/-- F2 as a determinism failure, in the model: when the counted powers are NOT bounded by the total
    (claims of de-whitelisted validators still counted), a three-way tie reaches the threshold and the
    final claim is whichever group the map yields first. -/
theorem tally_order_matters_when_unbounded :
    complete exReach exFails 10 (tally [⟨"X", 10⟩, ⟨"Y", 10⟩, ⟨"Z", 10⟩]) ≠
    complete exReach exFails 10 (tally [⟨"Z", 10⟩, ⟨"Y", 10⟩, ⟨"X", 10⟩]) := by decide

/-- `partitionLPsbyAsset`: the slice stored under each asset keeps the store (key) order of the
    providers — the map only groups, it never reorders within a group. -/
theorem partition_order {α : Type} (key : α → String) (lps : List α) (a : String) :
    partition key lps a = lps.filter (fun lp => key lp = a) := by
  unfold partition
  rw [partition_fold]
  simp

example : partition (fun (x : String × Nat) => x.1) [("ceth", 1), ("cusdc", 2), ("ceth", 3)] "ceth" = [("ceth", 1), ("ceth", 3)] := by
  decide

/-- every theorem name used by the coverage table exists above (the names are checked, not trusted) -/
theorem coverage_names_exist :
    coverTheorems = ["poolRowanMap_sum_perm", "rewards_poolUpdate_perm", "lppd_poolUpdate_perm", "tally_perm_invariant"] := by
  decide +kernel

end Sif.Props.C09
