import Sif.Spec.C09
import Sif.Generated.MapRanges
/-
  C09 — determinism.  Property theorems only.

  What is PROVED here: (1) tie-1 obligations — every map-range site and every float/math/time/rand/
  goroutine use that the fact translator finds in the current source is in the reviewed coverage
  table of `Sif/Spec/C09.lean`; (2) order-independence theorems on models of each map-ranging
  computation (iteration order = an arbitrary permutation).
  What is NOT proved (and cannot be by this technique): that the Go runtime's actual map order and
  float code generation do not leak into the state — that is exercised by the N-fold re-execution
  of the real application (family `replay`), a test.
-/
namespace Sif.Props.C09
open Sif.Det Sif.Spec.C09 Sif.Generated.MapRanges

/-- the scanned packages type-checked (otherwise the site list is not trustworthy) -/
theorem facts_typechecked : loadErrors = [] := by decide

/-- every `range` over a map in consensus code is a reviewed site with an unchanged loop body -/
theorem mapRanges_covered : uncoveredRanges mapRanges = [] := by decide +kernel

/-- every float / math / time / rand / goroutine use is a reviewed one -/
theorem nondetUses_allowed : unallowedUses nondetUses = [] := by decide +kernel

end Sif.Props.C09
