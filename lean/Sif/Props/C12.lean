import Sif.Proofs.C12
import Sif.Proofs.C12Sym
import Sif.Generated.Perms
import Sif.Generated.Lookup
import Sif.Generated.SetToken
set_option linter.unusedSimpArgs false
/-
  C12 — Token-registry permissions gate every AMM operation and IBC export.
  Property theorems only.

  Shape (DESIGN 4/C12, decision logic stated outright):
  * `facts_*`: the guard prologue the fact translator read from the CURRENT source of each of the
    five AMM handlers and of the IBC Transfer wrapper equals the decision table (`decide`): same
    guards, same permission constants, same asset expressions, same `swapStatus` cases, every
    failing branch returns an error, no state write precedes a guard, the registry is read from the
    message's own context, and Transfer ends by delegating to ibc-go;
  * `table_decides`: for EVERY registry and message the table's guards pass iff the decision function
    `allowed` (written from the property statement) holds;
  * over the model "guards, then an arbitrary body, inside the transaction wrapper": a message whose
    permissions do not hold is refused and changes nothing (not even on the message's own cached
    state); an accepted message held them; with them the handler proceeds to its body;
  * registry edits act on the very next message; after Deregister every message on that token is
    refused; after Register the new entry alone decides;
  * the hidden swap of an asymmetric add: its direction is the cross-multiplication R·a ? r·A, and an
    accepted add in that direction needed the sell/buy permissions of that direction.
  Quantifiers: all registries (any length, duplicates, any permission lists, alias links), all
  messages/routes, any body, any edit history.
-/
namespace Sif.Props.C12
open Sif.Registry Sif.Spec.C12 Sif.Proofs.C12

/-! ### tie 1: regenerated facts = decision table -/
theorem facts_createPool : Sif.Generated.Perms.createPool = table .createPool := by decide
theorem facts_addLiquidity : Sif.Generated.Perms.addLiquidity = table .addLiquidity := by decide
theorem facts_removeLiquidity : Sif.Generated.Perms.removeLiquidity = table .removeLiquidity := by decide
theorem facts_removeLiquidityUnits : Sif.Generated.Perms.removeLiquidityUnits = table .removeLiquidityUnits := by decide
theorem facts_swap : Sif.Generated.Perms.swap = table .swap := by decide
theorem facts_transfer : Sif.Generated.Perms.transfer = table .transfer := by decide

/-- the guards read from the source, as a function of the message kind -/
def generated : Kind → HandlerFacts
  | .createPool => Sif.Generated.Perms.createPool
  | .addLiquidity => Sif.Generated.Perms.addLiquidity
  | .removeLiquidity => Sif.Generated.Perms.removeLiquidity
  | .removeLiquidityUnits => Sif.Generated.Perms.removeLiquidityUnits
  | .swap => Sif.Generated.Perms.swap
  | .transfer => Sif.Generated.Perms.transfer

theorem generated_eq_table (k : Kind) : generated k = table k := by
  cases k
  · exact facts_createPool
  · exact facts_addLiquidity
  · exact facts_removeLiquidity
  · exact facts_removeLiquidityUnits
  · exact facts_swap
  · exact facts_transfer

/-- every handler reads the registry of the current message's context; Transfer (only) delegates -/
theorem generated_reads_current_registry (k : Kind) : (generated k).readsRegistryFromCtx = true := by
  rw [generated_eq_table]; cases k <;> rfl

/-! ### the lookup helper every guard goes through -/

/-- the CURRENT source of `GetEntry` compares `.Denom` only (no other entry field is looked at), has a
    single successful return — the element whose denom equals the requested one — and otherwise
    returns an error -/
theorem facts_lookup : Sif.Generated.Lookup.getEntry = lookupExpected := by decide

/-- the lookup never returns an entry registered under another denom (whatever its base denom,
    unit denom, counterparty denom or display names are: the model's entries do not even carry them) -/
theorem lookup_exact_denom (reg : Registry) (d : String) (e : Entry) (h : getEntry reg d = some e) :
    e.denom = d ∧ e ∈ reg := ⟨getEntry_denom h, getEntry_mem h⟩

/-- the decision is a function of the entries found under EXACTLY the denoms the message names -/
theorem allowed_depends_on_exact_entries (reg reg' : Registry) (k : Kind) (m : Msg)
    (h : ∀ d, d = m.native ∨ d = m.ext ∨ d = m.sent ∨ d = m.received ∨ d = m.token →
      getEntry reg d = getEntry reg' d) :
    allowed reg k m = allowed reg' k m := by
  have hn := h m.native (Or.inl rfl)
  have he := h m.ext (Or.inr (Or.inl rfl))
  have hs := h m.sent (Or.inr (Or.inr (Or.inl rfl)))
  have hr := h m.received (Or.inr (Or.inr (Or.inr (Or.inl rfl))))
  have ht := h m.token (Or.inr (Or.inr (Or.inr (Or.inr rfl))))
  cases k <;> simp only [allowed, hasP, lacksP, registered, notAlias, swapDirOK, hn, he, hs, hr, ht]

/-- a denom under which NO entry is registered (it may well be some entry's base denom, unit denom
    or display name) cannot be pooled, added to, removed from, swapped in either direction or
    exported -/
theorem no_exact_entry_refused (reg : Registry) (d : String) (m : Msg) (hno : ∀ e ∈ reg, e.denom ≠ d) :
    (m.ext = d → allowed reg .createPool m = false ∧ allowed reg .addLiquidity m = false ∧
                 allowed reg .removeLiquidity m = false ∧ allowed reg .removeLiquidityUnits m = false) ∧
    (m.sent = d ∨ m.received = d → allowed reg .swap m = false) ∧
    (m.token = d → allowed reg .transfer m = false) := by
  have hn := getEntry_none_of_no_denom hno
  refine ⟨?_, ?_, ?_⟩
  · intro h; subst h; simp [allowed, hasP, hn]
  · intro h; rcases h with h | h <;> subst h <;> simp [allowed, hasP, hn]
  · intro h; subst h; simp [allowed, registered, hn]

/-! ### MsgRegister replaces, it does not merge -/

/-- the CURRENT source of `SetToken` reads nothing but `.Denom` of the stored entries, never assigns to
    a field of the incoming entry, and stores the incoming entry verbatim (at the found index, else
    appended) -/
theorem facts_settoken : Sif.Generated.SetToken.setToken = setTokenExpected := by decide

/-- after an accepted Register the entry found under that denom is exactly the message's entry -/
theorem register_replaces_entry (reg : Registry) (e : Entry) :
    getEntry (applyEdit reg (.register e)) e.denom = some e := getEntry_setToken_same reg e

/-- hence re-registering a token with an EMPTY permission list revokes everything at once: whatever
    the registry held before, no pool can be created on it, no liquidity added or removed, it can be
    neither sold nor bought, and it cannot be exported -/
theorem register_without_permissions_blocks (reg : Registry) (e : Entry) (m : Msg) (hp : e.perms = []) :
    (m.ext = e.denom → allowed (applyEdit reg (.register e)) .createPool m = false ∧
                       allowed (applyEdit reg (.register e)) .addLiquidity m = false ∧
                       allowed (applyEdit reg (.register e)) .removeLiquidity m = false ∧
                       allowed (applyEdit reg (.register e)) .removeLiquidityUnits m = false) ∧
    (m.sent = e.denom ∨ m.received = e.denom → allowed (applyEdit reg (.register e)) .swap m = false) ∧
    (m.token = e.denom → allowed (applyEdit reg (.register e)) .transfer m = false) := by
  have hs : getEntry (setToken reg e) e.denom = some e := getEntry_setToken_same reg e
  refine ⟨?_, ?_, ?_⟩
  · intro h; simp [applyEdit, allowed, hasP, h, hs, hp]
  · intro h; rcases h with h | h <;> simp [applyEdit, allowed, hasP, h, hs, hp]
  · intro h; simp [applyEdit, allowed, hasP, registered, notAlias, h, hs, hp]

/-- and more generally the permissions after Register are the message's, not the old ones: a
    permission the message's entry does not list is not held afterwards -/
theorem register_drops_unlisted_permission (reg : Registry) (e : Entry) (p : Perm) (hp : e.perms.contains p = false) :
    hasP (applyEdit reg (.register e)) e.denom p = false := by
  simp only [applyEdit, hasP, getEntry_setToken_same reg e, hp]

/-! ### the table decides exactly the property's condition -/

/-- for every registry and message: the source's guards all pass iff the permissions of the
    decision table hold -/
theorem table_decides (reg : Registry) (k : Kind) (m : Msg) :
    evalFacts reg m (generated k).guards = allowed reg k m := by
  rw [generated_eq_table]; exact table_sound reg k m

/-! ### guards, then body, inside the transaction wrapper -/

/-- permissions missing ⇒ the message is refused and the delivered state is unchanged -/
theorem guard_false_refused_unchanged {σ : Type} (k : Kind) (scribble : World σ → World σ)
    (body : World σ → Msg → Option (World σ)) (w : World σ) (m : Msg)
    (h : allowed w.registry k m = false) :
    deliver (generated k).guards scribble body w m = (.refusedPerm, w) := by
  have hf : firstFailing w.registry m (generated k).guards ≠ none := by
    intro hn
    have := firstFailing_none.mp hn
    rw [table_decides] at this
    rw [h] at this; cases this
  unfold deliver handler
  cases hff : firstFailing w.registry m (generated k).guards with
  | none => exact absurd hff hf
  | some f => rfl

/-- …and the handler itself wrote nothing before refusing (no write precedes a guard), so even the
    message's own cached state is untouched -/
theorem handler_refusal_writes_nothing {σ : Type} (k : Kind) (scribble : World σ → World σ)
    (body : World σ → Msg → Option (World σ)) (w : World σ) (m : Msg)
    (h : allowed w.registry k m = false) :
    handler (generated k).guards scribble body w m = (.refusedPerm, w) := by
  have hf : firstFailing w.registry m (generated k).guards ≠ none := by
    intro hn
    have := firstFailing_none.mp hn
    rw [table_decides] at this
    rw [h] at this; cases this
  unfold handler
  cases hff : firstFailing w.registry m (generated k).guards with
  | none => exact absurd hff hf
  | some f =>
    have hmem := (firstFailing_some hff).1
    have hall : (generated k).guards.all (fun f => !f.writeBefore) = true := by
      rw [generated_eq_table]; cases k <;> decide
    have hw : f.writeBefore = false := by
      have := List.all_eq_true.mp hall f hmem
      simpa using this
    simp [hw]

/-- an accepted message held the permissions of the table -/
theorem accepted_requires_perms {σ : Type} (k : Kind) (scribble : World σ → World σ)
    (body : World σ → Msg → Option (World σ)) (w w' : World σ) (m : Msg)
    (h : deliver (generated k).guards scribble body w m = (.ok, w')) :
    acceptedOK w.registry k m true = true := by
  unfold acceptedOK
  simp only [Bool.not_true, Bool.false_or]
  cases ha : allowed w.registry k m with
  | true => rfl
  | false =>
    rw [guard_false_refused_unchanged k scribble body w m ha] at h
    cases h

/-- with the permissions the handler proceeds to its body (the C02/C03 logic) -/
theorem guard_true_proceeds {σ : Type} (k : Kind) (scribble : World σ → World σ)
    (body : World σ → Msg → Option (World σ)) (w w' : World σ) (m : Msg)
    (h : allowed w.registry k m = true) (hb : body w m = some w') :
    deliver (generated k).guards scribble body w m = (.ok, w') := by
  have : firstFailing w.registry m (generated k).guards = none := by
    apply firstFailing_none.mpr
    rw [table_decides]; exact h
  unfold deliver handler
  rw [this, hb]

/-! ### registry edits act on the next message -/

/-- the message after `Register` / `Deregister` / `SetRegistry` is decided by the EDITED registry -/
theorem registry_edit_immediate {σ : Type} (k : Kind) (scribble : World σ → World σ)
    (body : World σ → Msg → Option (World σ)) (w : World σ) (e : Edit) (m : Msg) :
    (allowed (applyEdit w.registry e) k m = false →
      deliver (generated k).guards scribble body (deliverEdit w e) m = (.refusedPerm, deliverEdit w e)) ∧
    (∀ w', allowed (applyEdit w.registry e) k m = true → body (deliverEdit w e) m = some w' →
      deliver (generated k).guards scribble body (deliverEdit w e) m = (.ok, w')) :=
  ⟨fun h => guard_false_refused_unchanged k scribble body (deliverEdit w e) m h,
   fun w' h hb => guard_true_proceeds k scribble body (deliverEdit w e) w' m h hb⟩

/-- after `Deregister d` no pool can be created on `d`, no liquidity added or removed, no swap can
    sell or buy it, and it cannot be exported — whatever else the registry holds -/
theorem deregister_blocks (reg : Registry) (d : String) (m : Msg) :
    (m.ext = d → allowed (removeToken reg d) .createPool m = false ∧
                 allowed (removeToken reg d) .addLiquidity m = false ∧
                 allowed (removeToken reg d) .removeLiquidity m = false ∧
                 allowed (removeToken reg d) .removeLiquidityUnits m = false) ∧
    (m.native = d → allowed (removeToken reg d) .addLiquidity m = false) ∧
    (m.sent = d ∨ m.received = d → allowed (removeToken reg d) .swap m = false) ∧
    (m.token = d → allowed (removeToken reg d) .transfer m = false) := by
  have hn := getEntry_removeToken_same reg d
  refine ⟨?_, ?_, ?_, ?_⟩
  · intro h; subst h
    simp [allowed, hasP, hn]
  · intro h; subst h
    simp [allowed, registered, hn]
  · intro h
    rcases h with h | h <;> subst h <;> simp [allowed, hasP, hn]
  · intro h; subst h
    simp [allowed, registered, hn]

/-- after `Register e` the new entry alone decides for its denom: e.g. pool creation on it is
    allowed iff `e` carries CLP, and export iff it is not an alias and carries IBCEXPORT -/
theorem register_effective (reg : Registry) (e : Entry) (m : Msg) :
    (m.ext = e.denom → allowed (setToken reg e) .createPool m = e.perms.contains .clp) ∧
    (m.token = e.denom → allowed (setToken reg e) .transfer m =
        ((decide (e.unitDenom = "") || decide (e.unitDenom = e.denom)) && e.perms.contains .ibcexport && m.amountPositive)) := by
  have hs := getEntry_setToken_same reg e
  constructor
  · intro h; simp [allowed, hasP, h, hs]
  · intro h; simp [allowed, hasP, registered, notAlias, h, hs]

/-! ### transactions of several messages: rollback -/

/-- a transaction in which some message fails leaves the registry exactly as it was, whatever
    registry edits preceded the failing message in the same transaction; so does a simulation -/
theorem failed_tx_leaves_registry (reg : Registry) (items : List TxItem) (sim : Bool)
    (h : runItems reg items = none ∨ sim = true) : deliverTx reg items sim = reg := by
  unfold deliverTx
  rcases h with h | h
  · rw [h]
  · cases runItems reg items <;> simp [h]

/-- hence the message after a rolled-back transaction [edit, failing message] is decided by the
    registry from BEFORE that transaction: not accepted if that registry does not allow it -/
theorem rolled_back_edit_has_no_effect (reg : Registry) (e : Edit) (fs : List Fact) (mfail : Msg)
    (k : Kind) (m : Msg) (bodyOk : Bool)
    (hfail : evalFacts (applyEdit reg e) mfail fs = false)
    (hno : allowed reg k m = false) :
    txStep (deliverTx reg [.edit e, .msg fs mfail true] false) (.msg (generated k).guards m bodyOk) = none := by
  have h1 : deliverTx reg [.edit e, .msg fs mfail true] false = reg := by
    apply failed_tx_leaves_registry
    left
    simp [runItems, txStep, hfail]
  rw [h1]
  simp [txStep, table_decides, hno]

/-- inside one transaction an edit does decide the following messages of that transaction -/
theorem edit_decides_rest_of_tx (reg : Registry) (e : Edit) (k : Kind) (m : Msg) :
    runItems reg [.edit e, .msg (generated k).guards m true] =
      if allowed (applyEdit reg e) k m then some (applyEdit reg e) else none := by
  simp [runItems, txStep, table_decides]
  cases allowed (applyEdit reg e) k m <;> simp

/-! ### the hidden swap of an asymmetric add -/

/-- `CalculatePoolUnits`' swap status for an add of (r native, a external) to depths (R, A), all
    positive: the add sells native iff R·a < r·A, buys native iff R·a > r·A -/
theorem asymmetric_add_direction (R A r a : Nat) (hR : 0 < R) (hA : 0 < A) (ha : 0 < a) :
    swapStatusOf R A r a =
      if R * a < r * A then .sellNative else if R * a = r * A then .noSwap else .buyNative :=
  swapStatusOf_cross R A r a hR hA ha

/-- a native-only add sells native -/
theorem native_only_add_sells_native (R A r : Nat) (hR : 0 < R) (hA : 0 < A) (hr : 0 < r) :
    swapStatusOf R A r 0 = .sellNative := swapStatusOf_native_only R A r hR hA hr

/-- an accepted add that sells native (too much native for the pool ratio) needed
    DISABLE_SELL ∉ perms(native) and DISABLE_BUY ∉ perms(external); one that buys native needed the
    mirror image -/
theorem asymmetric_add_needs_direction_perms (reg : Registry) (m : Msg) (R A r a : Nat)
    (hs : m.swapStatus = swapStatusOf R A r a) (hR : 0 < R) (hA : 0 < A) (ha : 0 < a)
    (hok : allowed reg .addLiquidity m = true) :
    (R * a < r * A → lacksP reg m.native .disableSell = true ∧ lacksP reg m.ext .disableBuy = true) ∧
    (r * A < R * a → lacksP reg m.ext .disableSell = true ∧ lacksP reg m.native .disableBuy = true) := by
  have hdir := swapStatusOf_cross R A r a hR hA ha
  constructor
  · intro hlt
    rw [if_pos hlt] at hdir
    simp only [allowed, hs, hdir, swapDirOK, Bool.and_eq_true] at hok
    exact hok.2
  · intro hgt
    have h1 : ¬ R * a < r * A := by omega
    have h2 : ¬ R * a = r * A := by omega
    rw [if_neg h1, if_neg h2] at hdir
    simp only [allowed, hs, hdir, swapDirOK, Bool.and_eq_true] at hok
    exact hok.2

/-! ### non-vacuity -/
def exReg : Registry :=
  [⟨"rowan", "", [.clp]⟩, ⟨"cusdc", "", [.clp, .ibcexport]⟩, ⟨"ceth", "", [.clp, .disableSell]⟩, ⟨"xeth", "ceth", [.ibcexport]⟩]
def exMsg : Msg := ⟨"rowan", "cusdc", "ceth", "rowan", "xeth", true, .sellNative⟩

example : allowed exReg .createPool exMsg = true := by decide
example : allowed exReg .addLiquidity exMsg = true := by decide
example : allowed exReg .swap exMsg = false := by decide           -- ceth is not sellable
example : allowed exReg .swap { exMsg with sent := "rowan", received := "ceth" } = true := by decide
example : allowed exReg .transfer exMsg = false := by decide       -- xeth is an alias denomination
example : allowed exReg .transfer { exMsg with token := "cusdc" } = true := by decide
example : allowed (applyEdit exReg (.deregister "cusdc")) .createPool exMsg = false := by decide
/-- a rolled-back [Deregister cusdc, failing message] leaves cusdc usable; a committed one does not -/
example : deliverTx exReg [.edit (.deregister "cusdc"), .msg (table .swap).guards exMsg true] false = exReg := by decide
example : allowed (deliverTx exReg [.edit (.deregister "cusdc")] false) .createPool exMsg = false := by decide
/-- "xeth" names "ceth" as its unit denom; nothing is registered under "weth": refused -/
example : allowed exReg .createPool { exMsg with ext := "weth" } = false := by decide
/-- re-registering cusdc without permissions: what was allowed is refused -/
example : allowed (applyEdit exReg (.register ⟨"cusdc", "", []⟩)) .createPool exMsg = false ∧
    regStoredOK exReg (.register ⟨"cusdc", "", []⟩) (applyEdit exReg (.register ⟨"cusdc", "", []⟩)) = true ∧
    regStoredOK exReg (.register ⟨"cusdc", "", []⟩) exReg = false := by decide
example : swapStatusOf 1000 1000 10 5 = .sellNative := by decide
example : swapStatusOf 1000 1000 5 10 = .buyNative := by decide

end Sif.Props.C12
