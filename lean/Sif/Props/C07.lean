import Sif.Spec.C07
/-
  C07 — peg supply conservation on lock/burn; pause and blacklist stop exports.  Property theorems only.
-/
namespace Sif.Props.C07
open Sif.Oracle Sif.Bank Sif.EthBridge Sif.Spec.C07

/-- While the bridge is paused a lock fails and changes nothing. -/
theorem paused_lock_no_change (ord : List Group → List Group) (vals : List Validator) (s : BState) (m : PegMsg)
    (h : s.paused = true) : (deliver ord vals s (.lock m)).1 = s := by
  unfold deliver
  split
  · rfl
  · simp [handle, lock, h, Except.map]

example : ({ BState.init with paused := true } : BState).paused = true := rfl

end Sif.Props.C07
