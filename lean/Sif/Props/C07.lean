import Sif.Proofs.C07
import Sif.Props.C06
/-
  C07 — peg supply conservation on lock/burn; pause and blacklist stop exports.
  Property theorems only (helpers: Sif/Proofs/C07.lean, Sif/Proofs/BridgeBank.lean).  Quantifiers: every state
  (any balances, fee receiver set or unset, any blacklist, any peggy-token list), every lock / burn message (any
  amount, fee, symbol incl. ceth itself, any spelling of the receiver), every history of bridge messages and
  validator-set changes.
-/
namespace Sif.Props.C07
open Sif.Oracle Sif.Bank Sif.EthBridge Sif.Spec.C06 Sif.Spec.C07 Sif.Generated

/-- the guards of the message server and of ProcessLock / ProcessBurn, and the fee floor, as in the source -/
theorem facts_guards :
    BridgeConsts.lockGuards = ["IsPaused", "ExistsPeggyToken"] ∧ BridgeConsts.burnGuards = ["IsPaused", "!ExistsPeggyToken"] ∧
    BridgeConsts.processLockGuards = ["IsBlacklisted"] ∧ BridgeConsts.processBurnGuards = ["IsBlacklisted"] ∧
    BridgeConsts.blacklistNormalised = true ∧ BridgeConsts.cethSymbol = "ceth" ∧
    BridgeConsts.lockGasCost = 23580000000000000 ∧ BridgeConsts.burnGasCost = 23580000000000000 := by decide

/-- the peggy-token list is maintained by exact string comparison (`AddPeggyToken` inserts unless `ExistsPeggyToken`,
    which tests `value == token`), as `addPeggy` / `List.contains` model it -/
theorem facts_peggy_list :
    BridgeConsts.addPeggyTests = ["k.ExistsPeggyToken(ctx, token)"] ∧ BridgeConsts.existsPeggyTests = ["value == token"] := by
  decide

/-! ### effects of one lock / burn message (`pegStep` is also what the driver evaluates on the implementation) -/

/-- **Lock, all clauses at once**: if the message succeeds, the sender loses exactly the amount of the token and the
    fee in ceth, the fee goes to the configured receiver or else stays in the ethbridge module account, the supply of
    the token drops by the amount, nothing else moves, and exactly one lock event with the message's values is
    emitted; if it fails (for whatever reason, panics included) nothing moves and no event is emitted. -/
theorem lock_step (ord : List Group → List Group) (vals : List Validator) (s : BState) (m : PegMsg)
    (keys : List (Nat × String)) (denoms : List String) :
    pegStep "lock" (deliver ord vals s (.lock m)).2.isOk m s.cethReceiver
      s.bank.bal (deliver ord vals s (.lock m)).1.bank.bal s.bank.supply (deliver ord vals s (.lock m)).1.bank.supply
      keys denoms (deliver ord vals s (.lock m)).2.events = true := by
  rcases deliver_lock_cases ord vals s m with ⟨f, hd⟩ | ⟨s', e, hl, hval, hd⟩
  · rw [hd]; simp [pegStep, Out.isOk, Out.events, sameOn]
  · rw [hd]
    obtain ⟨_, _, _, _, _, _, he, hmove⟩ := lock_ok_frame hl
    obtain ⟨hb, hs⟩ := pegMove_ok hmove
    have hpay := payable_of_move hmove (lockValidate_spec hval).1 (lockValidate_spec hval).2
    simp only [pegStep, Out.isOk, Out.events, if_true, hpay, Bool.true_and, pegEffectsOn, Bool.and_eq_true, List.all_eq_true, beq_iff_eq]
    refine ⟨⟨fun k _ => hb k.1 k.2, fun d _ => ?_⟩, by rw [he]⟩
    have := hs d
    simp only [atD] at this
    exact this

/-- **Burn, all clauses at once**, including `Symbol = ceth` with no fee receiver (one coin of `cethAmount + amount`
    is taken, `amount` is burned, the fee stays in the module). -/
theorem burn_step (ord : List Group → List Group) (vals : List Validator) (s : BState) (m : PegMsg)
    (keys : List (Nat × String)) (denoms : List String) :
    pegStep "burn" (deliver ord vals s (.burn m)).2.isOk m s.cethReceiver
      s.bank.bal (deliver ord vals s (.burn m)).1.bank.bal s.bank.supply (deliver ord vals s (.burn m)).1.bank.supply
      keys denoms (deliver ord vals s (.burn m)).2.events = true := by
  rcases deliver_burn_cases ord vals s m with ⟨f, hd⟩ | ⟨s', e, hl, hval, hd⟩
  · rw [hd]; simp [pegStep, Out.isOk, Out.events, sameOn]
  · rw [hd]
    obtain ⟨_, _, _, _, _, _, he, hmove⟩ := burn_ok_frame hl
    obtain ⟨hb, hs⟩ := pegMove_ok hmove
    have hpay := payable_of_move hmove (burnValidate_spec hval).1 (burnValidate_spec hval).2
    simp only [pegStep, Out.isOk, Out.events, if_true, hpay, Bool.true_and, pegEffectsOn, Bool.and_eq_true, List.all_eq_true, beq_iff_eq]
    refine ⟨⟨fun k _ => hb k.1 k.2, fun d _ => ?_⟩, by rw [he]⟩
    have := hs d
    simp only [atD] at this
    exact this

/-- readable form of the effects of a successful lock -/
theorem lock_effects (s s' : BState) (m : PegMsg) (e : Event) (h : lock s m = .ok (s', e)) :
    (∀ a d, s'.bank.bal a d + debit m a d = s.bank.bal a d + credit m s.cethReceiver a d) ∧
    (∀ d, s'.bank.supply d + (if d = m.symbol then m.amount.toNat else 0) = s.bank.supply d) ∧
    e = pegEvent "lock" m := by
  obtain ⟨_, _, _, _, _, _, he, hmove⟩ := lock_ok_frame h
  obtain ⟨hb, hs⟩ := pegMove_ok hmove
  exact ⟨hb, fun d => by have := hs d; simp only [atD] at this; exact this, he⟩

theorem burn_effects (s s' : BState) (m : PegMsg) (e : Event) (h : burn s m = .ok (s', e)) :
    (∀ a d, s'.bank.bal a d + debit m a d = s.bank.bal a d + credit m s.cethReceiver a d) ∧
    (∀ d, s'.bank.supply d + (if d = m.symbol then m.amount.toNat else 0) = s.bank.supply d) ∧
    e = pegEvent "burn" m := by
  obtain ⟨_, _, _, _, _, _, he, hmove⟩ := burn_ok_frame h
  obtain ⟨hb, hs⟩ := pegMove_ok hmove
  exact ⟨hb, fun d => by have := hs d; simp only [atD] at this; exact this, he⟩

/-- a funded sender (account 5), fee receiver unset, ceth a peggy token -/
def exState : BState :=
  { BState.init with
    bank := { bal := fun a d => if a = 5 ∧ (d = "ceth" ∨ d = "rowan") then 10 ^ 20 else 0,
              supply := fun d => if d = "ceth" ∨ d = "rowan" then 10 ^ 20 else 0, acc := fun a => a = 5 },
    peggy := ["ceth"] }
def exMsg (sym : String) : PegMsg := ⟨5, 1, "0x1111111111111111111111111111111111111111", 1000, sym, 23580000000000000⟩

/-- non-vacuity: a lock of rowan succeeds, and so does the burn of ceth itself with the receiver unset:
    1000 + fee leave the sender, the fee stays in the module, supply − 1000, one event -/
example : (deliver id [] exState (.lock (exMsg "rowan"))).2 = .event (pegEvent "lock" (exMsg "rowan")) ∧
    (deliver id [] exState (.burn (exMsg "ceth"))).2 = .event (pegEvent "burn" (exMsg "ceth")) ∧
    (deliver id [] exState (.burn (exMsg "ceth"))).1.bank.bal 5 "ceth" = 10 ^ 20 - 1000 - 23580000000000000 ∧
    (deliver id [] exState (.burn (exMsg "ceth"))).1.bank.bal moduleAcct "ceth" = 23580000000000000 ∧
    (deliver id [] exState (.burn (exMsg "ceth"))).1.bank.supply "ceth" = 10 ^ 20 - 1000 := by decide

/-- the lock of ceth with the fee receiver unset builds two coins of the same denomination: `NewCoins` panics, the
    transaction wrapper discards everything -/
example : (deliver id [] { exState with peggy := [] } (.lock (exMsg "ceth"))).2 = .failed .panic := by decide

/-! ### supply equation over histories -/

/-- **Supply equation.**  For every history of bridge messages (claims, locks, burns, pause, blacklist, fee-receiver
    updates, rescues, whitelist edits) and validator-set changes, from any state, for every denomination:
    `supply_now + Σ locks + Σ burns = supply_at_start + Σ approved credits` — the supply changes through the bridge
    only by these debits and by consensus-approved credits (rescue moves ceth without changing it). -/
theorem supply_equation (ord : List Group → List Group) (steps : List Step) (w : World) (d : String) :
    (run ord w steps).s.bank.supply d + sumOver stepLocked ord w steps d + sumOver stepBurned ord w steps d =
      w.s.bank.supply d + sumOver stepCredited ord w steps d := by
  induction steps generalizing w with
  | nil => simp [run, sumOver]
  | cons st rest ih =>
    have hrun : run ord w (st :: rest) = run ord (stepWorld ord w st) rest := rfl
    have h1 := ih (stepWorld ord w st)
    have h2 := step_supply ord w st d
    rw [hrun]
    simp only [sumOver]
    omega

/-- non-vacuity: a history with a credit, a lock, a refused lock (paused) and a burn -/
example : sumOver stepLocked id ⟨[], exState⟩ [.msg (.lock (exMsg "rowan")), .msg (.burn (exMsg "ceth"))] "rowan" = 1000 ∧
    sumOver stepBurned id ⟨[], exState⟩ [.msg (.lock (exMsg "rowan")), .msg (.burn (exMsg "ceth"))] "ceth" = 1000 := by decide

/-! ### gates -/

/-- Native tokens can only be locked: a successful lock is of a token that is not in the peggy-token list. -/
theorem native_only_lock (s s' : BState) (m : PegMsg) (e : Event) (h : lock s m = .ok (s', e)) :
    s.peggy.contains m.symbol = false := by
  unfold lock at h
  split at h
  · cases h
  · split at h
    · cases h
    · rename_i hp; simpa using hp

/-- Pegged tokens can only be burned: a successful burn is of a token in the peggy-token list (a token the bridge
    itself created by a lock credit, see `Props.C06.lock_then_only_burnable`). -/
theorem pegged_only_burn (s s' : BState) (m : PegMsg) (e : Event) (h : burn s m = .ok (s', e)) :
    s.peggy.contains m.symbol = true := by
  unfold burn at h
  split at h
  · cases h
  · split at h
    · cases h
    · rename_i hp; simpa using hp

/-- While the bridge is paused, lock and burn fail and the whole state is unchanged. -/
theorem paused_no_change (ord : List Group → List Group) (vals : List Validator) (s : BState) (m : PegMsg)
    (h : s.paused = true) :
    (∃ f, deliver ord vals s (.lock m) = (s, .failed f)) ∧ (∃ f, deliver ord vals s (.burn m) = (s, .failed f)) := by
  constructor
  · rcases deliver_lock_cases ord vals s m with hd | ⟨s', e, hl, _, _⟩
    · exact hd
    · unfold lock at hl; simp [h] at hl
  · rcases deliver_burn_cases ord vals s m with hd | ⟨s', e, hl, _, _⟩
    · exact hd
    · unfold burn at hl; simp [h] at hl

example : ({ exState with paused := true } : BState).paused = true := rfl

theorem sameEthAddr_blKey {a b : String} (h : sameEthAddr a b = true) : blKey a = blKey b := by
  unfold sameEthAddr at h
  unfold blKey
  split at h
  · rename_i x y hx hy
    rw [hx, hy]
    have : x = y := by simpa using h
    rw [this]
  · rename_i hno
    have : a = b := by simpa using h
    rw [this]

/-- If the Ethereum receiver's *address* is blacklisted — some stored entry denotes the same 20 bytes, however either
    is spelled (capitalisation, `0x` or not) — lock and burn fail and the whole state is unchanged. -/
theorem blacklisted_no_change (ord : List Group → List Group) (vals : List Validator) (s : BState) (m : PegMsg) (b : String)
    (hb : blKey b ∈ s.blacklist) (hsame : sameEthAddr b m.receiver = true) :
    (∃ f, deliver ord vals s (.lock m) = (s, .failed f)) ∧ (∃ f, deliver ord vals s (.burn m) = (s, .failed f)) := by
  have hbl : isBlacklisted s m.receiver = true := by
    unfold isBlacklisted
    rw [← sameEthAddr_blKey hsame]
    simpa using hb
  constructor
  · rcases deliver_lock_cases ord vals s m with hd | ⟨s', e, hl, _, _⟩
    · exact hd
    · unfold lock at hl
      simp only [hbl] at hl
      repeat (split at hl <;> try cases hl)
  · rcases deliver_burn_cases ord vals s m with hd | ⟨s', e, hl, _, _⟩
    · exact hd
    · unfold burn at hl
      simp only [hbl] at hl
      repeat (split at hl <;> try cases hl)

/-- …and `SetBlacklist` stores addresses, not spellings: after it, every address of the message is blacklisted. -/
theorem blacklist_stores_addresses (s s' : BState) (signer : Nat) (addrs : List String) (a : String)
    (h : setBlacklist s signer addrs = .ok s') (ha : a ∈ addrs) : blKey a ∈ s'.blacklist := by
  unfold setBlacklist at h
  split at h
  · cases h
  · cases h
    simp only [List.mem_eraseDups]
    exact List.mem_map_of_mem ha

theorem blKey_sameEthAddr {a b : String} (h : blKey a = blKey b) : sameEthAddr a b = true := by
  unfold blKey at h
  unfold sameEthAddr
  cases ha : ethAddr a <;> cases hb : ethAddr b <;> simp only [ha, hb] at h ⊢
  · simpa using h
  · cases h
  · cases h
  · simpa using h

/-- …stated on what an observer reads back (`chk blset`): whatever strings the store holds for the model's keys,
    every address of an accepted `MsgSetBlacklist` is denoted by one of them. -/
theorem blacklist_set_observed (s s' : BState) (signer : Nat) (addrs stored : List String)
    (h : setBlacklist s signer addrs = .ok s') (hst : stored.map blKey = s'.blacklist) :
    blSetOK addrs stored = true := by
  unfold blSetOK addrBlacklisted
  simp only [List.all_eq_true, List.any_eq_true]
  intro a ha
  have hm := blacklist_stores_addresses s s' signer addrs a h ha
  rw [← hst] at hm
  obtain ⟨b, hb, hk⟩ := List.mem_map.mp hm
  exact ⟨b, hb, blKey_sameEthAddr hk⟩

/-- non-vacuity: the EIP-55 spelling is blacklisted, the lower-case un-prefixed spelling is the same address -/
example : sameEthAddr "0xf17f52151EbEF6C7334FAD080c5704D77216b732" "f17f52151ebef6c7334fad080c5704d77216b732" = true := by decide

/-- A sender whose balance of the token is below the amount cannot lock or burn it: the message fails and the whole
    state is unchanged. -/
theorem insufficient_no_change (ord : List Group → List Group) (vals : List Validator) (s : BState) (m : PegMsg)
    (h : s.bank.bal m.sender m.symbol < m.amount.toNat) :
    (∃ f, deliver ord vals s (.lock m) = (s, .failed f)) ∧ (∃ f, deliver ord vals s (.burn m) = (s, .failed f)) := by
  have hmove : ∀ sp b, pegMove s m sp = .ok b → False := by
    intro sp b hp
    have := (pegMove_ok hp).1 m.sender m.symbol
    rw [debit_eq, credit_eq] at this
    have h1 : at_ m.sender m.symbol m.amount.toNat m.sender m.symbol = m.amount.toNat := by simp [at_]
    have h2 : at_ (feeAcct s.cethReceiver) cethSymbol m.ceth.toNat m.sender m.symbol
        ≤ at_ m.sender cethSymbol m.ceth.toNat m.sender m.symbol := by
      unfold at_
      by_cases hc : m.symbol = cethSymbol
      · simp only [hc, and_true, true_and, if_true]
        split <;> omega
      · simp [hc]
    omega
  constructor
  · rcases deliver_lock_cases ord vals s m with hd | ⟨s', e, hl, _, _⟩
    · exact hd
    · exact (hmove _ _ (lock_ok_frame hl).2.2.2.2.2.2.2).elim
  · rcases deliver_burn_cases ord vals s m with hd | ⟨s', e, hl, _, _⟩
    · exact hd
    · exact (hmove _ _ (burn_ok_frame hl).2.2.2.2.2.2.2).elim

example : exState.bank.bal 5 "cusdc" < (exMsg "cusdc").amount.toNat := by decide

/-- Whatever the reason of a failure (validation, pause, blacklist, wrong kind of token, unknown account,
    insufficient funds for the amount or the fee, a panic), a failed message changes nothing. -/
theorem failed_changes_nothing (ord : List Group → List Group) (vals : List Validator) (s : BState) (m : Msg) (f : Fail)
    (h : (deliver ord vals s m).2 = .failed f) : (deliver ord vals s m).1 = s := deliver_failed h

/-! ### what the bridge minted is pegged -/

/-- ethbridge InitGenesis registers the genesis peggy list entry by entry through AddPeggyToken (regenerated fact) -/
theorem facts_init_genesis :
    BridgeConsts.ethbridgeInitGenesisCalls = ["SetCethReceiverAccount", "AddPeggyToken", "SetBlacklistAddress", "SetPause", "SetPause"] := by
  decide

theorem foldl_addPeggy_keeps (l : List String) (p : List String) (d : String) (h : p.contains d = true) :
    (l.foldl addPeggy p).contains d = true := by
  induction l generalizing p with
  | nil => exact h
  | cons a l ih => exact ih (addPeggy p a) ((addPeggy_spec p a).2.1 d h)

/-- Every token of a genesis peggy list is pegged after InitGenesis, in whatever order the list names them: its lock is
    refused and its burn is not refused as "native token". -/
theorem genesis_tokens_pegged (s : BState) (l : List String) (d : String) (hd : d ∈ l) :
    (initGenesisPeggy s l).peggy.contains d = true ∧
    (∀ pm : PegMsg, pm.symbol = d → (∃ f, lock (initGenesisPeggy s l) pm = .error f) ∧
      burn (initGenesisPeggy s l) pm ≠ .error (.err .native)) := by
  have hin : (initGenesisPeggy s l).peggy.contains d = true := by
    unfold initGenesisPeggy
    simp only
    induction l generalizing s with
    | nil => simp at hd
    | cons a l ih =>
      simp only [List.foldl_cons]
      rcases List.mem_cons.mp hd with e | e
      · subst e
        exact foldl_addPeggy_keeps l _ _ (addPeggy_spec s.peggy d).1
      · exact ih { s with peggy := addPeggy s.peggy a } e
  refine ⟨hin, fun pm hsym => ⟨?_, ?_⟩⟩
  · cases hl : lock (initGenesisPeggy s l) pm with
    | error f => exact ⟨f, rfl⟩
    | ok r =>
      have := native_only_lock _ r.1 pm r.2 hl
      rw [hsym, hin] at this
      cases this
  · intro hb
    have := burn_native_refusal hb
    rw [hsym, hin] at this
    cases this

example : (initGenesisPeggy BState.init ["ceth", "cusdt", "cdai"]).peggy = ["ceth", "cusdt", "cdai"] := by decide


/-- After an accepted claim that reports SUCCESS, the stored peggy-token list is the old list plus exactly the credited
    denomination `"c" ++ symbol` (exact string) for a lock claim, and unchanged for a burn claim (`peggyRegOK` is also
    evaluated by the driver on the implementation's lists). -/
theorem credit_registers_denom (ord : List Group → List Group) (vals : List Validator) (s : BState) (m : ClaimMsg)
    (h : (deliver ord vals s (.claim m)).2 = .claimed .success) :
    peggyRegOK (finalOf (deliver ord vals s (.claim m)).1.oracle (claimOf m).id) s.peggy
      (deliver ord vals s (.claim m)).1.peggy = true := by
  rcases deliver_claim_cases ord vals s m with ⟨f, hd⟩ | ⟨s', status, hc, hd⟩
  · rw [hd] at h; cases h
  · rw [hd] at h ⊢
    cases h
    obtain ⟨o, fin, hp, eo, _, _, _, _, hcase⟩ := createClaim_ok hc
    obtain ⟨_, _, fa⟩ := processClaim_status hp
    simp only
    rw [eo, fa]
    rcases hcase with ⟨_, hsucc⟩ | ⟨hs, _⟩
    · cases fin with
      | empty => simp [processSuccessfulClaim] at hsucc
      | eth r a sym t c =>
        by_cases hc2 : c = 2
        · subst hc2
          obtain ⟨_, _, _, _, _, _, _, _, _, _, _, hpeg⟩ := processSuccessfulClaim_ok hsucc
          have hp' := hpeg r a sym t rfl
          obtain ⟨a1, a2, a3⟩ := addPeggy_spec s.peggy (peggedPrefix ++ sym)
          simp only [peggyRegOK, if_true, hp', Bool.and_eq_true, List.all_eq_true]
          refine ⟨⟨a1, fun x hx => a2 x (by simpa using hx)⟩, fun x hx => ?_⟩
          rcases a3 x (by simpa using hx) with h1 | h1
          · have : x ∈ s.peggy := by simpa using h1
            simp [this]
          · simp [h1]
        · have hp' := processSuccessfulClaim_peggy_other hsucc hc2
          simp only [peggyRegOK, hc2, if_false, hp', Bool.and_eq_true, List.all_eq_true]
          exact ⟨fun x hx => by simpa using hx, fun x hx => by simpa using hx⟩
    · exact (hs rfl).elim

theorem run_peggy_grows (ord : List Group → List Group) (steps : List Step) (w : World) (d : String)
    (h : w.s.peggy.contains d = true) : (run ord w steps).s.peggy.contains d = true := by
  induction steps generalizing w with
  | nil => exact h
  | cons st rest ih =>
    apply ih
    cases st with
    | setVals v => exact h
    | restart => exact h
    | blocks n => exact h
    | msg m => exact Sif.Props.C06.peggy_only_grows ord w.vals w.s m d h

/-- **What the bridge minted is pegged, for good.**  Every denomination a history credited for a consensus-approved
    lock claim is in the peggy-token list at the end of the history (whatever happened in between): a `MsgLock` of it
    is refused and a `MsgBurn` of it is never refused as "native token". -/
theorem minted_only_burnable (ord : List Group → List Group) (steps : List Step) (w : World) (d : String)
    (hd : d ∈ mintedOf ord w steps) :
    (run ord w steps).s.peggy.contains d = true ∧
    (∀ pm : PegMsg, pm.symbol = d → (∃ f, lock (run ord w steps).s pm = .error f) ∧
      burn (run ord w steps).s pm ≠ .error (.err .native)) := by
  have hin : (run ord w steps).s.peggy.contains d = true := by
    induction steps generalizing w with
    | nil => simp [mintedOf] at hd
    | cons st rest ih =>
      have hrun : run ord w (st :: rest) = run ord (stepWorld ord w st) rest := rfl
      rw [hrun]
      simp only [mintedOf, List.mem_append] at hd
      rcases hd with h1 | h1
      · apply run_peggy_grows
        cases st with
        | setVals v => simp [stepMinted] at h1
        | restart => simp [stepMinted] at h1
        | blocks n => simp [stepMinted] at h1
        | msg m =>
          cases m with
          | claim cm =>
            simp only [stepMinted] at h1
            split at h1
            · rename_i hs
              split at h1
              · rename_i r a sym t hf
                simp only [List.mem_singleton] at h1
                subst h1
                exact (Sif.Props.C06.lock_then_only_burnable ord w.vals w.s cm r a sym t hs hf).1
              · simp at h1
            · simp at h1
          | lock pm => simp [stepMinted] at h1
          | burn pm => simp [stepMinted] at h1
          | pause a p => simp [stepMinted] at h1
          | blacklist a l => simp [stepMinted] at h1
          | cethReceiver a r => simp [stepMinted] at h1
          | rescue a r n => simp [stepMinted] at h1
          | whitelist a op v => simp [stepMinted] at h1
      · exact ih (stepWorld ord w st) h1
  refine ⟨hin, fun pm hsym => ⟨?_, ?_⟩⟩
  · cases hl : lock (run ord w steps).s pm with
    | error f => exact ⟨f, rfl⟩
    | ok r =>
      have := native_only_lock _ r.1 pm r.2 hl
      rw [hsym, hin] at this
      cases this
  · intro hb
    have := burn_native_refusal hb
    rw [hsym, hin] at this
    cases this

end Sif.Props.C07
