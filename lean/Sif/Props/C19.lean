import Sif.Proofs.C19
/-
  C19 — Fee floors and validator-concentration rules hold however a message is wrapped.
  Property theorems only (helper lemmas live in Sif/Proofs/C19.lean).

  Quantifiers: every transaction — any number, mix and order of messages of any type URL, nested in
  authz.MsgExec to ANY depth (the message tree is an inductive type; the proofs are by structural
  induction on it), any fee coins, any SubmitProposalFee ≥ 0, any validator set, stake distribution
  and delegation amount.  No bounds.

  The theorems are stated over `genFeeCfg` / `genComCfg`, i.e. over the table that the extractor
  regenerates from app/ante/ante.go and app/ante/commission.go on every run
  (`Sif/Generated/AnteConsts.lean`): substrings, amounts, overwrite-or-max per branch, whether the
  decorators unwrap MsgExec, the 5 % and 6.6 % constants.
-/
namespace Sif.Props.C19
open Sif Sif.Ante Sif.AnteTypes Sif.Spec.C19

/-! ### obligations over the regenerated facts (closed by `decide`) -/

/-- the extractor recognised the whole if / else-if chain and the special case -/
theorem fee_table_recognised :
    (Sif.Generated.Ante.specialKnown && Sif.Generated.Ante.branchesKnown) = true := by decide

/-- every branch of the min-fee loop maximises (or is an overwrite guarded by `minFee ≤ amount`):
    the fold can only raise the minimum fee  [fails on the pinned tree: F7] -/
theorem fee_table_sound : genFeeCfg.branches.all branchSound = true := by decide

/-- the min-fee loop runs over a recursive unwrap of authz.MsgExec  [fails on the pinned tree: F8] -/
theorem fee_unwraps_exec : Sif.Generated.Ante.feeUnwrapsExec = some true := by decide

/-- each message kind the property names (by exact type URL) falls into a branch with the
    documented amount — 0.1 rowan, 0.01 rowan, SubmitProposalFee — and none of them is caught by the
    single-message dispensation special case -/
theorem fee_table_covers_kinds : tableCovers genFeeCfg = true := by decide

/-- a lone MsgExec is not mistaken for a dispensation message -/
theorem exec_not_special : containsAny genFeeCfg.special (lowerUrl execUrl) = false := by decide

/-- the commission decorator recurses into authz.MsgExec  [fails on the pinned tree: F9] -/
theorem commission_unwraps_exec : Sif.Generated.Ante.commissionUnwrapsExec = some true := by decide

/-- (re)delegations are judged against the stake as it will be when they execute: the amounts admitted
    earlier in the same transaction are added per validator and in total  [fails without the F23 repair] -/
theorem commission_cumulative : Sif.Generated.Ante.commissionCumulative = some true := by decide

/-- the validators the decorator judges come from the staking store and nowhere else: `getValidator`
    takes (ctx, address) and returns only what `sk.GetValidator` found (otherwise an error), no function
    of the package builds a validator of its own, the only read of a validator's tokens is the one in
    the projection, and the projection is fed by `getValidator` of the message's target address
    [fails on a decorator that invents validators, e.g. for addresses an earlier message creates] -/
theorem validators_come_from_the_store :
    Sif.Generated.Ante.getValidatorParams = ["sdk.Context", "string"] ∧
    Sif.Generated.Ante.getValidatorStoreOnly = some true ∧
    Sif.Generated.Ante.inventsValidators = false ∧
    Sif.Generated.Ante.tokenReads = ["calculateProjectedVotingPower: validator.GetTokens"] ∧
    Sif.Generated.Ante.projectionSources =
      ["vcd.getValidator(ctx, msg.ValidatorAddress)", "vcd.getValidator(ctx, msg.ValidatorDstAddress)"] := by
  decide

/-- the voting-power test is applied to every MsgDelegate and every MsgBeginRedelegate: it is an
    unconditional statement of its case, not nested under some exemption (jailed validators, self-bonds, …) -/
theorem cap_test_is_unconditional :
    Sif.Generated.Ante.capTests = ["stakingtypes.MsgDelegate: true", "stakingtypes.MsgBeginRedelegate: true"] := by decide

/-- its type switch still has the four staking cases -/
theorem commission_cases_present :
    ["stakingtypes.MsgCreateValidator", "stakingtypes.MsgEditValidator", "stakingtypes.MsgDelegate",
     "stakingtypes.MsgBeginRedelegate"].all (fun t => Sif.Generated.Ante.commissionCases.contains t) = true := by
  decide

/-- `MinCommission` is 5 % and `maxVotingPower` is 6.6 (per cent), as the property says -/
theorem constants_as_documented :
    Sif.Generated.Ante.minCommission = some docMinCommission ∧
    Sif.Generated.Ante.maxVotingPower = some docMaxVotingPower := by decide

/-! ### clause 1: fee floor -/

/-- **fee_floor.**  If `AdjustGasPriceDecorator` lets a transaction through, its rowan fee is at
    least the highest floor over EVERY message of the transaction, however deeply it is wrapped in
    authz.MsgExec and in whatever order the messages come. -/
theorem fee_floor (propFee : Int) (tx : Tx) (hp : 0 ≤ propFee) (hf : feesValid tx = true)
    (h : (feeDecide genFeeCfg propFee tx).accepted = true) :
    required propFee tx.msgs ≤ rowanFee tx.fees :=
  fee_floor_generic fee_table_sound (by simp [genFeeCfg, fee_unwraps_exec]) fee_table_covers_kinds
    exec_not_special propFee tx hp hf h

/-- the judge's Boolean (evaluated on the implementation's observations) is this statement -/
theorem feeOK_iff (acc : Bool) (propFee : Int) (tx : Tx) :
    feeOK acc propFee tx = true ↔ (acc = true → required propFee tx.msgs ≤ rowanFee tx.fees) := by
  unfold feeOK; cases acc <;> simp

/-- per message: any message of one of the named kinds, at any depth, has its floor paid -/
theorem fee_floor_each (propFee : Int) (tx : Tx) (hp : 0 ≤ propFee) (hf : feesValid tx = true)
    (h : (feeDecide genFeeCfg propFee tx).accepted = true) (l : Leaf) (hl : l ∈ leavesList tx.msgs)
    (k : Kind) (hk : kindOf l.url = some k) : floorOfKind propFee k ≤ rowanFee tx.fees := by
  have hreq := fee_floor propFee tx hp hf h
  have := (le_foldl_max (fun l => floorOfUrl propFee l.url) (leavesList tx.msgs) 0).2 l hl
  have hfl : floorOfUrl propFee l.url = floorOfKind propFee k := by simp [floorOfUrl, hk]
  unfold required at hreq
  rw [hfl] at this
  exact le_trans this hreq

/-! ### clauses 2 and 3: minimum commission, voting-power cap -/

theorem cap_hundredths : (100 : Int) ∣ genComCfg.maxVotingPower := by decide

theorem cap_nonneg : 0 ≤ genComCfg.maxVotingPower := by decide

/-- **staking rules.**  If `ValidateMinCommissionDecorator` lets a transaction through, then, over
    every message of it however deeply wrapped, in execution order: commission of a created/edited
    validator ≥ the minimum; every (re)delegation, judged against the stake AS IT WILL BE WHEN IT
    EXECUTES (the state the transaction starts from plus what its earlier messages add), leaves the
    target's exact share strictly below the cap; and after the whole transaction every validator
    that received stake through it is strictly below the cap (exact integer inequalities — the
    sdk.Dec `Quo` then `Mul(100)` rounding is proved not to let 6.6 % through). -/
theorem staking_rules (env : StakeEnv) (ms : List Msg) (he : envValid env = true)
    (ha : amountsValid ms = true) (h : comDecide genComCfg env ms = .ok true) :
    stakingOK true docMinCommission docMaxVotingPower env ms = true := by
  have hu : genComCfg.unwrap = true := by simp [genComCfg, commission_unwraps_exec]
  have hcu : genComCfg.cumulative = true := by simp [genComCfg, commission_cumulative]
  have := staking_generic hu hcu cap_hundredths cap_nonneg env ms he ha h
  have hc : genComCfg.minCommission = docMinCommission := by simp [genComCfg, constants_as_documented.1]
  have hm : genComCfg.maxVotingPower = docMaxVotingPower := by simp [genComCfg, constants_as_documented.2]
  rw [hc, hm] at this
  exact this

theorem stakingOK_parts {env : StakeEnv} {ms : List Msg}
    (h : stakingOK true docMinCommission docMaxVotingPower env ms = true) :
    (∀ l ∈ leavesList ms, commissionOK docMinCommission l.body = true) ∧
    seqCapOKx docMaxVotingPower env Pending.empty (leavesList ms) = true ∧
    endOK docMaxVotingPower (finalX env Pending.empty (leavesList ms)).1 (finalX env Pending.empty (leavesList ms)).2 = true := by
  simp only [stakingOK, Bool.not_true, Bool.false_or, Bool.and_eq_true] at h
  exact ⟨List.all_eq_true.mp h.1.1, h.1.2, h.2⟩

/-- **commission_floor** (create): no accepted transaction contains, at any depth, a
    MsgCreateValidator with a commission rate below 5 %. -/
theorem commission_floor (env : StakeEnv) (ms : List Msg) (he : envValid env = true)
    (ha : amountsValid ms = true) (h : comDecide genComCfg env ms = .ok true)
    (url v : String) (r value : Int) (hl : ⟨url, .createVal r v value⟩ ∈ leavesList ms) : docMinCommission ≤ r := by
  have := (stakingOK_parts (staking_rules env ms he ha h)).1 _ hl
  simpa [commissionOK] using this

/-- **commission_floor** (edit) -/
theorem commission_floor_edit (env : StakeEnv) (ms : List Msg) (he : envValid env = true)
    (ha : amountsValid ms = true) (h : comDecide genComCfg env ms = .ok true)
    (url : String) (r : Int) (hl : ⟨url, .editVal (some r)⟩ ∈ leavesList ms) : docMinCommission ≤ r := by
  have := (stakingOK_parts (staking_rules env ms he ha h)).1 _ hl
  simpa [commissionOK] using this

/-- **power_cap** (cumulative, F23; created validators, C19-2): after an accepted transaction, every
    validator `v` that any of its messages — at any depth, in any number — delegated or redelegated to
    ends strictly below 6.6 % of the bonded-plus-unbonding stake, where the stake `envEnd` is the one the
    transaction started from plus every validator it creates (holding its self-delegation) and `tok` is
    what `v` holds in it:
    1000·(tok + every (re)delegation of the transaction to v) < 66·(total + created self-delegations + new delegations). -/
theorem power_cap (env : StakeEnv) (ms : List Msg) (he : envValid env = true)
    (ha : amountsValid ms = true) (h : comDecide genComCfg env ms = .ok true)
    (v : String) (a tok : Int)
    (hv : (v, a) ∈ (finalX env Pending.empty (leavesList ms)).2.byVal)
    (ht : (finalX env Pending.empty (leavesList ms)).1.tokens v = some tok) :
    1000 * (tok + (finalX env Pending.empty (leavesList ms)).2.get v) <
      66 * ((finalX env Pending.empty (leavesList ms)).1.total + (finalX env Pending.empty (leavesList ms)).2.total) := by
  have hend := (stakingOK_parts (staking_rules env ms he ha h)).2.2
  have := (List.all_eq_true.mp hend) (v, a) hv
  simp only [ht, shareBelow, docMaxVotingPower, Dec.P] at this
  norm_num at this
  omega

/-- **power_cap** (each message, in order): every (re)delegation is below the cap against the stake
    as it will be when it executes -/
theorem power_cap_each (env : StakeEnv) (ms : List Msg) (he : envValid env = true)
    (ha : amountsValid ms = true) (h : comDecide genComCfg env ms = .ok true) :
    seqCapOKx docMaxVotingPower env Pending.empty (leavesList ms) = true :=
  (stakingOK_parts (staking_rules env ms he ha h)).2.1

/-- the code as it is refuses a (re)delegation to a validator that is not in the store, so in
    particular "create validator X, then delegate to X" in one transaction is refused — the decorator
    never has to judge a validator whose self-delegation it cannot see -/
theorem no_delegation_to_unstored_validator (env : StakeEnv) (ms : List Msg)
    (h : comDecide genComCfg env ms = .ok true) (url v : String) (amt : Int)
    (hl : ⟨url, .delegate v amt⟩ ∈ leavesList ms) : (env.tokens v).isSome = true := by
  have hu : genComCfg.unwrap = true := by simp [genComCfg, commission_unwraps_exec]
  unfold comDecide comRun comMsgs at h
  rw [if_pos hu] at h
  cases hr : validateAll genComCfg env Pending.empty (leavesList ms) with
  | error e => simp [hr, Except.map] at h
  | ok o =>
    cases o with
    | none => simp [hr, Except.map] at h
    | some q =>
      have : ∀ (ls : List Leaf) (p q : Pending), validateAll genComCfg env p ls = .ok (some q) →
          ∀ l ∈ ls, targetsKnown env l.body = true := by
        intro ls
        induction ls with
        | nil => intro _ _ _ l hl; simp at hl
        | cons l' ls ih =>
          intro p q hq l hl
          unfold validateAll at hq
          cases hv : validateBody genComCfg env p l'.body with
          | error e => simp [hv] at hq
          | ok o =>
            cases o with
            | none => simp [hv] at hq
            | some p' =>
              simp only [hv] at hq
              rcases List.mem_cons.mp hl with rfl | hl'
              · exact validateBody_known hv
              · exact ih p' q hq l hl'
      simpa [targetsKnown] using this _ _ _ hr _ hl

/-- the single-delegation instance: (tok + amt) / (total + amt) < 6.6 % -/
theorem power_cap_single (env : StakeEnv) (url v : String) (amt tok : Int) (he : envValid env = true) (hamt : 0 ≤ amt)
    (h : comDecide genComCfg env [.leaf ⟨url, .delegate v amt⟩] = .ok true) (ht : env.tokens v = some tok) :
    1000 * (tok + amt) < 66 * (env.total + amt) := by
  have ha : amountsValid [.leaf ⟨url, .delegate v amt⟩] = true := by
    simp [amountsValid, leavesList, Msg.leaves, bodyAmountsValid, hamt]
  have := power_cap_each env _ he ha h
  simp only [leavesList, Msg.leaves, List.append_nil, seqCapOKx, capOK, ht, Bool.and_true, Pending.empty, Pending.get,
    List.filter_nil, List.map_nil, List.sum_nil, Int.zero_add, shareBelow, docMaxVotingPower, Dec.P] at this
  norm_num at this
  omega

/-! ### non-vacuity: concrete non-trivial instances meet the hypotheses -/

/-- a governance proposal wrapped three deep next to a send, paying 5000 rowan: accepted -/
def exTx : Tx :=
  { msgs := [.exec [.exec [.exec [.leaf ⟨"/cosmos.gov.v1beta1.MsgSubmitProposal", .other⟩]]],
             .leaf ⟨"/cosmos.bank.v1beta1.MsgSend", .other⟩]
    fees := [("rowan", 5000000000000000000000)] }

example : feesValid exTx = true ∧ (feeDecide genFeeCfg 5000000000000000000000 exTx).accepted = true ∧
    required 5000000000000000000000 exTx.msgs = 5000000000000000000000 := by decide

/-- the same with one unit less is refused (the theorem's hypothesis is not always true) -/
example : (feeDecide genFeeCfg 5000000000000000000000
    { exTx with fees := [("rowan", 4999999999999999999999)] }).accepted = false := by decide

/-- 20 equal validators; a wrapped delegation of 300 to one of them (share 6.27 %) and a wrapped
    validator edit to 5 % are accepted; the hypotheses hold -/
def exEnv : StakeEnv := { total := 20000, vals := (List.range 20).map (fun i => (s!"v{i}", 1000)) }
def exMsgs : List Msg :=
  [.exec [.leaf ⟨"/cosmos.staking.v1beta1.MsgDelegate", .delegate "v3" 300⟩,
          .exec [.leaf ⟨"/cosmos.staking.v1beta1.MsgEditValidator", .editVal (some 50000000000000000)⟩]]]

example : envValid exEnv = true ∧ amountsValid exMsgs = true ∧ comDecide genComCfg exEnv exMsgs = .ok true := by
  decide +kernel

/-- 343 more and the cap bites, however deep the wrapper (1343·1000 ≥ 66·20343) -/
example : comDecide genComCfg exEnv
    [.exec [.exec [.leaf ⟨"/cosmos.staking.v1beta1.MsgDelegate", .delegate "v3" 343⟩]]] = .ok false := by
  decide +kernel

/-- F23: two delegations of 172 each to one validator, one of them wrapped (1344·1000 ≥ 66·20344) are refused
    together, although each alone (1172·1000 < 66·20172) passes -/
example : comDecide genComCfg exEnv
    [.exec [.leaf ⟨"/cosmos.staking.v1beta1.MsgDelegate", .delegate "v3" 172⟩],
     .leaf ⟨"/cosmos.staking.v1beta1.MsgDelegate", .delegate "v3" 172⟩] = .ok false ∧
    comDecide genComCfg exEnv [.leaf ⟨"/cosmos.staking.v1beta1.MsgDelegate", .delegate "v3" 172⟩] = .ok true := by
  decide +kernel

/-- C19-2: "create validator x (self-delegation 1000), then delegate 420 to x" is refused by the code as
    it is; and if a decorator accepted it, the specification would say no: 1420·1000 ≥ 66·21420 -/
example :
    let ms : List Msg := [.leaf ⟨"/cosmos.staking.v1beta1.MsgCreateValidator", .createVal 50000000000000000 "x" 1000⟩,
                          .exec [.leaf ⟨"/cosmos.staking.v1beta1.MsgDelegate", .delegate "x" 420⟩]]
    comDecide genComCfg exEnv ms = .ok false ∧ stakingOK true docMinCommission docMaxVotingPower exEnv ms = false := by
  decide +kernel

/-! ### the pinned tree's three defects, as decided negative witnesses on its (hand-copied) table -/

def pinnedFeeCfg : FeeCfg :=
  { special := ["createdistribution", "rundistribution"]
    branches := [
      { subs := ["send", "multisend", "createuserclaim", "swap", "removeliquidity", "removeliquidityunits", "addliquidity"],
        guardLE := none, amount := .const 100000000000000000, update := .overwrite },
      { subs := ["transfer"], guardLE := some 10000000000000000, amount := .const 10000000000000000, update := .overwrite },
      { subs := ["submitproposal", "submit_proposal"], guardLE := none, amount := .proposalFee, update := .overwrite }]
    unwrap := false }

/-- F7: `[SubmitProposal, Send]` with a 0.1 rowan fee passes although a proposal costs 5000 rowan -/
example :
    let tx : Tx := { msgs := [.leaf ⟨"/cosmos.gov.v1beta1.MsgSubmitProposal", .other⟩, .leaf ⟨"/cosmos.bank.v1beta1.MsgSend", .other⟩],
                     fees := [("rowan", 100000000000000000)] }
    feeOK (feeDecide pinnedFeeCfg 5000000000000000000000 tx).accepted 5000000000000000000000 tx = false := by
  decide

/-- F8: `MsgExec{MsgSend}` passes with a fee of 1 -/
example :
    let tx : Tx := { msgs := [.exec [.leaf ⟨"/cosmos.bank.v1beta1.MsgSend", .other⟩]], fees := [("rowan", 1)] }
    feeOK (feeDecide pinnedFeeCfg 5000000000000000000000 tx).accepted 5000000000000000000000 tx = false := by
  decide

/-- F9: `MsgExec{MsgEditValidator{commission 0}}` passes the commission decorator -/
example :
    let ms : List Msg := [.exec [.leaf ⟨"/cosmos.staking.v1beta1.MsgEditValidator", .editVal (some 0)⟩]]
    let cfg : ComCfg := { genComCfg with unwrap := false }
    comDecide cfg exEnv ms = .ok true ∧ stakingOK true docMinCommission docMaxVotingPower exEnv ms = false := by
  decide +kernel

end Sif.Props.C19
