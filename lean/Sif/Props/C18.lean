import Sif.Proofs.C18
import Sif.Proofs.C18Bucket
import Sif.Proofs.C18Fair
import Sif.Proofs.C18Lppd
import Sif.Proofs.C18Split
import Sif.Spec.C18
/-
  C18 — Reward and distribution payouts are pro rata to provider units.  Property theorems only.
-/
namespace Sif.Props.C18
open Sif Sif.Clp Sif.Dec

/-- LPPD and depth-reward payouts: a provider's computed amount is its share u/U of the pool's
    distributed amount D up to one base unit plus 10^-18·D — for every magnitude of D, U and u. -/
theorem provider_amount_pro_rata {pd : Dec} {pu lu amt : Nat} (hpu : 0 < pu) (hpd : 0 ≤ pd.i)
    (h : providerAmount pd pu lu = .ok amt) :
    (amt : ℚ) ≤ (lu : ℚ) / pu * ((pd.i : ℚ) / P) + 1 + ((pd.i : ℚ) / P) / P ∧
    (lu : ℚ) / pu * ((pd.i : ℚ) / P) - 1 - ((pd.i : ℚ) / P) / P ≤ (amt : ℚ) :=
  providerAmount_bound hpu hpd h

/-- the running clamp: what the providers of one pool are handed sums to exactly the reported
    total, which never exceeds rnd(rate · balance) — for any number of providers -/
theorem pool_payouts_clamped {rowanPd : Dec} {pu : Nat} {lps : List LP} {l : List (String × Nat)} {tot : Nat}
    (h : collectProviderDistribution rowanPd pu lps = .ok (l, tot)) :
    ∃ cap : Nat, (cap : Int) = rowanPd.roundInt ∧ tot ≤ cap ∧ tot = amtSum l :=
  collectProviderDistribution_spec h

/-- **LPPD / depth-reward payout of one pool, any number of providers.**  With D = the pool's distribution
    amount (`rowanPd`, an sdk.Dec) and provider units that do not exceed the pool units (C02), the amounts
    `CollectProviderDistribution` hands out name the providers in store order, the i-th is at most its share
    u_i/U of D plus one base unit plus D·10⁻¹⁸ and at least its share minus (n+1)·(1 + D·10⁻¹⁸) + ½ — the
    running clamp lets later providers absorb the rounding of earlier ones; all n, all magnitudes. -/
theorem pool_payouts_fair {pd : Dec} {pu : Nat} {lps : List LP} {l : List (String × Nat)} {tot : Nat}
    (hpu : 0 < pu) (hpd : 0 ≤ pd.i) (hsum : lpUnitsSum lps ≤ pu)
    (h : collectProviderDistribution pd pu lps = .ok (l, tot)) :
    l.length = lps.length ∧
    ∀ i (h1 : i < lps.length) (h2 : i < l.length),
      (l[i]'h2).1 = (lps[i]'h1).addr ∧
      ((l[i]'h2).2 : ℚ) ≤ ((lps[i]'h1).units : ℚ) / pu * ((pd.i : ℚ) / P) + 1 + (pd.i : ℚ) / P / P ∧
      ((lps[i]'h1).units : ℚ) / pu * ((pd.i : ℚ) / P) - ((lps.length : ℚ) + 1) * (1 + (pd.i : ℚ) / P / P) - 1 / 2
        ≤ ((l[i]'h2).2 : ℚ) :=
  lppd_amounts_fair hpu hpd hsum h

/-- depth rewards: the pool rewards of one block sum to the minted amount, which is at most the
    block distribution — for any number of pools -/
theorem depth_rewards_le_block_distribution (rp : RewardPeriod) (td : Dec) (bd : Nat)
    (pools : List (String × Pool)) (l : List (String × Nat)) (m : Nat)
    (h : rewardTuples rp td bd pools bd 0 [] = .ok (l, m)) : m ≤ bd ∧ m = amtSum l := by
  have := rewardTuples_le rp td bd pools bd 0 [] l m rfl h
  exact ⟨by omega, this.2⟩

/-- **Depth rewards, per pool.**  Every pool reward of a block belongs to a pool of the list and is at most
    that pool's weighted share — multiplier × native balance over the total weight `td` the hook computed —
    of the block distribution, up to rounding: bd/(2·td·10¹⁸) from the 18-decimal weight quotient,
    bd·10⁻¹⁸/2 from the rounded product, half a unit of 10⁻¹⁸ (with total weight ≥ 1 whole unit that is
    below 10⁻¹⁸·bd + 1).  The clamp to what is left of the block distribution only lowers a reward.
    Any number of pools, any magnitudes. -/
theorem depth_reward_le_weighted_share (rp : RewardPeriod) (td : Dec) (bd : Nat)
    (pools : List (String × Pool)) (l : List (String × Nat)) (m : Nat)
    (hmult : ∀ e ∈ pools, 0 ≤ (multiplier rp e.2.sym).i) (htd : 0 < td.i)
    (h : rewardTuples rp td bd pools bd 0 [] = .ok (l, m)) :
    ∀ t ∈ l, ∃ e ∈ pools, e.2.sym = t.1 ∧
      (t.2 : ℚ) ≤ (e.2.nBal : ℚ) * (multiplier rp e.2.sym).i / td.i * bd
        + (bd : ℚ) / (2 * td.i) + (bd : ℚ) / (2 * P) + 1 / (2 * P) := by
  intro t ht
  rcases rewardTuples_mem rp td bd pools bd 0 [] l m h t ht with hacc | ⟨e, he, hsym, pd, hpd, hle⟩
  · simp at hacc
  · refine ⟨e, he, hsym, ?_⟩
    have hb := (poolDistribution_bound (hmult e he) htd hpd).1
    have : (t.2 : ℚ) ≤ (pd : ℚ) := by exact_mod_cast hle
    linarith

/-- The total weight the hook divides by is the exact sum Σ multiplier × native balance of the pool list up to
    half a unit of 10⁻¹⁸ per pool (one rounded product per pool) — so the shares of
    `depth_reward_le_weighted_share` are shares of the true total weight, for any number of pools. -/
theorem total_weight_is_weight_sum (rp : RewardPeriod) (pools : List (String × Pool)) (td : Dec)
    (hmult : ∀ e ∈ pools, 0 ≤ (multiplier rp e.2.sym).i)
    (h : totalDepth rp pools ⟨0⟩ = .ok td) :
    (td.i : ℚ) ≤ weightSum rp pools + (pools.length : ℚ) / 2 ∧ weightSum rp pools - (pools.length : ℚ) / 2 ≤ (td.i : ℚ) := by
  have := totalDepth_err rp pools ⟨0⟩ td hmult (by simp) h
  simpa using this.2

/-- `calcPoolDistribution` from below: a pool's unclamped reward is more than its weighted share of the block
    distribution minus bd/(2·td·10¹⁸) + bd·10⁻¹⁸ + 1 + half a unit of 10⁻¹⁸. -/
theorem pool_distribution_ge_weighted_share {m td : Dec} {nBal bd pd : Nat} (hm : 0 ≤ m.i) (htd : 0 < td.i)
    (h : poolDistribution m nBal td bd = .ok pd) :
    (nBal : ℚ) * m.i / td.i * bd - (bd : ℚ) / (2 * td.i) - (bd : ℚ) / P - 1 / (2 * P) - 1 < (pd : ℚ) :=
  (poolDistribution_bound hm htd h).2

/- non-vacuity: two pools (weights 3 and 1 whole units), block distribution 1000: shares 750 and 250 -/
example : rewardTuples { start := 1, stop := 10, allocation := 10000, mod := 1, distribute := false, defaultMult := ⟨10^18⟩, mults := [] }
      ⟨4 * 10^18⟩ 1000 [("a_rowan", { sym := "a", nBal := 3, eBal := 1, units := 1 }), ("b_rowan", { sym := "b", nBal := 1, eBal := 1, units := 1 })] 1000 0 []
    = .ok ([("a", 750), ("b", 250)], 1000) := by decide +kernel

/-- epoch bucket payout: an eligible provider's amount is its share of the eligible units times the
    bucket, up to one base unit plus 10^-18 of the bucket -/
theorem bucket_amount_pro_rata {u U B : Nat} {sh a : Dec} (hU : 0 < U)
    (h1 : (Dec.ofNat u).quo (Dec.ofNat U) = .ok sh) (h2 : sh.mulInt B = .ok a) :
    ((a.truncateInt.toNat : Nat) : ℚ) ≤ (u : ℚ) / U * B + (B : ℚ) / P ∧
    (u : ℚ) / U * B - 1 - (B : ℚ) / P ≤ ((a.truncateInt.toNat : Nat) : ℚ) :=
  bucketAmount_bound hU h1 h2

/-- epoch bucket payout (fix F26): the amounts handed to the providers of one asset never add up to more
    than the bucket, for any number of providers and any raw amounts -/
theorem bucket_amounts_total_le (B : Nat) (raw : List (String × Nat)) :
    amtTotal (clampAmounts B raw) ≤ B :=
  clampAmounts_total_le B raw

/-- …the clamp never raises an amount, and it lowers the i-th amount by at most the total overshoot of the
    rounded shares over the bucket (so nobody is refused a whole reward for want of a few base units) -/
theorem bucket_amount_clamp_bounds (B : Nat) (raw : List (String × Nat)) (i : Nat) (h : i < raw.length)
    (h' : i < (clampAmounts B raw).length) :
    ((clampAmounts B raw)[i]'h').2 ≤ (raw[i]'h).2 ∧
    (raw[i]'h).2 ≤ ((clampAmounts B raw)[i]'h').2 + (amtTotal raw - B) :=
  ⟨(clampAmounts_le B raw).2 i h h', clampAmounts_ge B raw i h h'⟩

/-- **Epoch bucket payout, any number of providers (with fix F26).**  For the eligible providers `lps` of
    an asset (holding units) and a bucket B, the amounts `CalculateReward{Share,Amount}ForLiquidityProviders`
    compute add up to at most B, name the same providers in the same order, and the i-th provider's amount
    is within one base unit plus (n+1)·B·10⁻¹⁸ of its share u_i/U of the bucket — all n, all magnitudes. -/
theorem bucket_amounts_fair {lps : List (String × LP)} {B : Nat} {amts : List (String × Nat)}
    (hU : 0 < unitsSum lps) (h : rewardAmounts lps B = .ok amts) :
    amts.length = lps.length ∧ amtTotal amts ≤ B ∧
    ∀ i (h1 : i < lps.length) (h2 : i < amts.length),
      (amts[i]'h2).1 = (lps[i]'h1).1 ∧
      ((amts[i]'h2).2 : ℚ) ≤ ((lps[i]'h1).2.units : ℚ) / (unitsSum lps : ℚ) * B + (B : ℚ) / P ∧
      ((lps[i]'h1).2.units : ℚ) / (unitsSum lps : ℚ) * B - 1 - ((lps.length : ℚ) + 1) * ((B : ℚ) / P) ≤ ((amts[i]'h2).2 : ℚ) :=
  rewardAmounts_fair hU h

/- non-vacuity: six equal providers, bucket 6·10¹⁸ — every rounded share is 0.166666666666666667, the raw
   amounts overshoot the bucket by 12 base units, the last provider gets what is left instead of nothing -/
example : rewardAmounts [("a", ⟨"p", "a", 1, 0⟩), ("b", ⟨"p", "b", 1, 0⟩), ("c", ⟨"p", "c", 1, 0⟩),
      ("d", ⟨"p", "d", 1, 0⟩), ("e", ⟨"p", "e", 1, 0⟩), ("f", ⟨"p", "f", 1, 0⟩)] (6 * 10^18)
    = .ok [("a", 1000000000000000002), ("b", 1000000000000000002), ("c", 1000000000000000002),
           ("d", 1000000000000000002), ("e", 1000000000000000002), ("f", 999999999999999990)] := by
  decide +kernel

/- non-vacuity: a concrete distribution over three providers -/
example : collectProviderDistribution ⟨1000 * 10^18⟩ 3
    [⟨"p", "a", 1, 0⟩, ⟨"p", "b", 1, 0⟩, ⟨"p", "c", 1, 0⟩] = .ok ([("a", 333), ("b", 333), ("c", 333)], 999) := by
  decide +kernel

end Sif.Props.C18
