import Sif.Proofs.C04
import Sif.Proofs.C04Add
import Sif.Proofs.C04Remove
import Sif.Proofs.C04RemoveBps
import Sif.Proofs.C04Sym
import Sif.Spec.C04
import Sif.Model.Clp.Units
/-
  C04 — No free value.  Property theorems only.
-/
namespace Sif.Props.C04
open Sif Sif.Clp Sif.Spec.C04

/-- **Clause 1 (full).**  Swapping a token for another and immediately swapping the proceeds back
    in the pool as it then stands never returns more than was sent: for all depths, amounts, fee
    rates of both legs and every ratio-shifting rate r ≥ 0. -/
theorem swap_roundtrip_le {t : Bool} {X x Y : Nat} {r f1 f2 : Dec} {y fee1 x' fee2 : Nat}
    (hr : 0 ≤ r.i) (hy : y < Y)
    (h1 : calcSwapResult t X x Y r f1 = .ok (y, fee1))
    (h2 : calcSwapResult (!t) (Y - y) y (X + x) r f2 = .ok (x', fee2)) : swapBackOK x x' = true := by
  unfold swapBackOK
  simpa using Sif.Clp.swap_roundtrip_le hr hy h1 h2

/-- **Clause 4, swaps (full).**  With ratio shifting off a swap never lowers the product of the two
    depths, and it leaves the pool units untouched — so it never lowers the backing per unit. -/
theorem swap_backing_nondecreasing {t : Bool} {X x Y : Nat} {f : Dec} {y fee : Nat}
    (hy : y ≤ Y) (h : calcSwapResult t X x Y ⟨0⟩ f = .ok (y, fee)) : X * Y ≤ (X + x) * (Y - y) :=
  swap_k_nondecreasing hy h

/-- full statement of clauses 2 and 3 (not proved yet; judged on implementation round trips): add
    (n, e) to a pool (P, R, A) with both sides non-empty, immediately remove the units received -/
def addRemove_Statement : Prop :=
  ∀ (P R A n e : Nat) (fS fB r : Dec) (u : UnitsRes) (n' e' left : Nat),
    0 ≤ r.i → r.i ≤ Dec.P → 0 ≤ fS.i → fS.i ≤ Dec.P → 0 ≤ fB.i → fB.i ≤ Dec.P → R ≠ 0 → A ≠ 0 →
    calculatePoolUnits P R A n e fS fB r = .ok (some u) →
    calculateWithdrawalFromUnits u.poolUnits (R + n) (A + e) u.lpUnits u.lpUnits = .ok (n', e', left) →
    addRemoveOK r fS fB R A n e n' e' = true

/-- **Clauses 2 and 3, symmetric additions (partial: the asymmetric branches go through the
    square-root swap amount and are judged on the implementation only).**  Adding (n, e) in the pool's
    own ratio and immediately removing the units received returns at most n + dust and e + dust — for
    every pool, every fee and ratio-shifting setting. -/
theorem addRemove_symmetric_partial {P R A n e : Nat} {fS fB r : Dec} {u : UnitsRes} {n' e' left : Nat}
    (hR : R ≠ 0) (hs : symmetryState A e R n = .symmetric)
    (h : calculatePoolUnits P R A n e fS fB r = .ok (some u))
    (hw : calculateWithdrawalFromUnits u.poolUnits (R + n) (A + e) u.lpUnits u.lpUnits = .ok (n', e', left)) :
    addRemoveOK r fS fB R A n e n' e' = true :=
  Sif.Clp.addRemove_symmetric hR hs h hw

/-- full statement of clause 4 for liquidity messages with ratio shifting off (not proved yet;
    judged on every implementation message): an add never lowers the backing per unit -/
def backing_add_Statement : Prop :=
  ∀ (P R A n e : Nat) (fS fB : Dec) (u : UnitsRes),
    0 ≤ fS.i → fS.i ≤ Dec.P → 0 ≤ fB.i → fB.i ≤ Dec.P → R ≠ 0 → A ≠ 0 →
    calculatePoolUnits P R A n e fS fB ⟨0⟩ = .ok (some u) →
    backingOK R A P (R + n) (A + e) u.poolUnits = true

/-- **Clause 4, liquidity additions without internal swap (partial: the two asymmetric branches,
    which go through the square-root swap amount, are judged on the implementation only).**  For
    every pool and every fee/ratio-shift setting, a symmetric addition (or an addition of nothing)
    never lowers the backing per unit — exactly, with no dust. -/
theorem backing_add_noswap_partial {P R A n e : Nat} {fS fB p : Dec} {u : UnitsRes}
    (hR : R ≠ 0) (hA : A ≠ 0)
    (hY : symmetryState A e R n ≠ .needMoreY) (hX : symmetryState A e R n ≠ .needMoreX)
    (h : calculatePoolUnits P R A n e fS fB p = .ok (some u)) :
    backingOK R A P (R + n) (A + e) u.poolUnits = true :=
  Sif.Clp.backing_add_noswap hR hA hY hX h

/-- **Clause 4, removals by units (full for this message).**  Removing `w` of the pool's `P` units
    (payouts as computed by `CalculateWithdrawalFromUnits`, which the handler refuses unless they are
    below the depths) never lowers the backing per unit by more than the rounding dust — every pool,
    every magnitude. -/
theorem backing_removeUnits {Pu nD eD lu w n e left : Nat} (hw : 0 < w) (hwP : w ≤ Pu)
    (hn : n ≤ nD) (he : e ≤ eD)
    (h : calculateWithdrawalFromUnits Pu nD eD lu w = .ok (n, e, left)) :
    backingOK nD eD Pu (nD - n) (eD - e) (Pu - w) = true :=
  Sif.Clp.backing_removeUnits hw hwP hn he h

/-- **Clause 4, removals by basis points (full for this message).**  `RemoveLiquidity` with
    0 < w ≤ 10000 basis points burns `lu − left` units; the backing per unit of the pool that remains
    does not drop by more than the rounding dust — every pool with units, every magnitude. -/
theorem backing_removeBps {Pu nD eD lu w n e left : Nat} (hPu0 : 0 < Pu) (hw0 : 0 < w) (hw : w ≤ 10000)
    (hlu : lu ≤ Pu) (hn : n ≤ nD) (he : e ≤ eD)
    (h : calculateWithdrawal Pu nD eD lu w = .ok (n, e, left)) :
    backingOK nD eD Pu (nD - n) (eD - e) (Pu - (lu - left)) = true :=
  Sif.Clp.backing_removeBps hPu0 hw0 hw hlu hn he h

/- non-vacuity: a removal whose quotients are rounded -/
example : calculateWithdrawalFromUnits 3000000000000000007 1000000000000000001 2000000000000000003 3000000000000000007 1000000000000000000
    = .ok (333333333333333333, 666666666666666666, 2000000000000000007) := by decide +kernel

/- non-vacuity: a symmetric addition with a rounded-down unit quotient -/
example : symmetryState 2000003 2000003 1000001 1000001 = .symmetric := by decide
example : calculatePoolUnits 777 1000001 2000003 1000001 2000003 ⟨0⟩ ⟨0⟩ ⟨0⟩ = .ok (some ⟨1554, 777, .noSwap, 0⟩) := by decide +kernel

/- non-vacuity of clause 1: a concrete there-and-back swap -/
example : calcSwapResult false 1000000 1000 2000000 ⟨10^17⟩ ⟨3 * 10^15⟩ = .ok (2191, 6) := by decide +kernel
example : calcSwapResult true (2000000 - 2191) 2191 (1000000 + 1000) ⟨10^17⟩ ⟨3 * 10^15⟩ = .ok (994, 2) := by decide +kernel

end Sif.Props.C04
