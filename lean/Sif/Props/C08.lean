import Sif.Proofs.C08
/-
  C08 — Privileged messages have no effect unless signed by the matching admin role.
  Property theorems only.

  Three layers:
  1. generic (any state type, any statements, any body): a handler whose guard comes before every
     write cannot change state for a signer the guard refuses — at keeper level, without any
     transaction wrapper; and inside DeliverTx even a handler that writes first cannot, provided the
     refusal returns a non-nil error;
  2. the role table of x/admin: holding is exact membership of (role, address); roles do not leak;
     a removal (and a grant) is in force for the very next message; for all tables and histories;
  3. the table: by `decide` over the records the extractor regenerates from the six msg servers on
     every run — each of the 30 privileged handlers has its guard first, the expected store and
     role, checks the very field GetSigners() returns, and refuses with a non-nil error; any other
     handler that contains an authorisation call must satisfy the same; handlers without one are free.
-/
namespace Sif.Props.C08
open Sif.Auth Sif.AuthTypes Sif.Spec.C08

/-! ### 1. generic: guard before writes ⇒ a refused signer changes nothing -/

/-- keeper level (no rollback at all): if the statements before the guard are all pure/reads, and
    the failing branch returns an error, then for a state in which the guard refuses the signer
    the handler returns an error and the state is *identical*. -/
theorem guard_first_no_effect {σ} (a : AbsHandler σ) (h : Handler) (hc : Conforms a h)
    (hg : guardFirst h = true) (hf : h.failReturnsError = true) (s : σ) (hno : a.guard s = false) :
    a.run s = (s, .err) := by
  obtain ⟨hpre, hfe⟩ := hc
  unfold guardFirst at hg
  simp only [Bool.and_eq_true] at hg
  have hs := execPre_harmless a.pre s (by rw [hpre]; exact hg.2)
  unfold AbsHandler.run
  cases he : execPre a.pre s with
  | mk s1 reached =>
    rw [he] at hs
    simp only at hs
    subst hs
    cases reached with
    | false => rfl
    | true => simp [hno, hfe, hf]

/-- inside DeliverTx (message writes kept only on nil error): whatever the handler did before its
    guard, a refusal that returns an error leaves the state as it was. -/
theorem refused_no_effect_delivered {σ} (a : AbsHandler σ) (hf : a.failErr = true) (s : σ)
    (hno : ∀ s1, a.guard s1 = false) : a.deliver s = (s, .err) := by
  unfold AbsHandler.deliver AbsHandler.run
  cases he : execPre a.pre s with
  | mk s1 reached =>
    cases reached with
    | false => rfl
    | true => simp [hno s1, hf]

/-- …and why `failReturnsError` matters: with `return nil` on the failing branch the message is
    *accepted* (negative witness on a one-statement handler). -/
example : (AbsHandler.run (σ := Nat) ⟨[], fun _ => false, false, fun s => (s + 1, .ok)⟩ 0).2 = .ok := by decide

/-- …and why `guardFirst` matters at keeper level: a write before the guard survives the refusal. -/
example : (AbsHandler.run (σ := Nat) ⟨[.write (· + 1)], fun _ => false, true, fun s => (s, .ok)⟩ 0) = (1, .err) := by decide

/-- non-vacuity of `guard_first_no_effect`: a conforming abstract handler for the generated record
    of margin.UpdateParams exists, and its guard can refuse. -/
example : ∃ h, findHandler "margin" "UpdateParams" = some h ∧ guardFirst h = true ∧ h.failReturnsError = true ∧
    Conforms (σ := Nat) ⟨h.pre.map (fun _ => Stmt.pure true), fun s => s == 7, h.failReturnsError, fun s => (s + 1, .ok)⟩
      { h with pre := h.pre.map (fun _ => StmtKind.pure) } := by
  refine ⟨_, rfl, by decide, by decide, ?_, rfl⟩
  simp [Stmt.kind]

/-! ### 2. the role table -/

/-- holding a role is exact membership of the pair (role, address) -/
theorem holds_admin_iff (st : AuthState) (r : Role) (a : Addr) :
    holds st .admin r a = true ↔ (r, a) ∈ st.admin := by
  unfold holds; exact isAdmin_iff _ _ _

/-- **roles_do_not_leak**: an address all of whose entries carry roles other than `r` does not pass
    a guard for `r` — whatever else the table contains for other addresses or roles. -/
theorem roles_do_not_leak (st : AuthState) (r : Role) (a : Addr)
    (h : ∀ r', (r', a) ∈ st.admin → r' ≠ r) : holds st .admin r a = false := by
  cases hh : holds st .admin r a with
  | false => rfl
  | true => exact absurd rfl (h r ((holds_admin_iff st r a).mp hh))

/-- **unset_admin_authorises_nobody**: with no oracle admin stored (the default oracle genesis; no message
    can set it later) nobody passes the guard of the three oracle-admin handlers (UpdateWhiteListValidator,
    UpdateCethReceiverAccount, RescueCeth) — whatever admin roles the signer holds -/
theorem unset_admin_authorises_nobody (t : AdminTable) (w : Option (List Addr)) (role : Role) (a : Addr) :
    holds ⟨t, none, w⟩ .oracle role a = false := rfl

/-- the same for the clp decommission whitelist when its key is absent -/
theorem absent_whitelist_authorises_nobody (t : AdminTable) (o : Option Addr) (role : Role) (a : Addr) :
    holds ⟨t, o, none⟩ .clpWhitelist role a = false := rfl

/-- the other two stores are single-purpose: the admin table never satisfies them -/
theorem stores_do_not_leak (t : AdminTable) (a : Addr) (role : Role) :
    holds ⟨t, none, none⟩ .oracle role a = false ∧ holds ⟨t, none, none⟩ .clpWhitelist role a = false := by
  constructor <;> rfl

/-- **removal_immediate**: right after `RemoveAccount (r, a)` a guard for `r` refuses `a` -/
theorem removal_immediate (st : AuthState) (r : Role) (a : Addr) :
    holds { st with admin := st.admin.remove (r, a) } .admin r a = false := by
  cases hh : holds { st with admin := st.admin.remove (r, a) } .admin r a with
  | false => rfl
  | true =>
    have := (holds_admin_iff _ r a).mp hh
    simp only [mem_remove] at this
    exact absurd rfl this.1

/-- the same with spellings: the table is keyed by the string it was given, the guard compares the
    stored strings with the signer's canonical string `c`.  If every entry of role `r` that matches `c`
    is spelled `raw`, removing `(r, raw)`
    makes the guard refuse `c`. -/
theorem removal_immediate_spelled (st : AuthState) (r : Role) (raw c : Addr)
    (h : ∀ a', (r, a') ∈ st.admin → a' = c → a' = raw) :
    holds { st with admin := st.admin.remove (r, raw) } .admin r c = false := by
  cases hh : holds { st with admin := st.admin.remove (r, raw) } .admin r c with
  | false => rfl
  | true =>
    have hm := (holds_admin_iff _ r c).mp hh
    simp only [mem_remove] at hm
    have := h c hm.2 rfl
    exact absurd (by rw [this]) hm.1

/-- …and the quirk of the code as it is, as a decided witness: an entry granted in one spelling
    survives a removal that names the account in another spelling (recorded under UNPROVED). -/
example : holds ⟨(AdminTable.remove [("MARGIN", "sif1abc")] ("MARGIN", "SIF1ABC")), none, none⟩ .admin "MARGIN" "sif1abc" = true := by
  decide

/-- a removal touches nobody else -/
theorem removal_exact (st : AuthState) (k : Role × Addr) (r : Role) (a : Addr) (hne : (r, a) ≠ k) :
    holds { st with admin := st.admin.remove k } .admin r a = holds st .admin r a := by
  rw [Bool.eq_iff_iff, holds_admin_iff, holds_admin_iff]
  simp only [mem_remove]
  tauto

/-- a grant is in force for the next message and grants nothing else -/
theorem grant_immediate (st : AuthState) (r : Role) (a : Addr) :
    holds { st with admin := st.admin.add (r, a) } .admin r a = true := by
  rw [holds_admin_iff]; exact (mem_add _ _ _).mpr (Or.inl rfl)

theorem grant_exact (st : AuthState) (k : Role × Addr) (r : Role) (a : Addr) (hne : (r, a) ≠ k) :
    holds { st with admin := st.admin.add k } .admin r a = holds st .admin r a := by
  rw [Bool.eq_iff_iff, holds_admin_iff, holds_admin_iff]
  simp only [mem_add]
  tauto

/-- over whole histories of the matrix: a message of an unauthorised signer leaves all three role
    stores as they were and is refused; in particular only ADMIN holders can ever change the table -/
theorem step_refuses_unauthorised (v : Bool) (st : AuthState) (h : Handler) (signer : Addr) (p : Option Payload)
    (hno : holds st h.store h.role signer = false) : stepMsgV v st h signer p = (st, .err) := by
  unfold stepMsgV; simp [hno]

/-- and in the matrix model: such a message is refused and nothing changes, for every one of the three
    handlers the specification guards by the oracle admin -/
theorem unset_admin_refuses (t : AdminTable) (w : Option (List Addr)) (name : String) (signer : Addr) (p : Option Payload)
    (hn : name = "UpdateWhiteListValidator" ∨ name = "UpdateCethReceiverAccount" ∨ name = "RescueCeth") :
    stepMsg ⟨t, none, w⟩ (specHandler "ethbridge" name) signer p = (⟨t, none, w⟩, .err) := by
  rcases hn with rfl | rfl | rfl <;>
    (unfold stepMsg; exact step_refuses_unauthorised _ _ _ _ _ rfl)

/-- the two table messages validate the spelling of the account  [fails without the F24 repair] -/
theorem table_messages_validate_spelling :
    validatesSpelling "AddAccount" = true ∧ validatesSpelling "RemoveAccount" = true := by decide

/-- the model's `holds` for the admin store is the code's: `IsAdminAccount` compares the stored string
    with the signer's canonical string by string equality (so an entry imported by genesis in another
    spelling is never recognised — and never needs revoking), and genesis entries are stored verbatim
    [fails when the lookup starts to decode the stored spellings] -/
theorem admin_lookup_is_string_equality :
    Sif.Generated.Auth.adminCompare = "stringEq" ∧ Sif.Generated.Auth.adminGenesisVerbatim = some true := by
  decide

/-- every accepted grant names the account in its canonical spelling: the table only ever receives
    canonical strings through messages -/
theorem accepted_grant_is_canonical (st : AuthState) (h : Handler) (hh : h.module = "admin" ∧ h.name = "AddAccount")
    (signer : Addr) (p : Payload) (hacc : (stepMsg st h signer (some p)).2 = .ok) : p.canon = some p.addr := by
  unfold stepMsg stepMsgV at hacc
  rw [hh.2, table_messages_validate_spelling.1] at hacc
  split at hacc
  · rename_i hc
    simp only [Bool.and_eq_true, payloadOK, isTableMsg, hh.1, hh.2] at hc
    simpa [Payload.canonical] using hc.2
  · cases hacc

/-- **removal_immediate**, without any restriction on spellings (F24): after an ACCEPTED
    `RemoveAccount (r, spelling)`, the account that spelling denotes — whose `String()` is `c` — is refused
    by the very next message to any handler guarded by role `r` of the admin store, whatever the table
    held and under whichever spellings. -/
theorem removal_then_refused (st : AuthState) (rm h : Handler) (admin : Addr) (p : Payload) (c : Addr)
    (hrm : rm.module = "admin" ∧ rm.name = "RemoveAccount") (hh : h.store = .admin ∧ h.role = p.role)
    (hc : p.canon = some c)
    (hacc : (stepMsg st rm admin (some p)).2 = .ok) (q : Option Payload) :
    (stepMsg (stepMsg st rm admin (some p)).1 h c q).2 = .err := by
  unfold stepMsg stepMsgV at hacc
  rw [hrm.2, table_messages_validate_spelling.2] at hacc
  by_cases hA : (holds st rm.store rm.role admin && payloadOK true rm.module "RemoveAccount" (some p)) = true
  · have hcan : p.addr = c := by
      simp only [Bool.and_eq_true, payloadOK, isTableMsg, hrm.1] at hA
      have := hA.2
      simp [Payload.canonical, hc] at this
      exact this.symm
    have hs : stepMsg st rm admin (some p) = ({ st with admin := st.admin.remove (p.role, p.addr) }, .ok) := by
      unfold stepMsg stepMsgV
      rw [hrm.2, table_messages_validate_spelling.2, if_pos hA]; simp [applyAdminMsg, hrm.1]
    rw [hs]
    have hno : holds { st with admin := st.admin.remove (p.role, p.addr) } h.store h.role c = false := by
      rw [hh.1, hh.2, hcan]; exact removal_immediate st p.role c
    unfold stepMsg
    rw [step_refuses_unauthorised _ _ h c q hno]
  · rw [if_neg hA] at hacc; cases hacc

/-- a message is accepted only if its signer holds what the guard asks for, in the table as it is -/
theorem accepted_only_if_holds (v : Bool) (st : AuthState) (h : Handler) (signer : Addr) (p : Option Payload)
    (hacc : (stepMsgV v st h signer p).2 = .ok) : holds st h.store h.role signer = true := by
  unfold stepMsgV at hacc
  split at hacc
  · rename_i hc; simp only [Bool.and_eq_true] at hc; exact hc.1
  · cases hacc

/-- a failed transaction changes nothing, whatever its earlier messages did on the branch (so a grant
    made by a transaction that later fails authorises nobody afterwards) -/
theorem failed_tx_changes_nothing (spec : String → String → Handler) (st0 : AuthState) :
    ∀ (ms : List TxMsg) (st : AuthState), (stepTxFrom spec st0 st ms).2 = .err → (stepTxFrom spec st0 st ms).1 = st0
  | [], st, h => by simp [stepTxFrom] at h
  | m :: ms, st, h => by
    unfold stepTxFrom at h ⊢
    cases hs : stepMsg st (spec m.module m.name) m.signer m.payload with
    | mk st' o =>
      cases o with
      | ok => simp only [hs] at h ⊢; exact failed_tx_changes_nothing spec st0 ms st' h
      | err => rfl

/-- a simulated transaction changes nothing -/
theorem simulation_changes_nothing (spec : String → String → Handler) (st : AuthState) (ms : List TxMsg) :
    (stepSim spec st ms).1 = st := rfl

/-! ### 3. the table, over the regenerated records -/

/-- the six MsgServer interfaces still have the methods the records were made from (none was lost
    by the extractor: an interface method without implementation would be `unknown`) -/
theorem all_methods_classified :
    Sif.Generated.Auth.handlers.all (fun h => h.store != .unknown) = true := by decide

/-- **the 30 privileged handlers**: each exists, consults the expected store with the expected role,
    has its guard before any write on every path, checks the field GetSigners() returns, and refuses
    with a non-nil error -/
theorem privileged_handlers_guarded :
    expected.all (fun e => Sif.Generated.Auth.handlers.any (fun h =>
      h.module == e.1 && h.name == e.2.1 && h.store == e.2.2.1 && h.role == e.2.2.2 && rowOK h)) = true := by
  decide

/-- any handler (the 30 or a new one) that contains an authorisation call meets the same demands;
    handlers without one are not constrained -/
theorem every_auth_call_is_a_proper_guard :
    Sif.Generated.Auth.handlers.all (fun h => (h.store == .none && h.authCalls == 0) || rowOK h) = true := by
  decide

/-- consequence for every generated record with an authorisation call: the generic theorem applies -/
theorem generated_guarded_no_effect {σ} (h : Handler) (hm : h ∈ Sif.Generated.Auth.handlers)
    (hauth : h.store ≠ .none) (a : AbsHandler σ) (hc : Conforms a h) (s : σ) (hno : a.guard s = false) :
    a.run s = (s, .err) := by
  have := (List.all_eq_true.mp every_auth_call_is_a_proper_guard) h hm
  simp only [Bool.or_eq_true, Bool.and_eq_true, beq_iff_eq] at this
  rcases this with ⟨h1, _⟩ | h2
  · exact absurd h1 hauth
  · unfold rowOK at h2
    simp only [Bool.and_eq_true] at h2
    exact guard_first_no_effect a h hc h2.1.1.1.1.1.1 h2.1.1.1.1.1.2 s hno

/-- non-vacuity: the table is populated (46 methods, 30 with a guard) -/
example : Sif.Generated.Auth.handlers.length = 46 ∧
    (Sif.Generated.Auth.handlers.filter (fun h => h.store != .none)).length = 30 := by decide

end Sif.Props.C08
