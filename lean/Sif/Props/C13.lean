import Sif.Proofs.C13Forced
import Sif.Generated.MarginKeys
import Sif.Generated.MarginParams
import Sif.Proofs.C13Examples
/-
  C13 — margin positions agree with pool totals and are liquidated only when unhealthy.
  Property theorems only (helper lemmas live in Sif/Proofs/C13*.lean).

  The model (Sif/Model/Margin*.lean) follows /repo's working tree, i.e. the *repaired* code
  (`Fixes.repaired`: fixes/F14.diff, fixes/F14b.diff, fixes/F14c.diff applied).  The theorems are
  about that code; `pinned_*` are kernel-checked witnesses that each repair is needed.

  Quantifiers: every state satisfying the two decidable invariants `WF` (store well-formedness) and
  `MarginOK`, every message, every signer, every amount, every leverage, every parameter setting,
  every interest rate handed to the BeginBlocker, every history — no bounds.  The only numeric
  hypothesis is that the 64-bit id counter does not wrap.
-/
namespace Sif.Props.C13
open Sif Sif.Margin Sif.Spec.C13

/-- A refused message (any error exit, any panic) changes nothing: DeliverTx discards the branch. -/
theorem refused_changes_nothing (fx : Fixes) (s : State) (m : Msg) (e : Err)
    (h : handle fx s m = .error e) : deliver fx s m = s := by
  unfold deliver; rw [h]

/-- **Open preserves MarginOK** (and the auxiliary invariant), on success and on every error exit —
    including the exits after `Borrow` and `TakeInCustody` have written. -/
theorem open_preserves (s : State) (m : MsgOpen) (hwf : WF s = true) (hok : MarginOK s = true)
    (hcnt : s.mtpCount + 1 < u64) :
    WF (deliver Fixes.repaired s (.open m)) = true ∧ MarginOK (deliver Fixes.repaired s (.open m)) = true := by
  have := step_inv (s := s) (.msg (.open m)) ((MarginOK_iff s).mp hok) ((WF_iff s).mp hwf) (by simp [opens]; omega)
  exact ⟨(WF_iff _).mpr this.2.1, (MarginOK_iff _).mpr this.1⟩

/-- **Close preserves MarginOK**, whether or not it pays pro-rated interest first. -/
theorem close_preserves (s : State) (a : Addr) (id : Nat) (hwf : WF s = true) (hok : MarginOK s = true) :
    WF (deliver Fixes.repaired s (.close a id)) = true ∧ MarginOK (deliver Fixes.repaired s (.close a id)) = true := by
  have := step_inv (s := s) (.msg (.close a id)) ((MarginOK_iff s).mp hok) ((WF_iff s).mp hwf)
    (by have := ((WF_iff s).mp hwf).cnt; simp [opens]; omega)
  exact ⟨(WF_iff _).mpr this.2.1, (MarginOK_iff _).mpr this.1⟩

/-- **AdminClose preserves MarginOK** -/
theorem adminClose_preserves (s : State) (sg a : Addr) (id : Nat) (t : Bool) (hwf : WF s = true) (hok : MarginOK s = true) :
    WF (deliver Fixes.repaired s (.adminClose sg a id t)) = true ∧
      MarginOK (deliver Fixes.repaired s (.adminClose sg a id t)) = true := by
  have := step_inv (s := s) (.msg (.adminClose sg a id t)) ((MarginOK_iff s).mp hok) ((WF_iff s).mp hwf)
    (by have := ((WF_iff s).mp hwf).cnt; simp [opens]; omega)
  exact ⟨(WF_iff _).mpr this.2.1, (MarginOK_iff _).mpr this.1⟩

/-- **ForceClose (deprecated message) preserves MarginOK** -/
theorem forceClose_preserves (s : State) (sg a : Addr) (id : Nat) (hwf : WF s = true) (hok : MarginOK s = true) :
    WF (deliver Fixes.repaired s (.forceClose sg a id)) = true ∧
      MarginOK (deliver Fixes.repaired s (.forceClose sg a id)) = true := by
  have := step_inv (s := s) (.msg (.forceClose sg a id)) ((MarginOK_iff s).mp hok) ((WF_iff s).mp hwf)
    (by have := ((WF_iff s).mp hwf).cnt; simp [opens]; omega)
  exact ⟨(WF_iff _).mpr this.2.1, (MarginOK_iff _).mpr this.1⟩

/-- **The BeginBlocker preserves MarginOK**: BeginBlock is not atomic and the per-position processing
    swallows errors and panics, yet every exit of it — after every partial sequence of `SetPool` /
    `SetMTP` / bank transfers — leaves the invariant intact, for every interest rate. -/
theorem beginBlocker_preserves (s s' : State) (rates : Asset → Option Dec) (hwf : WF s = true) (hok : MarginOK s = true)
    (h : beginBlocker Fixes.repaired s rates = .ok s') : WF s' = true ∧ MarginOK s' = true := by
  have := beginBlocker_inv (fx := Fixes.repaired) rfl rfl ((MarginOK_iff s).mp hok) ((WF_iff s).mp hwf) h
  exact ⟨(WF_iff _).mpr this.2.1, (MarginOK_iff _).mpr this.1⟩

/-- **Every reachable state satisfies MarginOK**: any history of messages, BeginBlockers (with any
    rates) and environment changes (parameters, roles, every bank balance, the height, pool balances
    moved by swaps and liquidity changes). -/
theorem reachable_marginOK (s : State) (ops : List Op) (hwf : WF s = true) (hok : MarginOK s = true)
    (hcnt : s.mtpCount + opens ops < u64) :
    WF (run Fixes.repaired s ops) = true ∧ MarginOK (run Fixes.repaired s ops) = true := by
  have := run_inv ops s ((MarginOK_iff s).mp hok) ((WF_iff s).mp hwf) hcnt
  exact ⟨(WF_iff _).mpr this.2, (MarginOK_iff _).mpr this.1⟩

/-- **A closed position disappears completely** (Close). -/
theorem closed_disappears (s s' : State) (a : Addr) (id : Nat) (hwf : WF s = true) (hok : MarginOK s = true)
    (h : handle Fixes.repaired s (.close a id) = .ok s') : getMtpL s'.mtps (a, id) = none := by
  simp only [handle] at h
  cases hc : closeMsg Fixes.repaired s a id with
  | ok r =>
    rw [hc] at h; simp [Except.map] at h; rw [← h]
    exact (closeMsg_good (fx := Fixes.repaired) rfl ((MarginOK_iff s).mp hok) ((WF_iff s).mp hwf) hc).2.2.1
  | error e => rw [hc] at h; simp [Except.map] at h

/-- …and so does a position closed by an administrator. -/
theorem adminClosed_disappears (s s' : State) (sg a : Addr) (id : Nat) (t : Bool) (hwf : WF s = true) (hok : MarginOK s = true)
    (h : handle Fixes.repaired s (.adminClose sg a id t) = .ok s') : getMtpL s'.mtps (a, id) = none := by
  simp only [handle] at h
  cases hc : adminCloseMsg Fixes.repaired s sg a id t with
  | ok r =>
    rw [hc] at h; simp [Except.map] at h; rw [← h]
    exact (adminCloseMsg_good (fx := Fixes.repaired) rfl ((MarginOK_iff s).mp hok) ((WF_iff s).mp hwf) hc).2.2.1
  | error e => rw [hc] at h; simp [Except.map] at h

/-- **Only the owner or an administrator removes a position by message**: if a stored position is
    gone after a message, the message was a Close signed by the position's own address, or an
    AdminClose / ForceClose whose signer holds the margin administrator role. -/
theorem only_owner_or_admin_closes (s : State) (msg : Msg) (k : Key) (m : Mtp) (hwf : WF s = true) (hok : MarginOK s = true)
    (hcnt : s.mtpCount + 1 < u64) (hm : getMtpL s.mtps k = some m)
    (hgone : getMtpL (deliver Fixes.repaired s msg).mtps k = none) :
    msg = .close k.1 k.2 ∨
    (∃ sg t, msg = .adminClose sg k.1 k.2 t ∧ s.admins.contains sg = true) ∨
    (∃ sg, msg = .forceClose sg k.1 k.2 ∧ s.admins.contains sg = true) := by
  have hOK := (MarginOK_iff s).mp hok
  have hWF := (WF_iff s).mp hwf
  have unchanged : getMtpL s.mtps k ≠ none := by rw [hm]; simp
  cases msg with
  | «open» mo =>
    exfalso
    simp only [deliver, handle] at hgone
    cases h : openMsg Fixes.repaired s mo with
    | ok w =>
      rw [h] at hgone; simp only [Except.map] at hgone
      obtain ⟨_, _, hself, _, _, _, _, hfr⟩ := openMsg_good (fx := Fixes.repaired) rfl hOK hWF hcnt h
      by_cases hk : k = w.mtp.key
      · rw [hk, hself] at hgone; cases hgone
      · rw [hfr k hk] at hgone; exact unchanged hgone
    | error e => rw [h] at hgone; simp only [Except.map] at hgone; exact unchanged hgone
  | close a id =>
    simp only [deliver, handle] at hgone
    cases h : closeMsg Fixes.repaired s a id with
    | ok r =>
      rw [h] at hgone; simp only [Except.map] at hgone
      obtain ⟨_, _, _, _, hfr, _⟩ := closeMsg_good (fx := Fixes.repaired) rfl hOK hWF h
      by_cases hk : k = (a, id)
      · left; rw [hk]
      · exfalso; rw [hfr k hk] at hgone; exact unchanged hgone
    | error e => exfalso; rw [h] at hgone; simp only [Except.map] at hgone; exact unchanged hgone
  | adminClose sg a id t =>
    simp only [deliver, handle] at hgone
    cases h : adminCloseMsg Fixes.repaired s sg a id t with
    | ok r =>
      rw [h] at hgone; simp only [Except.map] at hgone
      obtain ⟨_, _, _, hadm, _, hfr, _⟩ := adminCloseMsg_good (fx := Fixes.repaired) rfl hOK hWF h
      by_cases hk : k = (a, id)
      · right; left; exact ⟨sg, t, by rw [hk], hadm⟩
      · exfalso; rw [hfr k hk] at hgone; exact unchanged hgone
    | error e => exfalso; rw [h] at hgone; simp only [Except.map] at hgone; exact unchanged hgone
  | forceClose sg a id =>
    simp only [deliver, handle] at hgone
    cases h : adminCloseMsg Fixes.repaired s sg a id false with
    | ok r =>
      rw [h] at hgone; simp only [Except.map] at hgone
      obtain ⟨_, _, _, hadm, _, hfr, _⟩ := adminCloseMsg_good (fx := Fixes.repaired) rfl hOK hWF h
      by_cases hk : k = (a, id)
      · right; right; exact ⟨sg, by rw [hk], hadm⟩
      · exfalso; rw [hfr k hk] at hgone; exact unchanged hgone
    | error e => exfalso; rw [h] at hgone; simp only [Except.map] at hgone; exact unchanged hgone

/-- **A position can be opened only if its health then exceeds the safety factor**: after a
    successful Open the new position is stored under (signer, next id), its pool is stored, and the
    health the chain computes for the stored position in the stored pool is above the safety factor. -/
theorem open_requires_health (s s' : State) (m : MsgOpen) (hwf : WF s = true) (hok : MarginOK s = true)
    (hcnt : s.mtpCount + 1 < u64) (h : handle Fixes.repaired s (.open m) = .ok s') :
    openHealthOK s' m.signer (s.mtpCount + 1) = true := by
  simp only [handle] at h
  cases hc : openMsg Fixes.repaired s m with
  | ok w =>
    rw [hc] at h; simp [Except.map] at h
    obtain ⟨_, _, hself, hpool, ⟨lr, hlr, hgt⟩, hkey, _, _⟩ :=
      openMsg_good (fx := Fixes.repaired) rfl ((MarginOK_iff s).mp hok) ((WF_iff s).mp hwf) hcnt hc
    rw [← h]
    unfold openHealthOK
    rw [← hkey, hself]
    simp only [hpool]
    unfold healthAbove healthOf
    rw [hlr]
    simp only [decide_eq_true_eq]
    exact hgt
  | error e => rw [hc] at h; simp [Except.map] at h

/-- **Opening takes exactly the stated collateral from the trader**: after a successful Open the bank
    differs from the one before in exactly two entries — the signer's balance of the collateral
    asset went down by the stated amount and the clp module account's went up by it. -/
theorem open_takes_exactly (s s' : State) (m : MsgOpen) (hne : m.signer ≠ s.clp.clpAddr)
    (h : handle Fixes.repaired s (.open m) = .ok s') :
    m.collAmt ≤ s.bank.bal m.signer m.coll ∧
    ∀ a d, s'.bank.bal a d =
      if a = m.signer ∧ d = m.coll then s.bank.bal a d - m.collAmt
      else if a = s.clp.clpAddr ∧ d = m.coll then s.bank.bal a d + m.collAmt
      else s.bank.bal a d := by
  simp only [handle] at h
  cases hc : openMsg Fixes.repaired s m with
  | ok w =>
    rw [hc] at h; simp [Except.map] at h; rw [← h]
    have := accToMod_pointwise hne (openMsg_bank hc)
    exact ⟨this.1, this.2.2⟩
  | error e => rw [hc] at h; simp [Except.map] at h

/-- **Closing moves value only between the position, its pool, the trader and the fund addresses**:
    after a successful Close every bank balance outside {clp module, the closing trader, the
    force-close fund address, the interest fund address} is unchanged, parameters and roles are
    unchanged, every other position is unchanged, and at most one pool record changed. -/
theorem close_moves_only_between (s s' : State) (a : Addr) (id : Nat) (hwf : WF s = true) (hok : MarginOK s = true)
    (h : handle Fixes.repaired s (.close a id) = .ok s') :
    (∀ x d, x ∉ [s.clp.clpAddr, a, s.params.fcAddr, s.params.iipAddr] → s'.bank.bal x d = s.bank.bal x d) ∧
    s'.params = s.params ∧ s'.admins = s.admins ∧
    (∀ k, k ≠ (a, id) → getMtpL s'.mtps k = getMtpL s.mtps k) ∧
    (∃ sym, ∀ y, y ≠ sym → getPoolL s'.pools y = getPoolL s.pools y) := by
  simp only [handle] at h
  cases hc : closeMsg Fixes.repaired s a id with
  | ok r =>
    rw [hc] at h; simp [Except.map] at h; rw [← h]
    have hOK := (MarginOK_iff s).mp hok
    have hWF := (WF_iff s).mp hwf
    have mv := closeMsg_moves (fx := Fixes.repaired) rfl hOK hWF hc
    obtain ⟨_, _, _, _, hfr, hpf⟩ := closeMsg_good (fx := Fixes.repaired) rfl hOK hWF hc
    exact ⟨mv.bal, mv.params, mv.admins, hfr, hpf⟩
  | error e => rw [hc] at h; simp [Except.map] at h

/-- …and the same for a close by an administrator (with or without the fund cut). -/
theorem adminClose_moves_only_between (s s' : State) (sg a : Addr) (id : Nat) (t : Bool) (hwf : WF s = true) (hok : MarginOK s = true)
    (h : handle Fixes.repaired s (.adminClose sg a id t) = .ok s') :
    (∀ x d, x ∉ [s.clp.clpAddr, a, s.params.fcAddr, s.params.iipAddr] → s'.bank.bal x d = s.bank.bal x d) ∧
    s'.params = s.params ∧ s'.admins = s.admins ∧
    (∀ k, k ≠ (a, id) → getMtpL s'.mtps k = getMtpL s.mtps k) ∧
    (∃ sym, ∀ y, y ≠ sym → getPoolL s'.pools y = getPoolL s.pools y) := by
  simp only [handle] at h
  cases hc : adminCloseMsg Fixes.repaired s sg a id t with
  | ok r =>
    rw [hc] at h; simp [Except.map] at h; rw [← h]
    have hOK := (MarginOK_iff s).mp hok
    have hWF := (WF_iff s).mp hwf
    have mv := adminCloseMsg_moves (fx := Fixes.repaired) rfl hOK hWF hc
    obtain ⟨_, _, _, _, _, hfr, hpf⟩ := adminCloseMsg_good (fx := Fixes.repaired) rfl hOK hWF hc
    exact ⟨mv.bal, mv.params, mv.admins, hfr, hpf⟩
  | error e => rw [hc] at h; simp [Except.map] at h

/-- **Block processing force-closes a position only when its health is at or below the safety
    factor.**  `processMtp` is what the BeginBlocker does for one position at an epoch boundary, on
    the world it has at that moment (`syncedW`: the position as stored, the shared in-memory pool
    agreeing with the stored pool on the ledger).  If the position is gone afterwards, the health
    the chain computes for it in that world is not above the safety factor. -/
theorem forced_only_unhealthy (w : W) (hwf : WF w.s = true) (hok : MarginOK w.s = true) (hs : syncedW w = true)
    (h0 : w.s.epochPosition = 0)
    (hgone : getMtpL (processMtp Fixes.repaired w).s.mtps w.mtp.key = none) :
    healthAbove w.s w.mtp w.pool = false := by
  obtain ⟨h, hh, hle⟩ := processMtp_removed (fx := Fixes.repaired) rfl rfl (Good.of_synced hwf hok hs) h0 hgone
  unfold healthAbove healthOf
  rw [hh]
  simp only [decide_eq_false_iff_not]
  intro hlt
  have h1 : w.s.params.safetyFactor.i < h.i := hlt
  have h2 : h.i ≤ w.s.params.safetyFactor.i := hle
  omega

/-- **The same for the BeginBlocker as a whole**: a position that is stored before the BeginBlocker and
    missing after it was removed by the processing of that very position, at an epoch boundary, in a
    world `w` of the hook (invariants hold, position and pool synced) in which its health was not
    above the safety factor. -/
theorem beginBlocker_forces_only_unhealthy (s s' : State) (rates : Asset → Option Dec) (k : Key) (hwf : WF s = true)
    (hok : MarginOK s = true) (h : beginBlocker Fixes.repaired s rates = .ok s')
    (hstored : getMtpL s.mtps k ≠ none) (hgone : getMtpL s'.mtps k = none) :
    ∃ w : W, WF w.s = true ∧ MarginOK w.s = true ∧ w.mtp.key = k ∧ w.s.epochPosition = 0 ∧
      w.mtp.poolSym = w.pool.sym ∧
      getMtpL (processMtp Fixes.repaired w).s.mtps k = none ∧ healthAbove w.s w.mtp w.pool = false := by
  obtain ⟨w, hg, hk, h0, hrem⟩ := beginBlocker_removed (fx := Fixes.repaired) rfl rfl ((MarginOK_iff s).mp hok) ((WF_iff s).mp hwf) h hstored hgone
  refine ⟨w, (WF_iff _).mpr hg.wf, (MarginOK_iff _).mpr hg.ok, hk, h0, hg.home, hrem, ?_⟩
  obtain ⟨hh, hhe, hle⟩ := processMtp_removed (fx := Fixes.repaired) rfl rfl hg h0 (by rw [hk]; exact hrem)
  unfold healthAbove healthOf
  rw [hhe]
  simp only [decide_eq_false_iff_not]
  intro hlt
  have h1 : w.s.params.safetyFactor.i < hh.i := hlt
  have h2 : hh.i ≤ w.s.params.safetyFactor.i := hle
  omega

/-- …and a position that is not removed is still stored under its key: processing never loses one. -/
theorem processed_position_kept_or_liquidated (w : W) (hwf : WF w.s = true) (hok : MarginOK w.s = true) (hs : syncedW w = true)
    (h0 : w.s.epochPosition = 0) (habove : healthAbove w.s w.mtp w.pool = true) :
    getMtpL (processMtp Fixes.repaired w).s.mtps w.mtp.key ≠ none := by
  intro hgone
  have := forced_only_unhealthy w hwf hok hs h0 hgone
  rw [this] at habove
  cases habove

/-! ### tie 1: how the code selects "the positions of a pool" (facts regenerated from the source on every run) -/

/-- the model's `GetMTPsForPool` keeps exactly the stored positions whose custody or collateral asset
    *equals* the pool's symbol -/
theorem model_mtpsForPool_exact (s : State) (sym : Asset) (m : Mtp) :
    m ∈ mtpsForPool s sym ↔ m ∈ s.mtps ∧ (m.cust = sym ∨ m.coll = sym) := by
  unfold mtpsForPool
  simp [List.mem_filter]

/-- …and so does the code: `Keeper.GetMTPsForPool`, as it stands in the working tree, selects by asset
    equality (an equality filter over the whole position store, or a prefix scan that cannot end
    inside a longer symbol).  A prefix iterator over `prefix | asset | address | id` fails here. -/
theorem code_getMTPsForPool_selects_by_exact_asset :
    Keys.selectOK Sif.Generated.MarginKeys.keyCtors Sif.Generated.MarginKeys.getMTPsForPool = true := by decide

/-- every store key constructor of x/margin parses uniquely: no unterminated variable-length component
    is followed by another component, except an account address (fixed length) followed by the 8-byte id -/
theorem code_margin_keys_unambiguous :
    Sif.Generated.MarginKeys.keyCtors.all (fun c => Keys.compsOK c.comps) = true := by decide

/-- the parameter getters the model reads as stored fields return the stored field unconditionally — in
    particular `GetSafetyFactor`: a configured safety factor of 0 (liquidations suspended) is 0 for the
    liquidation gate and for the open check, not a default -/
theorem code_param_getters_return_stored_fields :
    Sif.Generated.MarginParams.paramGetters = Keys.expectedGetters := by decide

/- the conditions are not vacuous: the composite index key of the kind they exclude is refused -/
example : Keys.compsOK [.const "MTPPoolIndexPrefix", .str "asset", .str "address", .u64 "id"] = false := by decide
example : Keys.selectOK [⟨"GetMTPPoolIndexPrefix", [.const "MTPPoolIndexPrefix", .str "asset"]⟩] (.prefixScan "GetMTPPoolIndexPrefix") = false := by decide
example : Keys.selectOK [] (.filterAssetEq "MTPPrefix" true false) = false := by decide

/-! ### non-vacuity: a concrete pool, trader and history meet the hypotheses and take the success paths -/

example : WF Ex.s0 = true ∧ MarginOK Ex.s0 = true ∧ Ex.s0.mtpCount + 1 < u64 := by decide +kernel
example : Ex.isOk (handle Fixes.repaired Ex.s0 (.open Ex.openMsg0)) = true := by decide +kernel
example : WF Ex.s1 = true ∧ MarginOK Ex.s1 = true ∧ Ex.s1.mtps.length = 1 := by decide +kernel
/- Close inside an epoch: pays pro-rated interest (a fund cut included), then repays -/
example : Ex.isOk (handle Fixes.repaired Ex.s1 (.close "trader" 1)) = true := by decide +kernel
example : Ex.isOk (handle Fixes.repaired Ex.s1 (.adminClose "adm" "trader" 1 true)) = true := by decide +kernel
example : Ex.isOk (handle Fixes.repaired Ex.s1 (.adminClose "trader" "trader" 1 true)) = false := by decide +kernel
/- an epoch-boundary BeginBlocker that really pays interest out of the custody -/
example : (match beginBlocker Fixes.repaired Ex.s2 Ex.rates with
    | .ok s' => s'.mtps.map (fun m => m.custody) | .error _ => []) = [21529] := by decide +kernel
example : openHealthOK Ex.s1 "trader" 1 = true := by decide +kernel
/- the world of the hook for the example position: synced, at an epoch boundary; with the safety factor
   raised to 100 the position is liquidated (and was not above it), with 1.05 it is kept -/
example : syncedW { s := Ex.s2, pool := Ex.s2.pools.head!, mtp := Ex.s2.mtps.head! } = true ∧ Ex.s2.epochPosition = 0 := by
  decide +kernel
example : (let s := { Ex.s2 with params := { Ex.s2.params with safetyFactor := ⟨100 * 10^18⟩ } }
    (processMtp Fixes.repaired { s := s, pool := s.pools.head!, mtp := s.mtps.head! }).s.mtps.length) = 0 := by decide +kernel
example : (processMtp Fixes.repaired { s := Ex.s2, pool := Ex.s2.pools.head!, mtp := Ex.s2.mtps.head! }).s.mtps.length = 1 := by
  decide +kernel
/- a whole BeginBlocker that liquidates: stored before, missing after -/
example : (let s := { Ex.s2 with params := { Ex.s2.params with safetyFactor := ⟨100 * 10^18⟩ } }
    (getMtpL s.mtps ("trader", 1)).isSome &&
    (match beginBlocker Fixes.repaired s Ex.rates with
      | .ok s' => (getMtpL s'.mtps ("trader", 1)).isNone && MarginOK s'
      | .error _ => false)) = true := by decide +kernel

/-! ### the pinned code violates the property (each repair is needed) -/

/-- F14, hook path: with the interest fund address set to a module account the pinned BeginBlocker
    persists the position with reduced custody while the pool keeps the old custody. -/
theorem pinned_F14_hook_violates :
    WF Ex.s2blocked = true ∧ MarginOK Ex.s2blocked = true ∧
    (match beginBlocker Fixes.pinned Ex.s2blocked Ex.rates with | .ok s' => MarginOK s' | .error _ => true) = false ∧
    (match beginBlocker Fixes.repaired Ex.s2blocked Ex.rates with | .ok s' => MarginOK s' | .error _ => false) = true := by
  decide +kernel

/-- F14, message path: the same failed fund transfer inside a Close in mid-epoch leaves custody behind in the pool. -/
theorem pinned_F14_close_violates :
    MarginOK (deliver Fixes.pinned { Ex.s1 with params := { Ex.s1.params with iipAddr := "margin" } } (.close "trader" 1)) = false := by
  decide +kernel

/-- F14b: a liquidation that fails after `TakeOutCustody` (here: refused fund transfer in `Repay`)
    leaves the custody taken out of the pool while the position stays stored — unless the hook
    runs it on a branch. -/
theorem pinned_F14b_violates :
    WF Ex.s2fc = true ∧ MarginOK Ex.s2fc = true ∧
    (match beginBlocker ⟨true, false, true⟩ Ex.s2fc Ex.rates with | .ok s' => MarginOK s' | .error _ => true) = false ∧
    (match beginBlocker Fixes.repaired Ex.s2fc Ex.rates with | .ok s' => MarginOK s' | .error _ => false) = true := by
  decide +kernel

/-- F14c: the pinned Open accepts a position between two non-native assets; the state is then no
    longer well-formed, and the BeginBlocker (even with F14/F14b repaired) processes that position
    against both pools and breaks MarginOK. -/
theorem pinned_F14c_violates :
    WF (deliver Fixes.pinned Ex.s0two (.open Ex.openCross)) = false ∧
    (deliver Fixes.repaired Ex.s0two (.open Ex.openCross)).mtps.length = 0 ∧
    (let s := deliver Fixes.pinned (deliver Fixes.pinned Ex.s0two (.open Ex.openCross)) (.open { Ex.openMsg0 with borrow := "ceth" })
     MarginOK s = true ∧
     (match beginBlocker ⟨true, true, false⟩ { s with height := 4 } Ex.rates with | .ok s' => MarginOK s' | .error _ => true) = false) := by
  decide +kernel

end Sif.Props.C13
