import Sif.Spec.C13
/-
  C13 — margin positions agree with pool totals and are liquidated only when unhealthy.
  Property theorems only (helper lemmas live in Sif/Proofs/C13*.lean).
-/
namespace Sif.Props.C13
open Sif Sif.Margin Sif.Spec.C13

/-- A refused message (any error exit, any panic) changes nothing: DeliverTx discards the branch. -/
theorem refused_changes_nothing (fx : Fixes) (s : State) (m : Msg) (e : Err)
    (h : handle fx s m = .error e) : deliver fx s m = s := by
  unfold deliver; rw [h]

end Sif.Props.C13
