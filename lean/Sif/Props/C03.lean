import Sif.Proofs.C03
import Sif.Proofs.C03Swap
import Sif.Proofs.ClpLp
import Sif.Model.Clp.Machine
/-
  C03 — Swaps settle exactly, within constant-product bounds, honouring minimum received.
  Property theorems only (helper lemmas live in Sif/Proofs).  Quantifiers: every pool depth,
  sent amount, fee rate in [0,1], ratio-shifting rate ≥ 0 — no bound on magnitudes.
-/
namespace Sif.Props.C03
open Sif Sif.Clp Sif.Spec.C03

/-- Per leg: the output never exceeds the fee-free constant-product output adjusted by the
    ratio-shifting rate, minus the fee rate, to within one base unit. -/
theorem calcSwap_le_upper (t : Bool) (X x Y : Nat) (r f : Dec) (y fee : Nat)
    (hr : 0 ≤ r.i) (hf0 : 0 ≤ f.i) (hf1 : f.i ≤ Dec.P)
    (h : calcSwapResult t X x Y r f = .ok (y, fee)) :
    (y : Rat) ≤ upper t X x Y r f := by
  have hadj := adjusted_nonneg t X x Y hr
  have hfr0 := decToRat_nonneg hf0
  have hfr1 := decToRat_le_one hf1
  by_cases hne : (X = 0 ∨ x = 0 ∨ Y = 0)
  · unfold calcSwapResult at h
    rw [if_pos hne] at h
    cases h
    unfold upper
    have : 0 ≤ adjusted t X x Y r * (1 - decToRat f) := mul_nonneg hadj (by linarith)
    simp; linarith
  · obtain ⟨adj, e3, e2, e4, e5⟩ := calcSwap_ok_spec hr hne h
    have hfee_nn : 0 ≤ adjusted t X x Y r * decToRat f := mul_nonneg hadj hfr0
    have l1 := ratIntQuo_le hadj
    have l2 := lt_ratIntQuo_add_one hfee_nn
    have c2 : ((fee : Int) : Rat) = (ratIntQuo (adjusted t X x Y r * decToRat f) : Rat) := by rw [e2]
    have c3 : ((adj : Int) : Rat) = (ratIntQuo (adjusted t X x Y r) : Rat) := by rw [e3]
    have c4 : (y : Rat) = (adj : Rat) - (fee : Rat) := by
      rw [e4]; push_cast [Nat.cast_sub e5]; ring
    unfold upper
    simp only [Int.cast_natCast] at c2 c3
    rw [c4, c2, c3]
    linarith

/-- …and it is not more than one base unit below it either (the result is exact up to the two
    floors), so "settles exactly" has a two-sided meaning. -/
theorem calcSwap_ge_lower (t : Bool) (X x Y : Nat) (r f : Dec) (y fee : Nat)
    (hr : 0 ≤ r.i) (hf0 : 0 ≤ f.i) (hne : ¬ (X = 0 ∨ x = 0 ∨ Y = 0))
    (h : calcSwapResult t X x Y r f = .ok (y, fee)) :
    adjusted t X x Y r * (1 - decToRat f) - 1 < (y : Rat) := by
  have hadj := adjusted_nonneg t X x Y hr
  have hfr0 := decToRat_nonneg hf0
  obtain ⟨adj, e3, e2, e4, e5⟩ := calcSwap_ok_spec hr hne h
  have hfee_nn : 0 ≤ adjusted t X x Y r * decToRat f := mul_nonneg hadj hfr0
  have l1 := lt_ratIntQuo_add_one hadj
  have l2 := ratIntQuo_le hfee_nn
  have c2 : ((fee : Int) : Rat) = (ratIntQuo (adjusted t X x Y r * decToRat f) : Rat) := by rw [e2]
  have c3 : ((adj : Int) : Rat) = (ratIntQuo (adjusted t X x Y r) : Rat) := by rw [e3]
  have c4 : (y : Rat) = (adj : Rat) - (fee : Rat) := by
    rw [e4]; push_cast [Nat.cast_sub e5]; ring
  simp only [Int.cast_natCast] at c2 c3
  rw [c4, c2, c3]
  linarith

/-- the judge's Boolean is the theorem's statement -/
theorem legOK_iff (t : Bool) (X x Y : Nat) (r f : Dec) (y : Nat) :
    legOK t X x Y r f y = true ↔ (y : Rat) ≤ upper t X x Y r f := by
  unfold legOK; simp

/-- An empty side or a zero amount yields nothing (and no fee). -/
theorem calcSwap_zero (t : Bool) (X x Y : Nat) (r f : Dec) (h : X = 0 ∨ x = 0 ∨ Y = 0) :
    calcSwapResult t X x Y r f = .ok (0, 0) := by
  unfold calcSwapResult; rw [if_pos h]

/-- **Exact settlement.**  A successful swap debits the trader exactly the sent amount of the sent
    token (`s1` = the bank after that debit), credits the trader exactly the reported output `y` of
    the requested token out of the module account, and changes no other balance, no provider
    record and no rewards bucket. -/
theorem swap_settles {s s' : St} {signer sent recv : String} {amt mn y : Nat} (hs : signer ≠ clpAcct)
    (h : swap s signer sent recv amt mn = .ok (s', y)) :
    amt ≤ s.bal signer sent ∧ s'.lps = s.lps ∧ s'.buckets = s.buckets ∧
    ∃ s1 : St, (∀ a d, s1.bal a d = if a = signer ∧ d = sent then s.bal a d - amt
                        else if a = clpAcct ∧ d = sent then s.bal a d + amt else s.bal a d) ∧
      y ≤ s1.bal clpAcct recv ∧
      (∀ a d, s'.bal a d = if a = clpAcct ∧ d = recv then s1.bal a d - y
                        else if a = signer ∧ d = recv then s1.bal a d + y else s1.bal a d) :=
  (swap_bank hs h).2

/-- the output is never below the trader's stated minimum -/
theorem swap_ge_min {s s' : St} {signer sent recv : String} {amt mn y : Nat} (hs : signer ≠ clpAcct)
    (h : swap s signer sent recv amt mn = .ok (s', y)) : mn ≤ y :=
  (swap_bank hs h).1

/-- per leg the output is strictly less than the pool's balance of the output token -/
theorem leg_lt_balance {t : Bool} {x : Nat} {pool pool' : Pool} {r f : Dec} {y fee : Nat}
    (h : swapOne t x pool r f = .ok (y, fee, pool')) : y < (if t then pool.nBal else pool.eBal) :=
  swapOne_lt_balance h

/-- per leg the pool moves by exactly the swapped amounts (custody, liabilities, units untouched) -/
theorem leg_moves_pool_exactly {t : Bool} {x : Nat} {pool pool' : Pool} {r f : Dec} {y fee : Nat}
    (h : swapOne t x pool r f = .ok (y, fee, pool')) :
    pool'.nCust = pool.nCust ∧ pool'.eCust = pool.eCust ∧ pool'.sym = pool.sym ∧ pool'.units = pool.units ∧
    pool'.nLiab = pool.nLiab ∧ pool'.eLiab = pool.eLiab ∧
    (if t then pool'.eBal = pool.eBal + x ∧ pool'.nBal = pool.nBal - y ∧ y < pool.nBal
     else pool'.nBal = pool.nBal + x ∧ pool'.eBal = pool.eBal - y ∧ y < pool.eBal) :=
  swapOne_spec h

/-- per leg (inside the handler) the constant-product bound holds on the pool depths
    (balance + margin liabilities), with the sold token's fee rate -/
theorem leg_le_upper {t : Bool} {x : Nat} {pool pool' : Pool} {r f : Dec} {y fee : Nat}
    (hr : 0 ≤ r.i) (hf0 : 0 ≤ f.i) (hf1 : f.i ≤ Dec.P)
    (h : swapOne t x pool r f = .ok (y, fee, pool')) :
    (y : Rat) ≤ upper t ((if t then pool.eBal else pool.nBal) + (if t then pool.eLiab else pool.nLiab)) x
      ((if t then pool.nBal else pool.eBal) + (if t then pool.nLiab else pool.eLiab)) r f :=
  calcSwap_le_upper _ _ _ _ _ _ _ _ hr hf0 hf1 (swapOne_calc h)

/-- a swap that cannot meet its conditions fails and leaves the whole state unchanged
    (DeliverTx discards the writes of a failed message) -/
theorem swap_fail_unchanged (s : St) (signer sent recv : String) (amt mn : Nat)
    (h : ∀ r, swap s signer sent recv amt mn ≠ .ok r) : step s (.swap signer sent recv amt mn) = s := by
  simp only [step]
  split
  · rename_i s' y hh; exact absurd hh (h _)
  · rfl

/-- Liquidity protection (when switched on) only ever refuses a swap or moves the threshold — exact settlement
    above holds with it on or off.  A sale of the native token worth more than the current threshold
    (priced in the threshold asset before the pool moves) is refused. -/
theorem swap_refused_above_threshold {s : St} {signer recv : String} {amt mn : Nat} {price : Dec} {v : Nat}
    (hact : s.params.lpActive = true) (hp : nativePrice s = .ok price) (hv : rowanValue amt price = .ok v)
    (hlt : s.lpCur < v) (r : St × Nat) : swap s signer rowan recv amt mn ≠ .ok r :=
  swap_blocked hact hp hv hlt r

/-- The current threshold never exceeds the maximum after a swap (the per-block replenishment computes
    max − current and panics otherwise). -/
theorem swap_threshold_le_max {s s' : St} {signer sent recv : String} {amt mn y : Nat}
    (hle : s.lpCur ≤ s.params.lpMax) (h : swap s signer sent recv amt mn = .ok (s', y)) :
    s'.lpCur ≤ s.params.lpMax :=
  swap_lpCur_le hle h

/- non-vacuity: threshold 25, price 1 (denominated in the native token): selling 30 is worth 30 > 25 -/
example : nativePrice { params := { lpActive := true, lpAsset := "rowan" }, lpCur := 25 } = .ok Dec.one ∧
    rowanValue 30 Dec.one = .ok 30 := by decide +kernel

/- non-vacuity: a concrete non-trivial swap meets the hypotheses and produces an output -/
example : calcSwapResult false 1000000 1000 2000000 ⟨10^17⟩ ⟨3 * 10^15⟩ = .ok (2191, 6) := by decide +kernel

end Sif.Props.C03
