import Sif.Proofs.C03
/-
  C03 — Swaps settle exactly, within constant-product bounds, honouring minimum received.
  Property theorems only (helper lemmas live in Sif/Proofs).  Quantifiers: every pool depth,
  sent amount, fee rate in [0,1], ratio-shifting rate ≥ 0 — no bound on magnitudes.
-/
namespace Sif.Props.C03
open Sif Sif.Clp Sif.Spec.C03

/-- Per leg: the output never exceeds the fee-free constant-product output adjusted by the
    ratio-shifting rate, minus the fee rate, to within one base unit. -/
theorem calcSwap_le_upper (t : Bool) (X x Y : Nat) (r f : Dec) (y fee : Nat)
    (hr : 0 ≤ r.i) (hf0 : 0 ≤ f.i) (hf1 : f.i ≤ Dec.P)
    (h : calcSwapResult t X x Y r f = .ok (y, fee)) :
    (y : Rat) ≤ upper t X x Y r f := by
  have hadj := adjusted_nonneg t X x Y hr
  have hfr0 := decToRat_nonneg hf0
  have hfr1 := decToRat_le_one hf1
  by_cases hne : (X = 0 ∨ x = 0 ∨ Y = 0)
  · unfold calcSwapResult at h
    rw [if_pos hne] at h
    cases h
    unfold upper
    have : 0 ≤ adjusted t X x Y r * (1 - decToRat f) := mul_nonneg hadj (by linarith)
    simp; linarith
  · obtain ⟨adj, e3, e2, e4, e5⟩ := calcSwap_ok_spec hr hne h
    have hfee_nn : 0 ≤ adjusted t X x Y r * decToRat f := mul_nonneg hadj hfr0
    have l1 := ratIntQuo_le hadj
    have l2 := lt_ratIntQuo_add_one hfee_nn
    have c2 : ((fee : Int) : Rat) = (ratIntQuo (adjusted t X x Y r * decToRat f) : Rat) := by rw [e2]
    have c3 : ((adj : Int) : Rat) = (ratIntQuo (adjusted t X x Y r) : Rat) := by rw [e3]
    have c4 : (y : Rat) = (adj : Rat) - (fee : Rat) := by
      rw [e4]; push_cast [Nat.cast_sub e5]; ring
    unfold upper
    simp only [Int.cast_natCast] at c2 c3
    rw [c4, c2, c3]
    linarith

/-- …and it is not more than one base unit below it either (the result is exact up to the two
    floors), so "settles exactly" has a two-sided meaning. -/
theorem calcSwap_ge_lower (t : Bool) (X x Y : Nat) (r f : Dec) (y fee : Nat)
    (hr : 0 ≤ r.i) (hf0 : 0 ≤ f.i) (hne : ¬ (X = 0 ∨ x = 0 ∨ Y = 0))
    (h : calcSwapResult t X x Y r f = .ok (y, fee)) :
    adjusted t X x Y r * (1 - decToRat f) - 1 < (y : Rat) := by
  have hadj := adjusted_nonneg t X x Y hr
  have hfr0 := decToRat_nonneg hf0
  obtain ⟨adj, e3, e2, e4, e5⟩ := calcSwap_ok_spec hr hne h
  have hfee_nn : 0 ≤ adjusted t X x Y r * decToRat f := mul_nonneg hadj hfr0
  have l1 := lt_ratIntQuo_add_one hadj
  have l2 := ratIntQuo_le hfee_nn
  have c2 : ((fee : Int) : Rat) = (ratIntQuo (adjusted t X x Y r * decToRat f) : Rat) := by rw [e2]
  have c3 : ((adj : Int) : Rat) = (ratIntQuo (adjusted t X x Y r) : Rat) := by rw [e3]
  have c4 : (y : Rat) = (adj : Rat) - (fee : Rat) := by
    rw [e4]; push_cast [Nat.cast_sub e5]; ring
  simp only [Int.cast_natCast] at c2 c3
  rw [c4, c2, c3]
  linarith

/-- the judge's Boolean is the theorem's statement -/
theorem legOK_iff (t : Bool) (X x Y : Nat) (r f : Dec) (y : Nat) :
    legOK t X x Y r f y = true ↔ (y : Rat) ≤ upper t X x Y r f := by
  unfold legOK; simp

/-- An empty side or a zero amount yields nothing (and no fee). -/
theorem calcSwap_zero (t : Bool) (X x Y : Nat) (r f : Dec) (h : X = 0 ∨ x = 0 ∨ Y = 0) :
    calcSwapResult t X x Y r f = .ok (0, 0) := by
  unfold calcSwapResult; rw [if_pos h]

/- non-vacuity: a concrete non-trivial swap meets the hypotheses and produces an output -/
example : calcSwapResult false 1000000 1000 2000000 ⟨10^17⟩ ⟨3 * 10^15⟩ = .ok (2191, 6) := by decide +kernel

end Sif.Props.C03
