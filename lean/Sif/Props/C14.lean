import Sif.Spec.C14
import Sif.Generated.Genesis
import Sif.Proofs.C14
/-
  C14 — genesis export/import is lossless for everything the genesis format carries.
  Property theorems only.
-/
namespace Sif.Props.C14
open Sif.Gen Sif.Spec.C14 Sif.Generated.Genesis

/-- the scanned packages type-checked -/
theorem facts_typechecked : loadErrors = [] := by decide

/-- the modules with a GenesisState are the eight Sifchain modules -/
theorem modules_are_the_eight : modules = sifModules := by decide +kernel

/-- every field of every GenesisState is consumed by InitGenesis … -/
theorem every_field_written : unwritten fields = [] := by decide +kernel

/-- … and produced by ExportGenesis -/
theorem every_field_read : unread fields = [] := by decide +kernel

/-- and the (setter, getter) calls are the reviewed ones -/
theorem fields_reviewed : unreviewed fields = [] := by decide +kernel

/-! ## The generic theorem for "collection under prefix" modules -/

/-- `init (export s) = carried s`: on a key-sorted store whose records under the prefix sit under the
    key computed from their own fields, re-initialising an empty store from the export reproduces
    exactly the part of the store under the carried prefix — same keys, same bytes, same order. -/
theorem init_export {α : Type} (c : Coll α) (s : Store) (hs : Sorted s) (hwf : WF c s) :
    initC c (exportC c s) [] = under c.pfx s := by
  rw [initC_eq_foldl_entries]
  unfold exportC
  rw [entries_of_export c (under c.pfx s) hwf]
  have := foldl_set_sorted (under c.pfx s) [] (by simpa using sorted_under c.pfx s hs)
  simpa using this

/-- hence exporting the re-initialised chain yields the identical document -/
theorem export_init_export {α : Type} (c : Coll α) (s : Store) (hs : Sorted s) (hwf : WF c s) :
    exportC c (initC c (exportC c s) []) = exportC c s := by
  rw [init_export c s hs hwf]
  unfold exportC
  rw [under_under]

/-- a well-formed document whose items are in key order (what an export looks like) is reproduced
    exactly by import followed by export -/
theorem export_init_sorted {α : Type} (c : Coll α) (g : List α) (hok : ItemsOK c g) (hsorted : KeySorted c g) :
    exportC c (initC c g []) = g := by
  have hS : Sorted (g.map c.entry) := by
    unfold Sorted KeySorted at *
    rw [List.pairwise_map]
    exact hsorted
  have h1 : initC c g [] = g.map c.entry := by
    rw [initC_eq_foldl_entries]
    simpa using foldl_set_sorted (g.map c.entry) [] (by simpa using hS)
  unfold exportC
  rw [h1]
  have h2 : under c.pfx (g.map c.entry) = g.map c.entry := by
    unfold under
    rw [List.filter_eq_self]
    intro e he
    obtain ⟨a, ha, rfl⟩ := List.mem_map.mp he
    exact (hok a ha).2
  rw [h2, filterMap_entries c g hok]

/-- a well-formed document in ANY order, with pairwise distinct store keys, comes back as a
    permutation of itself (the export is in key order); nothing is lost, nothing is invented -/
theorem export_init_perm {α : Type} (c : Coll α) (g : List α) (hok : ItemsOK c g) (hnd : (g.map c.key).Nodup) :
    (exportC c (initC c g [])).Perm g := by
  have hp : (initC c g []).Perm (g.map c.entry) := by
    rw [initC_eq_foldl_entries]
    have := foldl_set_perm (g.map c.entry) [] (by simpa [Coll.entry, Function.comp_def] using hnd)
    simpa using this
  unfold exportC
  have h2 : under c.pfx (initC c g []) = initC c g [] := by
    unfold under
    rw [List.filter_eq_self]
    intro e he
    obtain ⟨a, ha, rfl⟩ := List.mem_map.mp (hp.mem_iff.mp he)
    exact (hok a ha).2
  rw [h2]
  have := hp.filterMap (fun e => c.dec e.2)
  rw [filterMap_entries c g hok] at this
  exact this

/-- distinct items have distinct keys when the key function is injective on the document -/
theorem keys_nodup_of_inj {α : Type} (c : Coll α) (g : List α) (hg : g.Nodup)
    (hinj : ∀ a ∈ g, ∀ b ∈ g, c.key a = c.key b → a = b) : (g.map c.key).Nodup := by
  induction g with
  | nil => simp
  | cons x r ih =>
    rw [List.map_cons, List.nodup_cons]
    rw [List.nodup_cons] at hg
    refine ⟨?_, ih hg.2 (fun a ha b hb => hinj a (List.mem_cons_of_mem _ ha) b (List.mem_cons_of_mem _ hb))⟩
    intro hm
    obtain ⟨y, hy, hk⟩ := List.mem_map.mp hm
    have := hinj y (List.mem_cons_of_mem _ hy) x (List.mem_cons_self) hk
    subst this
    exact hg.1 hy

/-- frame: initialising another collection, all of whose keys lie outside prefix `q`, leaves what is
    under `q` untouched (prefix disjointness is what lets the modules be treated one collection at a time) -/
theorem init_frame {α : Type} (c : Coll α) (q : Key) (items : List α) (s0 : Store)
    (h : ∀ a ∈ items, isPrefix q (c.key a) = false) :
    under q (initC c items s0) = under q s0 :=
  under_initC_other c q items s0 h

/-- two collections of one module with different one-byte prefixes (e.g. clp pools 0x00 and
    providers 0x01): importing both exports gives back, under each prefix, exactly what was there -/
theorem init2_export2 {α β : Type} (ca : Coll α) (cb : Coll β) (pa pb : Nat) (hne : pa ≠ pb)
    (hpa : ca.pfx = [pa]) (hpb : cb.pfx = [pb]) (s : Store) (hs : Sorted s) (hwa : WF ca s) (hwb : WF cb s) :
    let s' := initC cb (exportC cb s) (initC ca (exportC ca s) [])
    under [pa] s' = under [pa] s ∧ exportC cb s' = exportC cb s := by
  intro s'
  have ea : initC ca (exportC ca s) [] = under [pa] s := by rw [← hpa]; exact init_export ca s hs hwa
  have keysB : ∀ b ∈ exportC cb s, isPrefix [pb] (cb.key b) = true := by
    intro b hb
    unfold exportC at hb
    obtain ⟨e, he, hd⟩ := List.mem_filterMap.mp hb
    obtain ⟨a, ha, hea⟩ := hwb e he
    rw [ha] at hd
    cases hd
    have : isPrefix cb.pfx e.1 = true := by
      unfold under at he
      exact (List.mem_filter.mp he).2
    rw [← hea] at this
    rw [← hpb]
    exact this
  constructor
  · show under [pa] (initC cb (exportC cb s) (initC ca (exportC ca s) [])) = under [pa] s
    rw [init_frame cb [pa] _ _ (fun b hb => prefix_byte_disjoint pb pa (fun e => hne e.symm) _ (keysB b hb)), ea, under_under]
  · -- the B-records: reading prefix pb commutes with the B-inserts; the A-part has nothing under pb
    show exportC cb (initC cb (exportC cb s) (initC ca (exportC ca s) [])) = exportC cb s
    rw [ea]
    have hnone : under [pb] (under [pa] s) = [] := by
      unfold under
      rw [List.filter_eq_nil_iff]
      intro e he
      have := (List.mem_filter.mp he).2
      simp [prefix_byte_disjoint pa pb hne e.1 this]
    have hstep : under [pb] (initC cb (exportC cb s) (under [pa] s)) = under [pb] s := by
      rw [under_initC_same cb [pb] _ _ (sorted_under [pa] s hs) keysB, hnone]
      have := init_export cb s hs hwb
      rw [hpb] at this
      exact this
    have : exportC cb (initC cb (exportC cb s) (under [pa] s)) =
        (under [pb] (initC cb (exportC cb s) (under [pa] s))).filterMap (fun e => cb.dec e.2) := by
      unfold exportC; rw [hpb]
    rw [this, hstep]
    unfold exportC
    rw [hpb]

/-! ## Injectivity of the Sifchain key functions (what makes a document's store keys pairwise distinct) -/

/-- pool key `0x00 ‖ symbol_rowan`: injective in the symbol -/
theorem poolKey_inj (rowan a b : List Nat) (h : poolKey rowan a = poolKey rowan b) : a = b := by
  unfold poolKey joinU at h
  exact List.append_cancel_right (List.cons.inj h).2

/-- provider key `0x01 ‖ symbol_address`: split at the LAST `_` — injective as soon as addresses
    contain no `_` (bech32), whatever the symbols contain -/
theorem lpKey_inj (a b : List Nat × List Nat) (ha : us ∉ a.2) (hb : us ∉ b.2) (h : lpKey a = lpKey b) : a = b := by
  unfold lpKey at h
  obtain ⟨h1, h2⟩ := joinU_inj_right ha hb (List.cons.inj h).2
  exact Prod.ext h1 h2

/-- admin account key `0x01 ‖ type_address` -/
theorem adminKey_inj (a b : List Nat × List Nat) (ha : us ∉ a.2) (hb : us ∉ b.2) (h : adminKey a = adminKey b) : a = b :=
  lpKey_inj a b ha hb h

/-- user claim key `0x02 ‖ address_type` (the type is printed in decimal: no `_`) -/
theorem claimKey_inj (a b : List Nat × List Nat) (ha : us ∉ a.2) (hb : us ∉ b.2) (h : claimKey a = claimKey b) : a = b := by
  unfold claimKey at h
  obtain ⟨h1, h2⟩ := joinU_inj_right ha hb (List.cons.inj h).2
  exact Prod.ext h1 h2

/-- distribution record key `status ‖ name_type_recipient`: distribution names DO contain `_`
    (`<height>_<distributor>`); injective because the type (decimal) and the recipient (bech32) do not -/
theorem recordKey_inj (st : Nat) (a b : List Nat × List Nat × List Nat)
    (ha2 : us ∉ a.2.1) (ha3 : us ∉ a.2.2) (hb2 : us ∉ b.2.1) (hb3 : us ∉ b.2.2)
    (h : recordKey st a = recordKey st b) : a = b := by
  unfold recordKey at h
  obtain ⟨h1, h3⟩ := joinU_inj_right ha3 hb3 (List.cons.inj h).2
  obtain ⟨h1', h2⟩ := joinU_inj_right ha2 hb2 h1
  exact Prod.ext h1' (Prod.ext h2 h3)

theorem distributionKey_inj (a b : List Nat × List Nat × List Nat)
    (ha2 : us ∉ a.2.1) (ha3 : us ∉ a.2.2) (hb2 : us ∉ b.2.1) (hb3 : us ∉ b.2.2)
    (h : distributionKey a = distributionKey b) : a = b :=
  recordKey_inj 1 a b ha2 ha3 hb2 hb3 h

/-- margin position key `0x01 ‖ address ‖ id` with the id in a fixed number of bytes (8) -/
theorem mtpKey_inj (a b : List Nat × List Nat) (hlen : a.2.length = b.2.length) (h : mtpKey a = mtpKey b) : a = b := by
  unfold mtpKey at h
  obtain ⟨h1, h2⟩ := List.append_inj' (List.cons.inj h).2 hlen
  exact Prod.ext h1 h2

theorem prophecyKey_inj (a b : List Nat) (h : prophecyKey a = prophecyKey b) : a = b := by
  unfold prophecyKey at h
  exact (List.cons.inj (List.cons.inj h).2).2

theorem bucketKey_inj (pfx a b : List Nat) (h : bucketKey pfx a = bucketKey pfx b) : a = b := by
  unfold bucketKey at h
  have := List.append_cancel_right h
  exact List.append_cancel_left this

/-- without "no `_` in the address" the provider key is NOT injective (why the hypothesis is there) -/
example : lpKey ([99], [1, 95, 2]) = lpKey ([99, 95, 1], [2]) ∧ (([99], [1, 95, 2]) : List Nat × List Nat) ≠ ([99, 95, 1], [2]) := by decide

/-! ## Instances: the clp provider collection, and the epochs exception -/

/-- providers as (symbol, address, payload): keyed `0x01 ‖ symbol_address`, encoded by any injective
    encoding `enc` with decoder `dec` (protobuf in the code; abstract here) -/
def lpColl (enc : (List Nat × List Nat) × List Nat → Val) (dec : Val → Option ((List Nat × List Nat) × List Nat)) :
    Coll ((List Nat × List Nat) × List Nat) :=
  { pfx := [1], key := fun x => lpKey x.1, enc := enc, dec := dec }

/-- a well-formed provider list (distinct (symbol, address) pairs, bech32 addresses) is reproduced
    by import followed by export, up to the order -/
theorem lp_document_roundtrip (enc : (List Nat × List Nat) × List Nat → Val) (dec : Val → Option ((List Nat × List Nat) × List Nat))
    (hdec : ∀ x, dec (enc x) = some x) (g : List ((List Nat × List Nat) × List Nat))
    (haddr : ∀ x ∈ g, us ∉ x.1.2) (hnd : (g.map (·.1)).Nodup) :
    (exportC (lpColl enc dec) (initC (lpColl enc dec) g [])).Perm g := by
  apply export_init_perm
  · intro a _
    exact ⟨hdec a, by simp [lpColl, lpKey, isPrefix, List.isPrefixOf]⟩
  · have : g.map (lpColl enc dec).key = (g.map (·.1)).map lpKey := by simp [lpColl, Function.comp_def]
    rw [this]
    have hk := keys_nodup_of_inj ({ pfx := [1], key := lpKey, enc := fun _ => [], dec := fun _ => none } : Coll (List Nat × List Nat))
      (g.map (·.1)) hnd (by
        intro a ha b hb hk
        obtain ⟨x, hx, rfl⟩ := List.mem_map.mp ha
        obtain ⟨y, hy, rfl⟩ := List.mem_map.mp hb
        exact lpKey_inj _ _ (haddr x hx) (haddr y hy) hk)
    exact hk

/-- epochs collection: keyed by the identifier only (the start height is payload) -/
def epochColl (pfx : Key) (enc : Epoch → Val) (dec : Val → Option Epoch) : Coll Epoch :=
  { pfx := pfx, key := fun e => pfx ++ e.id, enc := enc, dec := dec }

/-- The one stated exception: `epochs.InitGenesis` stores every exported epoch with
    `CurrentEpochStartHeight := the new chain's initial height`; exporting again yields exactly the
    re-based list — identical but for that field. -/
theorem epochs_rebase (pfx : Key) (enc : Epoch → Val) (dec : Val → Option Epoch) (hdec : ∀ x, dec (enc x) = some x)
    (s : Store) (hs : Sorted s) (hwf : WF (epochColl pfx enc dec) s) (h : Nat) :
    exportC (epochColl pfx enc dec) (initC (epochColl pfx enc dec) ((exportC (epochColl pfx enc dec) s).map (Epoch.rebase h)) [])
      = (exportC (epochColl pfx enc dec) s).map (Epoch.rebase h) := by
  apply export_init_sorted
  · intro a _
    refine ⟨hdec a, ?_⟩
    simp [epochColl, isPrefix]
  · -- re-basing does not touch the key, and the exported items are in key order
    unfold KeySorted
    rw [List.pairwise_map]
    have hkeys : (exportC (epochColl pfx enc dec) s).map (epochColl pfx enc dec).entry = under pfx s :=
      entries_of_export _ _ hwf
    have hsorted := sorted_under pfx s hs
    rw [← hkeys] at hsorted
    unfold Sorted at hsorted
    rw [List.pairwise_map] at hsorted
    exact hsorted

/-! ## Non-vacuity: a concrete store with two collections -/

def exEnc : Nat × Nat → Val := fun x => [x.1, x.2]
def exDec : Val → Option (Nat × Nat) := fun v => match v with | [a, b] => some (a, b) | _ => none
def exA : Coll (Nat × Nat) := { pfx := [0], key := fun x => [0, x.1], enc := exEnc, dec := exDec }
def exB : Coll (Nat × Nat) := { pfx := [17], key := fun x => [17, x.1], enc := exEnc, dec := exDec }
def exStore : Store := [([0, 3], [3, 30]), ([0, 7], [7, 70]), ([5], [99]), ([17, 1], [1, 10]), ([17, 2], [2, 20])]
example : Sorted exStore := by decide
example : exportC exA exStore = [(3, 30), (7, 70)] ∧ exportC exB exStore = [(1, 10), (2, 20)] := by decide
example : initC exA (exportC exA exStore) [] = under [0] exStore := by decide
/-- state outside the carried prefixes (`[5] ↦ 99` here) is NOT reproduced: the property is about what the format carries -/
example : initC exB (exportC exB exStore) (initC exA (exportC exA exStore) []) ≠ exStore := by decide
/-- a document out of key order comes back sorted: a permutation, not the same list -/
example : exportC exA (initC exA [(7, 70), (3, 30)] []) = [(3, 30), (7, 70)] := by decide
/-- two items with the same key collapse: why distinct keys are part of well-formedness -/
example : exportC exA (initC exA [(3, 30), (3, 31)] []) = [(3, 31)] := by decide

end Sif.Props.C14
