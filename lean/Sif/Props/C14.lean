import Sif.Spec.C14
import Sif.Generated.Genesis
/-
  C14 — genesis export/import is lossless for everything the genesis format carries.
  Property theorems only.
-/
namespace Sif.Props.C14
open Sif.Gen Sif.Spec.C14 Sif.Generated.Genesis

/-- the scanned packages type-checked -/
theorem facts_typechecked : loadErrors = [] := by decide

/-- the modules with a GenesisState are the eight Sifchain modules -/
theorem modules_are_the_eight : modules = sifModules := by decide +kernel

/-- every field of every GenesisState is consumed by InitGenesis … -/
theorem every_field_written : unwritten fields = [] := by decide +kernel

/-- … and produced by ExportGenesis -/
theorem every_field_read : unread fields = [] := by decide +kernel

/-- and the (setter, getter) calls are the reviewed ones -/
theorem fields_reviewed : unreviewed fields = [] := by decide +kernel

end Sif.Props.C14
