/-
  Key-sorted association lists over `String` keys: the model of a KV store prefix.  Iteration order
  = byte order of the key (IAVL order for ASCII keys), which matters for the running clamps.
-/
namespace Sif

abbrev AList (α : Type) := List (String × α)

namespace AList
variable {α : Type}

def get (l : AList α) (k : String) : Option α :=
  match l with
  | [] => none
  | (k', v) :: t => if k' = k then some v else get t k

def contains (l : AList α) (k : String) : Bool := (get l k).isSome

/-- insert or replace, keeping ascending key order -/
def set (l : AList α) (k : String) (v : α) : AList α :=
  match l with
  | [] => [(k, v)]
  | (k', v') :: t =>
    if k' = k then (k, v) :: t
    else if k < k' then (k, v) :: (k', v') :: t
    else (k', v') :: set t k v

def erase (l : AList α) (k : String) : AList α :=
  match l with
  | [] => []
  | (k', v') :: t => if k' = k then t else (k', v') :: erase t k

def sumBy (f : α → Nat) (l : AList α) : Nat :=
  match l with
  | [] => 0
  | (_, v) :: t => f v + sumBy f t

def keys (l : AList α) : List String := l.map (·.1)

end AList
end Sif
