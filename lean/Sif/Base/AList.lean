/-
  Association lists over `String` keys kept in ascending key order: the model of a KV store prefix.
  Iteration order = order of the keys (IAVL order for ASCII keys), which matters for the running
  clamps.  `set` replaces an existing key in place, otherwise inserts before the first greater key.
-/
namespace Sif

abbrev AList (α : Type) := List (String × α)

namespace AList
variable {α : Type}

def get (l : AList α) (k : String) : Option α :=
  match l with
  | [] => none
  | (k', v) :: t => if k' = k then some v else get t k

def contains (l : AList α) (k : String) : Bool := (get l k).isSome

/-- replace the value stored under `k` (no-op when absent) -/
def replace (l : AList α) (k : String) (v : α) : AList α :=
  match l with
  | [] => []
  | (k', v') :: t => if k' = k then (k, v) :: t else (k', v') :: replace t k v

/-- insert a fresh key before the first greater key -/
def insert (l : AList α) (k : String) (v : α) : AList α :=
  match l with
  | [] => [(k, v)]
  | (k', v') :: t => if k < k' then (k, v) :: (k', v') :: t else (k', v') :: insert t k v

/-- insert or replace -/
def set (l : AList α) (k : String) (v : α) : AList α :=
  if l.contains k then l.replace k v else l.insert k v

def erase (l : AList α) (k : String) : AList α :=
  match l with
  | [] => []
  | (k', v') :: t => if k' = k then t else (k', v') :: erase t k

def sumBy (f : α → Nat) (l : AList α) : Nat :=
  match l with
  | [] => 0
  | (_, v) :: t => f v + sumBy f t

def keys (l : AList α) : List String := l.map (·.1)

end AList
end Sif
