import Sif.Num.Basic
/-
  `sdk.Dec.MustFloat64` followed by `big.Rat.SetFloat64` (x/margin/keeper/calculations.go,
  CheckMinLiabilities): the decimal string of the Dec is parsed by `strconv.ParseFloat(_, 64)`
  (correctly rounded: nearest double, ties to even) and the double is converted back exactly.
  Only normal doubles are modelled (|value| between 2^-1022 and 2^1023); a Dec is a multiple of
  10^-18 below 2^315/10^18, so every non-zero Dec is in that range.  Core Lean only.
-/
namespace Sif.F64

/-- 2^e as a rational, any integer e -/
def pow2 (e : Int) : Rat :=
  if e ≥ 0 then ((2 ^ e.toNat : Nat) : Rat) else 1 / ((2 ^ (-e).toNat : Nat) : Rat)

/-- round a non-negative rational to the nearest integer, ties to even -/
def roundEven (q : Rat) : Int :=
  let f := q.floor
  let r := q - (f : Rat)
  if r < 1/2 then f else if 1/2 < r then f + 1 else if f % 2 = 0 then f else f + 1

/-- nearest double of a positive rational (53-bit significand, ties to even), as a rational -/
def ofPos (q : Rat) : Rat :=
  let k : Int := (Nat.log2 q.num.toNat : Int) - (Nat.log2 q.den : Int)
  let e : Int := if pow2 k ≤ q then k else k - 1        -- 2^e ≤ q < 2^(e+1)
  let sh := e - 52
  (roundEven (q / pow2 sh) : Rat) * pow2 sh

/-- nearest double of a rational -/
def ofRat (q : Rat) : Rat :=
  if q = 0 then 0 else if 0 < q then ofPos q else - ofPos (-q)

/-- `d.MustFloat64()` then `big.Rat.SetFloat64` -/
def ofDec (d : Dec) : Rat := ofRat (mkRat d.i Dec.P)

end Sif.F64
