import Sif.Num.Basic
/-
  A small model of cosmos-sdk v0.45.16 x/bank as used by the dispensation module and the
  issuance paths of C11/C20 (own file of the C11/C20 builder; core Lean only).

  * balances: (address, denom) ↦ Nat, default 0;  supply: denom ↦ Nat
  * `sdk.Coins`: list of (denom, amount); valid = strictly sorted by denom, all amounts positive
  * `SendCoins` (insufficient funds ⇒ error, nothing changes), `SendCoinsFromModuleToAccount`
    (blocked recipient ⇒ error), `MintCoins`, `BurnCoins`.
  Errors of the bank are `none`; panics do not occur on the paths modelled here.
-/
namespace Sif.Disp

abbrev Addr := List Char
abbrev Denom := List Char
abbrev Coins := List (Denom × Nat)

/-- byte-wise lexicographic order on ASCII strings (`strings.Compare`, IAVL key order) -/
def ltKey : List Char → List Char → Bool
  | [], [] => false
  | [], _ :: _ => true
  | _ :: _, [] => false
  | a :: as, b :: bs =>
      if a.toNat < b.toNat then true else if a.toNat = b.toNat then ltKey as bs else false

/-! ### association lists with default 0 -/

def kvGet {κ} [DecidableEq κ] : List (κ × Nat) → κ → Nat
  | [], _ => 0
  | (k', v) :: r, k => if k' = k then v else kvGet r k

def kvErase {κ} [DecidableEq κ] : List (κ × Nat) → κ → List (κ × Nat)
  | [], _ => []
  | (k', v) :: r, k => if k' = k then kvErase r k else (k', v) :: kvErase r k

def kvSet {κ} [DecidableEq κ] (l : List (κ × Nat)) (k : κ) (v : Nat) : List (κ × Nat) :=
  (k, v) :: kvErase l k

structure Bank where
  bals : List ((Addr × Denom) × Nat)
  supply : List (Denom × Nat)
  deriving Repr, DecidableEq, Inhabited

namespace Bank
def empty : Bank := ⟨[], []⟩
def bal (b : Bank) (a : Addr) (d : Denom) : Nat := kvGet b.bals (a, d)
def sup (b : Bank) (d : Denom) : Nat := kvGet b.supply d
def setBal (b : Bank) (a : Addr) (d : Denom) (v : Nat) : Bank := { b with bals := kvSet b.bals (a, d) v }
def setSup (b : Bank) (d : Denom) (v : Nat) : Bank := { b with supply := kvSet b.supply d v }
end Bank

/-! ### coins -/

/-- amount of denom `d` in a coin list (sum over all entries of that denom) -/
def coinsGet : Coins → Denom → Nat
  | [], _ => 0
  | (d', n) :: r, d => (if d' = d then n else 0) + coinsGet r d

/-- `Coins.IsValid` ∧ `IsAllPositive`: strictly increasing denoms, positive amounts
    (denomination syntax is not modelled: the harness only uses well-formed denoms) -/
def coinsValid : Coins → Bool
  | [] => true
  | [(_, n)] => decide (0 < n)
  | (d, n) :: (d', n') :: r => decide (0 < n) && ltKey d d' && coinsValid ((d', n') :: r)

/-- add one coin to a sorted coin list (merge step of `Coins.safeAdd`); zero amounts are dropped -/
def coinsAdd1 : Coins → Denom → Nat → Coins
  | [], d, n => if n = 0 then [] else [(d, n)]
  | (d', n') :: r, d, n =>
      if d = d' then (if n' + n = 0 then r else (d', n' + n) :: r)
      else if ltKey d d' then (if n = 0 then (d', n') :: r else (d, n) :: (d', n') :: r)
      else (d', n') :: coinsAdd1 r d n

/-- `Coins.Add` on valid coin lists -/
def coinsAdd (a b : Coins) : Coins := b.foldl (fun acc c => coinsAdd1 acc c.1 c.2) a

/-- every coin is covered by the balance of `a` -/
def hasCoins (b : Bank) (a : Addr) : Coins → Bool
  | [] => true
  | (d, n) :: r => decide (n ≤ b.bal a d) && hasCoins b a r

def subCoins (b : Bank) (a : Addr) : Coins → Bank
  | [] => b
  | (d, n) :: r => subCoins (b.setBal a d (b.bal a d - n)) a r

def addCoins (b : Bank) (a : Addr) : Coins → Bank
  | [] => b
  | (d, n) :: r => addCoins (b.setBal a d (b.bal a d + n)) a r

/-- `SendCoins`: `subUnlockedCoins` (fails on insufficient funds) then `addCoins` -/
def sendCoins (b : Bank) (frm to : Addr) (c : Coins) : Option Bank :=
  if hasCoins b frm c then some (addCoins (subCoins b frm c) to c) else none

/-- `SendCoinsFromModuleToAccount`: refuses blocked recipients -/
def sendModuleToAccount (blocked : Addr → Bool) (b : Bank) (m to : Addr) (c : Coins) : Option Bank :=
  if blocked to then none else sendCoins b m to c

def addSupply (b : Bank) : Coins → Bank
  | [] => b
  | (d, n) :: r => addSupply (b.setSup d (b.sup d + n)) r

def subSupply (b : Bank) : Coins → Bank
  | [] => b
  | (d, n) :: r => subSupply (b.setSup d (b.sup d - n)) r

/-- `MintCoins(module, coins)` (the module has the Minter permission) -/
def mintCoins (b : Bank) (m : Addr) (c : Coins) : Bank := addSupply (addCoins b m c) c

/-- `BurnCoins(module, coins)`: fails on insufficient funds -/
def burnCoins (b : Bank) (m : Addr) (c : Coins) : Option Bank :=
  if hasCoins b m c then some (subSupply (subCoins b m c) c) else none

end Sif.Disp
