import Sif.Model.Clp.Hooks
/-
  The AMM slice as one state machine: every user message (DeliverTx semantics: a failed message
  leaves the state unchanged), the two block hooks, block height and policy changes.
-/
namespace Sif.Clp

inductive Op where
  | create (signer sym : String) (n e : Nat)
  | add (signer sym : String) (n e : Nat)
  | remove (signer sym : String) (wBasis : Nat)
  | removeUnits (signer sym : String) (units : Nat)
  | swap (signer sent recv : String) (amt minRecv : Nat)
  | decommission (signer sym : String)
  | bucket (signer denom : String) (amt : Nat)
  | endBlock
  | epochEnd
  | setHeight (h : Int)
  | setParams (p : Params)          -- any policy / registry / parameter change
  | fund (acct denom : String) (amt : Nat)   -- coins entering an account from outside the AMM

def txR (s : St) (r : R St) : St := match r with | .ok s' => s' | .error _ => s
/-- a panicking hook halts the chain: no further state -/
def hookM (s : St) (r : M St) : St := match r with | .ok s' => s' | .error _ => s

def step (s : St) : Op → St
  | .create a sym n e => txR s (createPool s a sym n e)
  | .add a sym n e => txR s (addLiquidity s a sym n e)
  | .remove a sym w => txR s (removeLiquidity s a sym w)
  | .removeUnits a sym u => txR s (removeLiquidityUnits s a sym u)
  | .swap a sent recv amt mn => match swap s a sent recv amt mn with | .ok (s', _) => s' | .error _ => s
  | .decommission a sym => txR s (decommissionPool s a sym)
  | .bucket a d n => txR s (addToBucket s a d n)
  | .endBlock => hookM s (endBlocker s)
  | .epochEnd => hookM s (afterEpochEnd s)
  | .setHeight h => { s with height := h }
  | .setParams p => { s with params := p }
  | .fund a d n => s.setBal a d (s.bal a d + n)

def run (s : St) (ops : List Op) : St := ops.foldl step s

end Sif.Clp
