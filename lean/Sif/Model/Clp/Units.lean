import Sif.Model.Clp.Calc
/-
  x/clp/keeper/calculations.go — pool units, symmetry classification, asymmetric swap amounts,
  withdrawals.  Copied operation by operation (big.Rat → Rat, sdk.Dec → Dec with panics).
-/
namespace Sif.Clp

inductive Symmetry | emptyPool | nothingAdded | needMoreY | symmetric | needMoreX
  deriving Repr, DecidableEq

/-- `GetLiquidityAddSymmetryState(X, x, Y, y)` -/
def symmetryState (X x Y y : Nat) : Symmetry :=
  if X = 0 ∨ Y = 0 then .emptyPool
  else if x = 0 ∧ y = 0 then .nothingAdded
  else if x = 0 then .needMoreX
  else
    -- compare Y/X with y/x  (X, x > 0): Y*x vs y*X
    if Y * x < y * X then .needMoreX
    else if Y * x = y * X then .symmetric
    else .needMoreY

inductive SwapStatus | sellNative | buyNative | noSwap
  deriving Repr, DecidableEq

/-- `CalculatePoolUnitsSymmetric(X, x, P)` → (P + ⌊x·P/X⌋, ⌊x·P/X⌋); big.Int.Quo by zero panics -/
def poolUnitsSymmetric (X x P : Nat) : M (Nat × Nat) :=
  if X = 0 then .error .divZero else do
    let pu ← Uint.chk (x * P / X)
    let np ← Uint.add P pu
    pure (np, pu)

/-- `CalculateExternalSwapAmountAsymmetricRat(Y, X, y, x, f, r)` -/
def externalSwapAmountRat (Y X y x f r : Rat) : M Rat := do
  let r1 := r + 1
  let a_ := x + X
  let b_ := a_ * (-1)
  let c_ := Y * b_
  let d_ := f * f * x * Y
  let e_ := f * f * X * Y
  let f_ := 2 * f * r * x * Y
  let g_ := 4 * f * r * X * y
  let h_ := 2 * f * r * X * Y
  let i_ := 4 * f * X * y
  let j_ := 4 * f * X * Y
  let k_ := r * r * x * Y
  let l_ := r * r * X * Y
  let m_ := 4 * r * X * y
  let n_ := 4 * r * X * Y
  let o_ := 4 * X * y
  let p_ := 4 * X * Y
  let q_ := f * x * Y
  let r_ := f * X * Y
  let s_ := r * x * Y
  let t_ := 2 * r * X * y
  let u_ := r * X * Y
  let v_ := 2 * X * y
  let w_ := 2 * X * Y
  let x_ := y + Y
  let y_ := g_ + h_ + i_ + j_ - d_ - e_ - f_ - k_ - l_ - m_ - n_ - o_ - p_
  let z_ := c_ * y_
  let aa ← approxRatSqrt z_
  let ab_ := (aa : Rat) + q_ + r_ + s_ - t_ - u_ - v_ - w_
  let ac_ := 2 * r1 * x_
  let ad_ ← ratDiv ab_ ac_
  pure (if ad_ < 0 then -ad_ else ad_)

/-- `CalculateNativeSwapAmountAsymmetricRat(Y, X, y, x, f, r)` -/
def nativeSwapAmountRat (Y X y x f r : Rat) : M Rat := do
  let a_ := f * r * X * y
  let b_ := f * r * X * Y
  let c_ := f * X * y
  let d_ := f * X * Y
  let e_ := r * X * y
  let f_ := r * X * Y
  let g_ := 2 * x * Y
  let h_ := 2 * X * Y
  let i_ := x + X
  let j_ := x * Y * Y
  let k_ := X * y * Y
  let l_ := j_ - k_
  let m_ := 4 * i_ * l_
  let v_ := (x + X) * 2
  let w_ := e_ + f_ + g_ + h_ - a_ - b_ - c_ - d_
  let x_ := w_ * w_
  let y_ := x_ - m_
  let z ← approxRatSqrt y_
  let aa_ := (z : Rat) + a_ + b_ + c_ + d_ - e_ - f_ - g_ - h_
  let ab_ ← ratDiv aa_ v_
  pure (if ab_ < 0 then -ab_ else ab_)

def externalSwapAmount (R A r a : Nat) (f p : Rat) : M Nat := do
  let s ← externalSwapAmountRat R A r a f p
  Uint.ofInt (ratIntQuo s)

def nativeSwapAmount (R A r a : Nat) (f p : Rat) : M Nat := do
  let s ← nativeSwapAmountRat R A r a f p
  Uint.ofInt (ratIntQuo s)

/-- result of `CalculatePoolUnits`: `none` = `ErrInValidAmount` (an error, not a panic) -/
structure UnitsRes where
  poolUnits : Nat
  lpUnits : Nat
  status : SwapStatus
  swapAmount : Nat
  deriving Repr, DecidableEq

def needMoreYUnits (P R A r a : Nat) (fBuy p : Rat) : M UnitsRes := do
  let s ← externalSwapAmount R A r a fBuy p
  let aC ← Uint.sub a s
  let AP ← Uint.add A s
  let (pu, lu) ← poolUnitsSymmetric AP aC P
  pure ⟨pu, lu, .buyNative, s⟩

def needMoreXUnits (P R A r a : Nat) (fSell p : Rat) : M UnitsRes := do
  let s ← nativeSwapAmount R A r a fSell p
  let rC ← Uint.sub r s
  let RP ← Uint.add R s
  let (pu, lu) ← poolUnitsSymmetric RP rC P
  pure ⟨pu, lu, .sellNative, s⟩

def symmetricUnits (P R r : Nat) : M UnitsRes := do
  let (pu, lu) ← poolUnitsSymmetric R r P
  pure ⟨pu, lu, .noSwap, 0⟩

/-- `CalculatePoolUnits(P, R, A, r, a, sellNativeFee, buyNativeFee, pmtp)` -/
def calculatePoolUnits (P R A r a : Nat) (fSell fBuy p : Dec) : M (Option UnitsRes) :=
  match symmetryState A a R r with
  | .emptyPool => if a = 0 ∨ r = 0 then .ok none else .ok (some ⟨r, r, .noSwap, 0⟩)
  | .nothingAdded => .ok (some ⟨P, 0, .noSwap, 0⟩)
  | .needMoreY => (needMoreYUnits P R A r a (decToRat fBuy) (decToRat p)).map some
  | .symmetric => (symmetricUnits P R r).map some
  | .needMoreX => (needMoreXUnits P R A r a (decToRat fSell) (decToRat p)).map some

/-- `sdk.NewDecFromStr` of a decimal integer string: range check at 315 bits -/
def decOfNatStr (n : Nat) : M Dec := Dec.chk ((n * Dec.P : Nat) : Int)

/-- `NewUintFromBigInt(d.TruncateInt().BigInt())`: `NewIntFromBigInt` panics above 256 bits -/
def truncToUint (d : Dec) : M Nat := Uint.ofInt d.truncateInt
def roundToUint (d : Dec) : M Nat := Uint.ofInt d.roundInt

/-- `CalculateWithdrawal` with asymmetry 0 (the handler rejects every other value) →
    (native, external, lpUnitsLeft) -/
def calculateWithdrawal (poolUnits nDepth eDepth lpUnits wBasis : Nat) : M (Nat × Nat × Nat) := do
  let puF : Dec := Dec.ofNat poolUnits
  let nF ← decOfNatStr nDepth
  let eF ← decOfNatStr eDepth
  let luF ← decOfNatStr lpUnits
  let wF ← decOfNatStr wBasis
  let denominator ← (Dec.ofNat 10000).quo wF
  let unitsToClaim ← luF.quo denominator
  let q ← puF.quo unitsToClaim
  let wE ← eF.quo q
  let q' ← puF.quo unitsToClaim
  let wN ← nF.quo q'
  let left ← luF.sub unitsToClaim
  let n ← truncToUint wN
  let e ← truncToUint wE
  let l ← truncToUint left
  pure (n, e, l)

/-- `CalculateWithdrawalFromUnits` → (native, external, lpUnitsLeft) -/
def calculateWithdrawalFromUnits (poolUnits nDepth eDepth lpUnits wUnits : Nat) : M (Nat × Nat × Nat) := do
  let puF : Dec := Dec.ofNat poolUnits
  let nF ← decOfNatStr nDepth
  let eF ← decOfNatStr eDepth
  let luF ← decOfNatStr lpUnits
  let wuF ← decOfNatStr wUnits
  let q ← puF.quo wuF
  let wE ← eF.quo q
  let q' ← puF.quo wuF
  let wN ← nF.quo q'
  let left ← luF.sub wuF
  let n ← roundToUint wN
  let e ← roundToUint wE
  let l ← roundToUint left
  pure (n, e, l)

/-- `ConvWBasisPointsToUnits(total, wbasis)` = total / (10000 / wbasis) on sdk.Uint -/
def convWBasisToUnits (total wbasis : Nat) : M Nat := do
  let d ← Uint.quo 10000 wbasis
  Uint.quo total d

end Sif.Clp
