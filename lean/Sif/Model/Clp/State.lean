import Sif.Base.AList
import Sif.Model.Clp.Units
/-
  State of the AMM slice of the chain: x/bank balances, clp pools, liquidity providers, rewards
  buckets and the policy parameters the handlers read.  Stores are key-sorted association lists
  (iteration order = store order).
-/
namespace Sif.Clp

structure Pool where
  sym : String
  nBal : Nat            -- NativeAssetBalance
  eBal : Nat            -- ExternalAssetBalance
  units : Nat           -- PoolUnits
  nLiab : Nat := 0      -- NativeLiabilities   (margin)
  eLiab : Nat := 0      -- ExternalLiabilities
  nCust : Nat := 0      -- NativeCustody
  eCust : Nat := 0      -- ExternalCustody
  rpnd : Nat := 0       -- RewardPeriodNativeDistributed
  rae : Nat := 0        -- RewardAmountExternal
  deriving Repr, DecidableEq, Inhabited

structure LP where
  sym : String
  addr : String
  units : Nat
  lastUpdated : Int
  deriving Repr, DecidableEq, Inhabited

/-- one reward period (the harness installs at most one) -/
structure RewardPeriod where
  start : Nat
  stop : Nat
  allocation : Nat
  mod : Nat
  distribute : Bool
  defaultMult : Dec
  mults : AList Dec
  deriving Repr, Inhabited

/-- one provider-distribution (LPPD) period -/
structure LppdPeriod where
  start : Nat
  stop : Nat
  rate : Dec
  mod : Nat
  deriving Repr, Inhabited

structure Params where
  r : Dec := ⟨0⟩                      -- PmtpCurrentRunningRate
  feeDefault : Dec := ⟨3 * 10^15⟩     -- DefaultSwapFeeRate
  feeTokens : AList Dec := []         -- TokenParams (first match wins: sorted list, unique keys)
  rewardsDistribute : Bool := false   -- RewardsDistribute (bucket → wallet instead of pool)
  rewardsLockPeriod : Nat := 0
  rewardPeriod : Option RewardPeriod := none
  lppd : Option LppdPeriod := none
  registered : List String := []      -- registry entries carrying the CLP permission
  whitelist : List String := []       -- clp decommission whitelist
  blocked : List String := []         -- bank blocked recipients (module accounts, blacklist)
  marginPools : List String := []     -- x/margin params.Pools (margin-enabled pools)
  removalThreshold : Dec := ⟨0⟩       -- x/margin params.RemovalQueueThreshold
  lpActive : Bool := false            -- LiquidityProtectionParams.IsActive
  lpMax : Nat := 0                    -- MaxRowanLiquidityThreshold
  lpAsset : String := "cusdc"         -- MaxRowanLiquidityThresholdAsset
  deriving Repr, Inhabited

def clpAcct : String := "clp"
def rowan : String := "rowan"

structure St where
  bank : AList (AList Nat) := []      -- account ↦ denom ↦ amount
  pools : AList Pool := []            -- key: sym ++ "_rowan" (store order of the pool prefix)
  lps : AList (AList LP) := []        -- pool symbol ↦ address ↦ record (store order within a pool)
  buckets : AList Nat := []           -- key: denom
  accu : Nat := 0                     -- block-distribution accumulator (store key 0x0b)
  height : Int := 1
  params : Params := {}
  lpCur : Nat := 0                    -- LiquidityProtectionRateParams.CurrentRowanLiquidityThreshold
  deriving Repr, Inhabited

def poolKey (sym : String) : String := sym ++ "_rowan"

def St.bal (s : St) (acct denom : String) : Nat := (((s.bank.get acct).getD []).get denom).getD 0
def St.setBal (s : St) (acct denom : String) (v : Nat) : St :=
  { s with bank := s.bank.set acct (((s.bank.get acct).getD []).set denom v) }

/-- the provider records of one pool, in store order -/
def St.lpsOf (s : St) (sym : String) : AList LP := (s.lps.get sym).getD []
def St.getLP (s : St) (sym addr : String) : Option LP := (s.lpsOf sym).get addr
def St.setLP (s : St) (lp : LP) : St := { s with lps := s.lps.set lp.sym ((s.lpsOf lp.sym).set lp.addr lp) }
def St.eraseLP (s : St) (sym addr : String) : St := { s with lps := s.lps.set sym ((s.lpsOf sym).erase addr) }
def St.setPool (s : St) (p : Pool) : St := { s with pools := s.pools.set (poolKey p.sym) p }
def St.getPool (s : St) (sym : String) : Option Pool := s.pools.get (poolKey sym)

/-- failure of a message: an error return or a (recovered) panic — either way the transaction's
    writes are discarded -/
inductive Fail | err | panic
  deriving Repr, DecidableEq

abbrev R := Except Fail

def liftM {α} : M α → R α
  | .ok a => .ok a
  | .error _ => .error .panic

/-- x/bank send between two accounts (no blocked check: `SendCoinsFromAccountToModule`) -/
def send (s : St) (src dst denom : String) (amt : Nat) : Option St :=
  if amt = 0 then some s
  else if s.bal src denom < amt then none
  else
    let s1 := s.setBal src denom (s.bal src denom - amt)
    some (s1.setBal dst denom (s1.bal dst denom + amt))

/-- `SendCoinsFromModuleToAccount`: refuses blocked recipients -/
def sendFromModule (s : St) (dst denom : String) (amt : Nat) : Option St :=
  if s.params.blocked.contains dst then none else send s clpAcct dst denom amt

def feeRate (p : Params) (sym : String) : Dec := (p.feeTokens.get sym).getD p.feeDefault

/-- `pool.ExtractDebt(nBal, eBal, false)` → (native depth, external depth); `Uint.Add` can panic -/
def Pool.depths (p : Pool) : M (Nat × Nat) := do
  let n ← Uint.add p.nBal p.nLiab
  let e ← Uint.add p.eBal p.eLiab
  pure (n, e)

def poolThreshold : Nat := 10 ^ 18

end Sif.Clp
