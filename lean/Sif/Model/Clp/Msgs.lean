import Sif.Model.Clp.State
/-
  x/clp/keeper/msg_server.go + executors.go — the user messages of the AMM, as
  `St → … → R St` (`.error` = error return or recovered panic: DeliverTx discards the writes).
  Liquidity protection (the threshold gate of swaps and of the implicit swap of an asymmetric add) is
  in the slice.  Out of this slice (fixed by the harness configuration): the removal
  queue disabled (clp param EnableRemovalQueue = false; it is never persisted anyway), removal lock
  period 0 (C15 covers unlocks).  Pools may be margin-enabled (`Params.marginPools`) and carry margin
  liabilities / custody: removals from an enabled pool pass the pool-health gate of the handlers,
  registry permissions all granted for registered tokens (C12 covers the permission table).
-/
namespace Sif.Clp

def optR {α} (o : Option α) : R α := match o with | some a => .ok a | none => .error .err
def guardR (b : Bool) : R Unit := if b then .ok () else .error .err

/-! ### liquidity protection (keeper/liquidityprotection.go) -/

/-- `GetNativePrice`: 1 when the threshold is denominated in the native token, otherwise the spot price
    of the threshold asset's pool (`CalcRowanSpotPrice`); no such pool / empty native side = error -/
def nativePrice (s : St) : R Dec :=
  if s.params.lpAsset = rowan then .ok Dec.one else do
    let pool ← optR (s.pools.get (poolKey s.params.lpAsset))
    let (nD, eD) ← liftM pool.depths
    guardR (nD != 0)
    let un ← liftM (Dec.quo (Dec.ofNat eD) (Dec.ofNat nD))
    let r1 ← liftM (Dec.add s.params.r Dec.one)
    liftM (Dec.mul un r1)

/-- `CalcRowanValue` -/
def rowanValue (amount : Nat) (price : Dec) : M Nat := do
  let v ← Dec.mul price (Dec.ofNat amount)
  Uint.ofInt v.roundInt

/-- `CalculateDiscountedSentAmount` -/
def discountedSent (sent : Nat) (fee : Dec) : M Nat := do
  let d ← Dec.mul (Dec.ofNat sent) fee
  Uint.ofInt ((sent : Int) - d.roundInt)

/-- `MustUpdateLiquidityProtectionThreshold` → the new current threshold -/
def lpUpdate (cur mx : Nat) (sell : Bool) (amount : Nat) (price : Dec) : M Nat := do
  let v ← rowanValue amount price
  if sell then
    if cur < v then .error .other else Uint.sub cur v
  else do
    let room ← Uint.sub mx cur
    if room < v then pure mx else Uint.add cur v

/-- `BeginBlocker`, first part: the threshold is replenished by max / EpochLength per block, up to the
    maximum (`QuoUint64` panics on 0, `Sub` when the current threshold exceeds the maximum) -/
def lpBeginBlock (s : St) (epochLength : Nat) : M St :=
  if s.params.lpActive then do
    let rep ← Uint.quo s.params.lpMax epochLength
    let room ← Uint.sub s.params.lpMax s.lpCur
    if room < rep then pure { s with lpCur := s.params.lpMax }
    else do
      let c ← Uint.add s.lpCur rep
      pure { s with lpCur := c }
  else pure s

/-- swap, before anything moves: the price (needed later too) and the gate on selling native -/
def lpSwapBefore (s : St) (sent : String) (amt : Nat) : R (Option Dec) :=
  if s.params.lpActive then do
    let price ← nativePrice s
    if sent = rowan then do
      let v ← liftM (rowanValue amt price)
      guardR (!(decide (s.lpCur < v)))
      pure (some price)
    else pure (some price)
  else .ok none

/-- swap, after the payout: selling native lowers the threshold by the value of the discounted amount -/
def lpSwapSold (cur mx : Nat) (price : Dec) (sent : String) (amt : Nat) (f : Dec) : R Nat :=
  if sent = rowan then do
    let d ← liftM (discountedSent amt f)
    liftM (lpUpdate cur mx true d price)
  else .ok cur

/-- … buying native raises it by the value of the emitted amount, up to the maximum -/
def lpSwapBought (cur mx : Nat) (price : Dec) (recv : String) (y : Nat) : R Nat :=
  if recv = rowan then liftM (lpUpdate cur mx false y price) else .ok cur

/-- swap, after the payout: the threshold moves by what was sold / bought → the new threshold -/
def lpSwapAfter (cur mx : Nat) (price : Option Dec) (sent recv : String) (amt y : Nat) (f : Dec) : R Nat :=
  match price with
  | none => .ok cur
  | some price => do
    let c1 ← lpSwapSold cur mx price sent amt f
    lpSwapBought c1 mx price recv y

/-- add: the implicit swap of an asymmetric add is gated and accounted like a swap → the new threshold -/
def lpAdd (s : St) (u : UnitsRes) (nD eD : Nat) (fSell fBuy : Dec) : R Nat :=
  if s.params.lpActive then
    match u.status with
    | .noSwap => .ok s.lpCur
    | .sellNative => do
        let price ← nativePrice s
        let v ← liftM (rowanValue u.swapAmount price)
        guardR (!(decide (s.lpCur < v)))
        let d ← liftM (discountedSent u.swapAmount fSell)
        liftM (lpUpdate s.lpCur s.params.lpMax true d price)
    | .buyNative => do
        let res ← liftM (calcSwapResult true eD u.swapAmount nD s.params.r fBuy)
        let price ← nativePrice s
        liftM (lpUpdate s.lpCur s.params.lpMax false res.1 price)
  else .ok s.lpCur

/-- `CreatePool` -/
def createPool (s : St) (signer sym : String) (nAmt eAmt : Nat) : R St := do
  guardR (decide (poolThreshold ≤ nAmt))
  -- `sdk.NewCoins(external, native)` panics on duplicate denominations
  guardR (sym ≠ rowan)
  guardR (s.params.registered.contains sym)
  guardR (!(s.pools.contains (poolKey sym)))
  let u ← liftM (calculatePoolUnits 0 0 0 nAmt eAmt (feeRate s.params rowan) (feeRate s.params sym) s.params.r)
  let u ← optR u
  guardR (decide (eAmt ≤ s.bal signer sym) || decide (nAmt ≤ s.bal signer rowan))
  let s1 ← optR (send s signer clpAcct sym eAmt)
  let s2 ← optR (send s1 signer clpAcct rowan nAmt)
  let pool : Pool := { sym := sym, nBal := nAmt, eBal := eAmt, units := u.poolUnits }
  let lp : LP := { sym := sym, addr := signer, units := u.lpUnits, lastUpdated := s.height }
  pure ((s2.setPool pool).setLP lp)

/-- provider record after an add: a fresh record gets `lpUnits` once (the code zeroes the
    increment after creating it) -/
def lpAfterAdd (s : St) (sym signer : String) (lpUnits : Nat) : M LP :=
  match s.getLP sym signer with
  | none => .ok { sym := sym, addr := signer, units := lpUnits, lastUpdated := s.height }
  | some lp => do
      let u ← Uint.add lp.units lpUnits
      pure { sym := sym, addr := signer, units := u, lastUpdated := s.height }

/-- `AddLiquidity` without the liquidity-protection accounting -/
def addLiquidityCore (s : St) (signer sym : String) (nAmt eAmt : Nat) : R St := do
  guardR (s.params.registered.contains rowan)
  guardR (s.params.registered.contains sym)
  let pool ← optR (s.pools.get (poolKey sym))
  let (nD, eD) ← liftM pool.depths
  let u ← liftM (calculatePoolUnits pool.units nD eD nAmt eAmt (feeRate s.params rowan) (feeRate s.params sym) s.params.r)
  let u ← optR u
  -- Keeper.AddLiquidity: `coins[0]` on an empty coin list panics
  guardR (!(nAmt = 0 && eAmt = 0))
  let s1 ← optR (send s signer clpAcct sym eAmt)
  let s2 ← optR (send s1 signer clpAcct rowan nAmt)
  let nB ← liftM (Uint.add pool.nBal nAmt)
  let eB ← liftM (Uint.add pool.eBal eAmt)
  let lp ← liftM (lpAfterAdd s sym signer u.lpUnits)
  let pool' := { pool with sym := sym, units := u.poolUnits, nBal := nB, eBal := eB }
  pure ((s2.setPool pool').setLP lp)

/-- the threshold after an add (recomputes what the handler has at hand at that point) -/
def addLiquidityLp (s : St) (sym : String) (nAmt eAmt : Nat) : R Nat := do
  let pool ← optR (s.pools.get (poolKey sym))
  let (nD, eD) ← liftM pool.depths
  let u ← liftM (calculatePoolUnits pool.units nD eD nAmt eAmt (feeRate s.params rowan) (feeRate s.params sym) s.params.r)
  let u ← optR u
  lpAdd s u nD eD (feeRate s.params rowan) (feeRate s.params sym)

/-- `AddLiquidity` -/
def addLiquidity (s : St) (signer sym : String) (nAmt eAmt : Nat) : R St := do
  let c ← addLiquidityLp s sym nAmt eAmt
  let s' ← addLiquidityCore s signer sym nAmt eAmt
  pure { s' with lpCur := c }

/-- `Keeper.RemoveLiquidity`: too-shallow guard, `SetPool`, payout, provider update -/
def finishRemoval (s : St) (pool' : Pool) (sym addr : String) (wN wE lpUnitsLeft nD eD : Nat) : R St := do
  guardR (!(decide (eD ≤ wE) || decide (nD ≤ wN)))
  guardR (decide (wE ≤ s.bal clpAcct sym))
  guardR (decide (wN ≤ s.bal clpAcct rowan))
  guardR (!((wE != 0 || wN != 0) && s.params.blocked.contains addr))
  let s1 ← optR (send s clpAcct addr sym wE)
  let s2 ← optR (send s1 clpAcct addr rowan wN)
  let s3 := s2.setPool pool'
  pure (if lpUnitsLeft = 0 then s3.eraseLP sym addr
        else s3.setLP { sym := sym, addr := addr, units := lpUnitsLeft, lastUpdated := s.height })

/-- pool record after a withdrawal: `units − lp.units + left`, balances minus the payouts -/
def poolAfterRemoval (pool : Pool) (lpUnits left wN wE : Nat) : M Pool := do
  let u0 ← Uint.sub pool.units lpUnits
  let u ← Uint.add u0 left
  let nB ← Uint.sub pool.nBal wN
  let eB ← Uint.sub pool.eBal wE
  pure { pool with units := u, nBal := nB, eBal := eB }

/-- `margin.CalculatePoolHealth` of the pool as it would be after the withdrawal: the product of
    balance / (balance + liabilities) of both sides, 0 if a side is empty (sdk.Dec operations) -/
def poolHealth3 (nB eB : Nat) (eS nS : Dec) : M Dec := do
  let m1 ← (Dec.ofNat eB).quo eS
  let m2 ← (Dec.ofNat nB).quo nS
  m1.mul m2

def poolHealth2 (nB eB nL : Nat) (eS : Dec) : M Dec := do
  let nS ← (Dec.ofNat nB).add (Dec.ofNat nL)
  if nS.isZero then pure Dec.zero else poolHealth3 nB eB eS nS

def poolHealth (nB eB nL eL : Nat) : M Dec := do
  let eS ← (Dec.ofNat eB).add (Dec.ofNat eL)
  if eS.isZero then pure Dec.zero else poolHealth2 nB eB nL eS

/-- the branch `if k.GetMarginKeeper().IsPoolEnabled(ctx, eAsset.Denom)` of both removal handlers (removal
    queue disabled): `CalculateWithdrawalRowanValue` is evaluated (its panics count), then the removal is
    refused (`ErrRemovalsBlockedByHealth`) if it would leave the pool health below the threshold -/
def healthGateOn (s : St) (pool : Pool) (sym : String) (wN wE : Nat) : R Unit := do
  let Xi ← liftM (Uint.add pool.eBal pool.eLiab)
  let Yi ← liftM (Uint.add pool.nBal pool.nLiab)
  let _ ← liftM (calcSwapResult true Xi wE Yi s.params.r (feeRate s.params sym))
  let nB ← liftM (Uint.sub pool.nBal wN)
  let eB ← liftM (Uint.sub pool.eBal wE)
  let h ← liftM (poolHealth nB eB pool.nLiab pool.eLiab)
  guardR (!(decide (h.i < s.params.removalThreshold.i)))

def healthGate (s : St) (pool : Pool) (sym : String) (wN wE : Nat) : R Unit :=
  if s.params.marginPools.contains sym then healthGateOn s pool sym wN wE else .ok ()

/-- `RemoveLiquidity` (by basis points; asymmetry must be 0) -/
def removeLiquidity (s : St) (signer sym : String) (wBasis : Nat) : R St := do
  guardR (s.params.registered.contains sym)
  let pool ← optR (s.pools.get (poolKey sym))
  let lp ← optR (s.getLP sym signer)
  let msgUnits ← liftM (convWBasisToUnits lp.units wBasis)
  guardR (decide (msgUnits ≤ lp.units))
  let (nD, eD) ← liftM pool.depths
  let (wN, wE, left) ← liftM (calculateWithdrawal pool.units nD eD lp.units wBasis)
  let _ ← liftM (Uint.sub lp.units left)
  healthGate s pool sym wN wE
  let pool' ← liftM (poolAfterRemoval pool lp.units left wN wE)
  finishRemoval s { pool' with sym := sym } sym signer wN wE left nD eD

/-- `RemoveLiquidityUnits` -/
def removeLiquidityUnits (s : St) (signer sym : String) (wUnits : Nat) : R St := do
  guardR (s.params.registered.contains sym)
  let pool ← optR (s.pools.get (poolKey sym))
  let lp ← optR (s.getLP sym signer)
  guardR (decide (wUnits ≤ lp.units))
  let (nD, eD) ← liftM pool.depths
  let (wN, wE, left) ← liftM (calculateWithdrawalFromUnits pool.units nD eD lp.units wUnits)
  let _ ← liftM (Uint.sub lp.units left)
  healthGate s pool sym wN wE
  let pool' ← liftM (poolAfterRemoval pool lp.units left wN wE)
  finishRemoval s { pool' with sym := sym } sym signer wN wE left nD eD

/-- `SwapOne`: → (output, fee, pool after the swap); `toRowan` = the received asset is native -/
def swapOne (toRowan : Bool) (x : Nat) (pool : Pool) (r f : Dec) : R (Nat × Nat × Pool) := do
  let X := if toRowan then pool.eBal else pool.nBal
  let Y := if toRowan then pool.nBal else pool.eBal
  let Xi ← liftM (Uint.add X (if toRowan then pool.eLiab else pool.nLiab))
  let Yi ← liftM (Uint.add Y (if toRowan then pool.nLiab else pool.eLiab))
  let (y, fee) ← liftM (calcSwapResult toRowan Xi x Yi r f)
  guardR (decide (y < Y))
  let X' ← liftM (Uint.add X x)
  let Y' ← liftM (Uint.sub Y y)
  let pool' := if toRowan then { pool with eBal := X', nBal := Y' } else { pool with nBal := X', eBal := Y' }
  pure (y, fee, pool')

/-- first leg of an external→external swap: sells `sent` for native into its own pool -/
def swapFirstLeg (s : St) (sent : String) (amt : Nat) (f : Dec) : R (St × Nat) := do
  let inPool ← optR (s.pools.get (poolKey sent))
  let (y, _, p') ← swapOne true amt inPool s.params.r f
  pure (s.setPool { p' with sym := sent }, y)

/-- the first leg is taken only when neither side of the swap is native -/
def swapRoute (s : St) (sent recv : String) (amt : Nat) (f : Dec) : R (St × Nat) :=
  if sent ≠ rowan ∧ recv ≠ rowan then swapFirstLeg s sent amt f else .ok (s, amt)

/-- `Swap` without the liquidity-protection gate and accounting → (state, emitted amount) -/
def swapCore (s : St) (signer sent recv : String) (amt minRecv : Nat) : R (St × Nat) := do
  guardR (s.params.registered.contains sent)
  guardR (s.params.registered.contains recv)
  let f := feeRate s.params sent
  guardR (sent = rowan || s.pools.contains (poolKey sent))
  guardR (decide (amt ≤ s.bal signer sent))
  let s1 ← optR (send s signer clpAcct sent amt)
  let (s2, amt2) ← swapRoute s1 sent recv amt f
  let outSym := if recv = rowan then sent else recv
  let outPool ← optR (s2.pools.get (poolKey outSym))
  let (y, _, p') ← swapOne (decide (recv = rowan)) amt2 outPool s.params.r f
  guardR (decide (minRecv ≤ y))
  let s3 := s2.setPool { p' with sym := outSym }
  guardR (!(s3.params.blocked.contains signer))
  let s4 ← optR (send s3 clpAcct signer recv y)
  pure (s4, y)

/-- `Swap` → (state, emitted amount) -/
def swap (s : St) (signer sent recv : String) (amt minRecv : Nat) : R (St × Nat) := do
  let price ← lpSwapBefore s sent amt
  let (s4, y) ← swapCore s signer sent recv amt minRecv
  let c ← lpSwapAfter s.lpCur s.params.lpMax price sent recv amt y (feeRate s.params sent)
  pure ({ s4 with lpCur := c }, y)

/-- refunds of `DecommissionPool`, provider by provider in store order; the running balances
    only serve the underflow panics of the handler -/
def decommissionLoop (pool : Pool) (nD eD : Nat) : List (String × LP) → St → Nat → Nat → Nat → R St
  | [], s, _, _, _ => .ok s
  | (k, lp) :: rest, s, pu, nB, eB => do
      let (wN, wE, _) ← liftM (calculateWithdrawal pool.units nD eD lp.units 10000)
      let pu' ← liftM (Uint.sub pu lp.units)
      let nB' ← liftM (Uint.sub nB wN)
      let eB' ← liftM (Uint.sub eB wE)
      guardR (!(s.params.blocked.contains lp.addr))
      let s1 ← optR (send s clpAcct lp.addr pool.sym wE)
      let s2 ← optR (send s1 clpAcct lp.addr rowan wN)
      decommissionLoop pool nD eD rest (s2.eraseLP pool.sym k) pu' nB' eB'

/-- the provider list `DecommissionPool` obtains from `GetLiquidityProvidersForAssetPaginated`
    (Limit MaxUint64 − 1 since fix F15): every provider record of the pool, in store order -/
def decommissionLps (s : St) (sym : String) : List (String × LP) := s.lpsOf sym

/-- `DecommissionPool` -/
def decommissionPool (s : St) (signer sym : String) : R St := do
  let pool ← optR (s.pools.get (poolKey sym))
  guardR (s.params.whitelist.contains signer)
  guardR (decide (pool.nBal < poolThreshold))
  let (nD, eD) ← liftM pool.depths
  let s1 ← decommissionLoop { pool with sym := sym } nD eD (decommissionLps s sym) s pool.units pool.nBal pool.eBal
  pure { s1 with pools := s1.pools.erase (poolKey sym) }

/-- `AddLiquidityToRewardsBucket` for one coin (`sdk.Coins` never holds a zero coin: a zero
    amount is the empty coin list and the handler does nothing) -/
def addToBucket (s : St) (signer denom : String) (amt : Nat) : R St := if amt = 0 then .ok s else do
  guardR (decide (amt ≤ s.bal signer denom))
  guardR (denom ≠ "")
  let s1 ← optR (send s signer clpAcct denom amt)
  let cur := (s1.buckets.get denom).getD 0
  pure { s1 with buckets := s1.buckets.set denom (cur + amt) }

end Sif.Clp
