import Sif.Model.Clp.Msgs
/-
  Block hooks of the AMM: EndBlocker (provider distribution "LPPD", depth rewards) and the epoch
  hook (rewards bucket payout).  NOT atomic: an error inside a hook leaves the writes made so far;
  a panic (`.error`) halts the chain.  Map iterations of the Go code are modelled in sorted key
  order (C09 proves order-independence of the resulting store).
-/
namespace Sif.Clp

/-- `CalcProviderDistributionAmount`: rnd( rnd18(u/P) · rowanPd ) — the final conversion
    `sdk.Uint(x.RoundInt())` is unchecked in the code -/
def providerAmount (rowanPd : Dec) (poolUnits lpUnits : Nat) : M Nat := do
  let pct ← (Dec.ofNat lpUnits).quo (Dec.ofNat poolUnits)
  let pr ← pct.mul rowanPd
  pure pr.roundInt.toNat

/-- one pool's `CollectProviderDistribution`: amounts per provider in store order with the running
    clamp at `cap`; returns the list (addr, amount) and the total -/
def collectLoop (rowanPd : Dec) (cap poolUnits : Nat) : List LP → Nat → List (String × Nat) → M (List (String × Nat) × Nat)
  | [], total, acc => .ok (acc.reverse, total)
  | lp :: rest, total, acc => do
      let a ← providerAmount rowanPd poolUnits lp.units
      let t ← Uint.add total a
      if t > cap then do
        let prev ← Uint.sub t a
        let a' ← Uint.sub cap prev
        collectLoop rowanPd cap poolUnits rest cap ((lp.addr, a') :: acc)
      else
        collectLoop rowanPd cap poolUnits rest t ((lp.addr, a) :: acc)

def collectProviderDistribution (rowanPd : Dec) (poolUnits : Nat) (lps : List LP) : M (List (String × Nat) × Nat) := do
  let cap ← Uint.ofInt rowanPd.roundInt
  collectLoop rowanPd cap poolUnits lps 0 []

def lpsOf (s : St) (sym : String) : List LP := (s.lpsOf sym).map (·.2)

/-- a planned payout: store key of the pool, provider address, amount -/
abbrev Payout := String × String × Nat

/-- all payouts of one distribution, pool by pool in store order, with each pool's total -/
def collectAll (s : St) (f : Pool → M (Option Dec)) : List (String × Pool) → M (List Payout × AList Nat)
  | [] => .ok ([], [])
  | (key, pool) :: rest => do
      let (ps, tots) ← collectAll s f rest
      let lps := lpsOf s pool.sym
      match lps with
      | [] => pure (ps, tots)
      | _ => do
        match ← f pool with
        | none => pure (ps, tots)
        | some pd => do
          let (l, total) ← collectProviderDistribution pd pool.units lps
          pure (l.map (fun (a, n) => (key, a, n)) ++ ps, tots.set key total)

/-- distinct recipient addresses in sorted order (the model's iteration order for the Go map) -/
def recipients (ps : List Payout) : List String :=
  (ps.foldl (fun (acc : AList Unit) p => acc.set p.2.1 ()) []).keys

def totalFor (ps : List Payout) (addr : String) : Nat :=
  (ps.filter (fun p => p.2.1 = addr)).foldl (fun a p => a + p.2.2) 0

/-- a failed send is taken back out of the per-pool totals (`poolRowanMap[pool].Sub(amount)`) -/
def refundTotals (tots : AList Nat) (ps : List Payout) (addr : String) : M (AList Nat) :=
  (ps.filter (fun p => p.2.1 = addr)).foldlM (fun t p => do
    let cur := (t.get p.1).getD 0
    let v ← Uint.sub cur p.2.2
    pure (t.set p.1 v)) tots

/-- `TransferProviderDistributionGeneric` -/
def transferAll (ps : List Payout) : List String → St → AList Nat → M (St × AList Nat)
  | [], s, tots => .ok (s, tots)
  | addr :: rest, s, tots =>
    match sendFromModule s addr rowan (totalFor ps addr) with
    | some s' => transferAll ps rest s' tots
    | none => do
        let tots' ← refundTotals tots ps addr
        transferAll ps rest s tots'

/-- `RemoveRowanFromPool` (the map is keyed by the pool's store key): an insufficient (or missing)
    pool is skipped -/
def deductRowan (s : St) (e : String × Nat) : St :=
  match s.pools.get e.1 with
  | none => s
  | some p => if p.nBal < e.2 then s else { s with pools := s.pools.set e.1 { p with nBal := p.nBal - e.2 } }

/-- LPPD: `RemoveRowanFromPool` for every pool of the map -/
def removeRowanFromPools (s : St) (tots : AList Nat) : St := tots.foldl deductRowan s

def periodActive (h : Int) (start stop : Nat) : Bool := decide ((start : Int) ≤ h ∧ h ≤ (stop : Int))

/-- `IsDistributionBlockPure`: Go's truncated remainder; `mod = 0` panics -/
def isDistributionBlock (h : Int) (start mod : Nat) : M Bool :=
  if mod = 0 then .error .divZero else .ok (Int.tmod (h - start) mod == 0)

/-- `ProviderDistributionPolicyRun` -/
def lppdRun (s : St) (p : LppdPeriod) : M St := do
  let (ps, tots) ← collectAll s (fun pool => do
      let pd ← p.rate.mul (Dec.ofNat pool.nBal)
      pure (some pd)) s.pools
  let (s1, tots1) ← transferAll ps (recipients ps) s tots
  pure (removeRowanFromPools s1 tots1)

def lppdHook (s : St) : M St :=
  match s.params.lppd with
  | none => .ok s
  | some p =>
    if periodActive s.height p.start p.stop then do
      let d ← isDistributionBlock s.height p.start p.mod
      if d then lppdRun s p else pure s
    else .ok s

def multiplier (rp : RewardPeriod) (sym : String) : Dec := (rp.mults.get sym).getD rp.defaultMult

/-- `calcTotalDepth` (the reset of the per-period counters at the start block is applied separately) -/
def totalDepth (rp : RewardPeriod) : List (String × Pool) → Dec → M Dec
  | [], acc => .ok acc
  | (_, p) :: rest, acc => do
      let w ← (Dec.ofNat p.nBal).mul (multiplier rp p.sym)
      let acc' ← acc.add w
      totalDepth rp rest acc'

/-- `calcPoolDistribution` -/
def poolDistribution (m : Dec) (nBal : Nat) (td : Dec) (bd : Nat) : M Nat := do
  let w0 ← (Dec.ofNat nBal).mul m
  let w ← w0.quo td
  let pd ← w.mul (Dec.ofNat bd)
  Uint.ofInt pd.truncateInt

/-- `CollectPoolRewardTuples` → list of (pool symbol, reward), coins to mint -/
def rewardTuples (rp : RewardPeriod) (td : Dec) (bd : Nat) : List (String × Pool) → Nat → Nat → List (String × Nat) → M (List (String × Nat) × Nat)
  | [], _, mint, acc => .ok (acc.reverse, mint)
  | (_, p) :: rest, remaining, mint, acc =>
    if remaining = 0 then .ok (acc.reverse, mint) else do
      let pd ← poolDistribution (multiplier rp p.sym) p.nBal td bd
      if pd = 0 then rewardTuples rp td bd rest remaining mint acc
      else
        let pd' := if pd > remaining then remaining else pd
        rewardTuples rp td bd rest (remaining - pd') (mint + pd') ((p.sym, pd') :: acc)

def resetRpnd (s : St) : St :=
  { s with pools := s.pools.map (fun e => (e.1, { e.2 with rpnd := 0 })) }

def addRewardToPool (s : St) (sym : String) (amt : Nat) : M St :=
  match s.pools.get (poolKey sym) with
  | none => .ok s
  | some p => do
    let nB ← Uint.add p.nBal amt
    let rp ← Uint.add p.rpnd amt
    pure { s with pools := s.pools.set (poolKey sym) { p with nBal := nB, rpnd := rp } }

def bumpRpnd (s : St) (tots : AList Nat) : M St :=
  tots.foldlM (fun s (key, amt) =>
    if amt = 0 then pure s else
    match s.pools.get key with
    | none => pure s
    | some p => do
      let rp ← Uint.add p.rpnd amt
      pure { s with pools := s.pools.set key { p with rpnd := rp } }) s

/-- accumulate mode: every rewarded pool's balance grows by its reward -/
def accumulateRewards (s : St) (tuples : List (String × Nat)) : M St :=
  tuples.foldlM (fun s (sym, amt) => addRewardToPool s sym amt) s

/-- distribute mode: pools without providers accumulate; the others pay their providers; what
    could not be paid is burned so that the module balance returns to `pre + kept` -/
def distributeRewards (s : St) (tuples : List (String × Nat)) (pre : Nat) : M St := do
  let noLp := tuples.filter (fun t => (lpsOf s t.1).isEmpty)
  let withLp := tuples.filter (fun t => !(lpsOf s t.1).isEmpty)
  let s0 ← accumulateRewards s noLp
  let (ps, tots) ← collectAll s0 (fun pool => pure ((withLp.find? (·.1 = pool.sym)).map (fun t => Dec.ofNat t.2))) s0.pools
  let (s1, tots1) ← transferAll ps (recipients ps) s0 tots
  let s2 ← bumpRpnd s1 tots1
  let post := s2.bal clpAcct rowan
  let diff ← Uint.sub post pre
  pure (s2.setBal clpAcct rowan (post - diff))

/-- the minting half of `DistributeDepthRewards` (positive total depth) -/
def distributeTuples (s0 : St) (rp : RewardPeriod) (td : Dec) (bd : Nat) : M St := do
  let (tuples, mint) ← rewardTuples rp td bd s0.pools bd 0 []
  let pre := s0.bal clpAcct rowan
  let s1 := s0.setBal clpAcct rowan (pre + mint)
  if rp.distribute then distributeRewards s1 tuples pre else accumulateRewards s1 tuples

/-- at the first block of a period the per-period counters of every pool are reset -/
def startReset (s : St) (rp : RewardPeriod) : St := if s.height = (rp.start : Int) then resetRpnd s else s

def afterDepth (s0 : St) (rp : RewardPeriod) (td : Dec) (bd : Nat) : M St :=
  if td.i ≤ 0 then .ok s0 else distributeTuples s0 rp td bd

/-- `DistributeDepthRewards` -/
def distributeDepthRewards (s : St) (rp : RewardPeriod) (bd : Nat) : M St :=
  if bd = 0 then .ok s else do
    let td ← totalDepth rp s.pools Dec.zero
    afterDepth (startReset s rp) rp td bd

/-- `CalcBlockDistribution`: allocation / (end − start + 1) in uint64 arithmetic -/
def blockDistribution (rp : RewardPeriod) : M Nat :=
  let len := (rp.stop + 2^64 - rp.start + 1) % 2^64
  Uint.quo rp.allocation len

/-- the rewards half of `EndBlocker` -/
def rewardsHook (s : St) : M St :=
  match s.params.rewardPeriod with
  | none => .ok s
  | some rp0 =>
    if !(periodActive s.height rp0.start rp0.stop) || rp0.allocation = 0 then .ok s else do
      let rp := if rp0.mod = 0 then { rp0 with mod := 1 } else rp0
      let d ← isDistributionBlock s.height rp.start rp.mod
      let cur ← blockDistribution rp
      -- fix F10: entitlement left over from an earlier period is dropped when a period starts
      let accu := if s.height = (rp.start : Int) then 0 else s.accu
      let bd ← Uint.add accu cur
      if d then do
        let s1 ← distributeDepthRewards s rp bd
        pure { s1 with accu := 0 }
      else pure { s with accu := bd }

/-- `clp.EndBlocker` -/
def endBlocker (s : St) : M St := do
  let s1 ← lppdHook s
  rewardsHook s1

/-! ### the epoch hook: rewards-bucket payout -/

def eligible (s : St) (lp : LP) : Bool := decide (lp.lastUpdated < s.height - (s.params.rewardsLockPeriod : Int))

/-- `SubtractFromRewardsBucket` -/
def subBucket (s : St) (denom : String) (amt : Nat) : Option St :=
  match s.buckets.get denom with
  | none => none
  | some cur => if cur < amt then none else some { s with buckets := s.buckets.set denom (cur - amt) }

/-- `DistributeLiquidityProviderRewards` (as repaired by fix F1): the bucket is debited first, which
    checks that it holds the amount; then the coins are sent; a failed send returns the amount to
    the bucket.  Errors are logged and swallowed by the hook. -/
def payToWallet (s : St) (sym addr : String) (amt : Nat) : St :=
  match subBucket s sym amt with
  | none => s
  | some s1 =>
    match sendFromModule s1 addr sym amt with
    | some s2 => s2
    | none => s

/-- `AddRewardAmountToLiquidityPool`.  The hook holds a copy of the provider record read when it
    started; store keys are unique and no earlier iteration writes this key, so the copy equals the
    stored record, which is what the model reads. -/
def reinvest (s : St) (sym addr : String) (amt : Nat) : M St :=
  match s.getPool sym, s.getLP sym addr with
  | some pool, some lp => do
    let (nD, eD) ← pool.depths
    let u ← calculatePoolUnits pool.units nD eD 0 amt (feeRate s.params rowan) (feeRate s.params sym) s.params.r
    match u with
    | none => pure s
    | some u => do
      let eB ← Uint.add pool.eBal amt
      match subBucket s sym amt with
      | none => pure s
      | some s1 => do
        let lu ← Uint.add lp.units u.lpUnits
        pure ((s1.setPool { pool with sym := sym, units := u.poolUnits, eBal := eB }).setLP
                { sym := sym, addr := addr, units := lu, lastUpdated := lp.lastUpdated })
  | _, _ => .ok s

/-- the running clamp of fix F26: the amounts never add up to more than the bucket holds; a provider
    whose rounded share exceeds what is left gets what is left -/
def clampAmounts : Nat → List (String × Nat) → List (String × Nat)
  | _, [] => []
  | remaining, (a, x) :: rest =>
    let y := if x > remaining then remaining else x
    (a, y) :: clampAmounts (remaining - y) rest

/-- one provider's unclamped amount: ⌊ rnd18(u / U) · bucket ⌋ -/
def rewardAmountOf (units total bucket : Nat) : M Nat := do
  let sh ← (Dec.ofNat units).quo (Dec.ofNat total)
  let a ← sh.mulInt bucket
  pure a.truncateInt.toNat

/-- reward amounts per eligible provider (address, amount): `CalculateRewardShareForLiquidityProviders`
    then `CalculateRewardAmountForLiquidityProviders` (with the clamp of fix F26) -/
def rewardAmounts (lps : List (String × LP)) (bucket : Nat) : M (List (String × Nat)) := do
  let total := lps.foldl (fun a e => a + e.2.units) 0
  -- fix F16: no eligible provider holds a unit ⇒ every share is zero (the division would panic)
  if total = 0 then pure (lps.map (fun e => (e.1, 0))) else do
  let raw ← lps.mapM (fun e => do
    let a ← rewardAmountOf e.2.units total bucket
    pure (e.1, a))
  pure (clampAmounts bucket raw)

def payOne (sym : String) (s : St) (e : String × Nat) : M St :=
  if s.params.rewardsDistribute then pure (payToWallet s sym e.1 e.2) else reinvest s sym e.1 e.2

def bumpRae (s : St) (sym : String) (bucket : Nat) : M St :=
  match s.pools.get (poolKey sym) with
  | none => pure s
  | some p => do
    let rae ← Uint.add p.rae bucket
    pure { s with pools := s.pools.set (poolKey sym) { p with rae := rae } }

/-- one asset of `AfterEpochEnd` -/
def epochAsset (s : St) (sym : String) : M St :=
  match s.buckets.get sym with
  | none => .ok s
  | some bucket =>
    let lps := (s.lpsOf sym).filter (fun e => eligible s e.2)
    match lps with
    | [] => .ok s
    | _ => do
      let amts ← rewardAmounts lps bucket
      let s1 ← amts.foldlM (payOne sym) s
      bumpRae s1 sym bucket

/-- `AfterEpochEnd` for the rewards epoch identifier: every asset that has eligible providers -/
def afterEpochEnd (s : St) : M St :=
  s.lps.keys.foldlM epochAsset s

end Sif.Clp
