import Sif.Num.Basic
/-
  x/clp/keeper/calculations.go — the pure calculators, copied operation by operation.
-/
namespace Sif.Clp

/-- `calcPmtpFactor`: 1 + r as a rational -/
def pmtpFactor (r : Dec) : Rat := 1 + decToRat r

/-- `calcRawXYK`: x*Y/(X+x) -/
def rawXYK (x X Y : Nat) : Rat := mkRat ((x * Y : Nat) : Int) (X + x)

/-- the ratio-shifting adjustment: divide when buying native, multiply when selling it -/
def adjustR (toRowan : Bool) (raw fac : Rat) : M Rat :=
  if toRowan then ratDiv raw fac else pure (raw * fac)

/-- `CalcSwapResult` → (output, fee).  `r` = ratio-shifting running rate, `f` = swap fee rate. -/
def calcSwapResult (toRowan : Bool) (X x Y : Nat) (r f : Dec) : M (Nat × Nat) :=
  if X = 0 ∨ x = 0 ∨ Y = 0 then .ok (0, 0) else do
    let adjustedR ← adjustR toRowan (rawXYK x X Y) (pmtpFactor r)
    let fee ← Uint.ofInt (ratIntQuo (adjustedR * decToRat f))
    let adjusted ← Uint.ofInt (ratIntQuo adjustedR)
    let y ← Uint.sub adjusted fee
    pure (y, fee)

end Sif.Clp
