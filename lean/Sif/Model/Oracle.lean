import Sif.Generated.BridgeConsts
/-
  Model of x/oracle (keeper/keeper.go, types/prophecy.go, keeper/validatorWhiteList.go), copied
  operation by operation.  Core Lean only: linked into the driver `drv_bridge`.

  * Validators are aliases (`Nat`); the staking module is environment: `vals` is the list of validators
    the staking keeper knows, with consensus power (tokens / 10^18) and bonded flag.
  * A claim content is an opaque string in Go (the JSON of `OracleClaimContent`); the model keeps the
    five JSON fields, `Content.empty` stands for the empty string.  That `json.Marshal`/`Unmarshal`
    round-trips these fields and is injective on them is trusted (exercised by the correspondence).
  * `Prophecy.ClaimValidators` and `ValidatorClaims` are Go maps; they are association lists here.
    `FindHighestClaim` ranges over the first one: the iteration order is a parameter `ord` (any function
    returning a permutation of its argument); see `Props/C05.tally_perm_invariant`.
-/
namespace Sif.Oracle

inductive Content where
  | empty
  | eth (receiver : Nat) (amount : Int) (symbol : String) (token : Nat) (ctype : Nat)
  deriving DecidableEq, Repr, Inhabited

inductive StatusText where
  | pending | success | failed
  deriving DecidableEq, Repr, Inhabited

/-- a validator as the staking keeper reports it: operator (alias), `PotentialConsensusPower`, `IsBonded` -/
structure Validator where
  id : Nat
  power : Nat
  /-- counted by `GetBondedValidatorsByPower`: status Bonded AND present in the staking power index -/
  bonded : Bool
  /-- `GetValidator(..).IsBonded()`: status Bonded.  The two staking views differ for a validator jailed earlier in the
      block: `Jail` removes it from the power index at once, its status stays Bonded until the staking EndBlocker
      applies the validator-set updates. -/
  statusBonded : Bool
  deriving DecidableEq, Repr, Inhabited

abbrev Group := Content × List Nat

structure Prophecy where
  id : String
  status : StatusText
  final : Content
  groups : List Group            -- ClaimValidators : content ↦ validators that made that claim
  vclaims : List (Nat × Content) -- ValidatorClaims : validator ↦ content
  deriving DecidableEq, Repr, Inhabited

structure OState where
  whitelist : List Nat           -- a list, duplicates allowed (AddOracleWhiteList appends)
  prophecies : List Prophecy
  admin : Option Nat
  deriving Repr, Inhabited

def OState.init : OState := ⟨[], [], none⟩

inductive OErr where
  | notWhitelisted | invalidValidator | invalidId | invalidClaim | finalized | duplicate | notAdmin | badOp
  deriving DecidableEq, Repr

/-- `NewProphecy` -/
def newProphecy (id : String) : Prophecy := ⟨id, .pending, .empty, [], []⟩

def getProphecy (ps : List Prophecy) (id : String) : Option Prophecy := ps.find? (fun p => p.id == id)

/-- `SetProphecy`: the store is keyed by the id -/
def setProphecy : List Prophecy → Prophecy → List Prophecy
  | [], p => [p]
  | q :: qs, p => if q.id == p.id then p :: qs else q :: setProphecy qs p

/-- `GetBondedValidatorsByPower` (the order plays no role below: only sums and lookups) -/
def bondedVals (vals : List Validator) : List Validator := vals.filter (·.bonded)

/-- `checkActiveValidator`: `GetValidator` found and `IsBonded` -/
def checkActive (vals : List Validator) (id : Nat) : Bool :=
  match vals.find? (fun v => v.id == id) with
  | some v => v.statusBonded
  | none => false

/-- `inWhiteList` -/
def inWhiteList (wl : List Nat) (id : Nat) : Bool := wl.contains id

/-- first loop of `FindHighestClaim`: total power of bonded validators that are in the whitelist -/
def totalPower (vals : List Validator) (wl : List Nat) : Nat :=
  (((bondedVals vals).filter (fun v => inWhiteList wl v.id)).map (·.power)).sum

/-- `validatorsByAddress[addr]` then `GetConsensusPower`, counted only `if inWhiteList(validator, …)`
    (the repair of defect F2; before it the power of every bonded claimant was added) -/
def valPower (vals : List Validator) (wl : List Nat) (id : Nat) : Nat :=
  match (bondedVals vals).find? (fun v => v.id == id) with
  | some v => if inWhiteList wl v.id then v.power else 0
  | none => 0

/-- inner loop of `FindHighestClaim` -/
def claimPower (vals : List Validator) (wl : List Nat) (vs : List Nat) : Nat :=
  (vs.map (valPower vals wl)).sum

structure Tally where
  best : Content
  bestPower : Int
  totalClaims : Int
  deriving DecidableEq, Repr

def Tally.init : Tally := ⟨.empty, -1, 0⟩

/-- body of `for claim, validatorAddrs := range prophecy.ClaimValidators` (strict `>` as in the code) -/
def tallyStep (vals : List Validator) (wl : List Nat) (t : Tally) (g : Group) : Tally :=
  let cp : Int := claimPower vals wl g.2
  { best := if cp > t.bestPower then g.1 else t.best,
    bestPower := if cp > t.bestPower then cp else t.bestPower,
    totalClaims := t.totalClaims + cp }

/-- `FindHighestClaim` over the groups in iteration order `gs` -/
def findHighest (vals : List Validator) (wl : List Nat) (gs : List Group) : Tally :=
  gs.foldl (tallyStep vals wl) Tally.init

/-- `float64(p) / float64(t) >= consensusNeeded` as an integer test (see DESIGN 4/C05 and
    `Proofs/C05Float`): `t = 0` gives NaN (0/0: every comparison false) or ±Inf. -/
def ratioGE (p t : Int) : Bool :=
  if t = 0 then decide (0 < p) else decide ((Generated.BridgeConsts.consensusNum : Int) * t ≤ (Generated.BridgeConsts.consensusDen : Int) * p)

/-- `float64(p) / float64(t) < consensusNeeded` -/
def ratioLT (p t : Int) : Bool :=
  if t = 0 then decide (p < 0) else decide ((Generated.BridgeConsts.consensusDen : Int) * p < (Generated.BridgeConsts.consensusNum : Int) * t)

/-- `processCompletion`, with the claim groups in the order `gs` in which the map range yields them -/
def processCompletionOn (gs : List Group) (vals : List Validator) (wl : List Nat) (p : Prophecy) : Prophecy :=
  let t := findHighest vals wl gs
  let total : Int := totalPower vals wl
  let possible : Int := t.bestPower + (total - t.totalClaims)
  if ratioGE t.bestPower total then { p with status := .success, final := t.best }
  else if ratioLT possible total then { p with status := .failed }
  else p

/-- `processCompletion`: `ord` is the iteration order of the Go map `ClaimValidators` -/
def processCompletion (ord : List Group → List Group) (vals : List Validator) (wl : List Nat) (p : Prophecy) : Prophecy :=
  processCompletionOn (ord p.groups) vals wl p

/-- `prophecy.ValidatorClaims[v] != ""` -/
def hasClaim (p : Prophecy) (v : Nat) : Bool :=
  match p.vclaims.lookup v with
  | some c => c != .empty
  | none => false

def addToGroups : List Group → Content → Nat → List Group
  | [], c, v => [(c, [v])]
  | g :: gs, c, v => if g.1 == c then (g.1, g.2 ++ [v]) :: gs else g :: addToGroups gs c v

def setVClaim : List (Nat × Content) → Nat → Content → List (Nat × Content)
  | [], v, c => [(v, c)]
  | e :: es, v, c => if e.1 == v then (v, c) :: es else e :: setVClaim es v c

/-- `Prophecy.AddClaim` -/
def addClaim (p : Prophecy) (v : Nat) (c : Content) : Prophecy :=
  { p with groups := addToGroups p.groups c v, vclaims := setVClaim p.vclaims v c }

/-- `types.Claim`.  `ValidatorAddress` is a *string* in the message: `validator` is the operator it decodes to and
    `spelling` says how it is spelled — 0 is the canonical bech32 text `ValAddress.String()` produces, anything else
    is another valid spelling of the same bytes (e.g. all upper case).  Two address strings are equal iff both
    components are. -/
structure Claim where
  id : String
  validator : Nat
  content : Content
  spelling : Nat := 0
  deriving Repr

/-- `EnsureAddressIsInWhitelist`: `address.String() == validatorAddress` for some whitelist entry — a string
    comparison with the canonical spelling -/
def ensureInWhiteList (wl : List Nat) (c : Claim) : Bool := c.spelling == 0 && inWhiteList wl c.validator

/-- `prophecy.ValidatorClaims[claim.ValidatorAddress] != ""`: the map is keyed by the canonical strings `AddClaim`
    stores, the lookup uses the raw string of the message -/
def hasClaimKey (p : Prophecy) (c : Claim) : Bool := c.spelling == 0 && hasClaim p c.validator

/-- `Keeper.ProcessClaim`; returns the new state and the prophecy's `Status` (text, final claim) -/
def processClaim (ord : List Group → List Group) (vals : List Validator) (st : OState) (c : Claim) :
    Except OErr (OState × StatusText × Content) :=
  if !ensureInWhiteList st.whitelist c then .error .notWhitelisted
  else if !checkActive vals c.validator then .error .invalidValidator
  else if c.id == "" then .error .invalidId
  else if c.content == .empty then .error .invalidClaim
  else
    let p := (getProphecy st.prophecies c.id).getD (newProphecy c.id)
    if p.status != .pending then .error .finalized
    else if hasClaimKey p c then .error .duplicate
    else
      let p' := processCompletion ord vals st.whitelist (addClaim p c.validator c.content)
      .ok ({ st with prophecies := setProphecy st.prophecies p' }, p'.status, p'.final)

/-- `ProcessUpdateWhiteListValidator` (`AddOracleWhiteList` appends, `RemoveOracleWhiteList` filters) -/
def updateWhiteList (st : OState) (signer : Nat) (v : Nat) (op : String) : Except OErr OState :=
  if st.admin != some signer then .error .notAdmin
  else if op == "add" then .ok { st with whitelist := st.whitelist ++ [v] }
  else if op == "remove" then .ok { st with whitelist := st.whitelist.filter (fun a => a != v) }
  else .error .badOp

end Sif.Oracle
