import Sif.Model.Clp.Calc
import Sif.Model.MarginBank
import Sif.Model.MarginF64
/-
  x/margin — positions (MTPs), the pool fields margin touches, the message handlers Open / Close /
  AdminClose / ForceClose and the functions they share with the BeginBlocker
  (x/margin/keeper/keeper.go, msg_server.go, admin_msg_server.go, calculations.go), copied
  operation by operation.  Core Lean only.

  Execution discipline.  The Go code works on `*MTP` and `*Pool` values in memory and persists them
  with separate `SetMTP` / `SetPool` calls.  `W` is that triple (store, in-memory pool, in-memory
  position).  A function that can fail returns `R α = Except (Err × W) α`: on failure the error
  carries the world *as it was at the point of failure* (writes already made stay made).  A message
  handler discards that world (DeliverTx is all-or-nothing); the BeginBlocker keeps it
  (Sif/Model/MarginHook.lean).

  `Fixes` selects between the pinned code and the repaired code for the three defects of the pinned
  tree (F14, F14b, F14c; see checks/C13.py).  The driver and the theorems use `Fixes.repaired`, which
  is /repo's working tree; the pinned variants are kept for the negative witnesses.
-/
namespace Sif.Margin
open Sif

def native : Asset := "rowan"

/-- "is the settlement asset" (`StringCompare(x, nativeAsset)`) -/
def isNative (a : Asset) : Bool := decide (a = native)

/-- module account of x/clp (holds every pool's funds); its bech32 address is set by the harness -/
structure Pool where
  sym : Asset
  nBal : Nat
  eBal : Nat
  nCust : Nat
  eCust : Nat
  nLiab : Nat
  eLiab : Nat
  unsN : Nat
  unsE : Nat
  biN : Nat
  biE : Nat
  health : Dec
  rate : Dec
  lastH : Int
  deriving Repr, DecidableEq, Inhabited


/-- side accessors: `nat = true` is the native side -/
def Pool.bal (p : Pool) (nat : Bool) : Nat := if nat then p.nBal else p.eBal
def Pool.cust (p : Pool) (nat : Bool) : Nat := if nat then p.nCust else p.eCust
def Pool.liab (p : Pool) (nat : Bool) : Nat := if nat then p.nLiab else p.eLiab
def Pool.uns (p : Pool) (nat : Bool) : Nat := if nat then p.unsN else p.unsE
def Pool.setBal (p : Pool) (nat : Bool) (v : Nat) : Pool := if nat then { p with nBal := v } else { p with eBal := v }
def Pool.setCust (p : Pool) (nat : Bool) (v : Nat) : Pool := if nat then { p with nCust := v } else { p with eCust := v }
def Pool.setLiab (p : Pool) (nat : Bool) (v : Nat) : Pool := if nat then { p with nLiab := v } else { p with eLiab := v }
def Pool.setUns (p : Pool) (nat : Bool) (v : Nat) : Pool := if nat then { p with unsN := v } else { p with unsE := v }

structure Mtp where
  addr : Addr
  id : Nat
  coll : Asset
  cust : Asset
  collAmt : Nat
  liab : Nat
  paidColl : Nat
  paidCust : Nat
  unpaid : Nat
  custody : Nat
  leverage : Dec
  health : Dec
  pos : Nat            -- 0 unspecified, 1 long, 2 short
  deriving Repr, DecidableEq, Inhabited

structure Params where
  leverageMax : Dec
  safetyFactor : Dec
  poolOpenThreshold : Dec
  rateMin : Dec
  epochLength : Int
  maxOpen : Nat
  pools : List Asset
  closedPools : List Asset
  fcPct : Dec
  fcAddr : Addr
  iipPct : Dec
  iipAddr : Addr
  iipEnabled : Bool
  whitelisting : Bool
  rowanCollateral : Bool
  deriving Inhabited

structure ClpParams where
  r : Dec                          -- ratio-shifting running rate
  feeDefault : Dec
  feeTokens : List (Asset × Dec)
  clpAddr : Addr                   -- address of the clp module account
  deriving Inhabited

structure Fixes where
  iipCopy : Bool     -- F14: IncrementalInterestPayment works on copies, commits on success
  fcAtomic : Bool    -- F14b: the hook runs ForceCloseLong on a store branch and copies
  openPair : Bool    -- F14c: Open refuses a pair where not exactly one asset is the native one
  deriving Repr, DecidableEq

def Fixes.repaired : Fixes := ⟨true, true, true⟩
def Fixes.pinned : Fixes := ⟨false, false, false⟩

structure State where
  pools : List Pool
  mtps : List Mtp
  mtpCount : Nat
  openCount : Nat
  params : Params
  clp : ClpParams
  bank : Bank
  admins : List Addr
  whitelist : List Addr
  height : Int

inductive Err where
  | unauthorised | maxOpen | poolMissing | disabled | invalidPosition | rowanCollateral
  | borrowTooHigh | borrowTooLow | custodyTooHigh | unhealthy | healthy | mtpMissing | mtpInvalid
  | balance | amountTooLow | notEnoughTokens | insufficientFunds | blockedRecipient | permission
  | invalidAsset
  | panic (p : Panic)
  deriving Repr, DecidableEq

/-- error class as the harness prints it: registered codespace and code -/
def Err.cls : Err → String
  | .unauthorised => "err.margin.8" | .maxOpen => "err.margin.7" | .poolMissing => "err.clp.2"
  | .disabled => "err.margin.3" | .invalidPosition => "err.margin.6" | .rowanCollateral => "err.margin.13"
  | .borrowTooHigh => "err.margin.10" | .borrowTooLow => "err.margin.9" | .custodyTooHigh => "err.margin.11"
  | .unhealthy => "err.margin.12" | .healthy => "err.margin.5" | .mtpMissing => "err.margin.1"
  | .mtpInvalid => "err.margin.2" | .balance => "err.clp.18" | .amountTooLow => "err.clp.32"
  | .notEnoughTokens => "err.clp.8" | .insufficientFunds => "err.sdk.5" | .blockedRecipient => "err.sdk.4"
  | .permission => "err.admin.1" | .invalidAsset => "err.clp.4" | .panic _ => "panic"

def Err.isPanic : Err → Bool
  | .panic _ => true
  | _ => false

def liftP {α} : M α → Except Err α
  | .ok a => .ok a
  | .error p => .error (.panic p)

def ofBank {α} : Except BankErr α → Except Err α
  | .ok a => .ok a
  | .error .insufficient => .error .insufficientFunds
  | .error .blockedRecipient => .error .blockedRecipient

def ensure (c : Bool) (e : Err) : Except Err Unit := if c then .ok () else .error e

/-! ### stores -/

def getPoolL (l : List Pool) (sym : Asset) : Option Pool := l.find? (fun p => p.sym = sym)

def setPoolL : List Pool → Pool → List Pool
  | [], p => [p]
  | q :: qs, p => if q.sym = p.sym then p :: qs else q :: setPoolL qs p

abbrev Key := Addr × Nat
def Mtp.key (m : Mtp) : Key := (m.addr, m.id)

/-- byte order of `GetMTPKey` for equally long address strings: address, then big-endian id -/
def keyLt (a b : Key) : Bool := a.1 < b.1 || (a.1 == b.1 && a.2 < b.2)

def getMtpL (l : List Mtp) (k : Key) : Option Mtp := l.find? (fun m => m.key = k)

def insertMtpL : List Mtp → Mtp → List Mtp
  | [], m => [m]
  | x :: xs, m => if keyLt m.key x.key then m :: x :: xs else x :: insertMtpL xs m

def setMtpL (l : List Mtp) (m : Mtp) : List Mtp :=
  if l.any (fun x => x.key = m.key) then l.map (fun x => if x.key = m.key then m else x)
  else insertMtpL l m

def delMtpL (l : List Mtp) (k : Key) : List Mtp := l.filter (fun m => m.key ≠ k)

def State.getPool (s : State) (sym : Asset) : Except Err Pool :=
  match getPoolL s.pools sym with
  | some p => .ok p
  | none => .error .poolMissing

def State.setPool (s : State) (p : Pool) : State := { s with pools := setPoolL s.pools p }

def State.getMtp (s : State) (a : Addr) (id : Nat) : Except Err Mtp :=
  match getMtpL s.mtps (a, id) with
  | some m => .ok m
  | none => .error .mtpMissing

def u64 : Nat := 2 ^ 64

/-- `SetMTP`: a position with id 0 gets the next id and bumps both counters (written before the
    validation); then `Validate`; then the record is stored. -/
def State.setMtp (s : State) (m : Mtp) : Except (Err × State × Mtp) (State × Mtp) :=
  let s1 := if m.id = 0 then { s with mtpCount := (s.mtpCount + 1) % u64, openCount := (s.openCount + 1) % u64 } else s
  let m1 := if m.id = 0 then { m with id := (s.mtpCount + 1) % u64 } else m
  if m1.coll = "" ∨ m1.addr = "" ∨ m1.pos = 0 ∨ m1.id = 0 then .error (.mtpInvalid, s1, m1)
  else .ok ({ s1 with mtps := setMtpL s1.mtps m1 }, m1)

/-- `DestroyMTP` -/
def State.destroyMtp (s : State) (a : Addr) (id : Nat) : Except Err State :=
  match getMtpL s.mtps (a, id) with
  | none => .error .mtpMissing
  | some _ => .ok { s with mtps := delMtpL s.mtps (a, id), openCount := (s.openCount + u64 - 1) % u64 }

/-! ### parameters -/

def State.isPoolEnabled (s : State) (sym : Asset) : Bool := s.params.pools.contains sym
def State.isPoolClosed (s : State) (sym : Asset) : Bool := s.params.closedPools.contains sym

/-- `GetEpochPosition` -/
def State.epochPosition (s : State) : Int :=
  let len := if s.params.epochLength ≤ 0 then 1 else s.params.epochLength
  Int.tmod s.height len

/-- clp `GetSwapFeeRate` -/
def swapFeeRate (c : ClpParams) (asset : Asset) (marginEnabled : Bool) : Dec :=
  if marginEnabled then c.feeDefault
  else match c.feeTokens.find? (fun p => p.1 = asset) with
    | some p => p.2
    | none => c.feeDefault

/-! ### pure calculators -/

/-- clp `CLPCalcSwap` (ExtractValues, ExtractDebt, CalcSwapResult, the `≥ Y` refusal) -/
def clpCalcSwap (s : State) (sent : Nat) (to : Asset) (p : Pool) (marginEnabled : Bool) : Except Err Nat := do
  let toRowan : Bool := isNative to
  let X := if toRowan then p.eBal else p.nBal
  let Y := if toRowan then p.nBal else p.eBal
  let src : Asset := if toRowan then p.sym else native
  let Xi ← liftP (Uint.add X (if toRowan then p.eLiab else p.nLiab))
  let Yi ← liftP (Uint.add Y (if toRowan then p.nLiab else p.eLiab))
  let res ← liftP (Clp.calcSwapResult toRowan Xi sent Yi s.clp.r (swapFeeRate s.clp src marginEnabled))
  let _ ← ensure (res.1 < Y) .notEnoughTokens
  pure res.1

/-- margin `CLPSwap` -/
def clpSwap (s : State) (sent : Nat) (to : Asset) (p : Pool) : Except Err Nat := do
  let res ← clpCalcSwap s sent to p (s.isPoolEnabled p.sym)
  let _ ← ensure (res ≠ 0) .amountTooLow
  pure res

/-- `UpdateMTPHealth`: value of the custody in collateral terms over liabilities plus unpaid interest -/
def updateMTPHealth (s : State) (m : Mtp) (p : Pool) : Except Err Dec :=
  if m.liab = 0 then .ok Dec.zero else do
    let xl ← liftP (if m.unpaid > 0 then Uint.add m.liab m.unpaid else pure m.liab)
    let c ← clpSwap s m.custody m.coll p
    liftP (Dec.quo (Dec.ofNat c) (Dec.ofNat xl))

/-- `CalculatePoolHealth` -/
def calcPoolHealth (p : Pool) : M Dec := do
  let se ← Dec.add (Dec.ofNat p.eBal) (Dec.ofNat p.eLiab)
  let sn ← Dec.add (Dec.ofNat p.nBal) (Dec.ofNat p.nLiab)
  if se.isZero || sn.isZero then pure Dec.zero else do
    let m1 ← Dec.quo (Dec.ofNat p.eBal) se
    let m2 ← Dec.quo (Dec.ofNat p.nBal) sn
    Dec.mul m1 m2

/-- `CalcMTPInterestLiabilities` -/
def calcInterest (m : Mtp) (rate : Dec) (pos len : Int) : M Nat := do
  let r := F64.ofDec rate
  let base : Rat := r * ((m.liab + m.unpaid : Nat) : Rat)
  let pr ← (if pos > 0 then (if len = 0 then .error .divZero else pure (base * (mkRat pos 1 / mkRat len 1))) else pure base)
  let v ← Uint.ofInt (ratIntQuo pr + (m.unpaid : Int))
  pure (if v = 0 ∧ ¬ rate.isZero then 1 else v)

/-- `TakeFundPayment`, the amount -/
def takeAmount (pct : Dec) (amount : Nat) : M Nat := do
  let t ← Dec.mul pct (Dec.ofNat amount)
  Uint.ofInt t.truncateInt

/-! ### the world and failing steps -/

structure W where
  s : State
  pool : Pool
  mtp : Mtp

abbrev R (α : Type) := Except (Err × W) α

def liftE {α} (w : W) : Except Err α → R α
  | .ok a => .ok a
  | .error e => .error (e, w)

def liftM {α} (w : W) : M α → R α
  | .ok a => .ok a
  | .error p => .error (.panic p, w)

def dropW {α} : R α → Except Err α
  | .ok a => .ok a
  | .error (e, _) => .error e

/-- `SetPool` of the in-memory pool -/
def W.storePool (w : W) : W := { w with s := w.s.setPool w.pool }

/-- `SetMTP` of the in-memory position (the id assigned to a new position is written back) -/
def W.storeMtp (w : W) : R W :=
  match w.s.setMtp w.mtp with
  | .ok (s, m) => .ok { w with s := s, mtp := m }
  | .error (e, s, m) => .error (e, { w with s := s, mtp := m })

/-- `GetForceCloseFundAddress` / `GetIncrementalInterestPaymentFundAddress`: `AccAddressFromBech32` of the
    parameter, **panic** if it does not parse.  `MsgUpdateParams` stores the two optional strings as they
    come, so an omitted one is stored empty; the empty string is the unparsable value the model knows
    (every other address string of a history is a valid bech32 address). -/
def fundAddress (a : Addr) : M Addr := if a = "" then .error .other else .ok a

/-- the fund-address getter followed by `TakeFundPayment` (the two are consecutive statements at both call sites) -/
def takeFundPayment (w : W) (amount : Nat) (asset : Asset) (pct : Dec) (fund : Addr) : R (Nat × W) := do
  let fund ← liftM w (fundAddress fund)
  let take ← liftM w (takeAmount pct amount)
  let bank ← liftE w (ofBank (if take = 0 then .ok w.s.bank else w.s.bank.modToAcc w.s.clp.clpAddr fund asset take))
  pure (take, { w with s := { w.s with bank := bank } })

/-- `Borrow` -/
def borrow (w : W) (collAsset : Asset) (collAmt custAmt : Nat) (eta : Dec) : R W := do
  let _ ← liftE w (ensure (w.s.bank.hasBalance w.mtp.addr collAsset collAmt) .balance)
  let liabDec ← liftM w (Dec.mul (Dec.ofNat collAmt) eta)
  let c1 ← liftM w (Uint.add w.mtp.collAmt collAmt)
  let w1 : W := { w with mtp := { w.mtp with collAmt := c1 } }
  let la ← liftM w1 (Uint.ofInt liabDec.truncateInt)
  let l1 ← liftM w1 (Uint.add w1.mtp.liab la)
  let w2 : W := { w1 with mtp := { w1.mtp with liab := l1 } }
  let cu ← liftM w2 (Uint.add w2.mtp.custody custAmt)
  let w3 : W := { w2 with mtp := { w2.mtp with custody := cu } }
  let lev ← liftM w3 (Dec.add eta Dec.one)
  let w4 : W := { w3 with mtp := { w3.mtp with leverage := lev } }
  let h ← liftE w4 (updateMTPHealth w4.s w4.mtp w4.pool)
  let w5 : W := { w4 with mtp := { w4.mtp with health := h } }
  let bank ← liftE w5 (ofBank (w5.s.bank.accToMod w5.mtp.addr w5.s.clp.clpAddr collAsset collAmt))
  let w6 : W := { w5 with s := { w5.s with bank := bank } }
  let nat : Bool := isNative w6.mtp.coll
  let b ← liftM w6 (Uint.add (w6.pool.bal nat) collAmt)
  let w7 : W := { w6 with pool := w6.pool.setBal nat b }
  let l ← liftM w7 (Uint.add (w7.pool.liab nat) w7.mtp.liab)
  let w8 : W := { w7 with pool := w7.pool.setLiab nat l }
  w8.storePool.storeMtp

/-- `UpdatePoolHealth` -/
def updatePoolHealth (w : W) : R W := do
  let h ← liftM w (calcPoolHealth w.pool)
  pure ({ w with pool := { w.pool with health := h } } : W).storePool

/-- `TakeInCustody` -/
def takeInCustody (w : W) : R W := do
  let nat : Bool := isNative w.mtp.cust
  let b ← liftM w (Uint.sub (w.pool.bal nat) w.mtp.custody)
  let w1 : W := { w with pool := w.pool.setBal nat b }
  let c ← liftM w1 (Uint.add (w1.pool.cust nat) w1.mtp.custody)
  let w2 : W := { w1 with pool := w1.pool.setCust nat c }
  pure w2.storePool

/-- `TakeOutCustody` -/
def takeOutCustody (w : W) : R W := do
  let nat : Bool := isNative w.mtp.cust
  let c ← liftM w (Uint.sub (w.pool.cust nat) w.mtp.custody)
  let w1 : W := { w with pool := w.pool.setCust nat c }
  let b ← liftM w1 (Uint.add (w1.pool.bal nat) w1.mtp.custody)
  let w2 : W := { w1 with pool := w1.pool.setBal nat b }
  pure w2.storePool

/-- the three-way split of `Repay`: (returnAmount, debtP, debtI) -/
def repaySplit (have_ liab unpaid : Nat) : Nat × Nat × Nat :=
  if have_ < liab then (0, liab - have_, unpaid)
  else if have_ < liab + unpaid then (0, 0, liab + unpaid - have_)
  else (have_ - liab - unpaid, 0, 0)

/-- `Repay`, the payout of a non-zero return amount: fund cut first, the rest to the trader -/
def repayPayout (w : W) (ret : Nat) (takeFund : Bool) : R W :=
  if ret = 0 then .ok w else do
    let tw ← (if takeFund then takeFundPayment w ret w.mtp.coll w.s.params.fcPct w.s.params.fcAddr else pure (0, w))
    let w1 := tw.2
    let actual ← liftM w1 (Uint.sub ret tw.1)
    let bank ← liftE w1 (ofBank (if actual = 0 then .ok w1.s.bank else w1.s.bank.modToAcc w1.s.clp.clpAddr w1.mtp.addr w1.mtp.coll actual))
    pure { w1 with s := { w1.s with bank := bank } }

/-- `Repay` -/
def repay (w : W) (repayAmount : Nat) (takeFund : Bool) : R W := do
  let liab := w.mtp.liab
  let unpaid := w.mtp.unpaid
  -- `mtp.MtpHealth, err = …`: on an error the in-memory health has been set to zero already
  let h ← liftE { w with mtp := { w.mtp with health := Dec.zero } } (updateMTPHealth w.s w.mtp w.pool)
  let w1 : W := { w with mtp := { w.mtp with health := h } }
  let _owe ← liftM w1 (Uint.add liab unpaid)
  let sp := repaySplit repayAmount liab unpaid
  let w2 ← repayPayout w1 sp.1 takeFund
  let nat : Bool := isNative w2.mtp.coll
  let b ← liftM w2 (Uint.sub (w2.pool.bal nat) sp.1)
  let w3 : W := { w2 with pool := w2.pool.setBal nat b }
  let l ← liftM w3 (Uint.sub (w3.pool.liab nat) w3.mtp.liab)
  let w4 : W := { w3 with pool := w3.pool.setLiab nat l }
  let u1 ← liftM w4 (Uint.add (w4.pool.uns nat) sp.2.2)
  let u2 ← liftM w4 (Uint.add u1 sp.2.1)
  let w5 : W := { w4 with pool := w4.pool.setUns nat u2 }
  let s ← liftE w5 (w5.s.destroyMtp w5.mtp.addr w5.mtp.id)
  pure ({ w5 with s := s } : W).storePool

/-- `IncrementalInterestPayment`, the edge case "not enough custody to cover the payment":
    returns the world, the payment in collateral terms and the payment in custody terms -/
def iipEdge (w : W) (ip ipc : Nat) : R (W × Nat × Nat) :=
  if ipc > w.mtp.custody then do
    let cac ← liftE w (clpSwap w.s w.mtp.custody w.mtp.coll w.pool)
    let u ← liftM w (Uint.sub ip cac)
    pure ({ w with mtp := { w.mtp with unpaid := u } }, cac, w.mtp.custody)
  else .ok (w, ip, ipc)

/-- `IncrementalInterestPayment`, the body (on whatever `mtp`/`pool` it is given) -/
def iipBody (w : W) (interest : Nat) : R (Nat × W) := do
  let ip ← liftM w (if w.mtp.unpaid > 0 then Uint.add interest w.mtp.unpaid else pure interest)
  let ipc ← liftE w (clpSwap w.s ip w.mtp.cust w.pool)
  let w1 : W := { w with mtp := { w.mtp with unpaid := 0 } }
  let e ← iipEdge w1 ip ipc
  let w2 := e.1
  let pc ← liftM w2 (Uint.add w2.mtp.paidColl e.2.1)
  let w3 : W := { w2 with mtp := { w2.mtp with paidColl := pc } }
  let pk ← liftM w3 (Uint.add w3.mtp.paidCust e.2.2)
  let w4 : W := { w3 with mtp := { w3.mtp with paidCust := pk } }
  let cu ← liftM w4 (Uint.sub w4.mtp.custody e.2.2)
  let w5 : W := { w4 with mtp := { w4.mtp with custody := cu } }
  let tw ← takeFundPayment w5 e.2.2 w5.mtp.cust w5.s.params.iipPct w5.s.params.iipAddr
  let w6 := tw.2
  let actual ← liftM w6 (Uint.sub e.2.2 tw.1)
  let nat : Bool := isNative w6.mtp.cust
  let c ← liftM w6 (Uint.sub (w6.pool.cust nat) e.2.2)
  let w7 : W := { w6 with pool := w6.pool.setCust nat c }
  let b ← liftM w7 (Uint.add (w7.pool.bal nat) actual)
  let w8 : W := { w7 with pool := w7.pool.setBal nat b }
  let w9 ← w8.storeMtp
  pure (actual, w9.storePool)

/-- `IncrementalInterestPayment`.  Pinned code: works on the caller's `*mtp`/`*pool`, so a failure
    leaves them half updated (F14).  Repaired code: works on copies; on failure only the store
    writes already made remain. -/
def incrementalInterestPayment (fx : Fixes) (w : W) (interest : Nat) : R (Nat × W) :=
  match iipBody w interest with
  | .ok r => .ok r
  | .error (e, w') => .error (e, if fx.iipCopy then { w with s := w'.s } else w')

/-- `HandleInterestPayment`: an *error* of the incremental payment is logged and swallowed (a panic
    is not) -/
def handleInterestPayment (fx : Fixes) (w : W) (interest : Nat) : R (Nat × W) :=
  if w.s.params.iipEnabled then
    match incrementalInterestPayment fx w interest with
    | .ok r => .ok r
    | .error (e, w') => if e.isPanic then .error (e, w') else .ok (0, w')
  else .ok (0, { w with mtp := { w.mtp with unpaid := interest } })

/-- add the final interest payment to the pool's per-block counter (the side the payment was made in) -/
def addBlockInterest (w : W) (fin : Nat) : R W := do
  let nat : Bool := isNative w.mtp.coll
  let b ← liftM w (Uint.add (if nat then w.pool.biE else w.pool.biN) fin)
  pure { w with pool := if nat then { w.pool with biE := b } else { w.pool with biN := b } }

/-- the pro-rated interest block at the head of `CloseLong` and `ForceCloseLong` (only inside an epoch) -/
def interestBlock (fx : Fixes) (w : W) : R W :=
  if w.s.epochPosition > 0 then do
    let ip ← liftM w (calcInterest w.mtp w.pool.rate w.s.epochPosition w.s.params.epochLength)
    let fw ← handleInterestPayment fx w ip
    let w1 ← addBlockInterest fw.2 fw.1
    let h ← liftE { w1 with mtp := { w1.mtp with health := Dec.zero } } (updateMTPHealth w1.s w1.mtp w1.pool)
    pure { w1 with mtp := { w1.mtp with health := h } }
  else .ok w

/-- the tail shared by `CloseLong` and `ForceCloseLong` -/
def closeTail (w : W) (takeFund : Bool) : R (Nat × W) := do
  let w1 ← takeOutCustody w
  let repayAmount ← liftE w1 (clpSwap w1.s w1.mtp.custody w1.mtp.coll w1.pool)
  let w2 ← repay w1 repayAmount takeFund
  pure (repayAmount, w2)

/-- `ForceCloseLong` -/
def forceCloseLong (fx : Fixes) (w : W) (isAdminClose takeFund : Bool) : R (Nat × W) := do
  let w1 ← interestBlock fx w
  let _ ← liftE w1 (ensure (isAdminClose || !(decide (w1.mtp.health > w1.s.params.safetyFactor))) .healthy)
  closeTail w1 takeFund

/-! ### messages -/

structure MsgOpen where
  signer : Addr
  coll : Asset
  collAmt : Nat
  borrow : Asset
  position : Nat
  leverage : Dec

def newMtp (msg : MsgOpen) (leverage : Dec) : Mtp :=
  { addr := msg.signer, id := 0, coll := msg.coll, cust := msg.borrow, collAmt := 0, liab := 0, paidColl := 0,
    paidCust := 0, unpaid := 0, custody := 0, leverage := leverage, health := Dec.zero, pos := msg.position }

/-- `CheckMinLiabilities` -/
def checkMinLiabilities (s : State) (collAmt : Nat) (eta : Dec) (p : Pool) (custodyAsset : Asset) : Except Err Unit := do
  let liabDec ← liftP (Dec.mul (Dec.ofNat collAmt) eta)
  let liab ← liftP (Uint.ofInt liabDec.truncateInt)
  let sample ← liftP (Uint.ofInt (ratIntQuo (F64.ofDec s.params.rateMin * (liab : Rat))))
  let _ ← ensure (!(sample = 0 ∧ ¬ s.params.rateMin.isZero)) .borrowTooLow
  match clpSwap s sample custodyAsset p with
  | .ok _ => .ok ()
  | .error e => if e.isPanic then .error e else .error .borrowTooLow

/-- the part of `OpenLong` that writes -/
def openWrites (w : W) (msg : MsgOpen) (custody : Nat) (eta : Dec) : R W := do
  let w1 ← borrow w msg.coll msg.collAmt custody eta
  let w2 ← updatePoolHealth w1
  let w3 ← takeInCustody w2
  let lr ← liftE w3 (updateMTPHealth w3.s w3.mtp w3.pool)
  let _ ← liftE w3 (ensure (!(decide (lr ≤ w3.s.params.safetyFactor))) .unhealthy)
  pure w3

/-- `OpenLong` -/
def openLong (fx : Fixes) (s : State) (msg : MsgOpen) : Except Err W := do
  let leverage := if msg.leverage < s.params.leverageMax then msg.leverage else s.params.leverageMax
  let eta ← liftP (Dec.sub leverage Dec.one)
  let _ ← ensure (s.params.rowanCollateral || !(isNative msg.coll)) .rowanCollateral
  let ext : Asset := if isNative msg.coll then msg.borrow else msg.coll
  let pool ← s.getPool ext
  let _ ← ensure (s.isPoolEnabled ext) .disabled
  let levDec ← liftP (Dec.mul (Dec.ofNat msg.collAmt) leverage)
  let levAmt ← liftP (Uint.ofInt levDec.truncateInt)
  let _ ← ensure (!(decide (levAmt > (if isNative msg.coll then pool.nBal else pool.eBal)))) .borrowTooHigh
  let _ ← checkMinLiabilities s msg.collAmt eta pool msg.borrow
  let custody ← clpSwap s levAmt msg.borrow pool
  let _ ← ensure (!(decide (custody > (if isNative msg.coll then pool.eBal else pool.nBal)))) .custodyTooHigh
  -- repaired code (F14c): the last refusal before anything is written
  let _ ← ensure (!fx.openPair || (isNative msg.coll != isNative msg.borrow)) .invalidAsset
  dropW (openWrites { s := s, pool := pool, mtp := newMtp msg leverage } msg custody eta)

/-- `Open` (message handler; ValidateBasic is applied by the caller) -/
def openMsg (fx : Fixes) (s : State) (msg : MsgOpen) : Except Err W := do
  let _ ← ensure (!(s.params.whitelisting && !s.whitelist.contains msg.signer)) .unauthorised
  let _ ← ensure (!(decide (s.openCount ≥ s.params.maxOpen))) .maxOpen
  let ext : Asset := if isNative msg.coll then msg.borrow else msg.coll
  let pool ← s.getPool ext
  let _ ← ensure (s.isPoolEnabled ext && !s.isPoolClosed ext) .disabled
  let _ ← ensure (!(decide (pool.health ≤ s.params.poolOpenThreshold))) .disabled
  let _ ← ensure (msg.position = 1) .invalidPosition
  openLong fx s msg

/-- the pool a stored position lives in (as `CloseLong`/`AdminClose` look it up) -/
def Mtp.poolSym (m : Mtp) : Asset := if isNative m.coll then m.cust else m.coll

/-- `Close` -/
def closeMsg (fx : Fixes) (s : State) (signer : Addr) (id : Nat) : Except Err (Nat × W) := do
  let mtp ← s.getMtp signer id
  let _ ← ensure (mtp.pos = 1) .invalidPosition
  let pool ← s.getPool mtp.poolSym
  let w : W := { s := s, pool := pool, mtp := mtp }
  dropW (do
    let w1 ← interestBlock fx w
    closeTail w1 false)

/-- `AdminClose` (and the deprecated `ForceClose`, which is `AdminClose` without the fund cut) -/
def adminCloseMsg (fx : Fixes) (s : State) (signer : Addr) (mtpAddr : Addr) (id : Nat) (takeFund : Bool) : Except Err (Nat × W) := do
  let _ ← ensure (s.admins.contains signer) .permission
  let mtp ← s.getMtp mtpAddr id
  let _ ← ensure (mtp.pos = 1) .invalidPosition
  let pool ← s.getPool mtp.poolSym
  dropW (forceCloseLong fx { s := s, pool := pool, mtp := mtp } true takeFund)

/-- messages as transactions: the state after the message, unchanged on any error or panic -/
inductive Msg where
  | open (m : MsgOpen)
  | close (signer : Addr) (id : Nat)
  | adminClose (signer mtpAddr : Addr) (id : Nat) (takeFund : Bool)
  | forceClose (signer mtpAddr : Addr) (id : Nat)

def handle (fx : Fixes) (s : State) : Msg → Except Err State
  | .open m => (openMsg fx s m).map (fun w => w.s)
  | .close a id => (closeMsg fx s a id).map (fun r => r.2.s)
  | .adminClose a b id t => (adminCloseMsg fx s a b id t).map (fun r => r.2.s)
  | .forceClose a b id => (adminCloseMsg fx s a b id false).map (fun r => r.2.s)

/-- DeliverTx: all or nothing -/
def deliver (fx : Fixes) (s : State) (m : Msg) : State :=
  match handle fx s m with
  | .ok s' => s'
  | .error _ => s

end Sif.Margin
