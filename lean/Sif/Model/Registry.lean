/-
  C12 — the token registry and the permission guards of the AMM handlers and the IBC transfer
  wrapper.  Copied from
    x/tokenregistry/keeper/keeper.go      GetEntry, CheckEntryPermissions, SetToken, RemoveToken, SetRegistry
    x/tokenregistry/keeper/msg_server.go  Register, Deregister, SetRegistry
    x/clp/keeper/msg_server.go            the guard prologue of CreatePool, AddLiquidity, RemoveLiquidity,
                                          RemoveLiquidityUnits, Swap
    x/clp/keeper/calculations.go          GetLiquidityAddSymmetryState and the swapStatus it implies
    x/ibctransfer/keeper/msg_server.go    Transfer (the wrapper in front of ibc-go)
  The guard prologue of each handler is DATA (`List Fact`): the fact translator regenerates it from
  the source (Sif/Generated/Perms.lean) and Sif/Props/C12.lean proves by `decide` that it equals
  the decision table of Sif/Spec/C12.lean.  Core Lean only (linked into `drv_perm`).
-/
namespace Sif.Registry

/-- `tokenregistrytypes.Permission` -/
inductive Perm where
  | unspecified | clp | ibcexport | ibcimport | disableBuy | disableSell
  deriving DecidableEq, Repr, Inhabited

def Perm.ofCode : Nat → Option Perm
  | 0 => some .unspecified | 1 => some .clp | 2 => some .ibcexport | 3 => some .ibcimport
  | 4 => some .disableBuy | 5 => some .disableSell | _ => none
def Perm.code : Perm → Nat
  | .unspecified => 0 | .clp => 1 | .ibcexport => 2 | .ibcimport => 3 | .disableBuy => 4 | .disableSell => 5

/-- the fields of `RegistryEntry` the guards read -/
structure Entry where
  denom : String
  unitDenom : String
  perms : List Perm
  deriving DecidableEq, Repr, Inhabited

/-- `Registry.Entries` in stored order (duplicates possible through `SetRegistry`) -/
abbrev Registry := List Entry

/-- `GetEntry`: the FIRST entry whose denom is equal -/
def getEntry : Registry → String → Option Entry
  | [], _ => none
  | e :: es, d => if e.denom = d then some e else getEntry es d

/-- what the fact translator reads off the body of `GetEntry` (pass `lookup`): the entry fields the
    function looks at, how many `return <entry>, …` statements it has, whether one of them is the
    `return wl.Entries[i], nil` guarded by `e.Denom == denom` inside the range over the entries, and
    whether falling out of the loop returns `nil, err`.  The model `getEntry` above is the function
    with facts `⟨["Denom"], 1, true, true⟩`. -/
structure LookupFacts where
  fields : List String
  okReturns : Nat
  matchReturn : Bool
  notFoundIsErr : Bool
  deriving DecidableEq, Repr, Inhabited

/-- what the fact translator reads off the body of `SetToken` (pass `settoken`), the only write path
    behind MsgRegister: the fields of entries ALREADY stored that it reads, the number of assignments
    to fields of the INCOMING entry, whether the incoming entry is stored verbatim at the index found
    (`wl.Entries[i] = entry`) and appended verbatim otherwise.  The model `setToken` below is the
    function with facts `⟨["Denom"], 0, true, true⟩`: replace, never merge. -/
structure SetTokenFacts where
  oldFieldsRead : List String
  incomingMutations : Nat
  replacesVerbatim : Bool
  appendsVerbatim : Bool
  deriving DecidableEq, Repr, Inhabited

/-- `CheckEntryPermissions(entry, required)`: every required permission is listed -/
def checkPerms (e : Entry) (req : List Perm) : Bool := req.all (fun p => e.perms.contains p)

/-- `SetToken` (MsgRegister): replace the first entry of that denom, else append -/
def setToken : Registry → Entry → Registry
  | [], e => [e]
  | x :: xs, e => if x.denom = e.denom then e :: xs else x :: setToken xs e

/-- `RemoveToken` (MsgDeregister): drop every entry of that denom -/
def removeToken (reg : Registry) (d : String) : Registry := reg.filter (fun e => e.denom != d)

/-- registry edits (the three tokenregistry messages, signer authorised) -/
inductive Edit where
  | register (e : Entry)
  | deregister (d : String)
  | setRegistry (r : Registry)
  deriving Repr

def applyEdit (reg : Registry) : Edit → Registry
  | .register e => setToken reg e
  | .deregister d => removeToken reg d
  | .setRegistry r => r

/-! ### the hidden swap of an asymmetric add -/

/-- the constants of calculations.go: `ErrorEmptyPool … NeedMoreX` -/
inductive Sym where
  | emptyPool | nothingAdded | needMoreY | symmetric | needMoreX
  deriving DecidableEq, Repr, Inhabited

/-- `GetLiquidityAddSymmetryState(X, x, Y, y)`: compares Y/X with y/x as rationals -/
def symmetryState (X x Y y : Nat) : Sym :=
  if X = 0 ∨ Y = 0 then .emptyPool
  else if x = 0 ∧ y = 0 then .nothingAdded
  else if x = 0 then .needMoreX
  else
    let YoverX : Rat := mkRat (Y : Int) X
    let yOverx : Rat := mkRat (y : Int) x
    if YoverX < yOverx then .needMoreX
    else if YoverX = yOverx then .symmetric
    else .needMoreY

/-- `SellNative | BuyNative | NoSwap` -/
inductive SwapStatus where
  | sellNative | buyNative | noSwap
  deriving DecidableEq, Repr, Inhabited

/-- the `swapStatus` `CalculatePoolUnits(P, R, A, r, a, …)` returns when it returns one: it calls
    `GetLiquidityAddSymmetryState(A, a, R, r)` (X = external depth, Y = native depth) -/
def swapStatusOf (R A r a : Nat) : SwapStatus :=
  match symmetryState A a R r with
  | .emptyPool => .noSwap
  | .nothingAdded => .noSwap
  | .needMoreY => .buyNative
  | .symmetric => .noSwap
  | .needMoreX => .sellNative

/-! ### guards as data -/

/-- which asset expression a guard applies to -/
inductive Asset where
  | native     -- types.NativeSymbol
  | ext        -- msg.ExternalAsset.Symbol
  | sent       -- msg.SentAsset.Symbol
  | received   -- msg.ReceivedAsset.Symbol
  | token      -- msg.Token.Denom (IBC transfer)
  | unknown
  deriving DecidableEq, Repr, Inhabited

inductive Guard where
  | present (a : Asset)            -- `GetEntry(registry, a)`; `if err != nil { return …, err }`
  | has (a : Asset) (p : Perm)     -- `if !CheckEntryPermissions(entry a, [p]) { return …, err }`
  | lacks (a : Asset) (p : Perm)   -- `if CheckEntryPermissions(entry a, [p]) { return …, err }`
  | notAlias (a : Asset)           -- `if e.UnitDenom != "" && e.UnitDenom != e.Denom { return …, err }`
  | amountPositive                 -- `if msg.Token.Amount.LTE(0) { return …, err }`
  | unknown                        -- something the translator could not classify
  deriving DecidableEq, Repr, Inhabited

/-- under which `swapStatus` case the guard sits -/
inductive Cond where
  | always | sellNative | buyNative | noSwap
  deriving DecidableEq, Repr, Inhabited

structure Fact where
  guard : Guard
  cond : Cond
  /-- the failing branch returns a non-nil error -/
  returnsErr : Bool
  /-- a state-writing call (keeper Set*/bank/…) can run before this guard -/
  writeBefore : Bool
  deriving DecidableEq, Repr, Inhabited

structure HandlerFacts where
  /-- the handler reads the registry from the context of THIS message (`GetRegistry(ctx)`) and looks
      entries up in that value -/
  readsRegistryFromCtx : Bool
  /-- (Transfer only) the last statement hands the message to the wrapped ibc-go server -/
  delegates : Bool
  guards : List Fact
  deriving DecidableEq, Repr, Inhabited

/-- what a guard needs to know about the message -/
structure Msg where
  native : String
  ext : String
  sent : String
  received : String
  token : String
  amountPositive : Bool
  swapStatus : SwapStatus
  deriving Repr, Inhabited

def Msg.denom (m : Msg) : Asset → String
  | .native => m.native | .ext => m.ext | .sent => m.sent | .received => m.received
  | .token => m.token | .unknown => ""

def condHolds (c : Cond) (s : SwapStatus) : Bool :=
  match c, s with
  | .always, _ => true
  | .sellNative, .sellNative => true
  | .buyNative, .buyNative => true
  | .noSwap, .noSwap => true
  | _, _ => false

/-- does the guard let the message pass?  (A permission test on a missing entry is a nil
    dereference in the Go code — a panic, hence a refusal.) -/
def evalGuard (reg : Registry) (m : Msg) : Guard → Bool
  | .present a => (getEntry reg (m.denom a)).isSome
  | .has a p => match getEntry reg (m.denom a) with
      | some e => checkPerms e [p]
      | none => false
  | .lacks a p => match getEntry reg (m.denom a) with
      | some e => !(checkPerms e [p])
      | none => false
  | .notAlias a => match getEntry reg (m.denom a) with
      | some e => decide (e.unitDenom = "") || decide (e.unitDenom = e.denom)
      | none => false
  | .amountPositive => m.amountPositive
  | .unknown => false

/-- a guard blocks only if its failing branch really returns an error -/
def evalFact (reg : Registry) (m : Msg) (f : Fact) : Bool :=
  !(condHolds f.cond m.swapStatus) || !f.returnsErr || evalGuard reg m f.guard

/-- the first guard of the prologue that refuses the message -/
def firstFailing (reg : Registry) (m : Msg) : List Fact → Option Fact
  | [] => none
  | f :: fs => if evalFact reg m f then firstFailing reg m fs else some f

/-- all guards of the prologue pass -/
def evalFacts (reg : Registry) (m : Msg) (fs : List Fact) : Bool := fs.all (evalFact reg m)

/-! ### a handler = guards, then a body; delivered inside the transaction wrapper -/

/-- chain state: the registry and everything else (`σ`: pools, balances, …) -/
structure World (σ : Type) where
  registry : Registry
  rest : σ

inductive Outcome where
  | ok | refusedPerm | failedBody
  deriving DecidableEq, Repr, Inhabited

/-- the handler proper, on the message's own cached state.  `scribble` stands for whatever
    state-writing calls precede a guard in the source (applied only if the translator saw one:
    `writeBefore`); `body` is everything after the prologue (arbitrary; `none` = it failed). -/
def handler {σ : Type} (fs : List Fact) (scribble : World σ → World σ)
    (body : World σ → Msg → Option (World σ)) (w : World σ) (m : Msg) : Outcome × World σ :=
  match firstFailing w.registry m fs with
  | some f => (.refusedPerm, if f.writeBefore then scribble w else w)
  | none =>
    match body w m with
    | some w' => (.ok, w')
    | none => (.failedBody, scribble w)

/-- baseapp: the message's writes are kept only if it returned no error -/
def deliver {σ : Type} (fs : List Fact) (scribble : World σ → World σ)
    (body : World σ → Msg → Option (World σ)) (w : World σ) (m : Msg) : Outcome × World σ :=
  match handler fs scribble body w m with
  | (.ok, w') => (.ok, w')
  | (o, _) => (o, w)

/-- a registry message by the registry admin -/
def deliverEdit {σ : Type} (w : World σ) (e : Edit) : World σ := { w with registry := applyEdit w.registry e }

/-! ### a transaction of several messages (baseapp `runMsgs`): all messages run on ONE branch of the
    state; the branch is written back only if every message succeeded and the call is not a
    simulation.  Only the registry component is tracked here (registry messages write it, AMM / IBC
    messages read it); the rest of the state is rolled back by the same mechanism. -/

inductive TxItem where
  /-- a registry message by the registry admin -/
  | edit (e : Edit)
  /-- an AMM / IBC message with the guard prologue `fs`; `bodyOk` = whatever comes after the guards
      succeeds (environment value) -/
  | msg (fs : List Fact) (m : Msg) (bodyOk : Bool)

/-- one message on the branch: `none` = it failed (the transaction stops there) -/
def txStep (reg : Registry) : TxItem → Option Registry
  | .edit e => some (applyEdit reg e)
  | .msg fs m bodyOk => if evalFacts reg m fs && bodyOk then some reg else none

def runItems (reg : Registry) : List TxItem → Option Registry
  | [] => some reg
  | it :: rest => match txStep reg it with
    | some reg' => runItems reg' rest
    | none => none

/-- the committed registry after the transaction -/
def deliverTx (reg : Registry) (items : List TxItem) (simulate : Bool) : Registry :=
  match runItems reg items with
  | some reg' => if simulate then reg else reg'
  | none => reg

end Sif.Registry
