/-
  Types of the facts the extractor pass `auth` regenerates into `Sif/Generated/Auth.lean` (C08).
  Core only.
-/
namespace Sif.AuthTypes

/-- which role store an authorisation guard consults -/
inductive Store where
  | none           -- the handler contains no authorisation call (permissionless)
  | admin          -- x/admin: `IsAdminAccount(ctx, ROLE, signer)`
  | oracle         -- x/oracle admin account: `IsAdminAccount(ctx, signer)`
  | clpWhitelist   -- x/clp: `ValidateAddress(ctx, signer)`
  | unknown        -- an authorisation call exists but not as a recognised guard
  deriving Repr, DecidableEq, Inhabited

/-- what a top-level statement executed before the guard can do -/
inductive StmtKind where
  | pure | read | write | unknown
  deriving Repr, DecidableEq, Inhabited

structure Handler where
  module : String
  name : String
  msgType : String
  store : Store
  role : String
  callee : String          -- the authorisation function the guard calls ("adminKeeper.IsAdminAccount", …; "" = none)
  signerField : String
  getSignersField : String
  pre : List StmtKind
  guardTop : Bool
  failReturnsError : Bool
  authCalls : Nat
  deriving Repr, DecidableEq, Inhabited

end Sif.AuthTypes
