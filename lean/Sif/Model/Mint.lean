import Sif.Model.DispBank
/-
  C20 (a) — model of the dispensation BeginBlocker (x/dispensation/abci.go) and the mint
  controller (x/dispensation/keeper/mint_controller.go).  Core Lean only.

  Model state = exactly what the code reads from the committed store: the `MintController`
  counter under key 0x03 (absent = `none`) and the bank.
-/
namespace Sif.Disp

structure MintCfg where
  cap : Nat          -- types.MaxMintAmount
  perBlock : Nat     -- types.MintAmountPerBlock
  denom : Denom      -- clptypes.GetSettlementAsset().Symbol
  ecoPool : Addr     -- types.EcoPool
  module : Addr      -- module account "dispensation"

structure MintState where
  counter : Option Nat
  bank : Bank
  deriving Repr, DecidableEq, Inhabited

/-- `TokensCanBeMinted`: controller present and `TotalCounter.IsLT(cap)` -/
def tokensCanBeMinted (cfg : MintCfg) : Option Nat → Bool
  | none => false
  | some c => decide (c < cfg.cap)

/-- `IsLastBlock`: `maxMintAmount.Sub(totalCounter).LTE(blockMintAmount)` over `sdk.Int` -/
def isLastBlock (cfg : MintCfg) : Option Nat → Bool
  | none => false
  | some c => decide ((cfg.cap : Int) - (c : Int) ≤ (cfg.perBlock : Int))

/-- the amount the BeginBlocker decides to mint (an `sdk.Int`) -/
def mintAmount (cfg : MintCfg) (c : Nat) : Int :=
  if isLastBlock cfg (some c) then (cfg.cap : Int) - (c : Int) else (cfg.perBlock : Int)

/-- after `MintCoins`: send to the ecosystem pool (an error is only logged), then `AddMintAmount` -/
def mintTail (cfg : MintCfg) (blocked : Addr → Bool) (c amt : Nat) (b : Bank) : MintState :=
  let b1 := mintCoins b cfg.module [(cfg.denom, amt)]
  let b2 := match sendModuleToAccount blocked b1 cfg.module cfg.ecoPool [(cfg.denom, amt)] with
    | some b' => b'
    | none => b1
  { counter := some (c + amt), bank := b2 }

/-- `BeginBlocker`.  `sdk.NewCoin` panics on a negative amount (`.error .negative`);
    `sdk.NewCoins` drops a zero coin, and then `Len() != 1` returns early. -/
def beginBlocker (cfg : MintCfg) (blocked : Addr → Bool) (s : MintState) : M MintState :=
  if !tokensCanBeMinted cfg s.counter then .ok s else
  match s.counter with
  | none => .ok s
  | some c =>
    let a := mintAmount cfg c
    if a < 0 then .error .negative
    else if a = 0 then .ok s
    else .ok (mintTail cfg blocked c a.toNat s.bank)

/-- n blocks in a row -/
def runBlocks (cfg : MintCfg) (blocked : Addr → Bool) : Nat → MintState → M MintState
  | 0, s => .ok s
  | n + 1, s => do
      let s' ← beginBlocker cfg blocked s
      runBlocks cfg blocked n s'

/-- blocks with arbitrary other traffic in between: before each BeginBlocker the bank is changed
    by an arbitrary function (messages and the other modules' hooks never write key 0x03 — that
    is the generated fact `cap_const` of C20 (c)) -/
def runWith (cfg : MintCfg) (blocked : Addr → Bool) : List (Bank → Bank) → MintState → M MintState
  | [], s => .ok s
  | g :: gs, s => do
      let s' ← beginBlocker cfg blocked { s with bank := g s.bank }
      runWith cfg blocked gs s'

end Sif.Disp
