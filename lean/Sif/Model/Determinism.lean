/-
  C09 — determinism.  Core Lean only.
  Part 1: the record types of the regenerated site facts (tie 1, `Sif/Generated/MapRanges.lean`).
-/
namespace Sif.Det

/-- one `range` statement over a map-typed operand, as the fact translator saw it -/
structure RangeSite where
  pkg : String
  fn : String
  operand : String
  key : String
  val : String
  /-- callee names of the loop body in source order -/
  calls : List String
  /-- order-revealing exits of the loop body (`break`, `return`, `goto`, labelled branches) -/
  exits : List String
  /-- source text of the statement that immediately follows the loop, reported only when the loop
      body is a single statement (this is how "collect the keys, then sort them" is recognised) -/
  next : String
  deriving DecidableEq, Repr

/-- uses of one kind of nondeterminism source in one function: `float` (number of expressions of
    floating-point type), `math.<Name>`, `rand`, `time` (Now/Since/Until), `go`, `select` -/
structure UseSite where
  pkg : String
  fn : String
  kind : String
  n : Nat
  deriving DecidableEq, Repr

/-- a package-level variable that is written outside `init` (process-level mutable state): assignment to
    it / its fields / its elements (`assign@Func`), its address taken (`addr@Func`), a method called on it
    (`call:Method`).  `pkg` starts with `extern:` for a variable of another package. -/
structure PkgVar where
  pkg : String
  name : String
  ty : String
  writes : List String
  deriving DecidableEq, Repr

end Sif.Det

/-!
  Part 2: models of the map-ranging computations.  The iteration order of a Go map is an
  arbitrary permutation of its entries, so every model takes the order as a `List` parameter and
  the theorems (Sif/Props/C09.lean) quantify over `List.Perm`.

  A Go panic inside BeginBlock/EndBlock halts the chain whatever the panic value is, so these
  models use `Option` (`none` = halt) rather than `Except Panic`.
-/
namespace Sif.Det

/-- function update -/
def upd {κ : Type} {ν : Type} [DecidableEq κ] (f : κ → ν) (k : κ) (v : ν) : κ → ν :=
  fun x => if x = k then v else f x

/-- fold of a step that may halt -/
def foldH {σ α : Type} (f : σ → α → Option σ) : σ → List α → Option σ
  | s, [] => some s
  | s, a :: l => (f s a).bind (fun s' => foldH f s' l)

def two256 : Nat := 2 ^ 256

/-! ### A. `poolRowanMapSum` (DistributeDepthRewards): `sum = sum.Add(rowan)` over the map values.
    `sdk.Uint.Add` panics when the result needs more than 256 bits. -/

def uintAdd (a b : Nat) : Option Nat := if a + b < two256 then some (a + b) else none

def sumValues (order : List Nat) : Option Nat := foldH uintAdd 0 order

/-! ### B. pool-record updates keyed by `*types.Pool`.
    Each map key is an in-memory pool object; the loop body mutates the object and writes the whole
    object to the store under the object's symbol (`SetPool`). -/

structure PoolObj where
  sym : String
  native : Nat
  rewardDistributed : Nat
  deriving DecidableEq, Repr

abbrev PoolStore := String → Option PoolObj

/-- `TransferProviderDistribution`: `k.RemoveRowanFromPool(ctx, pool, sub)` — returns an error (ignored
    by the caller, nothing written) when the balance is too low, else subtracts and `SetPool`s. -/
def removeRowanStep (st : PoolStore) (e : PoolObj × Nat) : Option PoolStore :=
  if e.1.native < e.2 then some st
  else some (upd st e.1.sym (some { e.1 with native := e.1.native - e.2 }))

def lppdPoolUpdate (order : List (PoolObj × Nat)) (st : PoolStore) : Option PoolStore :=
  foldH removeRowanStep st order

/-- `DistributeDepthRewards`, second loop: skip zero amounts; `RewardPeriodNativeDistributed.Add(rowan)`
    (panics past 256 bits); `SetPool`. -/
def rewardsPoolStep (st : PoolStore) (e : PoolObj × Nat) : Option PoolStore :=
  if e.2 = 0 then some st
  else (uintAdd e.1.rewardDistributed e.2).map
    (fun r => upd st e.1.sym (some { e.1 with rewardDistributed := r }))

def rewardsPoolUpdate (order : List (PoolObj × Nat)) (st : PoolStore) : Option PoolStore :=
  foldH rewardsPoolStep st order

/-! ### C. `TransferProviderDistributionGeneric` as it was before repair F20 (LPPD and depth-reward
    wallet payouts): one `SendCoinsFromModuleToAccount` per map entry; on failure the amounts are
    taken back out of `poolRowanMap` (`Uint.Sub`, panics on underflow).  x/bank v0.45.16:
    blocked recipient ⇒ error; insufficient module balance ⇒ error; otherwise move the coins and
    create the recipient's account if it does not exist — and x/auth numbers accounts in creation
    order (`GetNextAccountNumber`). -/

structure Bank where
  modBal : Nat
  bal : String → Nat
  hasAcct : String → Bool
  acctNum : String → Nat
  nextNum : Nat

structure LpEntry where
  addr : String
  total : Nat
  /-- `lpPoolMap[addr]`: the per-pool parts of `total` -/
  pools : List (String × Nat)
  deriving DecidableEq, Repr

structure PayState where
  bank : Bank
  /-- `poolRowanMap`, keyed by pool symbol -/
  poolMap : String → Nat

def Bank.touch (b : Bank) (a : String) : Bank :=
  if b.hasAcct a then b
  else { b with hasAcct := upd b.hasAcct a true, acctNum := upd b.acctNum a b.nextNum, nextNum := b.nextNum + 1 }

/-- `SendCoinsFromModuleToAccount(clp, to, amt rowan)`; `none` = the call returned an error -/
def Bank.send (blocked : String → Bool) (b : Bank) (to : String) (amt : Nat) : Option Bank :=
  if blocked to then none
  else if b.modBal < amt then none
  else some ({ b with modBal := b.modBal - amt, bal := upd b.bal to (b.bal to + amt) }.touch to)

def subOne (pm : String → Nat) (e : String × Nat) : Option (String → Nat) :=
  if pm e.1 < e.2 then none else some (upd pm e.1 (pm e.1 - e.2))

/-- the failure branch: `poolRowanMap[p] = poolRowanMap[p].Sub(amount)` for every pool of the provider -/
def subPools (pm : String → Nat) (l : List (String × Nat)) : Option (String → Nat) := foldH subOne pm l

def payStep (blocked : String → Bool) (s : PayState) (e : LpEntry) : Option PayState :=
  match s.bank.send blocked e.addr e.total with
  | some b => some { s with bank := b }
  | none => (subPools s.poolMap e.pools).map (fun pm => { s with poolMap := pm })

def transfer (blocked : String → Bool) (order : List LpEntry) (s : PayState) : Option PayState :=
  foldH (payStep blocked) s order

/-- observable part of a `PayState` at finitely many addresses / pools (for `decide`d witnesses) -/
def PayState.view (s : PayState) (addrs pools : List String) : Nat × List (Nat × Bool × Nat) × Nat × List Nat :=
  (s.bank.modBal, addrs.map (fun a => (s.bank.bal a, s.bank.hasAcct a, s.bank.acctNum a)), s.bank.nextNum, pools.map s.poolMap)

/-! ### D. per-key iterations touching disjoint components (the epoch payout loop before repair F20,
    keyed by asset).  The work of one iteration on its own component (bucket, pool record, provider
    records and the balances in that asset's denom) is an arbitrary function `g`; what the model
    keeps explicit is the only shared state: account creation for the paid addresses. -/

structure Auth where
  hasAcct : String → Bool
  acctNum : String → Nat
  nextNum : Nat

def Auth.touch (a : Auth) (x : String) : Auth :=
  if a.hasAcct x then a
  else { hasAcct := upd a.hasAcct x true, acctNum := upd a.acctNum x a.nextNum, nextNum := a.nextNum + 1 }

structure KeyedState (κ ν : Type) where
  comp : κ → ν
  auth : Auth

/-- one iteration: update the key's own component (may halt), create accounts for the addresses it paid -/
def keyedStep {κ ν : Type} [DecidableEq κ] (g : κ → ν → Option ν) (paid : κ → ν → List String)
    (s : KeyedState κ ν) (k : κ) : Option (KeyedState κ ν) :=
  (g k (s.comp k)).map (fun v => { comp := upd s.comp k v, auth := (paid k (s.comp k)).foldl Auth.touch s.auth })

def keyedRun {κ ν : Type} [DecidableEq κ] (g : κ → ν → Option ν) (paid : κ → ν → List String)
    (order : List κ) (s : KeyedState κ ν) : Option (KeyedState κ ν) :=
  foldH (keyedStep g paid) s order

/-! ### E. the oracle tally (`Prophecy.FindHighestClaim` + the decision of `processCompletion`).
    Own minimal model: a claim group is (content, power counted for it).  `reach` / `fails` stand for
    the two float comparisons with `consensusNeeded`. -/

structure ClaimGroup where
  content : String
  power : Nat
  deriving DecidableEq, Repr

structure Tally where
  claim : String
  hp : Int
  tot : Nat
  deriving DecidableEq, Repr

def tallyStep (t : Tally) (g : ClaimGroup) : Tally :=
  if (g.power : Int) > t.hp then { claim := g.content, hp := g.power, tot := t.tot + g.power }
  else { t with tot := t.tot + g.power }

def tally (order : List ClaimGroup) : Tally := order.foldl tallyStep { claim := "", hp := -1, tot := 0 }

inductive Outcome where
  | success (finalClaim : String)
  | failed
  | pending
  deriving DecidableEq, Repr

/-- `processCompletion`: `reach hp total` is `float64(hp)/float64(total) >= consensusNeeded`;
    `fails hpPossible total` is `float64(hpPossible)/float64(total) < consensusNeeded` -/
def complete (reach fails : Int → Nat → Bool) (total : Nat) (t : Tally) : Outcome :=
  if reach t.hp total then .success t.claim
  else if fails (t.hp + ((total : Int) - (t.tot : Int))) total then .failed
  else .pending

/-! ### F. `partitionLPsbyAsset`: builds the map asset ↦ slice by appending in store order. -/

def partition {α : Type} (key : α → String) (lps : List α) : String → List α :=
  lps.foldl (fun m lp => upd m (key lp) (m (key lp) ++ [lp])) (fun _ => [])

end Sif.Det
