/-
  C09 — determinism.  Core Lean only.
  Part 1: the record types of the regenerated site facts (tie 1, `Sif/Generated/MapRanges.lean`).
-/
namespace Sif.Det

/-- one `range` statement over a map-typed operand, as the fact translator saw it -/
structure RangeSite where
  pkg : String
  fn : String
  operand : String
  key : String
  val : String
  /-- callee names of the loop body in source order -/
  calls : List String
  /-- order-revealing exits of the loop body (`break`, `return`, `goto`, labelled branches) -/
  exits : List String
  /-- source text of the statement that immediately follows the loop, reported only when the loop
      body is a single statement (this is how "collect the keys, then sort them" is recognised) -/
  next : String
  deriving DecidableEq, Repr

/-- uses of one kind of nondeterminism source in one function: `float` (number of expressions of
    floating-point type), `math.<Name>`, `rand`, `time` (Now/Since/Until), `go`, `select` -/
structure UseSite where
  pkg : String
  fn : String
  kind : String
  n : Nat
  deriving DecidableEq, Repr

end Sif.Det
