import Sif.Num.Basic
import Sif.Model.AnteTypes
import Sif.Generated.AnteConsts
/-
  Model of the two custom ante decorators of app/ante (C19):
  `AdjustGasPriceDecorator.AnteHandle` (ante.go) and `ValidateMinCommissionDecorator.AnteHandle`
  (commission.go).  Core only.

  The structure of the min-fee loop (substrings, amounts, overwrite/max, whether authz.MsgExec is
  unwrapped) is NOT written down here: it is *interpreted* from the table the extractor regenerates
  from the source on every run (`Sif.Generated.Ante`).  What is hand-written: the string matching,
  the fold, the rowan-fee loop, the comparisons, the sdk.Dec arithmetic of the projected voting
  power; these are tied to the code by the differential run of family `antefee` / `antecom`.
-/
namespace Sif.Ante
open Sif Sif.AnteTypes

/-! ### strings: `strings.Contains(strings.ToLower(url), sub)` -/

/-- `strings.Contains` on character lists -/
def hasSub (p : List Char) : List Char → Bool
  | [] => p.isEmpty
  | c :: cs => p.isPrefixOf (c :: cs) || hasSub p cs

/-- `strings.ToLower` (type URLs are ASCII) -/
def lowerUrl (u : String) : List Char := u.toList.map Char.toLower

def containsAny (subs : List String) (u : List Char) : Bool := subs.any (fun s => hasSub s.toList u)

/-! ### messages: a tree, `authz.MsgExec` being the inner node -/

/-- what the commission decorator's type switch looks at (raw sdk.Dec / sdk.Int values) -/
inductive Body where
  | other
  | createVal (rate : Int) (val : String) (value : Int)  -- MsgCreateValidator: Commission.Rate, ValidatorAddress, Value (self-delegation)
  | editVal (rate : Option Int)                -- MsgEditValidator.CommissionRate (nil = none)
  | delegate (val : String) (amt : Int)        -- MsgDelegate
  | redelegate (src dst : String) (amt : Int)  -- MsgBeginRedelegate
  deriving Repr, DecidableEq, Inhabited

structure Leaf where
  url : String
  body : Body
  deriving Repr, DecidableEq, Inhabited

inductive Msg where
  | leaf (l : Leaf)
  | exec (inner : List Msg)     -- authz.MsgExec{Msgs: inner}
  deriving Repr, Inhabited

def execUrl : String := "/cosmos.authz.v1beta1.MsgExec"
def execLeaf : Leaf := ⟨execUrl, .other⟩

mutual
/-- every non-wrapper message of the tree, in execution order (the property's `flatten`) -/
def Msg.leaves : Msg → List Leaf
  | .leaf l => [l]
  | .exec inner => leavesList inner
def leavesList : List Msg → List Leaf
  | [] => []
  | m :: ms => m.leaves ++ leavesList ms
end

mutual
/-- the repaired code's `flattenMsgs`: every message, a MsgExec followed by what it wraps -/
def Msg.walk : Msg → List Leaf
  | .leaf l => [l]
  | .exec inner => execLeaf :: walkList inner
def walkList : List Msg → List Leaf
  | [] => []
  | m :: ms => m.walk ++ walkList ms
end

/-- what a decorator sees when it does not unwrap: `tx.GetMsgs()` -/
def Msg.top : Msg → Leaf
  | .leaf l => l
  | .exec _ => execLeaf

def topList (ms : List Msg) : List Leaf := ms.map Msg.top

structure Tx where
  msgs : List Msg
  fees : List (String × Int)     -- fee coins (denom, amount)
  deriving Repr, Inhabited

/-! ### AdjustGasPriceDecorator -/

structure FeeCfg where
  special : List String
  branches : List Branch
  unwrap : Bool
  deriving Repr

/-- the table regenerated from the source -/
def genFeeCfg : FeeCfg :=
  { special := Sif.Generated.Ante.special
    branches := Sif.Generated.Ante.branches
    unwrap := Sif.Generated.Ante.feeUnwrapsExec == some true }

def amountVal (propFee : Int) : Amount → Int
  | .const n => (n : Int)
  | .proposalFee => propFee
  | .unknown => 0

def guardOK (minFee : Int) : Option Nat → Bool
  | none => true
  | some n => decide (minFee ≤ (n : Int))

def branchMatches (minFee : Int) (u : List Char) (b : Branch) : Bool :=
  containsAny b.subs u && guardOK minFee b.guardLE

def applyBranch (propFee minFee : Int) (b : Branch) : Int :=
  match b.update with
  | .overwrite => amountVal propFee b.amount
  | .max => max minFee (amountVal propFee b.amount)
  | .unknown => minFee

/-- one iteration of the loop body: the first branch of the chain whose condition holds -/
def stepFee (propFee : Int) : List Branch → Int → List Char → Int
  | [], minFee, _ => minFee
  | b :: rest, minFee, u =>
    if branchMatches minFee u b then applyBranch propFee minFee b else stepFee propFee rest minFee u

def minFeeOf (brs : List Branch) (propFee : Int) (urls : List (List Char)) : Int :=
  urls.foldl (stepFee propFee brs) 0

/-- the `for j := range fees` loop: the last coin whose denom is the settlement asset -/
def rowanFee (fees : List (String × Int)) : Int :=
  fees.foldl (fun acc c => if c.1 = "rowan" then c.2 else acc) 0

def isSpecial (cfg : FeeCfg) : List Msg → Bool
  | [m] => containsAny cfg.special (lowerUrl m.top.url)
  | _ => false

def feeMsgs (cfg : FeeCfg) (ms : List Msg) : List Leaf :=
  if cfg.unwrap then walkList ms else topList ms

inductive FeeRes where
  | ok | okLowGas | err
  deriving Repr, DecidableEq

def FeeRes.accepted : FeeRes → Bool
  | .err => false
  | _ => true

def feeCheck (mf rf : Int) : FeeRes :=
  if mf = 0 then .ok else if rf ≤ 0 then .err else if rf < mf then .err else .ok

def feeDecide (cfg : FeeCfg) (propFee : Int) (tx : Tx) : FeeRes :=
  if isSpecial cfg tx.msgs then .okLowGas
  else feeCheck (minFeeOf cfg.branches propFee ((feeMsgs cfg tx.msgs).map (fun l => lowerUrl l.url))) (rowanFee tx.fees)

/-! ### ValidateMinCommissionDecorator -/

/-- what the decorator reads from the staking and bank keepers (the same state for every message
    of the transaction: ante runs before any message executes) -/
structure StakeEnv where
  total : Int                       -- bonded pool + not-bonded pool balance of the bond denom
  vals : List (String × Int)        -- validator operator address ↦ Tokens
  deriving Repr, Inhabited

def StakeEnv.tokens (env : StakeEnv) (v : String) : Option Int :=
  (env.vals.find? (fun p => p.1 = v)).map (·.2)

structure ComCfg where
  minCommission : Int
  maxVotingPower : Int
  unwrap : Bool
  cumulative : Bool     -- (re)delegations judged with the amounts admitted earlier in the transaction
  deriving Repr

def genComCfg : ComCfg :=
  { minCommission := Sif.Generated.Ante.minCommission.getD 0
    maxVotingPower := Sif.Generated.Ante.maxVotingPower.getD 0
    unwrap := Sif.Generated.Ante.commissionUnwrapsExec == some true
    cumulative := Sif.Generated.Ante.commissionCumulative == some true }

/-- `pendingStake`: what the messages validated so far add once they execute — tokens per
    destination validator (a Go map, here the list of additions) and newly delegated tokens in total -/
structure Pending where
  byVal : List (String × Int)
  total : Int
  deriving Repr, Inhabited

def Pending.empty : Pending := ⟨[], 0⟩

/-- `pending.validator(addr)` -/
def Pending.get (p : Pending) (v : String) : Int := ((p.byVal.filter (fun e => e.1 = v)).map (·.2)).sum

/-- `pending.add(addr, validatorAmount, totalAmount)` -/
def Pending.add (p : Pending) (v : String) (a t : Int) : Pending := ⟨(v, a) :: p.byVal, p.total + t⟩

/-- `projectedValidatorTokens.Quo(projectedTotalDelegatedTokens).Mul(sdk.NewDec(100))` with
    `NewDecFromInt` (unchecked) and `Add`/`Quo`/`Mul` (315-bit check, division by zero) -/
def projected (v t : Dec) : M Dec := do
  let q ← Dec.quo v t
  Dec.mul q (Dec.ofInt 100)

/-- `calculateProjectedVotingPower`: `vAmt` is added to the validator's tokens, `tAmt` to the total -/
def projectedPower (tok total vAmt tAmt : Int) : M Dec := do
  let t ← Dec.add (Dec.ofInt total) (Dec.ofInt tAmt)
  let v ← Dec.add (Dec.ofInt tok) (Dec.ofInt vAmt)
  projected v t

def belowCap (cfg : ComCfg) (p : M Dec) : M Bool :=
  p.map (fun d => !decide (cfg.maxVotingPower ≤ d.i))

/-- what the projection reads: the pending stake, or nothing if the code judges per message -/
def ComCfg.view (cfg : ComCfg) (p : Pending) : Pending := if cfg.cumulative then p else Pending.empty

def admitIf (ok : M Bool) (p' : Pending) : M (Option Pending) := ok.map (fun b => if b then some p' else none)

/-- `validateMsg` on one non-wrapper message, given what the earlier messages of the transaction
    already admitted: `.ok (some p')` = nil error and the updated pending stake, `.ok none` = error,
    `.error` = panic -/
def validateBody (cfg : ComCfg) (env : StakeEnv) (p : Pending) : Body → M (Option Pending)
  | .other => .ok (some p)
  | .createVal r _ _ => .ok (if r < cfg.minCommission then none else some p)
  | .editVal none => .ok (some p)
  | .editVal (some r) => .ok (if r < cfg.minCommission then none else some p)
  | .delegate v amt =>
    match env.tokens v with
    | none => .ok none
    | some tok => admitIf (belowCap cfg (projectedPower tok env.total ((cfg.view p).get v + amt) ((cfg.view p).total + amt))) (p.add v amt amt)
  | .redelegate src dst amt =>
    match env.tokens dst with
    | none => .ok none
    | some tok =>
      admitIf (belowCap cfg (projectedPower tok env.total ((cfg.view p).get dst + (if src = dst then 0 else amt)) (cfg.view p).total))
        (p.add dst (if src = dst then 0 else amt) 0)

/-- the loop: stop at the first error or panic, thread the pending stake -/
def validateAll (cfg : ComCfg) (env : StakeEnv) : Pending → List Leaf → M (Option Pending)
  | p, [] => .ok (some p)
  | p, l :: ls =>
    match validateBody cfg env p l.body with
    | .ok (some p') => validateAll cfg env p' ls
    | r => r

def comMsgs (cfg : ComCfg) (ms : List Msg) : List Leaf :=
  if cfg.unwrap then leavesList ms else topList ms

def comRun (cfg : ComCfg) (env : StakeEnv) (ms : List Msg) : M (Option Pending) :=
  validateAll cfg env Pending.empty (comMsgs cfg ms)

def comDecide (cfg : ComCfg) (env : StakeEnv) (ms : List Msg) : M Bool :=
  (comRun cfg env ms).map Option.isSome

end Sif.Ante
