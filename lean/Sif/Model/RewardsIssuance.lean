import Sif.Num.Basic
/-
  C20 (b) — model of the issuance arithmetic of the AMM depth rewards:
  x/clp/abci.go `EndBlocker` (reward part), x/clp/keeper/rewards.go `GetCurrentRewardPeriod`,
  `CalcBlockDistribution`, `IsDistributionBlockPure`, the running clamp of
  `CollectPoolRewardTuples`, and mint → transfer → burn-the-remainder of `DistributeDepthRewards`.
  Core Lean only.

  The split of a block's distribution between pools (`calcPoolDistribution`, sdk.Dec arithmetic —
  property C18) enters as environment values `Env.raws`; what matters here is the clamp that
  keeps the sum within the block distribution, which is modelled exactly.

  Model state = exactly the stored accumulator (clp key 0x0b); the reward periods are the stored
  parameters (key 0x06).

  `fix = false` is the pinned tree; `fix = true` is the tree with fixes/F10.diff applied (the
  carried-over accumulator is dropped in the first block of a period).
-/
namespace Sif.Rewards
open Sif

structure Period where
  start : Nat      -- RewardPeriodStartBlock (uint64)
  stop : Nat       -- RewardPeriodEndBlock (uint64)
  alloc : Nat      -- RewardPeriodAllocation (sdk.Uint)
  mod : Nat        -- RewardPeriodMod (uint64)
  deriving Repr, DecidableEq, Inhabited

def u64 : Nat := 2 ^ 64

/-- uint64 `end - start + 1` (wraps) -/
def Period.len (p : Period) : Nat := (p.stop % u64 + u64 - p.start % u64 + 1) % u64

/-- `int64(x)` of a uint64 -/
def toI64 (n : Nat) : Int := if n % u64 < 2 ^ 63 then ((n % u64 : Nat) : Int) else ((n % u64 : Nat) : Int) - (u64 : Int)

def inRange (p : Period) (h : Nat) : Bool := decide (p.start ≤ h) && decide (h ≤ p.stop)

/-- "mod 0 is undefined - in which case we'll run every block" -/
def normMod (p : Period) : Period := if p.mod = 0 then { p with mod := 1 } else p

/-- `GetCurrentRewardPeriod`: the first period of the list that contains the height -/
def currentPeriod (periods : List Period) (h : Nat) : Option Period :=
  (periods.find? fun p => inRange p h).map normMod

/-- `CalcBlockDistribution`: `allocation.QuoUint64(periodLength)` -/
def calcBlockDistribution (p : Period) : M Nat := Uint.quo p.alloc p.len

/-- `IsDistributionBlockPure`: `(blockHeight - int64(start)) % int64(mod) == 0` (Go's truncated
    remainder; a zero divisor panics) -/
def isDistBlock (h start mod : Nat) : M Bool :=
  if toI64 mod = 0 then .error .divZero
  else .ok (Int.tmod ((h : Int) - toI64 start) (toI64 mod) == 0)

/-- the running clamp of `CollectPoolRewardTuples`: `raws` are the pools' `calcPoolDistribution`
    results in pool order; returns `coinsToMint` -/
def collect : Nat → List Nat → Nat
  | _, [] => 0
  | rem, raw :: rest =>
      if rem = 0 then 0
      else if raw = 0 then collect rem rest
      else (min raw rem) + collect (rem - min raw rem) rest

/-- environment of one block -/
structure Env where
  active : Bool       -- total depth > 0 (otherwise `DistributeDepthRewards` returns before minting)
  raws : List Nat     -- per-pool distributions asked for by the pro-rata arithmetic
  burned : Nat        -- minted coins that could not be transferred and are burned again (distribute mode)
  deriving Repr, DecidableEq, Inhabited

/-- `DistributeDepthRewards`: net amount of rowan created (minted minus burned remainder) -/
def distribute (bd : Nat) (e : Env) : Nat :=
  if bd = 0 || !e.active then 0
  else collect bd e.raws - min e.burned (collect bd e.raws)

/-- where the net amount goes: in distribute mode (`RewardPeriodDistribute`) it is what was
    transferred to providers (the minted remainder is burnt: `Env.burned`); otherwise it stays in
    the module account and is credited to the pools' native balances -/
def paidOf (distributeMode : Bool) (bd : Nat) (e : Env) : Nat := if distributeMode then distribute bd e else 0
def pooledOf (distributeMode : Bool) (bd : Nat) (e : Env) : Nat := if distributeMode then 0 else distribute bd e

/-- accumulator that enters the block's distribution -/
def accuIn (fix : Bool) (p : Period) (h accu : Nat) : Nat :=
  if fix && h == p.start then 0 else accu

def finish (dist : Bool) (bd : Nat) (e : Env) : Nat × Nat :=
  if dist then (0, distribute bd e) else (bd, 0)

/-- inside a period with a non-zero allocation: is this a distribution block, the per-block share,
    the block distribution (accumulator + share; `sdk.Uint` addition), then distribute or carry -/
def endBlockActive (fix : Bool) (p : Period) (h accu : Nat) (e : Env) : M (Nat × Nat) :=
  match isDistBlock h p.start p.mod with
  | .error x => .error x
  | .ok dist =>
    match calcBlockDistribution p with
    | .error x => .error x
    | .ok cur =>
      match Uint.add (accuIn fix p h accu) cur with
      | .error x => .error x
      | .ok bd => .ok (finish dist bd e)

/-- reward part of the clp `EndBlocker` at height `h` with stored accumulator `accu`:
    returns (accumulator stored afterwards, net rowan created) -/
def endBlock (fix : Bool) (periods : List Period) (h accu : Nat) (e : Env) : M (Nat × Nat) :=
  match currentPeriod periods h with
  | none => .ok (accu, 0)
  | some p => if p.alloc = 0 then .ok (accu, 0) else endBlockActive fix p h accu e

/-- consecutive blocks h, h+1, …: final accumulator and the net amounts created per block -/
def run (fix : Bool) (periods : List Period) : Nat → Nat → List Env → M (Nat × List Nat)
  | _, accu, [] => .ok (accu, [])
  | h, accu, e :: es =>
    match endBlock fix periods h accu e with
    | .error x => .error x
    | .ok (accu', m) =>
      match run fix periods (h + 1) accu' es with
      | .error x => .error x
      | .ok (a, ms) => .ok (a, m :: ms)

/-! ### histories with parameter edits

  The reward-period list (clp key 0x06) is replaced by `MsgAddRewardPeriodRequest` at any time;
  the accumulator (key 0x0b) is NOT touched by the message: it stays in the state across the
  switch and is dropped only by the EndBlocker in the first block of a period. -/

inductive Step where
  | edit (ps : List Period)     -- an accepted AddRewardPeriod message: the whole list is replaced
  | block (e : Env)             -- the EndBlocker of the next height
  deriving Repr, Inhabited

/-- what a block did: height, the period that was current, net amount created -/
abbrev BlockObs := Nat × Option Period × Nat

/-- state = (stored periods, height of the next EndBlocker, stored accumulator) -/
def runSteps (fix : Bool) : List Period → Nat → Nat → List Step → M (Nat × List BlockObs)
  | _, _, accu, [] => .ok (accu, [])
  | _, h, accu, .edit ps' :: r => runSteps fix ps' h accu r
  | ps, h, accu, .block e :: r =>
    match endBlock fix ps h accu e with
    | .error x => .error x
    | .ok (accu', m) =>
      match runSteps fix ps (h + 1) accu' r with
      | .error x => .error x
      | .ok (a, tr) => .ok (a, (h, currentPeriod ps h, m) :: tr)

/-! ### the tree with fixes/F27.diff applied

  The accumulator belongs to the period that was current in the previous block:
  * `EndBlocker`: it enters the block's distribution only if the period covering height−1 in the
    stored list (`RewardPeriodAt`) is the same period as the current one (`SameRewardPeriod`: block
    range, allocation, mod) — which subsumes the F10 rule (in a period's first block the previous
    height is before its start);
  * `AddRewardPeriod` handler: it is zeroed unless the period covering height−1 is the same in the
    old and in the new list. -/

def accuInR (ps : List Period) (p : Period) (h accu : Nat) : Nat :=
  if h ≠ 0 ∧ currentPeriod ps (h - 1) = some p then accu else 0

def endBlockR (ps : List Period) (h accu : Nat) (e : Env) : M (Nat × Nat) :=
  match currentPeriod ps h with
  | none => .ok (accu, 0)
  | some p => if p.alloc = 0 then .ok (accu, 0) else endBlockActive false p h (accuInR ps p h accu) e

/-- the message handler: what it leaves in the accumulator -/
def editAccu (ps ps' : List Period) (h accu : Nat) : Nat :=
  if h = 0 ∨ currentPeriod ps (h - 1) = currentPeriod ps' (h - 1) then accu else 0

def runStepsR : List Period → Nat → Nat → List Step → M (Nat × List BlockObs)
  | _, _, accu, [] => .ok (accu, [])
  | ps, h, accu, .edit ps' :: r => runStepsR ps' h (editAccu ps ps' h accu) r
  | ps, h, accu, .block e :: r =>
    match endBlockR ps h accu e with
    | .error x => .error x
    | .ok (accu', m) =>
      match runStepsR ps (h + 1) accu' r with
      | .error x => .error x
      | .ok (a, tr) => .ok (a, (h, currentPeriod ps h, m) :: tr)

end Sif.Rewards
