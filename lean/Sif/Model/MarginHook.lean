import Sif.Model.Margin
/-
  x/margin/keeper/abci.go — `BeginBlocker` and `BeginBlockerProcessMTP`.  BeginBlock is not atomic:
  every `SetPool` / `SetMTP` / bank transfer made before an error or a recovered panic stays.  The
  in-memory `*pool` is shared by all positions of a pool and written back after the loop.

  Environment value: the new interest rate of each enabled pool (`InterestRateComputation`, which
  involves `math.Pow` through `GetSQFromBlocks`); the theorems hold for every value.
-/
namespace Sif.Margin
open Sif

/-- `_ = k.SetMTP(ctx, mtp)` -/
def storeMtpIgnore (w : W) : W :=
  match w.storeMtp with
  | .ok w' => w'
  | .error (_, w') => w'

/-- `BeginBlockerProcessMTP` after the interest payment: persist the position, then try to
    liquidate.  Pinned code: `ForceCloseLong` runs on the live store and the shared `*pool`, so a
    failure after `TakeOutCustody` leaves the custody taken out while the position stays stored.
    Repaired code (F14b): it runs on a branch of the store and on copies, committed on success. -/
def processMtpClose (fx : Fixes) (w : W) : W :=
  match forceCloseLong fx (storeMtpIgnore w) false true with
  | .ok r => r.2
  | .error (_, w') => if fx.fcAtomic then storeMtpIgnore w else w'

/-- `BeginBlockerProcessMTP`.  Every error is logged and every panic recovered: it always returns. -/
def processMtp (fx : Fixes) (w : W) : W :=
  match updateMTPHealth w.s w.mtp w.pool with
  | .error _ => w
  | .ok h =>
    let w1 : W := { w with mtp := { w.mtp with health := h } }
    match calcInterest w1.mtp w1.pool.rate 0 0 with
    | .error _ => w1
    | .ok ip =>
      match handleInterestPayment fx w1 ip with
      | .error (_, w') => w'
      | .ok fw =>
        match addBlockInterest fw.2 fw.1 with
        | .error (_, w') => w'
        | .ok w3 => processMtpClose fx w3

/-- `GetMTPsForPool`: positions whose custody or collateral asset is the pool's asset, in key order -/
def mtpsForPool (s : State) (sym : Asset) : List Mtp :=
  s.mtps.filter (fun m => m.cust = sym || m.coll = sym)

/-- the loop over a pool's positions: the store and the shared in-memory pool are threaded -/
def processMtps (fx : Fixes) : List Mtp → State → Pool → State × Pool
  | [], s, p => (s, p)
  | m :: ms, s, p =>
    let w := processMtp fx { s := s, pool := p, mtp := m }
    processMtps fx ms w.s w.pool

/-- one iteration of the pool loop of `BeginBlocker`; `rate` = `InterestRateComputation`'s result -/
def bbPool (fx : Fixes) (s : State) (p : Pool) (rate : Option Dec) : M State :=
  let p1 : Pool := { p with biE := 0, biN := 0 }
  if s.isPoolEnabled p.sym then
    match rate with
    | none => .ok s                     -- InterestRateComputation returned an error: `continue`
    | some r => do
      let p2 : Pool := { p1 with rate := r, lastH := s.height }
      let h ← calcPoolHealth p2
      let p3 : Pool := { p2 with health := h }
      let s1 := s.setPool p3
      let sp := processMtps fx (mtpsForPool s1 p.sym) s1 p3
      pure (sp.1.setPool sp.2)
  else .ok (s.setPool p1)

def bbPools (fx : Fixes) (rates : Asset → Option Dec) : List Pool → State → M State
  | [], s => .ok s
  | p :: ps, s => do
    let s1 ← bbPool fx s p (rates p.sym)
    bbPools fx rates ps s1

/-- `BeginBlocker` (the pools are decoded once, before the loop) -/
def beginBlocker (fx : Fixes) (s : State) (rates : Asset → Option Dec) : M State :=
  if s.epochPosition = 0 then bbPools fx rates s.pools s else .ok s

end Sif.Margin
