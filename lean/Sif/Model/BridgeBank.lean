/-
  A small model of cosmos-sdk v0.45.16 x/bank (+ the part of x/auth it touches) as the bridge uses it.
  Core Lean only.  Accounts are aliases (`Nat`); alias 0 is the ethbridge module account; aliases
  below `nModule` are module accounts, i.e. blocked recipients of `SendCoinsFromModuleToAccount`
  (app.go blocks every module account).  Balances and supply are total functions.

  Modelled, not verified (trusted, exercised by the correspondence): `SendCoins` (insufficient funds =
  error, recipient account is created), `MintCoins`/`BurnCoins` of the ethbridge module (minter+burner),
  the 256-bit overflow panic of `sdk.Int.Add`, zero coins dropped by `sdk.NewCoins`.
-/
namespace Sif.Bank

/-- result of a handler step: an error returned (with its class) or a Go panic; both discard the tx -/
inductive Cls where
  | validate | wl | val | final | dup | auth | paused | ethaddr | funds | ctype | pegged | native | other
  deriving DecidableEq, Repr

inductive Fail where
  | err (c : Cls)
  | panic
  deriving DecidableEq, Repr

abbrev R := Except Fail

def Cls.toString : Cls → String
  | .validate => "err.validate" | .wl => "err.wl" | .val => "err.val" | .final => "err.final"
  | .dup => "err.dup" | .auth => "err.auth" | .paused => "err.paused" | .ethaddr => "err.ethaddr"
  | .funds => "err.funds" | .ctype => "err.ctype" | .pegged => "err.pegged" | .native => "err.native" | .other => "err"

def Fail.toString : Fail → String
  | .err c => c.toString
  | .panic => "panic"

structure Bank where
  bal : Nat → String → Nat
  supply : String → Nat
  acc : Nat → Bool          -- x/auth: the account exists

def Bank.init : Bank := ⟨fun _ _ => 0, fun _ => 0, fun _ => false⟩

/-- the ethbridge module account -/
def moduleAcct : Nat := 0
/-- aliases below this are module accounts (blocked recipients) -/
def nModule : Nat := 3
def blocked (a : Nat) : Bool := a < nModule

def two256 : Nat := 2 ^ 256

def setBal (b : Bank) (a : Nat) (d : String) (n : Nat) : Bank :=
  { b with bal := fun a' d' => if a' = a ∧ d' = d then n else b.bal a' d' }

def setSupply (b : Bank) (d : String) (n : Nat) : Bank :=
  { b with supply := fun d' => if d' = d then n else b.supply d' }

def setAcc (b : Bank) (a : Nat) : Bank :=
  { b with acc := fun a' => if a' = a then true else b.acc a' }

/-- `subUnlockedCoins` for one coin (a zero coin never reaches it: `NewCoins` drops it) -/
def subCoin (b : Bank) (a : Nat) (d : String) (n : Nat) : R Bank :=
  if n = 0 then .ok b
  else if b.bal a d < n then .error (.err .funds)
  else .ok (setBal b a d (b.bal a d - n))

/-- `addCoins` for one coin; `sdk.Int.Add` panics beyond 256 bits -/
def addCoin (b : Bank) (a : Nat) (d : String) (n : Nat) : R Bank :=
  if n = 0 then .ok b
  else if b.bal a d + n ≥ two256 then .error .panic
  else .ok (setBal b a d (b.bal a d + n))

/-- `SendCoins` of one coin: subtract, add, create the recipient account if it does not exist -/
def sendCoin (b : Bank) (src dst : Nat) (d : String) (n : Nat) : R Bank :=
  match subCoin b src d n with
  | .error f => .error f
  | .ok b1 =>
    match addCoin b1 dst d n with
    | .error f => .error f
    | .ok b2 => .ok (setAcc b2 dst)

/-- `MintCoins(ethbridge, [coin])` -/
def mintCoin (b : Bank) (d : String) (n : Nat) : R Bank :=
  match addCoin b moduleAcct d n with
  | .error f => .error f
  | .ok b1 =>
    if n = 0 then .ok b1
    else if b1.supply d + n ≥ two256 then .error .panic
    else .ok (setSupply b1 d (b1.supply d + n))

/-- `BurnCoins(ethbridge, [coin])` -/
def burnCoin (b : Bank) (d : String) (n : Nat) : R Bank :=
  match subCoin b moduleAcct d n with
  | .error f => .error f
  | .ok b1 =>
    if n = 0 then .ok b1
    else if b1.supply d < n then .error .panic      -- `Coin.Sub` panics on a negative result
    else .ok (setSupply b1 d (b1.supply d - n))

/-- `SendCoinsFromModuleToAccount(ethbridge, dst, [coin])`: blocked recipients are refused -/
def sendFromModule (b : Bank) (dst : Nat) (d : String) (n : Nat) : R Bank :=
  if blocked dst then .error (.err .other) else sendCoin b moduleAcct dst d n

/-- `ValidateDenom`: a letter followed by 2 to 127 letters, digits, slashes or dashes -/
def denomChar (c : Char) : Bool := c.isAlphanum || c == '/' || c == '-'

def validDenom (s : String) : Bool :=
  match s.toList with
  | [] => false
  | c :: cs => c.isAlpha && (2 ≤ cs.length && cs.length ≤ 127) && cs.all denomChar

end Sif.Bank
