/-
  C20 — issuance through the bridge: model of x/ethbridge `CreateEthBridgeClaim` at the level of
  what it CREATES.  The handler asks the oracle (`ProcessClaim`) and, if the returned status is
  SUCCESS, mints the final claim's coins and pays them out (`ProcessSuccessfulClaim`).

  The oracle's decision whether consensus is reached is the subject of C05/C06 and enters here as
  environment values (`accepted`, `success`).  What this model owns is the rule that makes a credit
  consensus-approved exactly ONCE: a claim on a prophecy that is already final is rejected
  (`ErrProphecyFinalized`) — it returns no status, so nothing is created.  Core Lean only.
-/
namespace Sif.Bridge

structure BState where
  final : List (Nat × Nat)   -- (prophecy, rowan credited), in order of finalisation
  supply : Nat               -- rowan created by the bridge so far
  deriving Repr, DecidableEq, Inhabited

def BState.empty : BState := ⟨[], 0⟩

structure ClaimIn where
  pid : Nat          -- prophecy (chain id, nonce, ethereum sender)
  amount : Nat       -- amount of the prophecy's final claim
  rowan : Bool       -- the final claim credits rowan (CLAIM_TYPE_BURN of symbol rowan)
  accepted : Bool    -- environment: the oracle accepted the claim (whitelisted validator, no duplicate, …)
  success : Bool     -- environment: with this claim the prophecy reached consensus (status SUCCESS)
  deriving Repr, DecidableEq, Inhabited

def isFinal (s : BState) (pid : Nat) : Bool := s.final.any (fun p => p.1 == pid)

/-- one claim transaction: (state, accepted?, rowan created) -/
def claim (s : BState) (c : ClaimIn) : BState × Bool × Nat :=
  if isFinal s c.pid then (s, false, 0)                -- ErrProphecyFinalized: rejected, nothing created
  else if !c.accepted then (s, false, 0)
  else if c.success then
    let cr := if c.rowan then c.amount else 0
    ({ final := s.final ++ [(c.pid, cr)], supply := s.supply + cr }, true, cr)
  else (s, true, 0)

def runClaims : BState → List ClaimIn → BState
  | s, [] => s
  | s, c :: cs => runClaims (claim s c).1 cs

def credited (s : BState) : Nat := (s.final.map (·.2)).sum

end Sif.Bridge
