import Sif.Num.Basic
/-
  Model of the relayer's translation functions (cmd/ebrelayer/txs/parser.go):

    EthereumEventToEthBridgeClaim   Ethereum LogLock/LogBurn event  →  EthBridgeClaim      (`ethToClaim`)
    BurnLockEventToCosmosMsg        Sifchain lock/burn event attrs  →  CosmosMsg           (`cosmosToMsg`)
    AttributesToEthereumBridgeClaim Sifchain create_claim attrs     →  EthereumBridgeClaim (`attrsToBridgeClaim`)
    CreateOracleClaimFromEthClaim   (x/ethbridge/types/claim.go) the prophecy id           (`claimId`)
    msgServer.Lock / Burn           (x/ethbridge/keeper/msg_server.go) the emitted attrs   (`emitAttrs`)

  Core Lean only.  A Go string is a byte sequence; the model represents it as `List Char` where byte `b`
  is the `Char` with code `b` (so every Go string, valid UTF-8 or not, has exactly one representation and
  `'c'`, `'0'`, … mean the ASCII bytes).  Numbers are `Int`/`Nat`; every narrowing the Go code performs
  (`big.Int.Int64`, the 256-bit check of `sdk.Int`) is written out.

  Results of code that is *not* modelled enter through `Env` (bech32 decoding of cosmos-sdk, the Unicode
  part of `strings.ToLower`, the configured symbol table).  Theorems quantify over every `Env`.
-/
namespace Sif.Relayer

abbrev Str := List Char

def str (s : String) : Str := s.toList

/-! ### character helpers (ASCII) -/

def isAsciiC (c : Char) : Bool := c.toNat < 128
def isUpperC (c : Char) : Bool := 65 ≤ c.toNat && c.toNat ≤ 90
/-- ASCII lower-casing of one byte: 'A'..'Z' ↦ +32, everything else unchanged -/
def lowerC (c : Char) : Char := if isUpperC c then Char.ofNat (c.toNat + 32) else c
def isDigitC (c : Char) : Bool := 48 ≤ c.toNat && c.toNat ≤ 57
def isHexC (c : Char) : Bool :=
  isDigitC c || (97 ≤ c.toNat && c.toNat ≤ 102) || (65 ≤ c.toNat && c.toNat ≤ 70)

/-! ### `big.Int.SetString` (math/big natconv.go `scan`, intconv.go `scan`/`setFromScanner`) -/

/-- digit value of a byte as in `nat.scan` (bases ≤ 36): 0-9, a-z, A-Z; anything else is `MaxBase+1 = 63` -/
def digitVal (c : Char) : Nat :=
  if isDigitC c then c.toNat - 48
  else if 97 ≤ c.toNat && c.toNat ≤ 122 then c.toNat - 97 + 10
  else if 65 ≤ c.toNat && c.toNat ≤ 90 then c.toNat - 65 + 10
  else 63

/-- loop state of `nat.scan`: accumulated value, digit count, `prev == '0'`, `prev == '_'`, `invalSep` -/
structure Scan where
  acc : Nat
  count : Nat
  prevDigit : Bool
  prevSep : Bool
  invalSep : Bool
  deriving Repr, DecidableEq

/-- the digit loop of `nat.scan` in base `b`; `sepOk` = (`base == 0`), i.e. `_` is a separator.
    A byte that is not a digit of the base stops the scan with an unread byte, which makes
    `SetString` fail (the whole string must be consumed): `none`. -/
def scanDigits (b : Nat) (sepOk : Bool) : Str → Scan → Option Scan
  | [], st => some st
  | c :: cs, st =>
    if c = '_' && sepOk then
      scanDigits b sepOk cs { st with invalSep := st.invalSep || !st.prevDigit, prevDigit := false, prevSep := true }
    else if digitVal c < b then
      scanDigits b sepOk cs { st with acc := st.acc * b + digitVal c, count := st.count + 1, prevDigit := true, prevSep := false }
    else none

/-- end of `nat.scan`: separator errors, "no digits" (with the lone-octal-prefix special case) -/
def scanFinish (prefix0 : Bool) (st : Scan) : Option Nat :=
  if st.invalSep || st.prevSep then none
  else if st.count = 0 then (if prefix0 then some 0 else none)
  else some st.acc

/-- magnitude part of `SetString(s, 0)` (after the sign) -/
def scanNat0 : Str → Option Nat
  | [] => none
  | ['0'] => some 0
  | '0' :: c :: rest =>
    let st0 : Scan := ⟨0, 0, true, false, false⟩
    if c = 'b' || c = 'B' then (scanDigits 2 true rest st0).bind (scanFinish false)
    else if c = 'o' || c = 'O' then (scanDigits 8 true rest st0).bind (scanFinish false)
    else if c = 'x' || c = 'X' then (scanDigits 16 true rest st0).bind (scanFinish false)
    else (scanDigits 8 true (c :: rest) st0).bind (scanFinish true)
  | s => (scanDigits 10 true s ⟨0, 0, false, false, false⟩).bind (scanFinish false)

/-- magnitude part of `SetString(s, 10)` -/
def scanNat10 (s : Str) : Option Nat :=
  (scanDigits 10 false s ⟨0, 0, false, false, false⟩).bind (scanFinish false)

/-- `new(big.Int).SetString(s, base)` for base 0 (`base0 = true`) or 10: optional sign, magnitude,
    whole string consumed -/
def parseBig (base0 : Bool) (s : Str) : Option Int :=
  let mag := if base0 then scanNat0 else scanNat10
  match s with
  | '-' :: r => (mag r).map (fun n => -(n : Int))
  | '+' :: r => (mag r).map (fun n => (n : Int))
  | r => (mag r).map (fun n => (n : Int))

/-- `sdk.NewIntFromString`: `SetString(s, 0)` then the 256-bit check -/
def parseSdkInt (s : Str) : Option Int :=
  match parseBig true s with
  | none => none
  | some i => if bitLen i.natAbs > 256 then none else some i

/-- decimal rendering (`strconv.FormatInt/FormatUint`, `big.Int.String`) -/
def decNat (n : Nat) : Str := Nat.toDigits 10 n
def decInt (i : Int) : Str := if i < 0 then '-' :: decNat i.natAbs else decNat i.natAbs

/-! ### narrowing -/

/-- `(*big.Int).Int64()`: the low 64 bits of the magnitude reinterpreted as int64, negated (with
    wrap-around) if the big integer is negative.  `int(...)` and `int64(...)` of the result are the
    identity on a 64-bit platform. -/
def int64OfBig (i : Int) : Int :=
  let lo : Nat := i.natAbs % 2 ^ 64
  let v : Int := if lo < 2 ^ 63 then (lo : Int) else (lo : Int) - 2 ^ 64
  if i < 0 then (if v = -(2 ^ 63) then v else -v) else v

/-! ### Ethereum addresses -/

/-- `has0xPrefix` + strip -/
def strip0x : Str → Str
  | '0' :: x :: r => if x = 'x' || x = 'X' then r else '0' :: x :: r
  | s => s

/-- `common.IsHexAddress(s)` and, if so, `common.HexToAddress(s)` as 40 lower-case hex digits -/
def parseHexAddr (s : Str) : Option Str :=
  let t := strip0x s
  if t.length = 40 && t.all isHexC then some (t.map lowerC) else none

/-- `common.Address.Hex()` up to the EIP-55 letter case (the harness lower-cases): "0x" ++ 40 hex digits -/
def addrString (a : Str) : Str := '0' :: 'x' :: a

/-- `isZeroAddress` on 40 hex digits -/
def isZeroAddr (a : Str) : Bool := a.all (· = '0')

/-! ### symbol table (`symbol_translator`: a bidirectional map with identity default) -/

def sifToEth (table : List (Str × Str)) (denom : Str) : Str :=
  match table.find? (fun p => p.1 = denom) with
  | some p => p.2
  | none => denom

def ethToSif (table : List (Str × Str)) (sym : Str) : Str :=
  match table.find? (fun p => p.2 = sym) with
  | some p => p.1
  | none => sym

/-! ### environment and failures -/

structure Env where
  /-- `sdk.AccAddressFromBech32` of the raw recipient bytes: the decoded address bytes, or `none` on error -/
  bech32 : Str → Option Str
  /-- `sdk.ValAddressFromBech32` likewise -/
  bech32Val : Str → Option Str
  /-- `strings.ToLower` on a string containing a byte ≥ 0x80 (the Unicode path) -/
  lower : Str → Str
  /-- the configured symbol table: pairs (Sifchain denom, Ethereum symbol) -/
  table : List (Str × Str)

inductive ErrKind
  | badRecipient | emptyRecipient | ethToken
  | badSequence | badReceiver | notPrefixed | badAmount | incomplete
  | badSender | badNonce
  deriving Repr, DecidableEq

inductive Fail
  | err (k : ErrKind)   -- the function returned a non-nil error
  | panic               -- the function panicked
  deriving Repr, DecidableEq

/-! ### Ethereum → Sifchain: `EthereumEventToEthBridgeClaim` -/

structure EthEvent where
  to : Str          -- raw recipient bytes (`event.To`)
  symbol : Str
  chainId : Int     -- `*big.Int`
  value : Int       -- `*big.Int`
  nonce : Int       -- `*big.Int`
  claimType : Nat   -- ethbridge.ClaimType: 0 unspecified, 1 burn, 2 lock
  bridge : Str      -- 20 bytes as 40 lower-case hex digits
  sender : Str      -- `event.From`
  token : Str
  deriving Repr, DecidableEq

structure Claim where
  chainId : Int     -- int64
  bridge : Str      -- "0x" ++ hex
  nonce : Int       -- int64
  symbol : Str
  token : Str
  sender : Str
  validator : Str   -- address bytes of `valAddr` (the claim carries their bech32 encoding)
  receiver : Str    -- decoded recipient bytes (the claim carries their canonical bech32 encoding)
  amount : Int
  claimType : Nat
  deriving Repr, DecidableEq

def ctBurn : Nat := 1
def ctLock : Nat := 2

/-- `strings.ToLower`: ASCII fast path in the model, the Unicode path from the environment -/
def toLower (env : Env) (s : Str) : Str :=
  if s.all isAsciiC then s.map lowerC else env.lower s

/-- the `switch event.ClaimType` of the function -/
def claimSymbol (env : Env) (ev : EthEvent) : Str :=
  if ev.claimType = ctLock then toLower env ev.symbol
  else if ev.claimType = ctBurn then ethToSif env.table ev.symbol
  else ev.symbol

def ethToClaim (env : Env) (val : Str) (ev : EthEvent) : Except Fail Claim :=
  match env.bech32 ev.to with
  | none => .error (.err .badRecipient)
  | some r =>
    if r = [] then .error (.err .emptyRecipient)
    else if ev.claimType = ctLock && claimSymbol env ev = str "eth" && !isZeroAddr ev.token then
      .error (.err .ethToken)
    else if bitLen ev.value.natAbs > 256 then .error .panic      -- sdk.NewIntFromBigInt
    else .ok {
      chainId := int64OfBig ev.chainId
      bridge := addrString ev.bridge
      nonce := int64OfBig ev.nonce
      symbol := claimSymbol env ev
      token := addrString ev.token
      sender := addrString ev.sender
      validator := val
      receiver := r
      amount := ev.value
      claimType := ev.claimType }

/-! ### the batch path: `handleEthereumEvent` (relayer/ethereum.go) → `RelayToCosmos` (txs/relayToCosmos.go)

  The loop of `handleEthereumEvent` translates every event of the batch with `EthereumEventToEthBridgeClaim`
  and appends (a pointer to) each claim that came back without an error; `RelayToCosmos` wraps each claim in
  a `MsgCreateEthBridgeClaim`, drops those whose `ValidateBasic` fails, and broadcasts the rest in ONE
  transaction, in order.  A panic in a translation is a panic of the whole call. -/

def claimOf (env : Env) (val : Str) (ev : EthEvent) : Option Claim :=
  match ethToClaim env val ev with
  | .ok c => some c
  | .error _ => none

def translationPanics (env : Env) (val : Str) (ev : EthEvent) : Bool :=
  match ethToClaim env val ev with
  | .error .panic => true
  | _ => false

/-- `MsgCreateEthBridgeClaim.ValidateBasic` on a claim built by the translator (the three `IsHexAddress`
    tests are always true for texts produced by `Address.String()`) -/
def validateBasicOK (env : Env) (c : Claim) : Bool :=
  c.receiver ≠ [] && c.validator ≠ [] && decide (0 ≤ c.nonce) &&
  !(toLower env c.symbol = str "eth" && !isZeroAddr (c.token.drop 2))

/-- the claims of the one transaction `handleEthereumEvent` broadcasts for a non-empty batch -/
def relayBatch (env : Env) (val : Str) (events : List EthEvent) : List Claim :=
  (events.filterMap (claimOf env val)).filter (validateBasicOK env)

/-- `handleEthereumEvent`: `none` = nothing broadcast (empty batch) -/
def handleBatch (env : Env) (val : Str) (events : List EthEvent) : Except Fail (Option (List Claim)) :=
  if events.any (translationPanics env val) then .error .panic
  else if events = [] then .ok none
  else .ok (some (relayBatch env val events))

/-- `CreateOracleClaimFromEthClaim`: the prophecy id all validators must agree on -/
def claimId (c : Claim) : Str := decInt c.chainId ++ decInt c.nonce ++ c.sender

/-! ### the claim content the validators agree on (x/ethbridge/types/claim.go)

  `CreateOracleClaimFromEthClaim` packs receiver, amount, symbol, token contract and claim type of the relayed
  claim with `NewOracleClaimContent` — every field copied verbatim — and stores their JSON text as the
  prophecy's claim content; `CreateEthClaimFromOracleString` / `ProcessSuccessfulClaim` read it back.  The JSON
  codec itself is not modelled (for valid UTF-8 symbols it is a bijection on these fields). -/

structure Content where
  receiver : Str    -- address bytes
  amount : Int
  symbol : Str
  token : Str       -- "0x" ++ hex
  claimType : Nat
  deriving Repr, DecidableEq

/-- `NewOracleClaimContent` applied to the fields of a claim -/
def oracleContent (c : Claim) : Content :=
  { receiver := c.receiver, amount := c.amount, symbol := c.symbol, token := c.token, claimType := c.claimType }

/-! ### Sifchain → Ethereum: `BurnLockEventToCosmosMsg` -/

structure Attr where
  key : Str
  val : Str
  deriving Repr, DecidableEq

/-- relayer `types.Event` values used as claim type here -/
def kBurn : Nat := 1
def kLock : Nat := 2

structure CosmosMsg where
  kind : Nat
  sender : Option Str      -- `[]byte`, nil until set
  seq : Option Int         -- `*big.Int`, nil until set
  receiver : Str           -- `common.Address`, zero until set (40 hex digits)
  symbol : Str
  amount : Option Int      -- `sdk.Int`, nil until set
  deriving Repr, DecidableEq

def zeroAddr : Str := List.replicate 40 '0'

/-- the local variables of the loop.  `attributeSeen` (fix F6b; the pinned code kept a counter
    `attributeNumber` that counted repeated attributes again) is a Go map keyed by the attribute key; an
    entry is only ever written inside the `case` of one of the five constant keys, so the map is modelled
    by five flags and `len(attributeSeen)` by the number of flags set. -/
structure Acc where
  sender : Option Str := none
  seq : Option Int := none
  receiver : Str := zeroAddr
  symbol : Str := []
  amount : Option Int := none
  sSender : Bool := false
  sSeq : Bool := false
  sRecv : Bool := false
  sSym : Bool := false
  sAmt : Bool := false
  deriving Repr, DecidableEq

/-- `len(attributeSeen)` -/
def Acc.seenCount (a : Acc) : Nat :=
  a.sSender.toNat + a.sSeq.toNat + a.sRecv.toNat + a.sSym.toNat + a.sAmt.toNat

def kCosmosSender : Str := str "cosmos_sender"
def kCosmosSenderSequence : Str := str "cosmos_sender_sequence"
def kEthereumReceiver : Str := str "ethereum_receiver"
def kSymbol : Str := str "symbol"
def kAmount : Str := str "amount"
def kEthereumSender : Str := str "ethereum_sender"
def kEthereumSenderNonce : Str := str "ethereum_sender_nonce"

/-- burn symbol: the text after the pegged prefix "c" — `strings.HasPrefix` / `strings.TrimPrefix`
    (fix F6; the pinned code used `strings.Contains` / `strings.SplitAfter`, see `afterFirstC`) -/
def stripPrefixC : Str → Option Str
  | 'c' :: rest => some rest
  | _ => none

/-- what the pinned (unrepaired) code computed: everything after the *first* 'c' anywhere -/
def afterFirstC : Str → Option Str
  | [] => none
  | x :: xs => if x = 'c' then some xs else afterFirstC xs

/-- the `case types.Symbol.String()` arm -/
def symbolStep (kind : Nat) (env : Env) (acc : Acc) (val : Str) : Except Fail Acc :=
  if kind = kLock then .ok { acc with symbol := sifToEth env.table val, sSym := true }
  else if kind = kBurn then
    match stripPrefixC val with
    | none => .error (.err .notPrefixed)
    | some s => .ok { acc with symbol := s, sSym := true }
  else .ok { acc with sSym := true }

/-- one iteration of the attribute loop -/
def attrStep (kind : Nat) (env : Env) (acc : Acc) (a : Attr) : Except Fail Acc :=
  if a.key = kCosmosSender then .ok { acc with sender := some a.val, sSender := true }
  else if a.key = kCosmosSenderSequence then
    match parseBig false a.val with
    | none => .error (.err .badSequence)
    | some i => .ok { acc with seq := some i, sSeq := true }
  else if a.key = kEthereumReceiver then
    match parseHexAddr a.val with
    | none => .error (.err .badReceiver)
    | some r => .ok { acc with receiver := r, sRecv := true }
  else if a.key = kSymbol then symbolStep kind env acc a.val
  else if a.key = kAmount then
    match parseSdkInt a.val with
    | none => .error (.err .badAmount)
    | some i => .ok { acc with amount := some i, sAmt := true }
  else .ok acc

def scanAttrs (kind : Nat) (env : Env) : List Attr → Acc → Except Fail Acc
  | [], acc => .ok acc
  | a :: as, acc =>
    match attrStep kind env acc a with
    | .error e => .error e
    | .ok acc' => scanAttrs kind env as acc'

def cosmosToMsg (kind : Nat) (env : Env) (attrs : List Attr) : Except Fail CosmosMsg :=
  match scanAttrs kind env attrs {} with
  | .error e => .error e
  | .ok acc =>
    if acc.seenCount < 5 then .error (.err .incomplete)
    else .ok { kind := kind, sender := acc.sender, seq := acc.seq, receiver := acc.receiver,
               symbol := acc.symbol, amount := acc.amount }

/-! ### the chain's own emitters (x/ethbridge/keeper/msg_server.go `Lock`, `Burn`) -/

structure BridgeMsg where
  chainId : Int
  sender : Str      -- bech32 text of the Sifchain sender
  receiver : Str    -- hex text of the Ethereum receiver
  amount : Int
  symbol : Str
  ceth : Int
  deriving Repr, DecidableEq

/-- attributes of the `lock` / `burn` event, in emission order -/
def emitAttrs (m : BridgeMsg) (seq : Nat) : List Attr :=
  [ ⟨str "ethereum_chain_id", decInt m.chainId⟩,
    ⟨kCosmosSender, m.sender⟩,
    ⟨kCosmosSenderSequence, decNat seq⟩,
    ⟨kEthereumReceiver, m.receiver⟩,
    ⟨kAmount, decInt m.amount⟩,
    ⟨kSymbol, m.symbol⟩,
    ⟨str "ceth_amount", decInt m.ceth⟩ ]

/-! ### `AttributesToEthereumBridgeClaim` (create_claim events, used by replay): last value wins, no
    completeness check — missing attributes leave zero values. -/

structure BridgeClaimKey where
  ethSender : Str := zeroAddr
  cosmosSender : Option Str := none
  nonce : Option Int := none
  deriving Repr, DecidableEq

def claimAttrStep (env : Env) (acc : BridgeClaimKey) (a : Attr) : Except Fail BridgeClaimKey :=
  if a.key = kCosmosSender then
    match env.bech32Val a.val with
    | none => .error (.err .badSender)
    | some b => .ok { acc with cosmosSender := some b }
  else if a.key = kEthereumSender then
    match parseHexAddr a.val with
    | none => .error (.err .badReceiver)
    | some r => .ok { acc with ethSender := r }
  else if a.key = kEthereumSenderNonce then
    match parseSdkInt a.val with
    | none => .error (.err .badNonce)
    | some i => .ok { acc with nonce := some i }
  else .ok acc

def attrsToBridgeClaim (env : Env) : List Attr → BridgeClaimKey → Except Fail BridgeClaimKey
  | [], acc => .ok acc
  | a :: as, acc =>
    match claimAttrStep env acc a with
    | .error e => .error e
    | .ok acc' => attrsToBridgeClaim env as acc'

end Sif.Relayer
