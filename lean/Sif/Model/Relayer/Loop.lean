/-
  Model of the relayer's Ethereum scanning loop: the body of `case newHead := <-heads` in
  `EthereumSub.Start` (cmd/ebrelayer/relayer/ethereum.go), as a pure step function.

    endingBlock := newHead.Number − trailingBlocks          (skip the iteration if negative)
    if lastProcessedBlock == 0 { lastProcessedBlock = endingBlock }
    logs, err := FilterLogs(FromBlock: lastProcessedBlock, ToBlock: endingBlock)
    if err != nil { continue }                              (cursor unchanged: retry on the next header)
    handleEthereumEvent(lock/burn events of logs)           (then a fixed sleep)
    DB.Put(key, endingBlock + 1)
    lastProcessedBlock = endingBlock + 1

  and the start-up code `lastProcessedBlock = DB.Get(key)` (0 if absent).  A crash kills the process at
  one of six points of the body; the restarted process re-reads the cursor from LevelDB.

  Core Lean only.  `t` is the trailing-block constant (generated fact `Sif.Generated.RelayerLoop.trailingBlocks`);
  the order of the statements above, the `continue`, the query bounds and the `+ 1` are generated facts too
  (`Sif/Generated/RelayerLoop.lean`) and are tied to this model by `decide` obligations in `Props/C17.lean`.
-/
namespace Sif.Relayer.Loop

/-- what an observer sees of the loop -/
inductive Ev
  | head (n : Nat)                    -- a header with number n was delivered to the loop
  | query (lo hi : Nat) (ok : Bool)   -- FilterLogs(FromBlock lo, ToBlock hi); ok = it returned logs
  | submit (lo hi : Nat)              -- the bridge events of blocks lo..hi were handed to handleEthereumEvent
  | put (v : Nat)                     -- DB.Put(ethereumLastProcessedBlock, v) returned
  | restart (p : Nat)                 -- the process died; a new one read cursor p from LevelDB
  deriving Repr, DecidableEq

/-- the six crash points of one iteration -/
inductive Crash
  | beforeQuery | afterQuery | beforeSubmit | afterSubmit | beforePut | afterPut
  deriving Repr, DecidableEq

/-- what happens to an iteration -/
inductive Outcome
  | done                 -- runs to the end
  | queryFail            -- FilterLogs returns an error
  | crash (c : Crash)    -- the process is killed at point c and restarted
  deriving Repr, DecidableEq

/-- inputs of the loop -/
inductive In
  | head (n : Nat) (o : Outcome)   -- a new header number n arrives; the iteration ends as `o`
  | crashIdle                      -- the process is killed between iterations and restarted
  deriving Repr, DecidableEq

structure St where
  persisted : Nat   -- LevelDB cursor ("first block not yet processed"); 0 = key absent
  mem : Nat         -- `lastProcessedBlock` of the running process
  maxHead : Nat     -- ghost: newest header number seen so far
  deriving Repr, DecidableEq

/-- a fresh process on a LevelDB holding cursor `p` (0 = empty) -/
def init (p : Nat) : St := { persisted := p, mem := p, maxHead := 0 }

/-- process death + start-up: the in-memory cursor is re-read from LevelDB -/
def restart (s : St) : St × List Ev := ({ s with mem := s.persisted }, [.restart s.persisted])

/-- `if lastProcessedBlock == 0 { lastProcessedBlock = endingBlock }` -/
def cursorFor (s : St) (e : Nat) : Nat := if s.mem = 0 then e else s.mem

/-- an iteration whose `endingBlock` would be negative: `continue` before anything happens -/
def skip (s1 : St) (n : Nat) : Outcome → St × List Ev
  | .crash _ => ((restart s1).1, .head n :: (restart s1).2)
  | _ => (s1, [.head n])

/-- the rest of the body, with in-memory cursor `m = s2.mem` and `e = endingBlock` -/
def body (s2 : St) (n m e : Nat) : Outcome → St × List Ev
  | .crash .beforeQuery => ((restart s2).1, .head n :: (restart s2).2)
  | .queryFail => (s2, [.head n, .query m e false])
  | .crash .afterQuery => ((restart s2).1, [.head n, .query m e true] ++ (restart s2).2)
  | .crash .beforeSubmit => ((restart s2).1, [.head n, .query m e true] ++ (restart s2).2)
  | .crash .afterSubmit => ((restart s2).1, [.head n, .query m e true, .submit m e] ++ (restart s2).2)
  | .crash .beforePut => ((restart s2).1, [.head n, .query m e true, .submit m e] ++ (restart s2).2)
  | .crash .afterPut =>
      ((restart { s2 with persisted := e + 1 }).1,
       [.head n, .query m e true, .submit m e, .put (e + 1)] ++ (restart { s2 with persisted := e + 1 }).2)
  | .done =>
      ({ s2 with persisted := e + 1, mem := e + 1 }, [.head n, .query m e true, .submit m e, .put (e + 1)])

/-- one iteration for header `n` -/
def iter (t : Nat) (s : St) (n : Nat) (o : Outcome) : St × List Ev :=
  let s1 : St := { s with maxHead := max s.maxHead n }
  if n < t then skip s1 n o
  else body { s1 with mem := cursorFor s (n - t) } n (cursorFor s (n - t)) (n - t) o

def step (t : Nat) (s : St) : In → St × List Ev
  | .head n o => iter t s n o
  | .crashIdle => restart s

/-- run a whole input schedule; the trace is in chronological order -/
def run (t : Nat) : St → List In → St × List Ev
  | s, [] => (s, [])
  | s, i :: is =>
    let r := step t s i
    let r' := run t r.1 is
    (r'.1, r.2 ++ r'.2)

end Sif.Relayer.Loop
