import Sif.Model.HooksEnd
/-
  Validation of the AMM policy / parameter messages of x/clp, as data.

  The reject conditions of `ValidateBasic` and of the handler prologues are represented by a small
  expression AST (`Term`, `Cond`, `Clause`).  `Sif/Generated/Validate.lean` (written by the
  extractor from the repository's current source) contains the clause lists the CODE has;
  this file contains, per message, the clause list `required` that the safety theorems need, the
  evaluator giving the clauses their meaning, the message structures, and `apply` (what an accepted
  message writes into the state the block hooks read).

  `accepts` = no required clause rejects.  Tie: `required ⊆ generated` (checked by `decide` in
  Props/C10) and `covers_sound` give "code accepts ⇒ model accepts".
-/
namespace Sif.Validate
open Sif Sif.Hooks

/-- integer-valued expressions; `sdk.Dec` values are their raw 10^18-scaled integers -/
inductive Term where
  | lit (n : Int)
  | fld (path : String)            -- message field (elements of ranged lists by the enclosing binders)
  | st (name : String)             -- chain state / context value
  | addI64 (a b : Term) | subI64 (a b : Term) | divI64 (a b : Term) | modI64 (a b : Term)
  | addU64 (a b : Term) | subU64 (a b : Term)
  | mulInt (a b : Term)            -- Dec.MulInt64 (panics above 315 bits)
  | ifEmpty (path : String) (a b : Term)   -- a when the string field is empty, else b
  deriving Repr, DecidableEq, Inhabited

inductive Cond where
  | lt (a b : Term) | le (a b : Term) | eq (a b : Term)
  | strEmpty (path : String)
  | isNil (path : String)
  | atom (name : String)           -- named predicate supplied by the environment
  | not (c : Cond) | or (a b : Cond) | and (a b : Cond)
  | opaque (src : String)          -- a reject condition the extractor could not translate
  deriving Repr, DecidableEq, Inhabited

/-- `for … range binders… { if guards… { if cond { return err } } }`; `barrier` marks a statement
    the extractor does not understand: clauses after it do not count. -/
structure Clause where
  binders : List String
  guards : List Cond
  cond : Cond
  barrier : Bool := false
  deriving Repr, DecidableEq, Inhabited

/-- the values a message (and the chain state) give to the names used in clauses -/
structure Env where
  int : String → List Nat → Option Int    -- none = nil pointer / nil Dec (evaluating it panics)
  strEmpty : String → List Nat → Bool
  isNil : String → List Nat → Bool
  len : String → List Nat → Nat
  stv : String → Option Int
  atom : String → Bool

def decFits (i : Int) : Bool := decide (bitLen i.natAbs ≤ Dec.maxBits)

/-- none = the Go expression panics (nil dereference, integer division by zero, Dec overflow) -/
def evalTerm (e : Env) (ix : List Nat) : Term → Option Int
  | .lit n => some n
  | .fld p => e.int p ix
  | .st n => e.stv n
  | .addI64 a b => do some (wrapI64 ((← evalTerm e ix a) + (← evalTerm e ix b)))
  | .subI64 a b => do some (wrapI64 ((← evalTerm e ix a) - (← evalTerm e ix b)))
  | .divI64 a b => do
      let x ← evalTerm e ix a
      let y ← evalTerm e ix b
      if y = 0 then none else some (wrapI64 (Int.tdiv x y))
  | .modI64 a b => do
      let x ← evalTerm e ix a
      let y ← evalTerm e ix b
      if y = 0 then none else some (Int.tmod x y)
  | .addU64 a b => do some (wrapU64 ((← evalTerm e ix a) + (← evalTerm e ix b)) : Nat)
  | .subU64 a b => do some (wrapU64 ((← evalTerm e ix a) - (← evalTerm e ix b)) : Nat)
  | .mulInt a b => do
      let x ← evalTerm e ix a
      let y ← evalTerm e ix b
      if decFits (x * y) then some (x * y) else none
  | .ifEmpty p a b => if e.strEmpty p ix then evalTerm e ix a else evalTerm e ix b

/-- none = panic while evaluating (the transaction fails: rejected) -/
def evalCond (e : Env) (ix : List Nat) : Cond → Option Bool
  | .lt a b => do some (decide ((← evalTerm e ix a) < (← evalTerm e ix b)))
  | .le a b => do some (decide ((← evalTerm e ix a) ≤ (← evalTerm e ix b)))
  | .eq a b => do some (decide ((← evalTerm e ix a) = (← evalTerm e ix b)))
  | .strEmpty p => some (e.strEmpty p ix)
  | .isNil p => some (e.isNil p ix)
  | .atom n => some (e.atom n)
  | .not c => (evalCond e ix c).map (!·)
  | .or a b => match evalCond e ix a with       -- Go's short circuit
      | some true => some true
      | some false => evalCond e ix b
      | none => none
  | .and a b => match evalCond e ix a with
      | some false => some false
      | some true => evalCond e ix b
      | none => none
  | .opaque _ => none

/-- do the enclosing `if` conditions let control reach the clause?  none = panic -/
def guardsHold (e : Env) (ix : List Nat) : List Cond → Option Bool
  | [] => some true
  | g :: gs => match evalCond e ix g with
      | some true => guardsHold e ix gs
      | some false => some false
      | none => none

/-- the clause at fixed indices: rejects = reached and (condition true or panic) -/
def rejAt (e : Env) (ix : List Nat) (c : Clause) : Bool :=
  match guardsHold e ix c.guards with
  | some false => false
  | some true => evalCond e ix c.cond != some false
  | none => true

def anyIdx (f : Nat → Bool) : Nat → Bool
  | 0 => false
  | n+1 => f n || anyIdx f n

/-- over all elements of the ranged lists -/
def rejBinders (e : Env) (c : Clause) : List String → List Nat → Bool
  | [], ix => rejAt e ix c
  | l :: ls, ix => anyIdx (fun i => rejBinders e c ls (ix ++ [i])) (e.len l ix)

def Clause.rejects (e : Env) (c : Clause) : Bool := rejBinders e c c.binders []

/-- a clause list accepts when no clause rejects -/
def acceptsAll (e : Env) (cs : List Clause) : Bool := cs.all (fun c => !c.rejects e)

/-- the clauses that count: those before the first barrier -/
def beforeBarrier : List Clause → List Clause
  | [] => []
  | c :: cs => if c.barrier then [] else c :: beforeBarrier cs

/-- tie-1 obligation: every required clause is among the code's clauses (before any barrier) -/
def covers (gen req : List Clause) : Bool := req.all (fun r => (beforeBarrier gen).contains r)

/-! ## the messages (fields as the harness prints them) -/

/-- what every handler looks at besides the message -/
structure Ctx where
  height : Int
  insideWindow : Bool          -- k.IsInsidePmtpWindow(ctx)
  badSigner : Bool             -- AccAddressFromBech32(Signer) fails
  notAdmin : Bool              -- !IsAdminAccount(ctx, <role>, signer)
  deriving Repr, DecidableEq, Inhabited

/-- a decimal given as a string: empty, unparsable, or a value -/
inductive DecStr where
  | empty | bad | val (d : Dec)
  deriving Repr, DecidableEq, Inhabited

def DecStr.isEmpty : DecStr → Bool | .empty => true | _ => false
def DecStr.isBad : DecStr → Bool | .bad => true | _ => false
def DecStr.raw : DecStr → Option Int | .val d => some d.i | _ => none

structure MsgModifyPmtpRates where
  blockRate : DecStr
  runningRate : DecStr
  endPolicy : Bool
  deriving Repr, DecidableEq, Inhabited

structure MsgUpdatePmtpParams where
  gov : DecStr
  epochLen : Int
  start : Int
  end_ : Int
  deriving Repr, DecidableEq, Inhabited

structure MsgModifyLPRates where
  cur : Nat
  deriving Repr, DecidableEq, Inhabited

structure MsgUpdateLPParams where
  max : Nat
  epochLen : Nat
  active : Bool
  deriving Repr, DecidableEq, Inhabited

structure MsgRewardPeriod where
  idEmpty : Bool
  p : RewardPeriod
  deriving Repr, DecidableEq, Inhabited

structure MsgAddRewardPeriod where
  periods : List MsgRewardPeriod
  deriving Repr, DecidableEq, Inhabited

structure MsgLppdPeriod where
  rate : Option Dec
  start : Nat
  end_ : Nat
  mod : Nat
  deriving Repr, DecidableEq, Inhabited

structure MsgAddLppd where
  periods : List MsgLppdPeriod
  deriving Repr, DecidableEq, Inhabited

structure MsgUpdateSwapFee where
  def_ : Option Dec
  tokens : List (Option Dec)
  deriving Repr, DecidableEq, Inhabited

/-! ## environments -/

def noInt : String → List Nat → Option Int := fun _ _ => none
def noBool : String → List Nat → Bool := fun _ _ => false
def noLen : String → List Nat → Nat := fun _ _ => 0

def ctxAtom (c : Ctx) : String → Bool
  | "insidePmtpWindow" => c.insideWindow
  | "badaddr:Signer" => c.badSigner
  | "notAdmin" => c.notAdmin
  | _ => false

/-- state values the handlers read -/
structure StVals where
  lpMax : Nat := 0          -- LiquidityProtectionParams.MaxRowanLiquidityThreshold
  gov : Dec := Dec.zero     -- PmtpParams.PmtpPeriodGovernanceRate
  deriving Repr, DecidableEq, Inhabited

def stOf (c : Ctx) (s : StVals) : String → Option Int
  | "height" => some c.height
  | "LiquidityProtectionParams.MaxRowanLiquidityThreshold" => some s.lpMax
  | "PmtpParams.PmtpPeriodGovernanceRate" => some s.gov.i
  | _ => none

def envModifyPmtpRates (m : MsgModifyPmtpRates) (c : Ctx) (s : StVals) : Env where
  int := fun p _ => match p with
    | "dec:BlockRate" => m.blockRate.raw
    | "dec:RunningRate" => m.runningRate.raw
    | _ => none
  strEmpty := fun p _ => match p with
    | "BlockRate" => m.blockRate.isEmpty
    | "RunningRate" => m.runningRate.isEmpty
    | _ => false
  isNil := noBool
  len := noLen
  stv := stOf c s
  atom := fun n => match n with
    | "baddec:BlockRate" => m.blockRate.isBad
    | "baddec:RunningRate" => m.runningRate.isBad
    | "EndPolicy" => m.endPolicy
    | n => ctxAtom c n

def envUpdatePmtpParams (m : MsgUpdatePmtpParams) (c : Ctx) (s : StVals) : Env where
  int := fun p _ => match p with
    | "PmtpPeriodEpochLength" => some m.epochLen
    | "PmtpPeriodStartBlock" => some m.start
    | "PmtpPeriodEndBlock" => some m.end_
    | "dec:PmtpPeriodGovernanceRate" => m.gov.raw
    | _ => none
  strEmpty := fun p _ => match p with
    | "PmtpPeriodGovernanceRate" => m.gov.isEmpty
    | _ => false
  isNil := noBool
  len := noLen
  stv := stOf c s
  atom := fun n => match n with
    | "baddec:PmtpPeriodGovernanceRate" => m.gov.isBad
    | n => ctxAtom c n

def envModifyLPRates (m : MsgModifyLPRates) (c : Ctx) (s : StVals) : Env where
  int := fun p _ => match p with
    | "CurrentRowanLiquidityThreshold" => some m.cur
    | _ => none
  strEmpty := noBool
  isNil := noBool
  len := noLen
  stv := stOf c s
  atom := ctxAtom c

def envUpdateLPParams (m : MsgUpdateLPParams) (c : Ctx) (s : StVals) : Env where
  int := fun p _ => match p with
    | "EpochLength" => some m.epochLen
    | "MaxRowanLiquidityThreshold" => some m.max
    | _ => none
  strEmpty := noBool
  isNil := noBool
  len := noLen
  stv := stOf c s
  atom := ctxAtom c

def natOpt (o : Option Nat) : Option Int := o.map (fun n => (n : Int))
def decOpt (o : Option Dec) : Option Int := o.map (·.i)

def envAddRewardPeriod (m : MsgAddRewardPeriod) (c : Ctx) (s : StVals) : Env where
  int := fun p ix => match p, ix with
    | "RewardPeriods[].RewardPeriodStartBlock", [i] => (m.periods[i]?).map (fun q => (q.p.start : Int))
    | "RewardPeriods[].RewardPeriodEndBlock", [i] => (m.periods[i]?).map (fun q => (q.p.end_ : Int))
    | "RewardPeriods[].RewardPeriodMod", [i] => (m.periods[i]?).map (fun q => (q.p.mod : Int))
    | "RewardPeriods[].RewardPeriodAllocation", [i] => (m.periods[i]?).bind (fun q => natOpt q.p.alloc)
    | "RewardPeriods[].RewardPeriodDefaultMultiplier", [i] => (m.periods[i]?).bind (fun q => decOpt q.p.defMult)
    | "RewardPeriods[].RewardPeriodPoolMultipliers[].Multiplier", [i, j] =>
        (m.periods[i]?).bind (fun q => (q.p.mults[j]?).bind (fun x => decOpt x.m))
    | _, _ => none
  strEmpty := fun p ix => match p, ix with
    | "RewardPeriods[].RewardPeriodId", [i] => ((m.periods[i]?).map (·.idEmpty)).getD false
    | _, _ => false
  isNil := fun p ix => match p, ix with
    | "RewardPeriods[].RewardPeriodAllocation", [i] => ((m.periods[i]?).map (fun q => q.p.alloc.isNone)).getD false
    | "RewardPeriods[].RewardPeriodDefaultMultiplier", [i] => ((m.periods[i]?).map (fun q => q.p.defMult.isNone)).getD false
    | _, _ => false
  len := fun p ix => match p, ix with
    | "RewardPeriods", [] => m.periods.length
    | "RewardPeriods[].RewardPeriodPoolMultipliers", [i] => ((m.periods[i]?).map (fun q => q.p.mults.length)).getD 0
    | _, _ => 0
  stv := stOf c s
  atom := ctxAtom c

def envAddLppd (m : MsgAddLppd) (c : Ctx) (s : StVals) : Env where
  int := fun p ix => match p, ix with
    | "DistributionPeriods[].DistributionPeriodStartBlock", [i] => (m.periods[i]?).map (fun q => (q.start : Int))
    | "DistributionPeriods[].DistributionPeriodEndBlock", [i] => (m.periods[i]?).map (fun q => (q.end_ : Int))
    | "DistributionPeriods[].DistributionPeriodMod", [i] => (m.periods[i]?).map (fun q => (q.mod : Int))
    | "DistributionPeriods[].DistributionPeriodBlockRate", [i] => (m.periods[i]?).bind (fun q => decOpt q.rate)
    | _, _ => none
  strEmpty := noBool
  isNil := noBool
  len := fun p ix => match p, ix with
    | "DistributionPeriods", [] => m.periods.length
    | _, _ => 0
  stv := stOf c s
  atom := ctxAtom c

def envUpdateSwapFee (m : MsgUpdateSwapFee) (c : Ctx) (s : StVals) : Env where
  int := fun p ix => match p, ix with
    | "DefaultSwapFeeRate", [] => decOpt m.def_
    | "TokenParams[].SwapFeeRate", [i] => (m.tokens[i]?).bind decOpt
    | _, _ => none
  strEmpty := noBool
  isNil := noBool
  len := fun p ix => match p, ix with
    | "TokenParams", [] => m.tokens.length
    | _, _ => 0
  stv := stOf c s
  atom := ctxAtom c

/-! ## the clauses the safety theorems need (a subset of what the code checks) -/

def P18 : Int := 10 ^ 18
def cl (c : Cond) : Clause := ⟨[], [], c, false⟩
def clIn (bs : List String) (c : Cond) : Clause := ⟨bs, [], c, false⟩

namespace Req
open Term Cond

def numBlocks : Term := addI64 (subI64 (fld "PmtpPeriodEndBlock") (fld "PmtpPeriodStartBlock")) (lit 1)
/-- the governance rate the handler ends up storing -/
def effGov : Term := ifEmpty "PmtpPeriodGovernanceRate" (st "PmtpParams.PmtpPeriodGovernanceRate") (fld "dec:PmtpPeriodGovernanceRate")

def updatePmtpParams : List Clause := [
  cl (le (fld "PmtpPeriodEpochLength") (lit 0)),
  cl (lt (fld "PmtpPeriodEndBlock") (fld "PmtpPeriodStartBlock")),
  cl (not (eq (modI64 numBlocks (fld "PmtpPeriodEpochLength")) (lit 0))),
  cl (atom "insidePmtpWindow"),
  cl (le (fld "PmtpPeriodStartBlock") (st "height")),
  ⟨[], [not (strEmpty "PmtpPeriodGovernanceRate")], atom "baddec:PmtpPeriodGovernanceRate", false⟩,
  cl (or (lt effGov (lit 0)) (lt (lit P18) effGov)),
  cl (lt (lit (50 * P18)) (mulInt effGov (divI64 numBlocks (fld "PmtpPeriodEpochLength"))))
]

def rrGuard : Cond := and (not (strEmpty "RunningRate")) (not (atom "insidePmtpWindow"))
def modifyPmtpRates : List Clause := [
  ⟨[], [rrGuard], atom "baddec:RunningRate", false⟩,
  ⟨[], [rrGuard], or (le (fld "dec:RunningRate") (lit (-1 * P18))) (lt (lit (1000000 * P18)) (fld "dec:RunningRate")), false⟩
]

def modifyLPRates : List Clause := [
  cl (lt (st "LiquidityProtectionParams.MaxRowanLiquidityThreshold") (fld "CurrentRowanLiquidityThreshold"))
]

def updateLPParams : List Clause := [
  cl (le (fld "EpochLength") (lit 0))
]

def rp : List String := ["RewardPeriods"]
def rpm : List String := ["RewardPeriods", "RewardPeriods[].RewardPeriodPoolMultipliers"]
def maxAlloc : Int := 2 ^ 128 - 1
def addRewardPeriod : List Clause := [
  clIn rp (lt (fld "RewardPeriods[].RewardPeriodEndBlock") (fld "RewardPeriods[].RewardPeriodStartBlock")),
  clIn rp (eq (addU64 (subU64 (fld "RewardPeriods[].RewardPeriodEndBlock") (fld "RewardPeriods[].RewardPeriodStartBlock")) (lit 1)) (lit 0)),
  clIn rp (isNil "RewardPeriods[].RewardPeriodAllocation"),
  clIn rpm (lt (fld "RewardPeriods[].RewardPeriodPoolMultipliers[].Multiplier") (lit 0)),
  clIn rpm (lt (lit (10 * P18)) (fld "RewardPeriods[].RewardPeriodPoolMultipliers[].Multiplier")),
  clIn rp (lt (fld "RewardPeriods[].RewardPeriodDefaultMultiplier") (lit 0)),
  clIn rp (lt (lit (10 * P18)) (fld "RewardPeriods[].RewardPeriodDefaultMultiplier")),
  clIn rp (lt (lit maxAlloc) (fld "RewardPeriods[].RewardPeriodAllocation"))
]

def dp : List String := ["DistributionPeriods"]
def addLppd : List Clause := [
  clIn dp (lt (fld "DistributionPeriods[].DistributionPeriodEndBlock") (fld "DistributionPeriods[].DistributionPeriodStartBlock")),
  clIn dp (or (lt (fld "DistributionPeriods[].DistributionPeriodBlockRate") (lit 0))
              (lt (lit P18) (fld "DistributionPeriods[].DistributionPeriodBlockRate"))),
  clIn dp (eq (fld "DistributionPeriods[].DistributionPeriodMod") (lit 0))
]

def updateSwapFee : List Clause := [
  cl (lt (fld "DefaultSwapFeeRate") (lit 0)),
  cl (lt (lit P18) (fld "DefaultSwapFeeRate")),
  clIn ["TokenParams"] (lt (fld "TokenParams[].SwapFeeRate") (lit 0)),
  clIn ["TokenParams"] (lt (lit P18) (fld "TokenParams[].SwapFeeRate"))
]

end Req

/-! ## `accepts`: what the theorems assume of a message that got through -/

def acceptsModifyPmtpRates (m : MsgModifyPmtpRates) (c : Ctx) (s : StVals) : Bool :=
  acceptsAll (envModifyPmtpRates m c s) Req.modifyPmtpRates
def acceptsUpdatePmtpParams (m : MsgUpdatePmtpParams) (c : Ctx) (s : StVals) : Bool :=
  acceptsAll (envUpdatePmtpParams m c s) Req.updatePmtpParams
def acceptsModifyLPRates (m : MsgModifyLPRates) (c : Ctx) (s : StVals) : Bool :=
  acceptsAll (envModifyLPRates m c s) Req.modifyLPRates
def acceptsUpdateLPParams (m : MsgUpdateLPParams) (c : Ctx) (s : StVals) : Bool :=
  acceptsAll (envUpdateLPParams m c s) Req.updateLPParams
def acceptsAddRewardPeriod (m : MsgAddRewardPeriod) (c : Ctx) (s : StVals) : Bool :=
  acceptsAll (envAddRewardPeriod m c s) Req.addRewardPeriod
def acceptsAddLppd (m : MsgAddLppd) (c : Ctx) (s : StVals) : Bool :=
  acceptsAll (envAddLppd m c s) Req.addLppd
def acceptsUpdateSwapFee (m : MsgUpdateSwapFee) (c : Ctx) (s : StVals) : Bool :=
  acceptsAll (envUpdateSwapFee m c s) Req.updateSwapFee

/-! ## `apply`: what an accepted message writes into the hook state -/

def effectiveGov (m : MsgUpdatePmtpParams) (old : Dec) : Dec :=
  match m.gov with
  | .val d => d
  | _ => old

/-- msg_server.go `UpdatePmtpParams` -/
def applyUpdatePmtpParams (m : MsgUpdatePmtpParams) (pm : Pmtp) : Pmtp :=
  { pm with start := m.start, end_ := m.end_, epochLen := m.epochLen, gov := effectiveGov m pm.gov }

def setBlockRate (m : MsgModifyPmtpRates) (inside : Bool) (pm : Pmtp) : Pmtp :=
  match m.blockRate, inside with
  | .val d, false => { pm with blockRate := d }
  | _, _ => pm

def setRunningRate (m : MsgModifyPmtpRates) (inside : Bool) (pm : Pmtp) : Pmtp :=
  match m.runningRate, inside with
  | .val d, false => { pm with running := d, inter := d }
  | _, _ => pm

def endPolicyNow (m : MsgModifyPmtpRates) (c : Ctx) (pm : Pmtp) : Pmtp :=
  if m.endPolicy ∧ c.insideWindow then
    { pm with end_ := c.height, epochCtr := 0, blockCtr := 0, inter := pm.running }
  else pm

/-- msg_server.go `ModifyPmtpRates` -/
def applyModifyPmtpRates (m : MsgModifyPmtpRates) (c : Ctx) (pm : Pmtp) : Pmtp :=
  endPolicyNow m c (setRunningRate m c.insideWindow (setBlockRate m c.insideWindow pm))

def applyModifyLPRates (m : MsgModifyLPRates) (lp : LiqProt) : LiqProt := { lp with cur := m.cur }

def applyUpdateLPParams (m : MsgUpdateLPParams) (_lp : LiqProt) : LiqProt :=
  { active := m.active, max := m.max, cur := m.max, epochLen := m.epochLen }

/-- msg_server.go `AddRewardPeriod` (with repair F27): the accumulated block distribution survives only if
    the period covering the previous height is unchanged in the new list -/
def applyAddRewardPeriod (m : MsgAddRewardPeriod) (c : Ctx) (s : EState) : EState :=
  { s with rew := m.periods.map (·.p),
           accu := if samePeriodOpt (rewardAt (prevHeight c.height) s.rew) (rewardAt (prevHeight c.height) (m.periods.map (·.p)))
                   then s.accu else 0 }

def lppdOf (q : MsgLppdPeriod) : LppdPeriod := ⟨q.rate.getD Dec.zero, q.start, q.end_, q.mod⟩
def applyAddLppd (m : MsgAddLppd) (s : EState) : EState :=
  { s with lppd := m.periods.map lppdOf }

end Sif.Validate
