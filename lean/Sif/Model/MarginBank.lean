import Sif.Num.Basic
/-
  The slice of cosmos-sdk v0.45.16 x/bank that x/margin uses (modelled, not verified; exercised by
  the L1 correspondence): balances per (address, denom), the blocked-recipient set, and the two
  module transfers.  Addresses are their bech32 strings.  Core Lean only.
-/
namespace Sif.Margin

abbrev Asset := String
abbrev Addr := String

structure Bank where
  bal : Addr → Asset → Nat
  blocked : List Addr

inductive BankErr where
  | insufficient    -- sdkerrors.ErrInsufficientFunds
  | blockedRecipient -- sdkerrors.ErrUnauthorized ("is not allowed to receive funds")
  deriving Repr, DecidableEq

namespace Bank

def setBal (b : Bank) (a : Addr) (d : Asset) (v : Nat) : Bank :=
  { b with bal := fun a' d' => if a' = a ∧ d' = d then v else b.bal a' d' }

/-- `SendCoins` of one coin (a zero coin is dropped by `sdk.NewCoins`, the empty send succeeds) -/
def send (b : Bank) (src dst : Addr) (d : Asset) (amt : Nat) : Except BankErr Bank :=
  if amt = 0 then .ok b
  else if b.bal src d < amt then .error .insufficient
  else
    let b1 := b.setBal src d (b.bal src d - amt)
    .ok (b1.setBal dst d (b1.bal dst d + amt))

/-- `SendCoinsFromModuleToAccount`: refuses a blocked recipient before anything else -/
def modToAcc (b : Bank) (mod dst : Addr) (d : Asset) (amt : Nat) : Except BankErr Bank :=
  if b.blocked.contains dst then .error .blockedRecipient else b.send mod dst d amt

/-- `SendCoinsFromAccountToModule` -/
def accToMod (b : Bank) (src mod : Addr) (d : Asset) (amt : Nat) : Except BankErr Bank :=
  b.send src mod d amt

def hasBalance (b : Bank) (a : Addr) (d : Asset) (amt : Nat) : Bool := amt ≤ b.bal a d

end Bank
end Sif.Margin
