import Sif.Model.Oracle
import Sif.Model.BridgeBank
/-
  Model of x/ethbridge (keeper/msg_server.go, keeper/keeper.go, blacklist.go, pauser.go,
  cethReceiverAccount.go, peggyTokens.go, types/msgs.go ValidateBasic, types/claim.go), on top of the
  oracle model.  Core Lean only.  Every handler returns `R (state × output)`; `deliver*` is the
  transaction wrapper: ValidateBasic, then the handler on a copy that is kept only on success
  (an error return or a panic discards it — baseapp.runTx).
-/
namespace Sif.EthBridge
open Sif.Oracle Sif.Bank
open Sif.Generated

/-! ### Ethereum addresses as strings (`gethCommon.IsHexAddress`, `HexToAddress`) -/

def hexDigit (c : Char) : Option Nat :=
  if '0' ≤ c ∧ c ≤ '9' then some (c.toNat - '0'.toNat)
  else if 'a' ≤ c ∧ c ≤ 'f' then some (c.toNat - 'a'.toNat + 10)
  else if 'A' ≤ c ∧ c ≤ 'F' then some (c.toNat - 'A'.toNat + 10)
  else none

/-- strip an optional `0x`/`0X` -/
def strip0x (cs : List Char) : List Char :=
  match cs with
  | '0' :: 'x' :: r => r
  | '0' :: 'X' :: r => r
  | _ => cs

def hexValAux : List Char → Nat → Option Nat
  | [], acc => some acc
  | c :: cs, acc => match hexDigit c with
    | some d => hexValAux cs (acc * 16 + d)
    | none => none

/-- the 20-byte address a valid spelling denotes (as a number); `none` = not `IsHexAddress` -/
def ethAddr (s : String) : Option Nat :=
  let cs := strip0x s.toList
  if cs.length = 40 then hexValAux cs 0 else none

def isHexAddress (s : String) : Bool := (ethAddr s).isSome

/-- blacklist key: `normalizeEthAddress` of the repaired code (defect F11): a valid address is stored and
    looked up in its canonical `HexToAddress(..).Hex()` form — modelled by the 20-byte value, of which the
    EIP-55 string is an injective image — anything else is kept as the raw string. -/
inductive BlKey where
  | addr (n : Nat)
  | raw (s : String)
  deriving DecidableEq, Repr

def blKey (s : String) : BlKey :=
  match ethAddr s with
  | some n => .addr n
  | none => .raw s

/-! ### State -/

structure BState where
  oracle : OState
  bank : Bank
  peggy : List String
  paused : Bool
  cethReceiver : Option Nat
  blacklist : List BlKey
  bridgeAdmins : List Nat      -- x/admin accounts of type ETHBRIDGE (environment, set by genesis)

def BState.init : BState := ⟨OState.init, Bank.init, [], false, none, [], []⟩

def cethSymbol : String := BridgeConsts.cethSymbol
def peggedPrefix : String := BridgeConsts.peggedCoinPrefix

/-! ### CreateEthBridgeClaim -/

structure ClaimMsg where
  validator : Nat
  chain : Int
  nonce : Int
  sender : String
  receiver : Nat
  amount : Int
  symbol : String
  token : String
  ctype : Nat          -- 0 unspecified, 1 burn, 2 lock
  vspelling : Nat := 0 -- spelling of the validator address string (0 = canonical bech32)
  deriving Repr

/-- `strings.ToLower` on ASCII symbols -/
def asciiLower (s : String) : String := String.ofList (s.toList.map Char.toLower)

/-- `MsgCreateEthBridgeClaim.ValidateBasic` (receiver, validator and bridge contract are well-formed by
    construction of the harness lines) -/
def claimValidate (m : ClaimMsg) : Bool :=
  decide (0 ≤ m.nonce) && isHexAddress m.sender && isHexAddress m.token &&
    !(asciiLower m.symbol == "eth" && ethAddr m.token != some 0)

/-- `CreateOracleClaimFromEthClaim`: decimal chain id ++ decimal nonce ++ sender, no separators -/
def prophecyId (chain nonce : Int) (sender : String) : String :=
  toString chain ++ toString nonce ++ sender

def claimContent (m : ClaimMsg) : Content :=
  .eth m.receiver m.amount m.symbol ((ethAddr m.token).getD 0) m.ctype

def oerrCls : OErr → Cls
  | .notWhitelisted => .wl | .invalidValidator => .val | .invalidId => .other | .invalidClaim => .other
  | .finalized => .final | .duplicate => .dup | .notAdmin => .auth | .badOp => .other

/-- `AddPeggyToken` -/
def addPeggy (l : List String) (t : String) : List String := if l.contains t then l else l ++ [t]

/-- mint in the module, send to the receiver; `panic(err)` if the send fails -/
def mintAndSend (b : Bank) (recv : Nat) (denom : String) (n : Nat) : R Bank :=
  match mintCoin b denom n with
  | .error f => .error f
  | .ok b1 =>
    match sendFromModule b1 recv denom n with
    | .error _ => .error .panic
    | .ok b2 => .ok b2

/-- `ProcessSuccessfulClaim` -/
def processSuccessfulClaim (s : BState) (final : Content) : R BState :=
  match final with
  | .empty => .error (.err .other)
  | .eth recv amount symbol _ ctype =>
    if ctype = 2 then
      let denom := peggedPrefix ++ symbol
      if !validDenom denom || decide (amount < 0) then .error .panic
      else match mintAndSend s.bank recv denom amount.toNat with
        | .error f => .error f
        | .ok b => .ok { s with bank := b, peggy := addPeggy s.peggy denom }
    else if ctype = 1 then
      if !validDenom symbol || decide (amount < 0) then .error .panic
      else match mintAndSend s.bank recv symbol amount.toNat with
        | .error f => .error f
        | .ok b => .ok { s with bank := b }
    else .error (.err .ctype)

/-- `CreateOracleClaimFromEthClaim` -/
def claimOf (m : ClaimMsg) : Claim := ⟨prophecyId m.chain m.nonce m.sender, m.validator, claimContent m, m.vspelling⟩

/-- `msgServer.CreateEthBridgeClaim` -/
def createClaim (ord : List Group → List Group) (vals : List Validator) (s : BState) (m : ClaimMsg) : R (BState × StatusText) :=
  match processClaim ord vals s.oracle (claimOf m) with
  | .error e => .error (.err (oerrCls e))
  | .ok (o, status, final) =>
    if status = .success then
      match processSuccessfulClaim { s with oracle := o } final with
      | .error f => .error f
      | .ok s2 => .ok (s2, status)
    else .ok ({ s with oracle := o }, status)

/-! ### Lock / Burn -/

structure PegMsg where
  sender : Nat
  chain : Int
  receiver : String
  amount : Int
  symbol : String
  ceth : Int
  deriving Repr

/-- the lock / burn event the relayer consumes (the account sequence attribute is outside the model) -/
structure Event where
  kind : String       -- "lock" | "burn"
  chain : Int
  sender : Nat
  receiver : String
  amount : Int
  symbol : String
  ceth : Int
  deriving DecidableEq, Repr

/-- `MsgLock.ValidateBasic` -/
def lockValidate (m : PegMsg) : Bool :=
  isHexAddress m.receiver && decide (0 < m.amount) && decide ((BridgeConsts.lockGasCost : Int) ≤ m.ceth) && decide (0 < m.symbol.length)

/-- `MsgBurn.ValidateBasic` -/
def burnValidate (m : PegMsg) : Bool :=
  decide (m.chain ≠ 0) && isHexAddress m.receiver && decide (0 < m.amount) &&
    decide (peggedPrefix.length + 1 < m.symbol.length) && peggedPrefix.toList.isPrefixOf m.symbol.toList &&
    decide ((BridgeConsts.burnGasCost : Int) ≤ m.ceth)

/-- `IsBlacklisted` -/
def isBlacklisted (s : BState) (addr : String) : Bool := s.blacklist.contains (blKey addr)

/-- the coin movements shared by `ProcessLock` and `ProcessBurn` once the receiver is not blacklisted.
    `burnCethSpecial` is the extra branch of `ProcessBurn` for `Symbol == ceth` with no fee receiver. -/
def pegMove (s : BState) (m : PegMsg) (burnCethSpecial : Bool) : R Bank :=
  let amount := m.amount.toNat
  let ceth := m.ceth.toNat
  match s.cethReceiver with
  | some r =>
    -- fee to the receiver account, then the token to the module, then burn
    match sendCoin s.bank m.sender r cethSymbol ceth with
    | .error f => .error f
    | .ok b1 =>
      if !validDenom m.symbol then .error .panic
      else match sendCoin b1 m.sender moduleAcct m.symbol amount with
        | .error f => .error f
        | .ok b2 => burnCoin b2 m.symbol amount
  | none =>
    if !validDenom m.symbol then .error .panic
    else if m.symbol = cethSymbol then
      if burnCethSpecial then
        -- one coin of cethAmount + amount
        if ceth + amount ≥ two256 then .error .panic
        else match sendCoin s.bank m.sender moduleAcct cethSymbol (ceth + amount) with
          | .error f => .error f
          | .ok b1 => burnCoin b1 cethSymbol amount
      else .error .panic      -- NewCoins: duplicate denomination
    else
      -- NewCoins sorts by denomination; subUnlockedCoins walks the coins in that order
      let first := if m.symbol < cethSymbol then (m.symbol, amount) else (cethSymbol, ceth)
      let second := if m.symbol < cethSymbol then (cethSymbol, ceth) else (m.symbol, amount)
      match sendCoin s.bank m.sender moduleAcct first.1 first.2 with
      | .error f => .error f
      | .ok b1 =>
        match sendCoin b1 m.sender moduleAcct second.1 second.2 with
        | .error f => .error f
        | .ok b2 => burnCoin b2 m.symbol amount

def pegEvent (kind : String) (m : PegMsg) : Event := ⟨kind, m.chain, m.sender, m.receiver, m.amount, m.symbol, m.ceth⟩

/-- `msgServer.Lock` + `ProcessLock` -/
def lock (s : BState) (m : PegMsg) : R (BState × Event) :=
  if s.paused then .error (.err .paused)
  else if s.peggy.contains m.symbol then .error (.err .pegged)
  else if !s.bank.acc m.sender then .error (.err .other)
  else if isBlacklisted s m.receiver then .error (.err .ethaddr)
  else match pegMove s m false with
    | .error f => .error f
    | .ok b => .ok ({ s with bank := b }, pegEvent "lock" m)

/-- `msgServer.Burn` + `ProcessBurn` -/
def burn (s : BState) (m : PegMsg) : R (BState × Event) :=
  if s.paused then .error (.err .paused)
  else if !s.peggy.contains m.symbol then .error (.err .native)
  else if !s.bank.acc m.sender then .error (.err .other)
  else if isBlacklisted s m.receiver then .error (.err .ethaddr)
  else match pegMove s m true with
    | .error f => .error f
    | .ok b => .ok ({ s with bank := b }, pegEvent "burn" m)

/-! ### administrative messages -/

/-- `msgServer.SetPause` -/
def setPause (s : BState) (signer : Nat) (p : Bool) : R BState :=
  if !s.bridgeAdmins.contains signer then .error (.err .auth) else .ok { s with paused := p }

/-- `Keeper.SetBlacklist`: stored keys not in the message are deleted, then every address of the message is
    stored: the stored set becomes the set of the message's addresses -/
def setBlacklist (s : BState) (signer : Nat) (addrs : List String) : R BState :=
  if !s.bridgeAdmins.contains signer then .error (.err .auth)
  else .ok { s with blacklist := (addrs.map blKey).eraseDups }

/-- `msgServer.UpdateCethReceiverAccount` -/
def setCethReceiver (s : BState) (signer : Nat) (a : Nat) : R BState :=
  if !s.bank.acc signer then .error (.err .other)
  else if s.oracle.admin != some signer then .error (.err .auth)
  else .ok { s with cethReceiver := some a }

/-- `msgServer.RescueCeth` -/
def rescueCeth (s : BState) (signer : Nat) (recv : Nat) (amount : Int) : R BState :=
  if !s.bank.acc signer then .error (.err .other)
  else if s.oracle.admin != some signer then .error (.err .auth)
  else if amount < 0 then .error .panic
  else match sendFromModule s.bank recv cethSymbol amount.toNat with
    | .error f => .error f
    | .ok b => .ok { s with bank := b }

/-- `msgServer.UpdateWhiteListValidator` -/
def updateWhiteList (s : BState) (signer : Nat) (op : String) (v : Nat) : R BState :=
  if !s.bank.acc signer then .error (.err .other)
  else match Oracle.updateWhiteList s.oracle signer v op with
    | .error e => .error (.err (oerrCls e))
    | .ok o => .ok { s with oracle := o }

/-! ### messages, the transaction wrapper, histories -/

inductive Msg where
  | claim (m : ClaimMsg)
  | lock (m : PegMsg)
  | burn (m : PegMsg)
  | pause (signer : Nat) (p : Bool)
  | blacklist (signer : Nat) (addrs : List String)
  | cethReceiver (signer : Nat) (a : Nat)
  | rescue (signer : Nat) (recv : Nat) (amount : Int)
  | whitelist (signer : Nat) (op : String) (v : Nat)

/-- what a delivered message reports -/
inductive Out where
  | claimed (status : StatusText)
  | event (e : Event)            -- exactly one lock / burn event
  | done
  | failed (f : Fail)
  deriving DecidableEq, Repr

def validateBasic : Msg → Bool
  | .claim m => claimValidate m
  | .lock m => lockValidate m
  | .burn m => burnValidate m
  | _ => true

/-- the handler proper -/
def handle (ord : List Group → List Group) (vals : List Validator) (s : BState) : Msg → R (BState × Out)
  | .claim m => (createClaim ord vals s m).map (fun r => (r.1, .claimed r.2))
  | .lock m => (lock s m).map (fun r => (r.1, .event r.2))
  | .burn m => (burn s m).map (fun r => (r.1, .event r.2))
  | .pause a p => (setPause s a p).map (fun r => (r, .done))
  | .blacklist a l => (setBlacklist s a l).map (fun r => (r, .done))
  | .cethReceiver a r => (setCethReceiver s a r).map (fun r => (r, .done))
  | .rescue a r n => (rescueCeth s a r n).map (fun r => (r, .done))
  | .whitelist a op v => (updateWhiteList s a op v).map (fun r => (r, .done))

/-- DeliverTx: ValidateBasic, then the handler; a refused or panicking message changes nothing -/
def deliver (ord : List Group → List Group) (vals : List Validator) (s : BState) (m : Msg) : BState × Out :=
  if !validateBasic m then (s, .failed (.err .validate))
  else match handle ord vals s m with
    | .ok r => r
    | .error f => (s, .failed f)

/-- the messages of one transaction after the first, on the evolving copy; the first error or panic aborts -/
def handleAll (ord : List Group → List Group) (vals : List Validator) : BState → List Msg → R (BState × List Out)
  | s, [] => .ok (s, [])
  | s, m :: ms =>
    match handle ord vals s m with
    | .error f => .error f
    | .ok (s1, o) =>
      match handleAll ord vals s1 ms with
      | .error f => .error f
      | .ok (s2, os) => .ok (s2, o :: os)

/-- DeliverTx of a transaction with several messages (baseapp.runTx): ValidateBasic of every message first, then
    the handlers in order on ONE copy of the state, which is kept only if every message succeeded — a later message
    that fails discards the writes of the earlier ones. -/
def deliverTx (ord : List Group → List Group) (vals : List Validator) (s : BState) (ms : List Msg) : BState × List Out :=
  if !ms.all validateBasic then (s, [.failed (.err .validate)])
  else match handleAll ord vals s ms with
    | .ok r => r
    | .error f => (s, [.failed f])

/-- ethbridge `InitGenesis` for a genesis that lists peggy tokens (in whatever order they arrived on the exporting
    chain): every entry goes through `AddPeggyToken`; the pause flag of a genesis without one is `false` -/
def initGenesisPeggy (s : BState) (l : List String) : BState :=
  { s with peggy := l.foldl addPeggy s.peggy, paused := false }

/-! ### histories -/

/-- one step of a history: the staking module changes the validator set (environment), or a message is delivered -/
inductive Step where
  | setVals (vals : List Validator)
  /-- the chain is restarted from its exported genesis: oracle and ethbridge `ExportGenesis`, JSON, `InitGenesis` on
      fresh stores, bank and staking carried over.  Export/import carries the whole bridge state (whitelist, admin,
      every prophecy with both claim maps, peggy list, pause, fee receiver, blacklist): the step is the identity on the
      model state.  That the real export/import is faithful is tied by the correspondence (`chk carry`). -/
  | restart
  /-- `n` blocks pass: the EndBlock hooks of the oracle and ethbridge modules run at the current height, the height
      advances by `n`, their BeginBlock hooks run.  All four hooks are empty (regenerated fact `blockHooks`), and no
      handler reads the height or the block time: the step is the identity on the model state, however far it jumps. -/
  | blocks (n : Nat)
  | msg (m : Msg)

structure World where
  vals : List Validator
  s : BState

def stepWorld (ord : List Group → List Group) (w : World) : Step → World
  | .setVals v => { w with vals := v }
  | .restart => w
  | .blocks _ => w
  | .msg m => { w with s := (deliver ord w.vals w.s m).1 }

def run (ord : List Group → List Group) (w : World) (steps : List Step) : World := steps.foldl (stepWorld ord) w

end Sif.EthBridge
